(* C05 round trip, token level: the walker operations of Model/Parser.v on the token spellings the printer of
   Spec/Printer.v emits, followed by the printer's separators.
   - `W c r` is the walker at byte offset c whose remaining text is r and whose limit is the end of the text;
   - `Lex p rest k` : the lexer reads the spelling p in front of rest as ONE token of kind k (not ignorable);
   - `tok_*` : what maybe_expect / next_useful_is / at_linebreak / next_linebreak answer in front of an optional
     single blank followed by such a token;
   - `Follow bad r` : the text r after a printed operand is empty or starts (after an optional blank) with a token
     whose kind is not in `bad`, and its first character cannot extend an identifier/number. *)
From Coq Require Import NArith List Bool Arith Lia ZifyBool.
From CA Require Import Model.Lexer Model.Parser Spec.LiteralSpec Spec.Printer Proofs.LiteralP.
Import ListNotations.
Open Scope N_scope.

Definition W (c : N) (r : text) : walker := {| tail := r; cur := c; lim := c + bytes_len r |}.

Lemma utf8_len_pos c : 1 <= utf8_len c.
Proof. unfold utf8_len. repeat destruct (_ <? _); lia. Qed.

Lemma bytes_len_app a b : bytes_len (a ++ b) = bytes_len a + bytes_len b.
Proof. induction a as [|x a IH]; cbn [app bytes_len]; [reflexivity|]. rewrite IH. lia. Qed.

Lemma take_bytes_app p r : take_bytes (bytes_len p) (p ++ r) = p.
Proof.
  induction p as [|x p IH]; cbn [app bytes_len].
  - destruct r; reflexivity.
  - cbn [take_bytes]. pose proof (utf8_len_pos x).
    destruct (N.eqb_spec (utf8_len x + bytes_len p) 0); [lia|].
    replace (utf8_len x + bytes_len p - utf8_len x) with (bytes_len p) by lia. rewrite IH. reflexivity.
Qed.
Lemma take_bytes_all t : take_bytes (bytes_len t) t = t.
Proof. rewrite <- (app_nil_r t) at 2. apply take_bytes_app. Qed.

Lemma drop_bytes_app p r : drop_bytes (bytes_len p) (p ++ r) = r.
Proof.
  induction p as [|x p IH]; cbn [app bytes_len].
  - destruct r; reflexivity.
  - cbn [drop_bytes]. pose proof (utf8_len_pos x).
    destruct (N.eqb_spec (utf8_len x + bytes_len p) 0); [lia|].
    replace (utf8_len x + bytes_len p - utf8_len x) with (bytes_len p) by lia. exact IH.
Qed.

Lemma visible_W c r : visible (W c r) = r.
Proof. unfold visible, W; cbn [tail cur lim]. replace (c + bytes_len r - c) with (bytes_len r) by lia. apply take_bytes_all. Qed.

Lemma advance_W c p r n c' : n = bytes_len p -> c' = c + n -> advance (W c (p ++ r)) n = W c' r.
Proof.
  intros -> ->. unfold advance, W; cbn [tail cur lim]. rewrite drop_bytes_app, bytes_len_app. f_equal. lia.
Qed.

Lemma W_eq c c' r : c = c' -> W c r = W c' r.
Proof. intros ->. reflexivity. Qed.

Lemma token_here_nil c : token_here (W c []) = (TLineBreak, 0).
Proof. unfold token_here, W; cbn [lim cur bytes_len]. rewrite N.add_0_r, N.leb_refl. reflexivity. Qed.

Lemma lim_cur_cons c x r : (lim (W c (x :: r)) <=? cur (W c (x :: r))) = false.
Proof. unfold W; cbn [lim cur bytes_len]. pose proof (utf8_len_pos x). lia. Qed.

Lemma token_here_cons c x r : token_here (W c (x :: r)) = decide_next_token (x :: r).
Proof. unfold token_here. rewrite lim_cur_cons, visible_W. reflexivity. Qed.

(* ---------- one token ---------- *)
Definition blank (b : text) : Prop := b = [] \/ b = [32].

Definition Lex (p rest : text) (k : tkind) : Prop :=
  match p with [] => False | x :: _ => is_whitespace x = false end
  /\ decide_next_token (p ++ rest) = (k, bytes_len p) /\ is_ignorable k = false.

Lemma not_ign_not_lb k : is_ignorable k = false -> tkind_eqb k TLineBreak = false.
Proof. destruct k; cbn; congruence. Qed.

Lemma tkind_eqb_refl k : tkind_eqb k k = true.
Proof. destruct k; reflexivity. Qed.
Lemma tkind_eqb_eq a b : tkind_eqb a b = true -> a = b.
Proof. destruct a, b; cbn; congruence. Qed.

Lemma nu_lex0 c p rest k : Lex p rest k ->
  next_useful (fuel_of (W c (p ++ rest))) (W c (p ++ rest)) = (W c (p ++ rest), (k, bytes_len p)).
Proof.
  intros (Hp & Ht & Hi). destruct p as [|x p]; [contradiction|].
  unfold fuel_of. cbn [next_useful]. cbn [app] in *. rewrite token_here_cons, Ht, lim_cur_cons, Hi. reflexivity.
Qed.

Lemma token_blank c x r : is_whitespace x = false -> token_here (W c (32 :: x :: r)) = (TWhitespace, 1).
Proof.
  intros Hx. rewrite token_here_cons. unfold decide_next_token, check_whitespace.
  cbn [span_while]. change (is_whitespace 32) with true. cbv iota. rewrite Hx. reflexivity.
Qed.

Lemma nu_lex c b p rest k : blank b -> Lex p rest k ->
  next_useful (fuel_of (W c (b ++ p ++ rest))) (W c (b ++ p ++ rest)) = (W (c + bytes_len b) (p ++ rest), (k, bytes_len p)).
Proof.
  intros [-> | ->] HL.
  - cbn [app bytes_len]. rewrite N.add_0_r. apply nu_lex0, HL.
  - pose proof HL as (Hp & Ht & Hi). destruct p as [|x p]; [contradiction|].
    change (fuel_of (W c ([32] ++ (x :: p) ++ rest))) with (S (fuel_of (W (c + 1) ((x :: p) ++ rest)))).
    cbn [next_useful]. cbn [app]. rewrite (token_blank c x (p ++ rest) Hp), lim_cur_cons. cbn [is_ignorable].
    change (32 :: x :: p ++ rest) with ([32] ++ (x :: p ++ rest)).
    rewrite (advance_W c [32] (x :: p ++ rest) 1 (c + 1) eq_refl eq_refl).
    change (bytes_len [32]) with 1. apply (nu_lex0 (c + 1) (x :: p) rest k HL).
Qed.

Lemma tok_maybe c b p rest k k' : blank b -> Lex p rest k ->
  maybe_expect (W c (b ++ p ++ rest)) k' =
  if tkind_eqb k' k then Some (W (c + bytes_len b + bytes_len p) rest, p) else None.
Proof.
  intros Hb HL. unfold maybe_expect. rewrite (nu_lex c b p rest k Hb HL).
  destruct (tkind_eqb k' k); [|reflexivity].
  rewrite visible_W, take_bytes_app, (advance_W (c + bytes_len b) p rest _ _ eq_refl eq_refl). reflexivity.
Qed.

Lemma tok_is c b p rest k k' : blank b -> Lex p rest k ->
  next_useful_is (W c (b ++ p ++ rest)) k' = tkind_eqb k' k.
Proof. intros Hb HL. unfold next_useful_is. rewrite (nu_lex c b p rest k Hb HL). reflexivity. Qed.

Lemma tok_expect c b p rest k : blank b -> Lex p rest k ->
  expect (W c (b ++ p ++ rest)) k = POk p (W (c + bytes_len b + bytes_len p) rest).
Proof. intros Hb HL. unfold expect. rewrite (tok_maybe c b p rest k k Hb HL), tkind_eqb_refl. reflexivity. Qed.

Lemma tok_nolb c b p rest k : blank b -> Lex p rest k ->
  next_linebreak (fuel_of (W c (b ++ p ++ rest))) (W c (b ++ p ++ rest)) = None.
Proof.
  intros Hb HL. pose proof HL as (Hp & Ht & Hi). destruct p as [|x p]; [contradiction|].
  assert (H0 : forall c, next_linebreak (fuel_of (W c ((x :: p) ++ rest))) (W c ((x :: p) ++ rest)) = None).
  { intro c0. unfold fuel_of. cbn [next_linebreak]. cbn [app] in *. rewrite token_here_cons, Ht, (not_ign_not_lb k Hi), Hi. reflexivity. }
  destruct Hb as [-> | ->]; [apply H0|].
  change (fuel_of (W c ([32] ++ (x :: p) ++ rest))) with (S (fuel_of (W (c + 1) ((x :: p) ++ rest)))).
  cbn [next_linebreak]. cbn [app]. rewrite (token_blank c x (p ++ rest) Hp). cbn [tkind_eqb is_ignorable].
  change (32 :: x :: p ++ rest) with ([32] ++ (x :: p ++ rest)).
  rewrite (advance_W c [32] (x :: p ++ rest) 1 (c + 1) eq_refl eq_refl). apply H0.
Qed.

Lemma tok_atlb c b p rest k : blank b -> Lex p rest k -> at_linebreak (W c (b ++ p ++ rest)) = false.
Proof. intros Hb HL. unfold at_linebreak. rewrite (tok_nolb c b p rest k Hb HL). reflexivity. Qed.

Lemma nil_maybe c k' : tkind_eqb k' TLineBreak = false -> maybe_expect (W c []) k' = None.
Proof.
  intros H. unfold maybe_expect, fuel_of. cbn [next_useful tail W length]. fold (W c []).
  rewrite token_here_nil. unfold W at 1 2; cbn [lim cur bytes_len]. rewrite N.add_0_r, N.leb_refl, H. reflexivity.
Qed.
Lemma nil_is c k' : tkind_eqb k' TLineBreak = false -> next_useful_is (W c []) k' = false.
Proof.
  intros H. unfold next_useful_is, fuel_of. cbn [next_useful tail W length]. fold (W c []).
  rewrite token_here_nil. unfold W at 1 2; cbn [lim cur bytes_len]. rewrite N.add_0_r, N.leb_refl, H. reflexivity.
Qed.

(* ---------- what may follow a printed operand ---------- *)
Definition sep (r : text) : Prop := match r with [] => True | x :: _ => is_ident_mid x = false end.

Definition Follow (bad : tkind -> bool) (r : text) : Prop :=
  sep r /\ ((r = [] /\ bad TLineBreak = false)
            \/ exists b p rest k, r = b ++ p ++ rest /\ blank b /\ Lex p rest k /\ bad k = false).

Lemma follow_sep bad r : Follow bad r -> sep r.
Proof. intros [H _]; exact H. Qed.

Lemma follow_weaken (bad bad' : tkind -> bool) r :
  (forall k, bad k = false -> bad' k = false) -> Follow bad r -> Follow bad' r.
Proof.
  intros Hm [Hs [[-> Hb] | (b & p & rest & k & E & Hb & HL & Hk)]]; split; auto.
  right. exists b, p, rest, k. auto.
Qed.

Lemma follow_maybe bad r c k' : Follow bad r -> bad k' = true -> maybe_expect (W c r) k' = None.
Proof.
  intros [_ [[-> Hb] | (b & p & rest & k & -> & Hb & HL & Hk)]] Hk'.
  - apply nil_maybe. destruct (tkind_eqb k' TLineBreak) eqn:E; [|reflexivity]. apply tkind_eqb_eq in E. congruence.
  - rewrite (tok_maybe c b p rest k k' Hb HL). destruct (tkind_eqb k' k) eqn:E; [|reflexivity].
    apply tkind_eqb_eq in E. congruence.
Qed.

Lemma follow_is bad r c k' : Follow bad r -> bad k' = true -> next_useful_is (W c r) k' = false.
Proof.
  intros [_ [[-> Hb] | (b & p & rest & k & -> & Hb & HL & Hk)]] Hk'.
  - apply nil_is. destruct (tkind_eqb k' TLineBreak) eqn:E; [|reflexivity]. apply tkind_eqb_eq in E. congruence.
  - rewrite (tok_is c b p rest k k' Hb HL). destruct (tkind_eqb k' k) eqn:E; [|reflexivity].
    apply tkind_eqb_eq in E. congruence.
Qed.

Lemma follow_tok bad b p rest k : blank b -> Lex p rest k -> bad k = false ->
  match b ++ p with [] => True | x :: _ => is_ident_mid x = false end -> Follow bad (b ++ p ++ rest).
Proof.
  intros Hb HL Hk Hs. split.
  - destruct HL as (Hp & _). destruct p as [|x p]; [contradiction|]. destruct Hb as [-> | ->]; cbn [app] in *; exact Hs.
  - right. exists b, p, rest, k. auto.
Qed.

(* ---------- character classes ---------- *)
Definition lstart_char (x : N) : bool :=
  is_digit x || is_ident_start x || (x =? 40) || (x =? 123) || (x =? 34) || (x =? 46) || (x =? 36).
Definition start_char (x : N) : bool := lstart_char x || (x =? 45) || (x =? 33).
Definition starts (r : text) : Prop := match r with [] => False | x :: _ => start_char x = true end.
(* the first character of an operand that is not a unary operator *)
Definition lstarts (r : text) : Prop := match r with [] => False | x :: _ => lstart_char x = true end.

Lemma check_ws_none c r : is_whitespace c = false -> check_whitespace (c :: r) = None.
Proof. intros H. unfold check_whitespace. cbn [span_while]. rewrite H. reflexivity. Qed.

Lemma check_comment_none c r : c <> 59 -> check_comment (c :: r) = None.
Proof.
  intros H. unfold check_comment. destruct c as [|p]; [reflexivity|].
  do 6 (destruct p as [p|p|]; try reflexivity). congruence.
Qed.

Lemma span_while_app (P : N -> bool) s r : forallb P s = true ->
  match r with [] => True | x :: _ => P x = false end -> span_while P (s ++ r) = (bytes_len s, r).
Proof.
  intros Hs Hr. induction s as [|x s IH]; cbn [app bytes_len].
  - destruct r as [|y r]; [reflexivity|]. cbn [span_while]. rewrite Hr. reflexivity.
  - cbn [forallb] in Hs. apply andb_prop in Hs. destruct Hs as [Hx Hs].
    cbn [span_while]. rewrite Hx, (IH Hs). reflexivity.
Qed.

(* a number: starts with a digit, continues with identifier characters *)
Lemma lex_number d s rest : is_digit d = true -> forallb is_ident_mid s = true -> sep rest ->
  Lex (d :: s) rest TNumber.
Proof.
  intros Hd Hs Hr. split; [|split; [|reflexivity]].
  - unfold is_digit, is_whitespace, in_range in *. lia.
  - unfold decide_next_token. cbn [app].
    rewrite check_ws_none by (unfold is_digit, is_whitespace, in_range in *; lia).
    rewrite check_comment_none by (unfold is_digit, in_range in *; lia).
    cbn [orelse]. unfold check_number. unfold is_number_start. rewrite Hd.
    change (d :: s ++ rest) with ((d :: s) ++ rest).
    rewrite (span_while_app is_number_mid (d :: s) rest).
    + reflexivity.
    + cbn [forallb]. unfold is_number_mid. rewrite Hs. unfold is_ident_mid. rewrite Hd. rewrite orb_true_r. reflexivity.
    + exact Hr.
Qed.

Lemma text_eqb_eq a : forall b, text_eqb a b = true -> a = b.
Proof.
  induction a as [|x a IH]; intros [|y b]; cbn [text_eqb]; try congruence.
  intro H. apply andb_prop in H. destruct H as [H1 H2]. apply N.eqb_eq in H1. rewrite (IH b H2), H1. reflexivity.
Qed.

(* an identifier-shaped word: one of the four word kinds *)
Lemma lex_word c s rest : is_ident_start c = true -> forallb is_ident_mid s = true -> sep rest ->
  Lex (c :: s) rest
    (if text_eqb (c :: s) kw_asm then TKeywordAsm else if text_eqb (c :: s) kw_true then TKeywordTrue
     else if text_eqb (c :: s) kw_false then TKeywordFalse else TIdentifier).
Proof.
  intros Hc Hs Hr. split; [|split].
  - unfold is_ident_start, is_lower, is_upper, is_whitespace, in_range in *. lia.
  - unfold decide_next_token. cbn [app].
    rewrite check_ws_none by (unfold is_ident_start, is_lower, is_upper, is_whitespace, in_range in *; lia).
    rewrite check_comment_none by (unfold is_ident_start, is_lower, is_upper, in_range in *; lia).
    cbn [orelse]. unfold check_number, is_number_start.
    replace (is_digit c) with false by (unfold is_ident_start, is_lower, is_upper, is_digit, in_range in *; lia).
    replace (c =? 36) with false by (unfold is_ident_start, is_lower, is_upper, in_range in *; lia).
    replace (c =? 37) with false by (unfold is_ident_start, is_lower, is_upper, in_range in *; lia).
    cbn [orelse]. unfold check_identifier.
    replace (c =? 36) with false by (unfold is_ident_start, is_lower, is_upper, in_range in *; lia).
    rewrite Hc. change (c :: s ++ rest) with ((c :: s) ++ rest).
    rewrite (span_while_app is_ident_mid (c :: s) rest).
    + rewrite take_bytes_app.
      destruct (text_eqb (c :: s) kw_asm); [reflexivity|].
      destruct (text_eqb (c :: s) kw_true); [reflexivity|].
      destruct (text_eqb (c :: s) kw_false); reflexivity.
    + cbn [forallb]. rewrite Hs. unfold is_ident_mid. rewrite Hc. reflexivity.
    + exact Hr.
  - destruct (text_eqb (c :: s) kw_asm); [reflexivity|].
    destruct (text_eqb (c :: s) kw_true); [reflexivity|].
    destruct (text_eqb (c :: s) kw_false); reflexivity.
Qed.

Lemma lex_name n rest : wf_name n = true -> sep rest -> Lex n rest TIdentifier.
Proof.
  unfold wf_name. intros H Hr. repeat (apply andb_prop in H; destruct H as [H ?]).
  destruct n as [|c s]; [discriminate|]. cbn [forallb] in *. apply andb_prop in H3. destruct H3 as [_ Hs].
  pose proof (lex_word c s rest H Hs Hr) as L.
  destruct (text_eqb (c :: s) kw_asm); [discriminate|].
  destruct (text_eqb (c :: s) kw_true); [discriminate|].
  destruct (text_eqb (c :: s) kw_false); [discriminate|]. exact L.
Qed.
Lemma lex_true rest : sep rest -> Lex kw_true rest TKeywordTrue.
Proof. intros Hr. exact (lex_word 116 [114; 117; 101] rest eq_refl eq_refl Hr). Qed.
Lemma lex_false rest : sep rest -> Lex kw_false rest TKeywordFalse.
Proof. intros Hr. exact (lex_word 102 [97; 108; 115; 101] rest eq_refl eq_refl Hr). Qed.

(* the `$` identifier, in front of anything that is not a hexadecimal digit *)
Lemma lex_dollar rest : sep rest -> Lex [36] rest TIdentifier.
Proof.
  intros Hr. split; [reflexivity|split; [|reflexivity]]. cbn [app]. unfold decide_next_token.
  change (check_whitespace (36 :: rest)) with (@None (tkind * N)).
  change (check_comment (36 :: rest)) with (@None (tkind * N)). cbn [orelse]. unfold check_number.
  change (is_number_start 36) with false. change (36 =? 36) with true. cbv iota.
  assert (E : span_while is_hex_mid rest = (0, rest)).
  { destruct rest as [|y rest]; [reflexivity|]. cbn [span_while sep] in *.
    replace (is_hex_mid y) with false; [reflexivity|].
    unfold is_hex_mid, is_ident_mid, is_ident_start, is_lower, is_upper, is_digit, in_range in *. lia. }
  rewrite E. reflexivity.
Qed.
Lemma lex_nameok n rest : name_ok n = true -> sep rest -> Lex n rest TIdentifier.
Proof.
  unfold name_ok. intros H Hr. apply orb_prop in H. destruct H as [H | H].
  - apply text_eqb_eq in H. subst n. apply lex_dollar, Hr.
  - apply lex_name; assumption.
Qed.
(* a string token: whatever follows *)
Lemma str_ok_shape raw : str_ok raw = true ->
  exists body, raw = 34 :: body ++ [34] /\ forallb (fun c => negb (c =? 34)) body = true.
Proof.
  unfold str_ok. destruct raw as [|q r]; [discriminate|].
  destruct (N.eq_dec q 34) as [-> | Hq].
  2:{ destruct q as [|p]; [discriminate|]. do 6 (destruct p as [p|p|]; try discriminate). congruence. }
  assert (G : forall r m rest, span_while (fun c => negb (c =? 34)) r = (m, rest) ->
            exists body, r = body ++ rest /\ forallb (fun c => negb (c =? 34)) body = true).
  { clear. induction r as [|c r IH]; intros m rest E; cbn [span_while] in E.
    - inversion E. exists []. split; reflexivity.
    - destruct (negb (c =? 34)) eqn:Ec.
      + destruct (span_while (fun c => negb (c =? 34)) r) as [m' rest'] eqn:E'. inversion E; subst.
        destruct (IH _ _ eq_refl) as (body & -> & Hb). exists (c :: body). split; [reflexivity|]. cbn [forallb]. rewrite Ec, Hb. reflexivity.
      + inversion E; subst. exists []. split; reflexivity. }
  destruct (span_while (fun c => negb (c =? 34)) r) as [m rest] eqn:E. intro H. apply text_eqb_eq in H. subst rest.
  destruct (G r m [34] E) as (body & -> & Hb). exists body. split; [reflexivity|exact Hb].
Qed.
Lemma lex_string raw rest : str_ok raw = true -> Lex raw rest TString.
Proof.
  intro H. destruct (str_ok_shape raw H) as (body & -> & Hb). split; [reflexivity|split; [|reflexivity]].
  change ((34 :: body ++ [34]) ++ rest) with (34 :: (body ++ [34]) ++ rest). rewrite <- app_assoc.
  change (decide_next_token (34 :: body ++ [34] ++ rest))
    with (match check_string (34 :: body ++ [34] ++ rest) with Some r => r | None => (TError, utf8_len 34) end).
  unfold check_string.
  rewrite (span_while_app (fun c => negb (c =? 34)) body ([34] ++ rest) Hb eq_refl). cbn [app].
  cbn [bytes_len]. rewrite bytes_len_app. cbn [bytes_len]. f_equal.
  change (utf8_len 34) with 1. lia.
Qed.
Lemma lex_dot rest : Lex [46] rest TDot.
Proof. split; [reflexivity | split; reflexivity]. Qed.

(* punctuation: fixed spellings *)
Ltac lex_fixed := intros; split; [reflexivity | split; reflexivity].
Lemma lex_popen rest : Lex [40] rest TParenOpen. Proof. lex_fixed. Qed.
Lemma lex_pclose rest : Lex [41] rest TParenClose. Proof. lex_fixed. Qed.
Lemma lex_bopen rest : Lex [91] rest TBracketOpen. Proof. lex_fixed. Qed.
Lemma lex_bclose rest : Lex [93] rest TBracketClose. Proof. lex_fixed. Qed.
Lemma lex_copen rest : Lex [123] rest TBraceOpen. Proof. lex_fixed. Qed.
Lemma lex_cclose rest : Lex [125] rest TBraceClose. Proof. lex_fixed. Qed.
Lemma lex_comma rest : Lex [44] rest TComma. Proof. lex_fixed. Qed.
Lemma lex_grave rest : Lex [96] rest TGrave. Proof. lex_fixed. Qed.
Lemma lex_question rest : Lex [63] (32 :: rest) TQuestion. Proof. lex_fixed. Qed.
Lemma lex_equal rest : Lex [61] (32 :: rest) TEqual. Proof. lex_fixed. Qed.
Lemma lex_colon_b rest : Lex [58] (32 :: rest) TColon. Proof. lex_fixed. Qed.

(* every binary operator of the parser's table, followed by a blank *)
Lemma lex_binop k o rest : In (k, o) (concat level_ops) -> Lex (binop_text o) (32 :: rest) k.
Proof.
  cbn [concat level_ops app]. intros H.
  repeat (destruct H as [H | H]; [inversion H; subst; lex_fixed|]). contradiction.
Qed.

(* `:` `-` `!` directly followed by the first character of an operand *)
Lemma start_char_cases x : start_char x = true -> x <> 58 /\ x <> 62 /\ x <> 61.
Proof. unfold start_char, lstart_char, is_digit, is_ident_start, is_lower, is_upper, in_range. lia. Qed.

Lemma lex_colon x rest : x <> 58 -> Lex [58] (x :: rest) TColon.
Proof.
  intros H. split; [reflexivity | split; [|reflexivity]]. cbn [app bytes_len].
  destruct x as [|p]; [reflexivity|]. do 6 (destruct p as [p|p|]; try reflexivity). congruence.
Qed.
Lemma lex_minus x rest : x <> 62 -> Lex [45] (x :: rest) TMinus.
Proof.
  intros H. split; [reflexivity | split; [|reflexivity]]. cbn [app bytes_len].
  destruct x as [|p]; [reflexivity|]. do 6 (destruct p as [p|p|]; try reflexivity). congruence.
Qed.
Lemma lex_excl x rest : x <> 61 -> Lex [33] (x :: rest) TExclamation.
Proof.
  intros H. split; [reflexivity | split; [|reflexivity]]. cbn [app bytes_len].
  destruct x as [|p]; [reflexivity|]. do 6 (destruct p as [p|p|]; try reflexivity). congruence.
Qed.

(* the first token of an operand that does not begin with a unary operator: its kind, whatever follows *)
Definition leaf_kind (k : tkind) : bool :=
  match k with TNumber | TIdentifier | TKeywordAsm | TKeywordTrue | TKeywordFalse | TParenOpen | TBraceOpen
             | TString | TError | TDot => true | _ => false end.

Lemma kind_dot t : decide_next_token (46 :: t) = (TDot, 1).
Proof. reflexivity. Qed.
Lemma kind_quote t : leaf_kind (fst (decide_next_token (34 :: t))) = true.
Proof.
  change (decide_next_token (34 :: t)) with (match check_string (34 :: t) with Some r => r | None => (TError, utf8_len 34) end).
  destruct (check_string (34 :: t)) as [[k n]|] eqn:E; [|reflexivity]. unfold check_string in E.
  destruct (span_while (fun c => negb (c =? 34)) t) as [m rest]. destruct rest as [|y rest]; [discriminate|].
  destruct y as [|q]; [discriminate|]. do 6 (destruct q as [q|q|]; try discriminate). inversion E. reflexivity.
Qed.
Lemma kind_dollar t : leaf_kind (fst (decide_next_token (36 :: t))) = true.
Proof.
  unfold decide_next_token. change (check_whitespace (36 :: t)) with (@None (tkind * N)).
  change (check_comment (36 :: t)) with (@None (tkind * N)). cbn [orelse]. unfold check_number.
  change (is_number_start 36) with false. change (36 =? 36) with true. cbv iota.
  destruct (span_while is_hex_mid t) as [[|n] r]; reflexivity.
Qed.

Lemma lstart_kind x t : lstart_char x = true ->
  is_whitespace x = false /\ leaf_kind (fst (decide_next_token (x :: t))) = true.
Proof.
  intros H. split; [unfold lstart_char, is_digit, is_ident_start, is_lower, is_upper, is_whitespace, in_range in *; lia|].
  destruct (N.eq_dec x 34) as [-> | N34]; [apply kind_quote|].
  destruct (N.eq_dec x 46) as [-> | N46]; [rewrite kind_dot; reflexivity|].
  destruct (N.eq_dec x 36) as [-> | N36]; [apply kind_dollar|].
  unfold decide_next_token.
  rewrite check_ws_none by (unfold lstart_char, is_digit, is_ident_start, is_lower, is_upper, is_whitespace, in_range in *; lia).
  rewrite check_comment_none by (unfold lstart_char, is_digit, is_ident_start, is_lower, is_upper, in_range in *; lia).
  cbn [orelse]. unfold check_number, is_number_start.
  destruct (is_digit x) eqn:Hd.
  { destruct (span_while is_number_mid (x :: t)). reflexivity. }
  replace (x =? 36) with false by lia.
  replace (x =? 37) with false by (unfold lstart_char, is_digit, is_ident_start, is_lower, is_upper, in_range in *; lia).
  cbn [orelse]. unfold check_identifier.
  replace (x =? 36) with false by lia.
  destruct (is_ident_start x) eqn:Hi.
  { destruct (span_while is_ident_mid (x :: t)) as [n r0].
    destruct (text_eqb _ kw_asm); [reflexivity|]. destruct (text_eqb _ kw_true); [reflexivity|].
    destruct (text_eqb _ kw_false); reflexivity. }
  cbn [orelse].
  assert (Hx : x = 40 \/ x = 123) by (unfold lstart_char in H; rewrite Hd, Hi in H; lia).
  destruct Hx as [-> | ->]; reflexivity.
Qed.

(* ---------- the next useful token when only the kind of the first token is known ---------- *)
Lemma nu_kind c b x t : blank b -> is_whitespace x = false -> is_ignorable (fst (decide_next_token (x :: t))) = false ->
  next_useful (fuel_of (W c (b ++ x :: t))) (W c (b ++ x :: t)) = (W (c + bytes_len b) (x :: t), decide_next_token (x :: t)).
Proof.
  intros Hb Hx Hi.
  assert (H0 : forall c, next_useful (fuel_of (W c (x :: t))) (W c (x :: t)) = (W c (x :: t), decide_next_token (x :: t))).
  { intro c0. unfold fuel_of. cbn [next_useful]. rewrite token_here_cons, lim_cur_cons.
    destruct (decide_next_token (x :: t)) as [k n]. cbn [fst] in Hi. rewrite Hi. reflexivity. }
  destruct Hb as [-> | ->].
  - cbn [app bytes_len]. rewrite N.add_0_r. apply H0.
  - change (fuel_of (W c ([32] ++ x :: t))) with (S (fuel_of (W (c + 1) (x :: t)))).
    cbn [next_useful]. cbn [app]. rewrite (token_blank c x t Hx), lim_cur_cons. cbn [is_ignorable].
    change (32 :: x :: t) with ([32] ++ (x :: t)).
    rewrite (advance_W c [32] (x :: t) 1 (c + 1) eq_refl eq_refl). change (bytes_len [32]) with 1. apply H0.
Qed.

Lemma kind_maybe_none c b x t k' : blank b -> is_whitespace x = false ->
  is_ignorable (fst (decide_next_token (x :: t))) = false -> tkind_eqb k' (fst (decide_next_token (x :: t))) = false ->
  maybe_expect (W c (b ++ x :: t)) k' = None.
Proof.
  intros Hb Hx Hi Hk. unfold maybe_expect. rewrite (nu_kind c b x t Hb Hx Hi).
  destruct (decide_next_token (x :: t)) as [k n]. cbn [fst] in Hk. rewrite Hk. reflexivity.
Qed.
Lemma kind_is c b x t k' : blank b -> is_whitespace x = false ->
  is_ignorable (fst (decide_next_token (x :: t))) = false ->
  next_useful_is (W c (b ++ x :: t)) k' = tkind_eqb k' (fst (decide_next_token (x :: t))).
Proof.
  intros Hb Hx Hi. unfold next_useful_is. rewrite (nu_kind c b x t Hb Hx Hi).
  destruct (decide_next_token (x :: t)) as [k n]. reflexivity.
Qed.

(* the first token of any operand is not a closing bracket *)
Definition open_kind (k : tkind) : bool :=
  match k with TNumber | TIdentifier | TKeywordAsm | TKeywordTrue | TKeywordFalse | TParenOpen | TBraceOpen
             | TString | TError | TDot
             | TMinus | TArrowRight | TExclamation | TExclamationEqual => true | _ => false end.
Lemma start_kind x t : start_char x = true ->
  is_whitespace x = false /\ open_kind (fst (decide_next_token (x :: t))) = true.
Proof.
  intros H. unfold start_char in H.
  destruct (lstart_char x) eqn:Hl.
  { destruct (lstart_kind x t Hl) as [H1 H2]. split; [exact H1|].
    destruct (fst (decide_next_token (x :: t))); try discriminate; reflexivity. }
  assert (Hx : x = 45 \/ x = 33) by (cbn [orb] in H; lia).
  destruct Hx as [-> | ->]; (split; [reflexivity|]); destruct t as [|y t]; try reflexivity;
    (destruct y as [|q]; [reflexivity|]); do 6 (destruct q as [q|q|]; try reflexivity).
Qed.
Lemma open_kind_facts k : open_kind k = true ->
  is_ignorable k = false /\ tkind_eqb TParenClose k = false /\ tkind_eqb TBraceClose k = false.
Proof. destruct k; cbn; intros; try discriminate; repeat split. Qed.
Lemma leaf_kind_facts k : leaf_kind k = true ->
  is_ignorable k = false /\ tkind_eqb TExclamation k = false /\ tkind_eqb TMinus k = false.
Proof. destruct k; cbn; intros; try discriminate; repeat split. Qed.
Lemma lstart_start x : lstart_char x = true -> start_char x = true.
Proof. intro H. unfold start_char. rewrite H. reflexivity. Qed.
