(* What a certificate says, item by item (C02): in a certified state every label equals the address at which the
   item after it lies, and every instruction's stored encoding is the unique smallest encoding among the candidates
   that resolve under this very state at the instruction's own position. *)
From Coq Require Import NArith ZArith List Bool Lia.
From CA Require Import Model.Lexer Model.Parser Model.Literal Model.BigIntOps Model.Evaluator Model.Matcher Model.Resolver
  Proofs.ResolverFixP.
Import ListNotations.
Open Scope Z_scope.

(* where the cursor stands after a node, computed from the state alone *)
Definition advance (st : state) (n : node) (pos : Z) : Z :=
  match n with
  | NLabel _ | NConst _ _ => pos
  | NInstr i _ => pos + match nth_error (s_instr st) i with Some d => size_of (i_enc d) | None => 0 end
  | NData _ elems => fold_left (fun p (de : nat * expr) => p + size_of (nth (fst de) (s_data st) (mk 0 (Some 0%N)))) elems pos
  | NRes k _ => pos + nth k (s_res st) 0
  | NAlign k _ => pos + bits_until_alignment pos (nth k (s_align st) 0)
  | NAddr k _ => let z := nth k (s_addr st) 0 in if z >=? 0 then (if z >? usize_max then 0 else z * 8) else 0
  end.
Definition cursor (ns : list node) (st : state) (pos : Z) : Z := fold_left (fun p n => advance st n p) ns pos.

Section Cert.
Variable names : list text.
Variable defs : list ruledef.

Lemma data_go_advance width : forall elems st pos acc pos',
  data_go names true width elems st pos acc = EOk (st, Resolved, pos') ->
  pos' = fold_left (fun p (de : nat * expr) => p + size_of (nth (fst de) (s_data st) (mk 0 (Some 0%N)))) elems pos.
Proof.
  induction elems as [|[d e] r IH]; intros st pos acc pos' H; cbn [data_go] in H.
  - inversion H; subst. reflexivity.
  - cbv zeta in H.
    destruct (eval code_ops (pvar names st pos (negb true)) e []) as [[v c]|]; [|discriminate].
    destruct (expect_error_or_bigint v) as [v'|]; [|discriminate].
    destruct (match v' with VInt b => EOk (Some b) | _ => if true then EErr else EOk None end) as [menc|]; [|discriminate].
    match type of H with (if negb ?c then _ else _) = _ => destruct c; cbn [negb] in H; [|discriminate] end.
    destruct menc as [b|].
    + pose proof (data_go_fix names true width _ _ _ _ _ _ H) as [Hs Hm].
      apply merge_resolved in Hm. destruct Hm as [_ Hst].
      match type of Hst with (if ?c then _ else _) = _ => destruct c eqn:E; [|discriminate] end.
      apply bigint_identical_eq in E.
      rewrite <- Hs in H. apply IH in H. rewrite H. cbn [fold_left fst]. reflexivity.
    + pose proof (data_go_fix names true width _ _ _ _ _ _ H) as [Hs Hm].
      apply merge_resolved in Hm. destruct Hm as [_ Hst]. discriminate.
Qed.

Lemma resolve_node_advance n st pos pos' :
  resolve_node names defs true n st pos = EOk (st, Resolved, pos') -> pos' = advance st n pos.
Proof.
  intro H. destruct n as [s|s e|i src|width elems|k e|k e|k e]; cbn [resolve_node advance] in *.
  - destruct (address_at pos (negb true)); [|discriminate].
    destruct (value_eqv _ _); [|discriminate]. injection H as _ Hp. now rewrite Hp.
  - destruct (eval code_ops _ e []) as [[v c]|]; [|discriminate].
    destruct (true && match v with VFailed => true | _ => false end); [discriminate|].
    destruct (value_identical _ _); [|discriminate]. injection H as _ Hp. now rewrite Hp.
  - destruct (nth_error (s_instr st) i) as [d|] eqn:Hd; [|discriminate].
    destruct (resolve_encoding defs _ (negb true) (i_matches d)) as [[b|]|]; try discriminate.
    destruct (bigint_identical (i_enc d) b) eqn:E; [|discriminate].
    apply bigint_identical_eq in E. subst b. injection H as _ Hp. rewrite <- Hp. reflexivity.
  - eapply data_go_advance; eauto.
  - destruct (eval code_ops _ e []) as [[v c]|]; [|discriminate].
    destruct (expect_error_or_bigint v) as [v'|]; [|discriminate].
    match type of H with match ?x with EErr => _ | EOk _ => _ end = _ => destruct x as [z|]; [|discriminate] end.
    destruct (z * 8 =? nth k (s_res st) 0) eqn:E; [|discriminate].
    apply Z.eqb_eq in E. injection H as _ Hp. rewrite <- Hp, E. reflexivity.
  - destruct (eval code_ops _ e []) as [[v c]|]; [|discriminate].
    match type of H with match ?x with EErr => _ | EOk _ => _ end = _ => destruct x as [z|]; [|discriminate] end.
    destruct (z =? nth k (s_align st) 0) eqn:E; cbn [negb] in H; [|discriminate].
    apply Z.eqb_eq in E. destruct (true && (z =? 0)); [discriminate|]. injection H as _ Hp. rewrite <- Hp, <- E. reflexivity.
  - destruct (eval code_ops _ e []) as [[v c]|]; [|discriminate].
    destruct (expect_error_or_bigint v) as [v'|]; [|discriminate].
    cbv zeta in H.
    match type of H with (if negb (?z =? ?p) then _ else _) = _ => destruct (z =? p) eqn:E; cbn [negb] in H; [|discriminate] end.
    apply Z.eqb_eq in E.
    match type of H with (if ?c then _ else _) = _ => destruct c; [discriminate|] end.
    match type of H with (if ?c then _ else _) = _ => destruct c; [discriminate|] end.
    injection H as _ Hp. rewrite <- Hp, <- E. reflexivity.
Qed.

(* in a certified state every node, visited at its cursor position, recomputes to the state itself *)
Lemma certified_nodes_gen all : forall ns1 n ns2 st pos,
  labels_ok all st -> (forall m, In m (ns1 ++ n :: ns2) -> In m all) ->
  pass names defs true (ns1 ++ n :: ns2) st pos Resolved = EOk (st, Resolved) ->
  exists pos', resolve_node names defs true n st (cursor ns1 st pos) = EOk (st, Resolved, pos').
Proof.
  induction ns1 as [|m ns1 IH]; intros n ns2 st pos Hl Hsub H; cbn [app pass] in H.
  - cbn [cursor fold_left].
    destruct (resolve_node names defs true n st pos) as [[[s r] p]|] eqn:E; [|discriminate].
    destruct r; cbn [merge] in H; [|exfalso; eapply pass_unresolved_sticky; eauto].
    assert (s = st) by (eapply resolve_node_fix; eauto; apply Hsub; now left). subst s. eauto.
  - destruct (resolve_node names defs true m st pos) as [[[s r] p]|] eqn:E; [|discriminate].
    destruct r; cbn [merge] in H; [|exfalso; eapply pass_unresolved_sticky; eauto].
    assert (s = st) by (eapply resolve_node_fix; eauto; apply Hsub; now left). subst s.
    pose proof (resolve_node_advance _ _ _ _ E) as Hp. subst p.
    cbn [cursor fold_left]. apply (IH n ns2 st (advance st m pos)); auto. intros x Hx. apply Hsub. now right.
Qed.

Theorem certified_node ns1 n ns2 st :
  labels_ok (ns1 ++ n :: ns2) st -> Certified names defs (ns1 ++ n :: ns2) st ->
  exists pos', resolve_node names defs true n st (cursor ns1 st 0) = EOk (st, Resolved, pos').
Proof. intros Hl Hc. eapply certified_nodes_gen with (all := ns1 ++ n :: ns2); eauto. Qed.

(* every label equals the address at which the item after it lies, and that position is on an address boundary *)
Theorem certified_label ns1 s ns2 st :
  labels_ok (ns1 ++ NLabel s :: ns2) st -> Certified names defs (ns1 ++ NLabel s :: ns2) st ->
  let pos := cursor ns1 st 0 in
  pos mod 8 = 0 /\ nth s (s_sym st) VUnknown = VInt (un (pos / 8)).
Proof.
  intros Hl Hc pos. destruct (certified_node _ _ _ _ Hl Hc) as [p H]. fold pos in H.
  cbn [resolve_node] in H. unfold address_at in H. cbn [negb] in H. rewrite andb_true_r in H.
  destruct (negb (pos mod 8 =? 0)) eqn:Ea; [discriminate|].
  apply negb_false_iff in Ea. apply Z.eqb_eq in Ea. split; [exact Ea|].
  destruct (value_eqv (VInt (un (pos / 8))) (nth s (s_sym st) VUnknown)) eqn:E; [|discriminate].
  destruct (Hl s) as [Hu|[a Ha]]; [apply in_or_app; right; now left| |].
  - rewrite Hu in E. discriminate.
  - rewrite Ha in E |- *. cbn in E. unfold bigint_eqv in E. cbn in E. apply Z.eqb_eq in E. now subst.
Qed.

(* every instruction's stored encoding is what the rules select under this state at its own position *)
Theorem certified_instruction ns1 i src ns2 st :
  labels_ok (ns1 ++ NInstr i src :: ns2) st -> Certified names defs (ns1 ++ NInstr i src :: ns2) st ->
  exists d, nth_error (s_instr st) i = Some d /\
    resolve_encoding defs (pvar names st (cursor ns1 st 0) false) false (i_matches d) = EOk (Some (i_enc d)).
Proof.
  intros Hl Hc. destruct (certified_node _ _ _ _ Hl Hc) as [p H].
  cbn [resolve_node] in H. cbn [negb] in H.
  destruct (nth_error (s_instr st) i) as [d|] eqn:Hd; [|discriminate].
  destruct (resolve_encoding defs _ false (i_matches d)) as [[b|]|] eqn:E; try discriminate.
  destruct (bigint_identical (i_enc d) b) eqn:Ei; [|discriminate].
  apply bigint_identical_eq in Ei. subst b. eauto.
Qed.
End Cert.

(* what resolve_encoding selects in the strict mode: a resolved candidate of minimal size, the only one of that size *)
Definition resolved_of (rs : list mres) : list bigint := flat_map (fun r => match r with MResolved b => [b] | _ => [] end) rs.

Lemma fold_min_le_init l : forall a, fold_left (fun a b => Z.min a (size_of b)) l a <= a.
Proof. induction l as [|y l IH]; intro a; cbn [fold_left]; [lia|]. etransitivity; [apply IH|]. lia. Qed.
Lemma fold_min_le l : forall a x, In x l -> fold_left (fun a b => Z.min a (size_of b)) l a <= size_of x.
Proof.
  induction l as [|y l IH]; intros a x Hin; [destruct Hin|].
  cbn [fold_left]. destruct Hin as [->|Hin].
  - etransitivity; [apply fold_min_le_init|]. lia.
  - apply IH. exact Hin.
Qed.

Theorem resolve_encoding_strict defs pv ms b :
  resolve_encoding defs pv false ms = EOk (Some b) ->
  exists rs, resolve_matches defs pv ms = EOk rs /\ In b (resolved_of rs) /\
    (forall b', In b' (resolved_of rs) -> size_of b <= size_of b') /\
    (filter (fun b' => size_of b' =? size_of b) (resolved_of rs) = [b]).
Proof.
  unfold resolve_encoding. destruct (resolve_matches defs pv ms) as [rs|]; [|discriminate].
  fold (resolved_of rs). destruct (resolved_of rs) as [|b0 rest] eqn:R; [discriminate|].
  cbn [negb andb]. set (smallest := fold_left (fun a b1 => Z.min a (size_of b1)) (b0 :: rest) (size_of b0)).
  set (cands := filter (fun b1 => size_of b1 =? smallest) (b0 :: rest)).
  destruct (Nat.ltb 1 (length cands)) eqn:L; [discriminate|].
  intro H. inversion H as [Hh]. clear H.
  destruct cands as [|c cs] eqn:C; [discriminate|]. cbn in Hh. inversion Hh; subst c. clear Hh.
  assert (cs = []) as -> by (destruct cs; [reflexivity|cbn in L; discriminate]).
  assert (Hin : In b (b0 :: rest) /\ size_of b = smallest).
  { assert (In b cands) by (rewrite C; now left). unfold cands in H. apply filter_In in H. destruct H as [H1 H2].
    apply Z.eqb_eq in H2. auto. }
  destruct Hin as [Hin Hs].
  exists rs. split; [reflexivity|]. rewrite R. split; [exact Hin|]. split.
  - intros b' Hb'. rewrite Hs. unfold smallest. apply fold_min_le. exact Hb'.
  - rewrite Hs. exact C.
Qed.
