(* C08 (matcher half): the prefix index of src/asm/defs/ruledef_map.rs never loses a candidate rule.
   Lemmas over Model/Lexer.v, Model/Parser.v (walker) and Model/Matcher.v.  No axioms. *)
From Coq Require Import NArith ZArith List Bool Lia ZifyBool Permutation.
Import ListNotations.
From CA Require Import Model.Lexer Model.Parser Model.Matcher.
Open Scope N_scope.

(* a character that cannot start an ignorable token (blank, tab, CR, ';', LF) and is not NUL *)
Definition key_char_ok (c : N) : bool :=
  negb (c =? 0) && negb (is_whitespace c) && negb (c =? 59) && negb (c =? 10).
Definition rule_key_ok (r : rule) : Prop := forallb key_char_ok (rule_key MAX_PREFIX (rpat r)) = true.

(* ------------------------------------------------------------------------------------------------ *)
(* small facts                                                                                        *)

Lemma text_eqb_eq : forall a b, text_eqb a b = true -> a = b.
Proof.
  induction a as [|x a IH]; destruct b as [|y b]; cbn [text_eqb]; intros H; try discriminate; [reflexivity|].
  apply andb_true_iff in H. destruct H as [H1 H2]. apply N.eqb_eq in H1. subst. f_equal. auto.
Qed.

Lemma text_eqb_refl : forall a, text_eqb a a = true.
Proof. induction a as [|x a IH]; cbn [text_eqb]; [reflexivity|]. rewrite N.eqb_refl. exact IH. Qed.

Lemma to_lower_idem : forall c, to_lower (to_lower c) = to_lower c.
Proof.
  intros c. unfold to_lower, in_range.
  destruct ((65 <=? c) && (c <=? 90)) eqn:E; [|rewrite E; reflexivity].
  destruct ((65 <=? c + 32) && (c + 32 <=? 90)) eqn:E2; [lia | reflexivity].
Qed.

Ltac split_ifs := repeat match goal with |- context [if ?b then _ else _] => destruct b eqn:? end.

Lemma to_lower_utf8_len : forall c c', to_lower c = to_lower c' -> utf8_len c = utf8_len c'.
Proof. intros c c'. unfold to_lower, in_range, utf8_len. split_ifs; lia. Qed.

Lemma utf8_len_pos : forall c, utf8_len c <> 0.
Proof. intros c. unfold utf8_len. split_ifs; lia. Qed.

Lemma key_char_ok_lower : forall ch, key_char_ok (to_lower ch) = true ->
  ch <> 0 /\ is_whitespace ch = false /\ ch <> 59 /\ ch <> 10.
Proof. intros ch. unfold key_char_ok, to_lower, in_range, is_whitespace. split_ifs; lia. Qed.

(* ------------------------------------------------------------------------------------------------ *)
(* the tokenizer: an ignorable token is non-empty and starts with blank / tab / CR / ';' / LF        *)

Ltac break_matches :=
  repeat match goal with
         | |- context [match ?x with _ => _ end] => destruct x
         end.

Lemma check_whitespace_some : forall t k n, check_whitespace t = Some (k, n) ->
  n <> 0 /\ exists ch r, t = ch :: r /\ is_whitespace ch = true.
Proof.
  intros t k n. unfold check_whitespace.
  destruct t as [|c r]; cbn [span_while]; [discriminate|].
  destruct (is_whitespace c) eqn:Ew; [|discriminate].
  destruct (span_while is_whitespace r) as [m rest].
  destruct (utf8_len c + m) eqn:E; [discriminate|].
  intros H. injection H as _ <-. split; [discriminate|]. eauto.
Qed.

Lemma check_comment_some : forall t k n, check_comment t = Some (k, n) -> n <> 0 /\ exists r, t = 59 :: r.
Proof.
  intros t k n. unfold check_comment. break_matches; intros H; try discriminate;
    injection H as _ <-;
    (split; [first [lia | match goal with |- match ?x with _ => _ end <> 0 => destruct x; discriminate end] | eauto]).
Qed.

Lemma check_number_some : forall t k n, check_number t = Some (k, n) -> k = TNumber.
Proof.
  intros t k n. unfold check_number. break_matches; intros H; try discriminate; injection H as <- _; reflexivity.
Qed.

Lemma check_identifier_some : forall t k n, check_identifier t = Some (k, n) -> is_ignorable k = false.
Proof.
  intros t k n. unfold check_identifier. break_matches; intros H; try discriminate; injection H as <- _; reflexivity.
Qed.

Lemma check_string_some : forall t k n, check_string t = Some (k, n) -> k = TString.
Proof.
  intros t k n. unfold check_string. break_matches; intros H; try discriminate; injection H as <- _; reflexivity.
Qed.

Lemma check_special_in_some : forall tbl t k n, check_special_in tbl t = Some (k, n) ->
  exists p, In (p, k) tbl /\ starts_with p t = true /\ n = bytes_len p.
Proof.
  induction tbl as [|[p k0] rest IH]; intros t k n; cbn [check_special_in]; [discriminate|].
  destruct (starts_with p t) eqn:Es.
  - intros H. injection H as <- <-. exists p. split; [left; reflexivity | split; [exact Es | reflexivity]].
  - intros H. destruct (IH _ _ _ H) as [q [Hin Hq]]. exists q. split; [right; exact Hin | exact Hq].
Qed.

(* side condition checked on the concrete table: the only ignorable kind in it is LineBreak = "\n" *)
Lemma specials_ignorable : forall p k, In (p, k) specials -> is_ignorable k = true -> p = [10].
Proof.
  assert (H : forallb (fun pk : text * tkind => negb (is_ignorable (snd pk)) || text_eqb (fst pk) [10]) specials = true)
    by (vm_compute; reflexivity).
  intros p k Hin Hk. rewrite forallb_forall in H. specialize (H _ Hin). cbn [fst snd] in H.
  rewrite Hk in H. cbn [negb orb] in H. apply text_eqb_eq. exact H.
Qed.

Lemma decide_ignorable : forall t k n, decide_next_token t = (k, n) -> is_ignorable k = true ->
  n <> 0 /\ exists ch r, t = ch :: r /\ (is_whitespace ch = true \/ ch = 59 \/ ch = 10).
Proof.
  intros t k n. unfold decide_next_token, orelse.
  destruct (check_whitespace t) as [[k1 n1]|] eqn:E1.
  { intros H _. injection H as <- <-. destruct (check_whitespace_some _ _ _ E1) as [Hn [ch [r [-> Hw]]]].
    split; [exact Hn|]. exists ch, r. auto. }
  destruct (check_comment t) as [[k2 n2]|] eqn:E2.
  { intros H _. injection H as <- <-. destruct (check_comment_some _ _ _ E2) as [Hn [r ->]].
    split; [exact Hn|]. exists 59, r. auto. }
  destruct (check_number t) as [[k3 n3]|] eqn:E3.
  { intros H Hi. injection H as <- <-. rewrite (check_number_some _ _ _ E3) in Hi. discriminate. }
  destruct (check_identifier t) as [[k4 n4]|] eqn:E4.
  { intros H Hi. injection H as <- <-. rewrite (check_identifier_some _ _ _ E4) in Hi. discriminate. }
  destruct (check_special_in specials t) as [[k5 n5]|] eqn:E5.
  { intros H Hi. injection H as <- <-. destruct (check_special_in_some _ _ _ _ E5) as [p [Hin [Hs ->]]].
    rewrite (specials_ignorable _ _ Hin Hi) in *. split; [discriminate|].
    destruct t as [|c r]; cbn [starts_with] in Hs; [discriminate|].
    apply andb_true_iff in Hs. destruct Hs as [Hs _]. apply N.eqb_eq in Hs. subst c. exists 10, r. auto. }
  destruct (check_string t) as [[k6 n6]|] eqn:E6.
  { intros H Hi. injection H as <- <-. rewrite (check_string_some _ _ _ E6) in Hi. discriminate. }
  intros H Hi. injection H as <- _. discriminate.
Qed.

(* ------------------------------------------------------------------------------------------------ *)
(* (A)1  skip_ignorable is the walker half of next_useful                                             *)

Lemma skip_is_next_useful : forall f w, skip_ignorable f w = fst (next_useful f w).
Proof.
  induction f as [|f IH]; intros w; cbn [skip_ignorable next_useful]; [reflexivity|].
  unfold is_over. destruct (token_here w) as [k n]. destruct (lim w <=? cur w); [reflexivity|].
  destruct (is_ignorable k); [apply IH | reflexivity].
Qed.

Lemma next_useful_index_skip : forall w, next_useful_index w = skip_ignorable (fuel_of w) w.
Proof. intros w. unfold next_useful_index. symmetry. apply skip_is_next_useful. Qed.

Lemma visible_cons_not_over : forall w ch r, visible w = ch :: r -> is_over w = false.
Proof.
  intros w ch r. unfold visible, is_over. destruct (lim w <=? cur w) eqn:E; [|reflexivity].
  replace (lim w - cur w) with 0 by lia. destruct (tail w); cbn; discriminate.
Qed.

(* (A)2  a character that is not blank, tab, CR, ';', LF starts a token that is not skipped *)
Lemma nonignorable_head : forall f w ch r, visible w = ch :: r -> key_char_ok (to_lower ch) = true ->
  skip_ignorable f w = w.
Proof.
  intros f w ch r Hv Hk. destruct f as [|f]; [reflexivity|]. cbn [skip_ignorable].
  pose proof (visible_cons_not_over _ _ _ Hv) as Ho. rewrite Ho.
  unfold token_here. unfold is_over in Ho. rewrite Ho.
  destruct (decide_next_token (visible w)) as [k n] eqn:E.
  destruct (is_ignorable k) eqn:Ei; [|reflexivity]. exfalso.
  destruct (decide_ignorable _ _ _ E Ei) as [_ [c [r' [Ht Hc]]]].
  rewrite Hv in Ht. injection Ht as <- _.
  destruct (key_char_ok_lower _ Hk) as [_ [H1 [H2 H3]]].
  destruct Hc as [Hc|[Hc|Hc]]; congruence.
Qed.

(* ------------------------------------------------------------------------------------------------ *)
(* unfolding equations of the matcher (all by computation)                                            *)

Lemma mwr_O : forall defs r pat w needs sf, match_with_rule 0 defs r pat w needs sf = [].
Proof. reflexivity. Qed.
Lemma mwr_exact : forall f defs r c rest w needs sf,
  match_with_rule (S f) defs r (PExact c :: rest) w needs sf =
  match maybe_expect_char w c with Some w' => match_with_rule f defs r rest w' needs sf | None => [] end.
Proof. reflexivity. Qed.
Lemma mwr_glued : forall f defs r c rest w needs sf,
  match_with_rule (S f) defs r (PGlued c :: rest) w needs sf =
  match maybe_expect_char_glued w c with Some w' => match_with_rule f defs r rest w' needs sf | None => [] end.
Proof. reflexivity. Qed.

Lemma maybe_expect_char_inv : forall w c w', maybe_expect_char w c = Some w' ->
  exists ch v, visible (skip_ignorable (fuel_of w) w) = ch :: v /\ to_lower ch = to_lower c /\
               w' = advance (skip_ignorable (fuel_of w) w) (utf8_len ch).
Proof.
  intros w c w'. unfold maybe_expect_char. rewrite next_useful_index_skip.
  destruct (visible (skip_ignorable (fuel_of w) w)) as [|ch v]; [discriminate|].
  unfold eq_ignore_case. destruct (to_lower ch =? to_lower c) eqn:E; [|discriminate].
  intros H. injection H as <-. apply N.eqb_eq in E. eauto.
Qed.

Lemma maybe_expect_char_glued_inv : forall w c w', maybe_expect_char_glued w c = Some w' ->
  exists ch v, visible w = ch :: v /\ to_lower ch = to_lower c /\ w' = advance w (utf8_len ch).
Proof.
  intros w c w'. unfold maybe_expect_char_glued.
  destruct (visible w) as [|ch v]; [discriminate|].
  unfold eq_ignore_case. destruct (to_lower ch =? to_lower c) eqn:E; [|discriminate].
  intros H. injection H as <-. apply N.eqb_eq in E. eauto.
Qed.

Lemma key_ok_nonzero : forall ch c, to_lower ch = to_lower c -> key_char_ok (to_lower c) = true -> (ch =? 0) = false.
Proof. intros ch c. unfold key_char_ok, to_lower, in_range, is_whitespace. split_ifs; lia. Qed.

(* (A)3  the rule's key is a prefix of the instruction's key *)
Lemma prefix_complete_key : forall fuel defs r pat w needs sf k,
  match_with_rule fuel defs r pat w needs sf <> [] ->
  forallb key_char_ok (rule_key k pat) = true ->
  rule_key k pat = firstn_text (length (rule_key k pat)) (instr_key k w).
Proof.
  intros fuel defs r pat w needs sf k. revert fuel pat w sf.
  induction k as [|k IH]; intros fuel pat w sf Hm Hok; [reflexivity|].
  destruct pat as [|[|c|c|i] rest]; try reflexivity.
  - (* Exact: the next useful character *)
    destruct fuel as [|f]; [exfalso; apply Hm; reflexivity|].
    rewrite mwr_exact in Hm.
    destruct (maybe_expect_char w c) as [w'|] eqn:E; [|exfalso; apply Hm; reflexivity].
    destruct (maybe_expect_char_inv _ _ _ E) as [ch [v [Hv [Hc ->]]]].
    cbn [rule_key forallb] in Hok |- *. apply andb_true_iff in Hok. destruct Hok as [Hc0 Hok].
    cbn [length instr_key]. rewrite Hv. rewrite (key_ok_nonzero _ _ Hc Hc0).
    cbn [firstn_text]. rewrite Hc. f_equal.
    eapply IH; eassumption.
  - (* Glued: the very next character; nothing is skipped in front of it *)
    destruct fuel as [|f]; [exfalso; apply Hm; reflexivity|].
    rewrite mwr_glued in Hm.
    destruct (maybe_expect_char_glued w c) as [w'|] eqn:E; [|exfalso; apply Hm; reflexivity].
    destruct (maybe_expect_char_glued_inv _ _ _ E) as [ch [v [Hv [Hc ->]]]].
    cbn [rule_key forallb] in Hok |- *. apply andb_true_iff in Hok. destruct Hok as [Hc0 Hok].
    cbn [length instr_key].
    assert (Hs : skip_ignorable (fuel_of w) w = w).
    { eapply nonignorable_head; [exact Hv|]. rewrite Hc. exact Hc0. }
    rewrite Hs, Hv. rewrite (key_ok_nonzero _ _ Hc Hc0).
    cbn [firstn_text]. rewrite Hc. f_equal.
    eapply IH; eassumption.
Qed.

(* ------------------------------------------------------------------------------------------------ *)
(* the entries of the map                                                                             *)

Definition gr_entries (i : nat) : list rule -> nat -> list (nat * nat * text) :=
  fix gr (rs : list rule) (j : nat) : list (nat * nat * text) :=
    match rs with [] => [] | x :: rest => (i, j, rule_key MAX_PREFIX (rpat x)) :: gr rest (S j) end.
Definition go_entries : list ruledef -> nat -> list (nat * nat * text) :=
  fix go (ds : list ruledef) (i : nat) : list (nat * nat * text) :=
    match ds with
    | [] => []
    | d :: r => (if rd_sub d then [] else gr_entries i (rd_rules d) O) ++ go r (S i)
    end.
Lemma map_entries_eq : forall defs, map_entries defs = go_entries defs O.
Proof. reflexivity. Qed.

Lemma gr_entries_cons : forall i x rest j,
  gr_entries i (x :: rest) j = (i, j, rule_key MAX_PREFIX (rpat x)) :: gr_entries i rest (S j).
Proof. reflexivity. Qed.
Lemma go_entries_cons : forall d r i,
  go_entries (d :: r) i = (if rd_sub d then [] else gr_entries i (rd_rules d) O) ++ go_entries r (S i).
Proof. reflexivity. Qed.

Lemma In_gr : forall i rs j0 a b key, In (a, b, key) (gr_entries i rs j0) <->
  a = i /\ exists j r, b = (j0 + j)%nat /\ nth_error rs j = Some r /\ key = rule_key MAX_PREFIX (rpat r).
Proof.
  intros i rs. induction rs as [|x rest IH]; intros j0 a b key.
  - cbn. split; [intros []|]. intros [_ [j [r [_ [H _]]]]]. destruct j; discriminate.
  - rewrite gr_entries_cons. cbn [In]. rewrite IH. split.
    + intros [H|[Ha [j [r [Hb [Hn Hk]]]]]].
      * injection H as <- <- <-. split; [reflexivity|]. exists O, x. split; [lia|]. split; reflexivity.
      * split; [exact Ha|]. exists (S j), r. split; [lia|]. split; assumption.
    + intros [Ha [j [r [Hb [Hn Hk]]]]]. destruct j as [|j].
      * left. cbn in Hn. injection Hn as <-. subst. repeat f_equal; lia.
      * right. split; [exact Ha|]. exists j, r. split; [lia|]. split; assumption.
Qed.

Lemma In_go : forall ds i0 a b key, In (a, b, key) (go_entries ds i0) <->
  exists i d, a = (i0 + i)%nat /\ nth_error ds i = Some d /\ rd_sub d = false /\
              In (a, b, key) (gr_entries a (rd_rules d) O).
Proof.
  induction ds as [|d0 ds IH]; intros i0 a b key.
  - cbn. split; [intros []|]. intros [i [d [_ [H _]]]]. destruct i; discriminate.
  - rewrite go_entries_cons, in_app_iff, IH. split.
    + intros [H|[i [d [Ha [Hn Hr]]]]].
      * destruct (rd_sub d0) eqn:Es; [destruct H|].
        pose proof H as H'. apply In_gr in H'. destruct H' as [-> _].
        exists O, d0. split; [lia|]. split; [reflexivity|]. split; assumption.
      * exists (S i), d. split; [lia|]. split; assumption.
    + intros [i [d [Ha [Hn [Hs Hr]]]]]. destruct i as [|i].
      * left. cbn in Hn. injection Hn as <-. rewrite Hs. replace a with i0 in * by lia. exact Hr.
      * right. exists i, d. split; [lia|]. split; [exact Hn|]. split; assumption.
Qed.

Lemma In_map_entries : forall defs i j key, In (i, j, key) (map_entries defs) <->
  exists d r, nth_error defs i = Some d /\ rd_sub d = false /\ nth_error (rd_rules d) j = Some r /\
              key = rule_key MAX_PREFIX (rpat r).
Proof.
  intros defs i j key. rewrite map_entries_eq, In_go. split.
  - intros [i' [d [Hi [Hn [Hs Hr]]]]]. apply In_gr in Hr. destruct Hr as [_ [j' [r [Hj [Hr Hk]]]]].
    cbn in Hi, Hj. subst i' j'. exists d, r. auto.
  - intros [d [r [Hn [Hs [Hr Hk]]]]]. exists i, d. split; [reflexivity|]. split; [exact Hn|]. split; [exact Hs|].
    apply In_gr. split; [reflexivity|]. exists j, r. auto.
Qed.

(* ------------------------------------------------------------------------------------------------ *)
(* the query                                                                                          *)

Definition proj_entry (e : nat * nat * text) : nat * nat := (fst (fst e), snd (fst e)).

Lemma In_query : forall entries key i j, In (i, j) (query_prefixed entries key) <->
  exists n, (n <= Nat.min (length key) MAX_PREFIX)%nat /\ In (i, j, firstn_text n key) entries.
Proof.
  intros entries key i j. unfold query_prefixed. rewrite in_flat_map. split.
  - intros [n [Hn Hin]]. apply in_seq in Hn. apply in_map_iff in Hin. destruct Hin as [[[a b] k] [He Hf]].
    apply filter_In in Hf. destruct Hf as [Hf Hk]. cbn [fst snd] in *. injection He as -> ->.
    apply text_eqb_eq in Hk. subst k. exists n. split; [lia | exact Hf].
  - intros [n [Hn Hin]]. exists n. split; [apply in_seq; lia|].
    apply in_map_iff. exists (i, j, firstn_text n key). split; [reflexivity|].
    apply filter_In. split; [exact Hin|]. cbn [snd]. apply text_eqb_refl.
Qed.

Lemma rule_key_length : forall k p, (length (rule_key k p) <= k)%nat.
Proof.
  induction k as [|k IH]; intros p; [cbn; lia|].
  destruct p as [|[|c|c|i] rest]; cbn [rule_key length]; try lia; specialize (IH rest); lia.
Qed.

Lemma firstn_text_length : forall n t, (length (firstn_text n t) <= length t)%nat /\ (length (firstn_text n t) <= n)%nat.
Proof.
  induction n as [|n IH]; intros t; [cbn; lia|].
  destruct t as [|c r]; cbn [firstn_text length]; [lia|]. specialize (IH r). lia.
Qed.

(* (A)4 *)
Theorem C08_prefix_complete : forall defs i j d r w,
  nth_error defs i = Some d -> rd_sub d = false -> nth_error (rd_rules d) j = Some r ->
  rule_key_ok r ->
  match_with_rule (match_fuel defs (tail w)) defs r (rpat r) w true {| sf_rd := i; sf_ru := j; sf_args := [] |} <> [] ->
  In (i, j) (query_prefixed (map_entries defs) (instr_key MAX_PREFIX w)).
Proof.
  intros defs i j d r w Hd Hs Hr Hok Hm.
  pose proof (prefix_complete_key _ _ _ _ _ _ _ MAX_PREFIX Hm Hok) as Hk.
  apply In_query. exists (length (rule_key MAX_PREFIX (rpat r))). split.
  - pose proof (rule_key_length MAX_PREFIX (rpat r)) as H1.
    pose proof (firstn_text_length (length (rule_key MAX_PREFIX (rpat r))) (instr_key MAX_PREFIX w)) as [H2 _].
    rewrite <- Hk in H2. lia.
  - rewrite <- Hk. apply In_map_entries. exists d, r. auto.
Qed.

(* (A)5 *)
Theorem C08_index_sound : forall defs key i j, In (i, j) (query_prefixed (map_entries defs) key) ->
  exists d r, nth_error defs i = Some d /\ rd_sub d = false /\ nth_error (rd_rules d) j = Some r.
Proof.
  intros defs key i j H. apply In_query in H. destruct H as [n [_ H]].
  apply In_map_entries in H. destruct H as [d [r [H1 [H2 [H3 _]]]]]. exists d, r. auto.
Qed.

Lemma NoDup_app_intro {A} : forall (l1 l2 : list A), NoDup l1 -> NoDup l2 ->
  (forall x, In x l1 -> ~ In x l2) -> NoDup (l1 ++ l2).
Proof.
  induction l1 as [|a l1 IH]; intros l2 H1 H2 Hd; [exact H2|].
  cbn. inversion H1; subst. constructor.
  - rewrite in_app_iff. intros [H|H]; [contradiction|]. apply (Hd a); [left; reflexivity | exact H].
  - apply IH; auto. intros x Hx. apply Hd. right. exact Hx.
Qed.

Lemma NoDup_gr : forall i rs j0, NoDup (map proj_entry (gr_entries i rs j0)).
Proof.
  intros i rs. induction rs as [|x rest IH]; intros j0; [constructor|].
  rewrite gr_entries_cons. cbn [map]. constructor; [|apply IH].
  intros H. apply in_map_iff in H. destruct H as [[[a b] k] [He Hin]].
  apply In_gr in Hin. destruct Hin as [_ [j [_ [Hb _]]]]. unfold proj_entry in He. cbn [fst snd] in He.
  injection He as _ He. lia.
Qed.

Lemma NoDup_go : forall ds i0, NoDup (map proj_entry (go_entries ds i0)).
Proof.
  induction ds as [|d ds IH]; intros i0; [constructor|].
  rewrite go_entries_cons, map_app. apply NoDup_app_intro; [|apply IH|].
  - destruct (rd_sub d); [constructor | apply NoDup_gr].
  - intros [a b] H1 H2. apply in_map_iff in H1. destruct H1 as [[[a1 b1] k1] [He1 Hi1]].
    apply in_map_iff in H2. destruct H2 as [[[a2 b2] k2] [He2 Hi2]].
    unfold proj_entry in He1, He2. cbn [fst snd] in He1, He2. injection He1 as -> ->. injection He2 as -> ->.
    destruct (rd_sub d); [destruct Hi1|]. apply In_gr in Hi1. destruct Hi1 as [-> _].
    apply In_go in Hi2. destruct Hi2 as [i' [_ [Hi2 _]]]. lia.
Qed.

Lemma NoDup_map_entries : forall defs, NoDup (map proj_entry (map_entries defs)).
Proof. intros defs. rewrite map_entries_eq. apply NoDup_go. Qed.

Lemma NoDup_map_filter {A B} (f : A -> B) (p : A -> bool) : forall l, NoDup (map f l) -> NoDup (map f (filter p l)).
Proof.
  induction l as [|a l IH]; intros H; [constructor|]. cbn [map] in H. inversion H; subst. cbn [filter].
  destruct (p a); [|auto]. cbn [map]. constructor; [|auto].
  intros Hin. apply in_map_iff in Hin. destruct Hin as [x [Hx Hf]]. apply filter_In in Hf. destruct Hf as [Hf _].
  apply H2. rewrite <- Hx. apply in_map. exact Hf.
Qed.

Lemma NoDup_map_inj {A B} (f : A -> B) : forall l x y, NoDup (map f l) -> In x l -> In y l -> f x = f y -> x = y.
Proof.
  induction l as [|a l IH]; intros x y H Hx Hy Hf; [destruct Hx|].
  cbn [map] in H. inversion H; subst. destruct Hx as [->|Hx], Hy as [->|Hy]; auto.
  - exfalso. apply H2. rewrite Hf. apply in_map. exact Hy.
  - exfalso. apply H2. rewrite <- Hf. apply in_map. exact Hx.
Qed.

Lemma NoDup_flat_map {A B} (f : A -> list B) : forall l, NoDup l ->
  (forall x, In x l -> NoDup (f x)) ->
  (forall x y b, In x l -> In y l -> In b (f x) -> In b (f y) -> x = y) ->
  NoDup (flat_map f l).
Proof.
  induction l as [|a l IH]; intros Hl Hf Hd; [constructor|]. inversion Hl; subst. cbn [flat_map].
  apply NoDup_app_intro.
  - apply Hf. left. reflexivity.
  - apply IH; auto.
    + intros x Hx. apply Hf. right. exact Hx.
    + intros x y b Hx Hy. apply Hd; right; assumption.
  - intros b Hb Hin. apply in_flat_map in Hin. destruct Hin as [y [Hy Hby]].
    assert (a = y) by (eapply Hd; [left; reflexivity | right; exact Hy | exact Hb | exact Hby]).
    subst y. contradiction.
Qed.

Lemma firstn_text_exact_length : forall n t, (n <= length t)%nat -> length (firstn_text n t) = n.
Proof.
  induction n as [|n IH]; intros t H; [reflexivity|]. destruct t as [|c r]; cbn [length] in H; [lia|].
  cbn [firstn_text length]. rewrite IH; lia.
Qed.

(* the query never returns the same rule twice, for any list of entries with distinct (ruledef, rule) indices *)
Lemma query_nodup : forall entries key, NoDup (map proj_entry entries) -> NoDup (query_prefixed entries key).
Proof.
  intros entries key He. unfold query_prefixed. apply NoDup_flat_map.
  - apply seq_NoDup.
  - intros n _. apply (NoDup_map_filter proj_entry). exact He.
  - intros n m b Hn Hm H1 H2. apply in_seq in Hn. apply in_seq in Hm.
    apply in_map_iff in H1. destruct H1 as [e1 [E1 F1]]. apply in_map_iff in H2. destruct H2 as [e2 [E2 F2]].
    apply filter_In in F1. destruct F1 as [I1 K1]. apply filter_In in F2. destruct F2 as [I2 K2].
    assert (e1 = e2) by (apply (NoDup_map_inj proj_entry entries); auto; unfold proj_entry; congruence).
    subst e2. apply text_eqb_eq in K1. apply text_eqb_eq in K2.
    assert (L : length (firstn_text n key) = length (firstn_text m key)) by congruence.
    rewrite !firstn_text_exact_length in L; lia.
Qed.

Theorem C08_index_nodup : forall defs key, NoDup (query_prefixed (map_entries defs) key).
Proof. intros defs key. apply query_nodup. apply NoDup_map_entries. Qed.
