(* C07, blanks and comments, part 4: the line-level statement.  An executable decision of the relation
   "same line up to the content of the gaps", the theorem for match_instr, examples.  No axioms. *)
From Coq Require Import NArith ZArith List Bool Lia ZifyBool.
Import ListNotations.
From CA Require Import Model.Lexer Model.Parser Model.Matcher Proofs.MatcherP Proofs.MatcherCaseP Proofs.MatcherPermP
  Proofs.MatcherKeysP Proofs.BlankLexP Proofs.BlankWalkP Proofs.BlankMatchP.
Open Scope N_scope.

(* ------------------------------------------------------------------------------------------------ *)
(* the relation on source texts                                                                       *)

(* s and s' are renderings of two segment lists with the same characters and gaps at the same places: s' is s with
   the CONTENT of each non-empty run of blanks / tabs / CRs / block comments replaced by another non-empty such run.
   Outside by definition: a gap where the other line has none (r7 vs r 7; also ld(5) vs ld (5), which a rule with a
   whitespace part distinguishes), a double quote, a line break, a ';' that does not open a block comment "; * ... * ;"
   without inner ';' (nested comments, line comments). *)
Definition blank_equiv_by (A A' : list seg) (s s' : text) : Prop :=
  Forall seg_ok A /\ Forall seg_ok A' /\ Forall2 seg_rel A A' /\ s = render A /\ s' = render A'.
Definition blank_equiv (s s' : text) : Prop := exists A A', blank_equiv_by A A' s s'.

(* ---- an executable decision ---- *)
Definition hd_is (t : text) (c : N) : bool := match t with d :: _ => d =? c | [] => false end.
(* after ";*": the body up to the first "*;" (no ';' inside) and the rest *)
Fixpoint com_body (t : text) : option (text * text) :=
  match t with
  | [] => None
  | c :: r =>
    if (c =? 42) && hd_is r 59 then Some ([], tl r)
    else if c =? 59 then None
    else match com_body r with Some (b, rest) => Some (c :: b, rest) | None => None end
  end.
Fixpoint scan (fuel : nat) (t : text) : option (list (N + atom)) :=
  match t with
  | [] => Some []
  | c :: r =>
    match fuel with
    | O => None
    | S f =>
      if plain c then option_map (cons (inl c)) (scan f r)
      else if is_whitespace c then option_map (cons (inr (AW c))) (scan f r)
      else if (c =? 59) && hd_is r 42 then
        match com_body (tl r) with
        | Some (b, rest) => option_map (cons (inr (AC b))) (scan f rest)
        | None => None
        end
      else None
    end
  end.
Fixpoint group (l : list (N + atom)) : list seg :=
  match l with
  | [] => []
  | inl c :: r => Ch c :: group r
  | inr a :: r => match group r with Gap g :: r' => Gap (a :: g) :: r' | r' => Gap [a] :: r' end
  end.
Definition segments (t : text) : option (list seg) := option_map group (scan (length t) t).
Fixpoint same_shape (A A' : list seg) : bool :=
  match A, A' with
  | [], [] => true
  | Ch c :: r, Ch c' :: r' => (c =? c') && same_shape r r'
  | Gap _ :: r, Gap _ :: r' => same_shape r r'
  | _, _ => false
  end.
Definition blank_equivb (s s' : text) : bool :=
  match segments s, segments s' with Some A, Some A' => same_shape A A' | _, _ => false end.

Definition ritem (x : N + atom) : text := match x with inl c => [c] | inr a => ratom a end.
Definition item_ok (x : N + atom) : Prop := match x with inl c => plain c = true | inr a => atom_ok a end.

Lemma com_body_ok : forall t b rest, com_body t = Some (b, rest) -> t = b ++ 42 :: 59 :: rest /\ Forall (fun x => x <> 59) b.
Proof.
  induction t as [|c r IH]; intros b rest H; [discriminate|]. cbn [com_body] in H.
  destruct ((c =? 42) && hd_is r 59) eqn:E.
  - injection H as <- <-. apply andb_true_iff in E. destruct E as [E1 E2]. apply N.eqb_eq in E1. subst c.
    destruct r as [|d r]; [discriminate|]. cbn [hd_is] in E2. apply N.eqb_eq in E2. subst d. split; [reflexivity | constructor].
  - destruct (c =? 59) eqn:E59; [discriminate|]. destruct (com_body r) as [[b0 rest0]|]; [|discriminate].
    injection H as <- <-. destruct (IH b0 rest0 eq_refl) as [-> Hb]. split; [reflexivity|]. constructor; [lia | exact Hb].
Qed.

Lemma scan_ok : forall f t l, scan f t = Some l -> flat_map ritem l = t /\ Forall item_ok l.
Proof.
  induction f as [|f IH]; intros t l H; destruct t as [|c r]; cbn [scan] in H; try (injection H as <-; split; [reflexivity | constructor]); [discriminate|].
  destruct (plain c) eqn:Ep.
  { destruct (scan f r) as [l0|] eqn:E; [|discriminate]. injection H as <-. destruct (IH r l0 E) as [<- Hl].
    split; [reflexivity | constructor; assumption]. }
  destruct (is_whitespace c) eqn:Ew.
  { destruct (scan f r) as [l0|] eqn:E; [|discriminate]. injection H as <-. destruct (IH r l0 E) as [<- Hl].
    split; [reflexivity | constructor; assumption]. }
  destruct ((c =? 59) && hd_is r 42) eqn:E; [|discriminate]. apply andb_true_iff in E. destruct E as [E1 E2].
  apply N.eqb_eq in E1. subst c. destruct r as [|d r]; [discriminate|]. cbn [hd_is] in E2. apply N.eqb_eq in E2. subst d. cbn [tl] in H.
  destruct (com_body r) as [[b rest]|] eqn:Eb; [|discriminate]. destruct (com_body_ok r b rest Eb) as [-> Hb].
  destruct (scan f rest) as [l0|] eqn:Es; [|discriminate]. injection H as <-. destruct (IH rest l0 Es) as [<- Hl].
  split; [cbn [flat_map ritem ratom app]; rewrite <- app_assoc; reflexivity | constructor; assumption].
Qed.

Lemma group_ok : forall l, Forall item_ok l -> render (group l) = flat_map ritem l /\ Forall seg_ok (group l).
Proof.
  induction l as [|x l IH]; intros H; [split; [reflexivity | constructor]|]. inversion H; subst. destruct (IH H3) as [Er Hs].
  destruct x as [c|a]; cbn [group].
  - split; [cbn [render flat_map rseg ritem]; fold (render (group l)); rewrite Er; reflexivity | constructor; assumption].
  - destruct (group l) as [|[c|g] r'] eqn:Eg.
    + split; [cbn [render flat_map rseg ratoms ritem] in *; rewrite <- Er, !app_nil_r; reflexivity|].
      constructor; [split; [discriminate | constructor; [assumption | constructor]] | constructor].
    + split; [cbn [render flat_map rseg ratoms ritem] in *; rewrite <- Er, app_nil_r; reflexivity|].
      constructor; [split; [discriminate | constructor; [assumption | constructor]] | assumption].
    + inversion Hs; subst. destruct H4 as [Hn Hg].
      split; [cbn [render flat_map rseg ratoms ritem] in *; rewrite <- Er, <- app_assoc; reflexivity|].
      constructor; [split; [discriminate | constructor; assumption] | assumption].
Qed.

Lemma segments_ok : forall t A, segments t = Some A -> render A = t /\ Forall seg_ok A.
Proof.
  intros t A H. unfold segments in H. destruct (scan (length t) t) as [l|] eqn:E; [|discriminate]. injection H as <-.
  destruct (scan_ok _ _ _ E) as [Ef Hl]. destruct (group_ok l Hl) as [Er Hs]. split; [congruence | exact Hs].
Qed.

Lemma same_shape_rel : forall A A', same_shape A A' = true -> Forall2 seg_rel A A'.
Proof.
  induction A as [|s A IH]; intros [|s' A'] H; cbn [same_shape] in H; try discriminate; [constructor | destruct s; discriminate|].
  destruct s as [c|g], s' as [c'|g']; try discriminate.
  - apply andb_true_iff in H. destruct H as [H1 H2]. apply N.eqb_eq in H1. constructor; [exact H1 | apply IH; exact H2].
  - constructor; [exact I | apply IH; exact H].
Qed.

Theorem blank_equivb_sound : forall s s', blank_equivb s s' = true -> blank_equiv s s'.
Proof.
  intros s s' H. unfold blank_equivb in H. destruct (segments s) as [A|] eqn:E; [|discriminate].
  destruct (segments s') as [A'|] eqn:E'; [|discriminate]. destruct (segments_ok _ _ E) as [Er Hs]. destruct (segments_ok _ _ E') as [Er' Hs'].
  exists A, A'. repeat split; auto using same_shape_rel.
Qed.

(* ------------------------------------------------------------------------------------------------ *)
(* matches up to spans and excerpts                                                                   *)

Definition strip_args (strip : imatch -> imatch) : list iarg -> list iarg :=
  fix go (a : list iarg) : list iarg :=
    match a with
    | [] => []
    | AExpr e _ _ _ :: r => AExpr e 0 0 [] :: go r
    | ANested m _ _ _ :: r => ANested (strip m) 0 0 [] :: go r
    end.
(* a match without the byte positions of its argument spans and without the excerpts *)
Fixpoint strip (m : imatch) : imatch :=
  match m with IMatch rd ru args e => IMatch rd ru (strip_args strip args) e end.
Lemma strip_unfold : forall rd ru args e, strip (IMatch rd ru args e) = IMatch rd ru (strip_args strip args) e.
Proof. reflexivity. Qed.

Lemma mrel_strip : forall A A' n m m', (idepth m <= n)%nat -> mrel A A' m m' -> strip m = strip m'.
Proof.
  intros A A'. induction n as [|n IH]; intros [rd ru x e] [rd' ru' x' e'] Hd H; [cbn [idepth] in Hd; lia|].
  rewrite mrel_unfold in H. destruct H as (-> & -> & -> & Hx). rewrite !strip_unfold. f_equal.
  apply args_rel_Forall2 in Hx. cbn [idepth] in Hd. assert (Hd' : (args_depth idepth x <= n)%nat) by lia. clear Hd.
  induction Hx as [|p p' x x' Hp Hx IHx]; [reflexivity|].
  destruct p as [ex s t exc|m s t exc], p' as [ex' s' t' exc'|m' s' t' exc']; cbn [arel] in Hp; try contradiction;
    cbn [strip_args args_depth] in *.
  - destruct Hp as (-> & _). f_equal. apply IHx. exact Hd'.
  - destruct Hp as (Pm & _). rewrite (IH m m' ltac:(lia) Pm). f_equal. apply IHx. lia.
Qed.

Lemma Forall2_mrel_strip : forall A A' l l', Forall2 (mrel A A') l l' -> map strip l = map strip l'.
Proof.
  induction 1 as [|m m' l l' Hm Hl IH]; [reflexivity|]. cbn [map]. rewrite IH.
  rewrite (mrel_strip A A' (idepth m) m m' (Nat.le_refl _) Hm). reflexivity.
Qed.

(* ------------------------------------------------------------------------------------------------ *)
(* the theorem                                                                                        *)

Definition start (s : text) : walker := {| tail := s; cur := 0; lim := bytes_len s |}.

Lemma W_start : forall A, W A 0 (length A) = start (render A).
Proof.
  intros A. unfold W, start, EW, mid. rewrite firstn_all, skipn_all. cbn [firstn skipn render flat_map bytes_len app].
  rewrite app_nil_r. reflexivity.
Qed.

Definition fuel_for (indexed : bool) (defs : list ruledef) (s : text) : nat :=
  if indexed then match_fuel defs s else pred (match_fuel defs s).

(* match_instr is match_instr_fuel at the model's own fuel *)
Lemma match_instr_fuel_eq : forall indexed defs s,
  match_instr indexed defs s = match_instr_fuel defs (fuel_for indexed defs s) indexed (start s).
Proof.
  intros [|] defs s; unfold match_instr, match_instr_fuel, fuel_for; fold (start s).
  - apply match_instr_at_indexed.
  - apply match_instr_at_brute.
Qed.

(* the expression parser's fuel suffices on this line (decidable, see expr_fuel_okb) *)
Definition is_pfuel {X} (r : pres X) : bool := match r with PFuel => true | _ => false end.
Definition expr_fuel_okb (A : list seg) : bool :=
  forallb (fun j => forallb (fun i => negb (is_pfuel (parse_expr (200 * fuel_of (W A i j)) 0 (W A i j)))) (seq 0 (S j)))
          (seq 0 (S (length A))).
Lemma expr_fuel_okb_sound : forall A, expr_fuel_okb A = true -> expr_fuel_ok A.
Proof.
  intros A H i j H1 H2 E. unfold expr_fuel_okb in H. rewrite forallb_forall in H.
  specialize (H j ltac:(apply in_seq; lia)). rewrite forallb_forall in H. specialize (H i ltac:(apply in_seq; lia)).
  rewrite E in H. discriminate.
Qed.

(* Same candidates up to argument spans/excerpts, for every fuel, both matchers, every rule set whose pattern characters
   are admissible (all parsed rule sets), provided the expression parser does not run out of its own fuel. *)
Theorem C07_blank_invariance : forall A A' s s' defs fuel indexed,
  blank_equiv_by A A' s s' -> Forall ruledef_ok defs -> expr_fuel_ok A -> expr_fuel_ok A' ->
  Forall2 (mrel A A') (match_instr_fuel defs fuel indexed (start s)) (match_instr_fuel defs fuel indexed (start s')) /\
  map strip (match_instr_fuel defs fuel indexed (start s)) = map strip (match_instr_fuel defs fuel indexed (start s')).
Proof.
  intros A A' s s' defs fuel indexed (HA & HA' & HR & -> & ->) Hd HF HF'.
  assert (H : Forall2 (mrel A A') (match_instr_fuel defs fuel indexed (start (render A))) (match_instr_fuel defs fuel indexed (start (render A')))).
  { rewrite <- !W_start. rewrite (len_eq A A' HR).
    apply (match_sim A A' HA HA' HR defs Hd HF HF' fuel indexed 0 (length A)). split; lia. }
  split; [exact H | eapply Forall2_mrel_strip; exact H].
Qed.

Theorem C07_blank_invariance_parsed : forall A A' s s' t defs fuel indexed,
  parse_defs t = Some defs -> blank_equiv_by A A' s s' -> expr_fuel_ok A -> expr_fuel_ok A' ->
  map strip (match_instr_fuel defs fuel indexed (start s)) = map strip (match_instr_fuel defs fuel indexed (start s')).
Proof.
  intros A A' s s' t defs fuel indexed Hp He HF HF'.
  apply (C07_blank_invariance A A' s s' defs fuel indexed He (parse_defs_parts_ok t defs Hp) HF HF').
Qed.

(* at the model's own fuels (which grow with the length of the line): if the longer fuel is not needed on s' *)
Theorem C07_blank_invariance_match_instr : forall A A' s s' t defs indexed,
  parse_defs t = Some defs -> blank_equiv_by A A' s s' -> expr_fuel_ok A -> expr_fuel_ok A' ->
  match_instr_fuel defs (fuel_for indexed defs s') indexed (start s') = match_instr_fuel defs (fuel_for indexed defs s) indexed (start s') ->
  map strip (match_instr indexed defs s) = map strip (match_instr indexed defs s').
Proof.
  intros A A' s s' t defs indexed Hp He HF HF' Hst. rewrite !match_instr_fuel_eq, Hst.
  eapply C07_blank_invariance_parsed; eassumption.
Qed.

(* ------------------------------------------------------------------------------------------------ *)
(* examples                                                                                           *)

(* #subruledef reg{a=>0 / b=>1}  #ruledef{mov {r: reg}, ({x}+{y}) => ... / mov {r: reg}, {x} => ... / ld {x} => ...} *)
Definition bx_rules : text :=
  [35;115;117;98;114;117;108;101;100;101;102;32;114;101;103;123;97;61;62;48;10;98;61;62;49;10;125;10;
   35;114;117;108;101;100;101;102;123;
   109;111;118;32;123;114;58;32;114;101;103;125;44;32;40;123;120;125;43;123;121;125;41;61;62;48;120;49;48;64;120;96;56;64;121;96;56;10;
   109;111;118;32;123;114;58;32;114;101;103;125;44;32;123;120;125;61;62;48;120;50;48;64;120;96;56;10;
   108;100;32;123;120;125;61;62;48;120;51;48;64;120;96;56;10;125].
Definition bx_defs : list ruledef := Eval vm_compute in match parse_defs bx_rules with Some d => d | None => [] end.
(* "mov b , ( 2 * (3+4) + x )"  and  "mov ;*c*;  B<TAB>,;* , *;(<TAB>2  * (3+4)  +  x ;*y*;)" *)
Definition bx_s : text :=
  [109;111;118;32;98;32;44;32;40;32;50;32;42;32;40;51;43;52;41;32;43;32;120;32;41].
Definition bx_s' : text :=
  [109;111;118;32;59;42;99;42;59;32;32;98;9;44;59;42;32;44;32;42;59;40;9;50;32;32;42;32;40;51;43;52;41;32;32;43;32;32;120;32;59;42;121;42;59;41].
Definition bx_A : list seg := Eval vm_compute in match segments bx_s with Some a => a | None => [] end.
Definition bx_A' : list seg := Eval vm_compute in match segments bx_s' with Some a => a | None => [] end.

Example bx_hypotheses :
  parse_defs bx_rules = Some bx_defs /\ blank_equivb bx_s bx_s' = true /\ blank_equiv_by bx_A bx_A' bx_s bx_s' /\
  expr_fuel_ok bx_A /\ expr_fuel_ok bx_A'.
Proof.
  split; [vm_compute; reflexivity|]. split; [vm_compute; reflexivity|]. split.
  - assert (E : segments bx_s = Some bx_A) by (vm_compute; reflexivity).
    assert (E' : segments bx_s' = Some bx_A') by (vm_compute; reflexivity).
    destruct (segments_ok _ _ E) as [Er Hs]. destruct (segments_ok _ _ E') as [Er' Hs'].
    repeat split; auto. apply same_shape_rel. vm_compute. reflexivity.
  - split; apply expr_fuel_okb_sound; vm_compute; reflexivity.
Qed.

(* both lines match the first rule with a sub-rule operand and two expression operands (one parenthesised);
   the results differ in the spans only *)
Example bx_results :
  map strip (match_instr true bx_defs bx_s) =
    [IMatch 1 0 [ANested (IMatch 0 1 [] 0) 0 0 []; AExpr (EBin Mul (ENum 2 None) (EBin Add (ENum 3 None) (ENum 4 None))) 0 0 [];
                 AExpr (EVar 0 [[120]]) 0 0 []] 8] /\
  map strip (match_instr true bx_defs bx_s') = map strip (match_instr true bx_defs bx_s) /\
  map strip (match_instr false bx_defs bx_s') = map strip (match_instr false bx_defs bx_s) /\
  match_instr true bx_defs bx_s' <> match_instr true bx_defs bx_s.
Proof. repeat split; vm_compute; try reflexivity. discriminate. Qed.

Example bx_theorem_applies : forall fuel indexed,
  map strip (match_instr_fuel bx_defs fuel indexed (start bx_s)) = map strip (match_instr_fuel bx_defs fuel indexed (start bx_s')).
Proof.
  intros fuel indexed. destruct bx_hypotheses as (Hp & _ & He & HF & HF').
  exact (C07_blank_invariance_parsed bx_A bx_A' bx_s bx_s' bx_rules bx_defs fuel indexed Hp He HF HF').
Qed.

(* outside by definition: r7 / r 7, ld(5) / ld (5) *)
Example bx_outside : blank_equivb [114;55] [114;32;55] = false /\ blank_equivb [108;100;40;53;41] [108;100;32;40;53;41] = false.
Proof. split; vm_compute; reflexivity. Qed.
