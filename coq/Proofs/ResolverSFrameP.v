(* Frame and replay lemmas for the optimised pass (C08, static half): a pass only sets the flags of its own items; if the
   first pass of the optimised run reports Resolved, the unoptimised pass from the resulting state changes nothing and
   reports Resolved (every flagged item is recomputed to its stored value, every other item was stable and still reads
   the same symbols, positions and stored value). *)
From Coq Require Import NArith ZArith List Bool Lia.
Import ListNotations.
From CA Require Import Model.Lexer Model.Parser Model.Literal Model.BigIntOps Model.Evaluator Model.Matcher Model.Resolver
  Model.StaticKnown Model.ResolverS Spec.StaticSpec Proofs.EvalSemP Proofs.EvalMonoP Proofs.ResolverFixP Proofs.ResolverMonoP
  Proofs.CertUniqueP Proofs.StaticKnownP Proofs.ResolverSSimP.
Open Scope Z_scope.

(* ---------- a pass only sets the flags of its own items ---------- *)
Section Flags.
Variable names : list text.
Variable defs : list ruledef.
Variable K : kinfo.
Variables opt first last : bool.

Lemma data_goS_flags w : forall elems x pos acc x' r p',
  data_goS names K opt first last w elems x pos acc = EOk (x', r, p') ->
  fz_sym x' = fz_sym x /\ fz_instr x' = fz_instr x /\
  (forall d, ~ In d (map fst elems) -> flag (fz_data x') d = flag (fz_data x) d).
Proof.
  induction elems as [|[d e] rest IH]; intros x pos acc x' r p' H.
  - cbn in H. inversion H; subst. auto.
  - cbn [data_goS] in H. cbv zeta in H.
    assert (Fin : forall x1 pos1 acc1, data_goS names K opt first last w rest x1 pos1 acc1 = EOk (x', r, p') ->
              fz_sym x1 = fz_sym x -> fz_instr x1 = fz_instr x ->
              (forall d0, d0 <> d -> flag (fz_data x1) d0 = flag (fz_data x) d0) ->
              fz_sym x' = fz_sym x /\ fz_instr x' = fz_instr x /\
              (forall d0, ~ In d0 (map fst ((d, e) :: rest)) -> flag (fz_data x') d0 = flag (fz_data x) d0)).
    { intros x1 pos1 acc1 H1 E1 E2 E3. destruct (IH _ _ _ _ _ _ H1) as (G1 & G2 & G3).
      split; [congruence|]. split; [congruence|]. intros d0 Hd0. cbn [map fst In] in Hd0.
      rewrite G3 by tauto. apply E3. intro; subst; tauto. }
    destruct (flag (fz_data x) d).
    + eapply Fin; [exact H|reflexivity|reflexivity|reflexivity].
    + destruct (eval code_ops (pvar names (ss x) pos (negb last)) e []) as [[v c]|]; [|discriminate].
      destruct (expect_error_or_bigint v) as [v'|]; [|discriminate].
      match type of H with match ?m with _ => _ end = _ => destruct m as [menc|]; [|discriminate] end.
      match type of H with (if negb ?c then _ else _) = _ => destruct c; cbn [negb] in H; [|discriminate] end.
      match type of H with (if ?c then _ else _) = _ => destruct c end.
      * eapply Fin; [exact H|reflexivity|reflexivity|]. intros d0 Hd0. cbn [fz_data]. apply flag_set_other. exact Hd0.
      * eapply Fin; [exact H|reflexivity|reflexivity|reflexivity].
Qed.

Lemma data_goS_entries w : forall elems x pos acc x' r p',
  data_goS names K opt first last w elems x pos acc = EOk (x', r, p') ->
  s_sym (ss x') = s_sym (ss x) /\ length (s_data (ss x')) = length (s_data (ss x)) /\
  (forall d, ~ In d (map fst elems) -> nth_error (s_data (ss x')) d = nth_error (s_data (ss x)) d).
Proof.
  induction elems as [|[d e] rest IH]; intros x pos acc x' r p' H.
  - cbn in H. inversion H; subst. auto.
  - cbn [data_goS] in H. cbv zeta in H.
    assert (Fin : forall x1 pos1 acc1, data_goS names K opt first last w rest x1 pos1 acc1 = EOk (x', r, p') ->
              s_sym (ss x1) = s_sym (ss x) -> length (s_data (ss x1)) = length (s_data (ss x)) ->
              (forall d0, d0 <> d -> nth_error (s_data (ss x1)) d0 = nth_error (s_data (ss x)) d0) ->
              s_sym (ss x') = s_sym (ss x) /\ length (s_data (ss x')) = length (s_data (ss x)) /\
              (forall d0, ~ In d0 (map fst ((d, e) :: rest)) -> nth_error (s_data (ss x')) d0 = nth_error (s_data (ss x)) d0)).
    { intros x1 pos1 acc1 H1 E1 E2 E3. destruct (IH _ _ _ _ _ _ H1) as (G1 & G2 & G3).
      split; [congruence|]. split; [congruence|]. intros d0 Hd0. cbn [map fst In] in Hd0.
      rewrite G3 by tauto. apply E3. intro; subst; tauto. }
    destruct (flag (fz_data x) d).
    + eapply Fin; [exact H|reflexivity|reflexivity|reflexivity].
    + destruct (eval code_ops (pvar names (ss x) pos (negb last)) e []) as [[v c]|]; [|discriminate].
      destruct (expect_error_or_bigint v) as [v'|]; [|discriminate].
      match type of H with match ?m with _ => _ end = _ => destruct m as [menc|]; [|discriminate] end.
      match type of H with (if negb ?c then _ else _) = _ => destruct c; cbn [negb] in H; [|discriminate] end.
      match type of H with (if ?c then _ else _) = _ => destruct c end;
        (eapply Fin; [exact H|destruct menc; reflexivity|destruct menc; cbn [ss with_state s_data]; rewrite ?set_nth_length; reflexivity|];
         intros d0 Hd0; destruct menc; cbn [ss with_state s_data]; rewrite ?nth_error_set_nth_other by exact Hd0; reflexivity).
Qed.

Lemma nodeS_flags n x pos x' r p' :
  resolve_nodeS names defs K opt first last n x pos = EOk (x', r, p') ->
  (forall s, ~ In s (sids [n]) -> flag (fz_sym x') s = flag (fz_sym x) s) /\
  (forall i, ~ In i (iids [n]) -> flag (fz_instr x') i = flag (fz_instr x) i) /\
  (forall d, ~ In d (dids [n]) -> flag (fz_data x') d = flag (fz_data x) d).
Proof.
  intro H.
  assert (Same : x' = x \/ (exists st', x' = with_state x st') -> 
            (forall s, ~ In s (sids [n]) -> flag (fz_sym x') s = flag (fz_sym x) s) /\
            (forall i, ~ In i (iids [n]) -> flag (fz_instr x') i = flag (fz_instr x) i) /\
            (forall d, ~ In d (dids [n]) -> flag (fz_data x') d = flag (fz_data x) d)).
  { intros [->|[st' ->]]; auto. }
  assert (Plain : forall st0, (match resolve_node names defs last n st0 pos with
                    | EErr => EErr | EOk (st', res, pos') => EOk (with_state x st', res, pos') end) = EOk (x', r, p') ->
                    exists st', x' = with_state x st').
  { intros st0 H0. destruct (resolve_node names defs last n st0 pos) as [[[st' r0] p0]|]; [|discriminate]. inversion H0; eauto. }
  destruct n as [s|s e|i src|width elems|k e|k e|k e]; cbn [resolve_nodeS] in H.
  - apply Same. right. eapply Plain; eauto.
  - destruct (flag (fz_sym x) s); [inversion H; subst; apply Same; now left|].
    destruct (resolve_node names defs last (NConst s e) (ss x) pos) as [[[st' r0] p0]|]; [|discriminate].
    destruct (opt && first && flag (k_sym K) s); inversion H; subst; [|apply Same; right; eauto].
    cbn [fz_sym fz_instr fz_data]. split; [|auto]. intros s0 Hs0. apply flag_set_other. intro; subst. apply Hs0. cbn. now left.
  - destruct (nth_error (s_instr (ss x)) i) as [d|]; [|discriminate].
    destruct (flag (fz_instr x) i); [inversion H; subst; apply Same; now left|].
    destruct (smallest_encodings defs _ _ (i_matches d)) as [encs|]; [|discriminate]. cbv zeta in H.
    match type of H with (if ?c then _ else _) = _ => destruct c end; inversion H; subst; [|apply Same; right; eauto].
    cbn [fz_sym fz_instr fz_data]. split; [auto|]. split; [|auto]. intros i0 Hi0. apply flag_set_other. intro; subst. apply Hi0. cbn. now left.
  - destruct (data_goS_flags _ _ _ _ _ _ _ _ H) as (G1 & G2 & G3). rewrite G1, G2. split; [auto|]. split; [auto|].
    intros d Hd. apply G3. intro Hin. apply Hd. unfold dids. cbn [flat_map]. rewrite app_nil_r. exact Hin.
  - apply Same. right. eapply Plain; eauto.
  - apply Same. right. eapply Plain; eauto.
  - apply Same. right. eapply Plain; eauto.
Qed.

Lemma ids_cons n l : sids (n :: l) = sids [n] ++ sids l /\ iids (n :: l) = iids [n] ++ iids l /\ dids (n :: l) = dids [n] ++ dids l.
Proof. unfold sids, iids, dids. cbn [flat_map]. rewrite !app_nil_r. auto. Qed.

Lemma passS_flags : forall l x pos acc x' r,
  passS names defs K opt first last l x pos acc = EOk (x', r) ->
  (forall s, ~ In s (sids l) -> flag (fz_sym x') s = flag (fz_sym x) s) /\
  (forall i, ~ In i (iids l) -> flag (fz_instr x') i = flag (fz_instr x) i) /\
  (forall d, ~ In d (dids l) -> flag (fz_data x') d = flag (fz_data x) d).
Proof.
  induction l as [|n l IH]; intros x pos acc x' r H; cbn [passS] in H.
  - inversion H; subst. auto.
  - destruct (resolve_nodeS names defs K opt first last n x pos) as [[[x1 r1] p1]|] eqn:E; [|discriminate].
    destruct (nodeS_flags _ _ _ _ _ _ E) as (A1 & A2 & A3). destruct (IH _ _ _ _ _ H) as (B1 & B2 & B3).
    destruct (ids_cons n l) as (E1 & E2 & E3). rewrite E1, E2, E3.
    repeat split; intros j Hj; [rewrite B1, A1|rewrite B2, A2|rewrite B3, A3]; auto; intro; apply Hj; apply in_or_app; auto.
Qed.
End Flags.

Lemma data_goS_sticky names K opt first last w : forall elems x pos x' p',
  data_goS names K opt first last w elems x pos Unresolved = EOk (x', Resolved, p') -> False.
Proof.
  induction elems as [|[d e] rest IH]; intros x pos x' p' H; cbn [data_goS] in H; [discriminate|]. cbv zeta in H.
  destruct (flag (fz_data x) d); [cbn [merge] in H; eauto|].
  destruct (eval code_ops _ e []) as [[v c]|]; [|discriminate].
  destruct (expect_error_or_bigint v) as [v'|]; [|discriminate].
  match type of H with match ?m with _ => _ end = _ => destruct m as [menc|]; [|discriminate] end.
  match type of H with (if negb ?c then _ else _) = _ => destruct c; cbn [negb] in H; [|discriminate] end.
  match type of H with (if ?c then _ else _) = _ => destruct c end; cbn [merge] in H; eauto.
Qed.

Lemma passS_sticky names defs K opt first last : forall l x pos x',
  passS names defs K opt first last l x pos Unresolved = EOk (x', Resolved) -> False.
Proof.
  induction l as [|n l IH]; intros x pos x' H; cbn [passS] in H; [discriminate|].
  destruct (resolve_nodeS names defs K opt first last n x pos) as [[[x1 r1] p1]|]; [|discriminate]. cbn [merge] in H. eauto.
Qed.

(* ---------- what the unoptimised step reads ---------- *)
Definition aux_eq (a b : state) : Prop :=
  s_sym a = s_sym b /\ s_res a = s_res b /\ s_align a = s_align b /\ s_addr a = s_addr b.
Lemma aux_refl a : aux_eq a a. Proof. repeat split. Qed.
Lemma aux_trans a b c : aux_eq a b -> aux_eq b c -> aux_eq a c.
Proof. intros (A1 & A2 & A3 & A4) (B1 & B2 & B3 & B4). repeat split; congruence. Qed.
Lemma aux_sym a b : aux_eq a b -> aux_eq b a.
Proof. intros (A1 & A2 & A3 & A4). repeat split; congruence. Qed.

Lemma pvar_eq names a b pos cg : s_sym a = s_sym b -> pvar names a pos cg = pvar names b pos cg.
Proof. intro E. unfold pvar. rewrite E. reflexivity. Qed.

Lemma data_go_aux names last w : forall elems st pos acc st' r p',
  data_go names last w elems st pos acc = EOk (st', r, p') -> aux_eq st st' /\ s_instr st' = s_instr st.
Proof.
  induction elems as [|[d e] rest IH]; intros st pos acc st' r p' H; cbn [data_go] in H.
  - inversion H; subst. split; [apply aux_refl|reflexivity].
  - cbv zeta in H.
    destruct (eval code_ops _ e []) as [[v c]|]; [|discriminate].
    destruct (expect_error_or_bigint v) as [v'|]; [|discriminate].
    match type of H with match ?m with _ => _ end = _ => destruct m as [menc|]; [|discriminate] end.
    match type of H with (if negb ?c then _ else _) = _ => destruct c; cbn [negb] in H; [|discriminate] end.
    apply IH in H. destruct H as [Ha Hi]. destruct menc; cbn in *; auto.
Qed.

Lemma heavy_aux names defs last n st pos st' r p' :
  match n with NInstr _ _ | NData _ _ => True | _ => False end ->
  resolve_node names defs last n st pos = EOk (st', r, p') -> aux_eq st st'.
Proof.
  intros Hn H. destruct n as [s|s e|i src|width elems|k e|k e|k e]; try destruct Hn; cbn [resolve_node] in H.
  - destruct (nth_error (s_instr st) i) as [d|]; [|discriminate].
    destruct (resolve_encoding defs _ _ (i_matches d)) as [chosen|]; [|discriminate]. inversion H; subst. repeat split.
  - exact (proj1 (data_go_aux _ _ _ _ _ _ _ _ _ _ H)).
Qed.

Lemma nth_error_set_nth_cong {A} (l l' : list A) d d' b :
  nth_error l d = nth_error l' d -> nth_error l d' = nth_error l' d' ->
  nth_error (set_nth l d b) d' = nth_error (set_nth l' d b) d'.
Proof.
  intros E E'. destruct (Nat.eq_dec d' d) as [->|Hne].
  - destruct (nth_error l d) as [y|] eqn:F.
    + symmetry in E. rewrite (nth_error_set_nth_same _ _ _ _ F), (nth_error_set_nth_same _ _ _ _ E). reflexivity.
    + symmetry in E. rewrite (nth_error_set_nth_none _ _ _ F), (nth_error_set_nth_none _ _ _ E). congruence.
  - rewrite !nth_error_set_nth_other by exact Hne. exact E'.
Qed.

(* the outcome of a step depends on the state only through the symbols, the reservation / alignment / address tables and
   the stored values of the step's own items *)
Definition own_eq (n : node) (a b : state) : Prop :=
  match n with
  | NInstr i _ => nth_error (s_instr a) i = nth_error (s_instr b) i
  | NData _ elems => forall d, In d (map fst elems) -> nth_error (s_data a) d = nth_error (s_data b) d
  | _ => True
  end.

Lemma data_go_loc names last w : forall elems a b pos acc a' r p',
  data_go names last w elems a pos acc = EOk (a', r, p') -> s_sym a = s_sym b ->
  (forall d, In d (map fst elems) -> nth_error (s_data a) d = nth_error (s_data b) d) ->
  exists b', data_go names last w elems b pos acc = EOk (b', r, p').
Proof.
  induction elems as [|[d e] rest IH]; intros a b pos acc a' r p' H Es Ed; cbn [data_go] in *.
  - inversion H; subst. eauto.
  - cbv zeta in *. rewrite <- (pvar_eq names a b pos (negb last) Es).
    destruct (eval code_ops _ e []) as [[v c]|]; [|discriminate].
    destruct (expect_error_or_bigint v) as [v'|]; [|discriminate].
    match type of H with match ?m with _ => _ end = _ => destruct m as [menc|]; [|discriminate] end.
    match type of H with (if negb ?c then _ else _) = _ => destruct c; cbn [negb] in H |- *; [|discriminate] end.
    assert (Ed0 : nth_error (s_data a) d = nth_error (s_data b) d) by (apply Ed; cbn; now left).
    rewrite !nth_nth_error in *. 
    destruct menc as [bb|].
    + cbn [s_data] in *. rewrite <- Ed0.
      rewrite <- (nth_error_set_nth_cong (s_data a) (s_data b) d d _ Ed0 Ed0).
      eapply IH; [exact H|exact Es|]. intros d' Hd'. cbn [s_data].
      apply nth_error_set_nth_cong; [exact Ed0|apply Ed; cbn; now right].
    + rewrite <- Ed0. eapply IH; [exact H|exact Es|]. intros d' Hd'. apply Ed. cbn. now right.
Qed.

Lemma node_loc names defs last n a b pos a' r p' :
  resolve_node names defs last n a pos = EOk (a', r, p') -> aux_eq a b -> own_eq n a b ->
  exists b', resolve_node names defs last n b pos = EOk (b', r, p').
Proof.
  intros H (Es & Er & Eal & Ead) Ho. pose proof (pvar_eq names a b pos (negb last) Es) as Ep.
  destruct n as [s|s e|i src|width elems|k e|k e|k e]; cbn [resolve_node own_eq] in *; rewrite <- ?Ep.
  - destruct (address_at pos (negb last)) as [ad|]; [|discriminate]. rewrite <- Es. inversion H; subst. eauto.
  - destruct (eval code_ops _ e []) as [[v c]|]; [|discriminate].
    try (match type of H with (if ?c then _ else _) = _ => destruct c; [discriminate H|] end).
    rewrite <- Es. inversion H; subst. eauto.
  - rewrite <- Ho. destruct (nth_error (s_instr a) i) as [d|]; [|discriminate].
    destruct (resolve_encoding defs _ _ (i_matches d)) as [chosen|]; [|discriminate]. inversion H; subst. eauto.
  - eapply data_go_loc; eauto.
  - destruct (eval code_ops _ e []) as [[v c]|]; [|discriminate].
    destruct (expect_error_or_bigint v) as [v'|]; [|discriminate].
    match type of H with match ?x with EErr => _ | EOk _ => _ end = _ => destruct x as [z|]; [|discriminate] end.
    rewrite <- Er. inversion H; subst. eauto.
  - destruct (eval code_ops _ e []) as [[v c]|]; [|discriminate].
    match type of H with match ?x with EErr => _ | EOk _ => _ end = _ => destruct x as [z|]; [|discriminate] end.
    rewrite <- Eal.
    destruct (negb (z =? nth k (s_align a) 0)); [inversion H; subst; eauto|].
    destruct (last && (z =? 0)); [discriminate|]. inversion H; subst. eauto.
  - destruct (eval code_ops _ e []) as [[v c]|]; [|discriminate].
    destruct (expect_error_or_bigint v) as [v'|]; [|discriminate].
    cbv zeta in *. rewrite <- Ead.
    match type of H with (if negb ?c then _ else _) = _ => destruct (negb c); [inversion H; subst; eauto|] end.
    match type of H with (if ?c then _ else _) = _ => destruct c; [discriminate|] end.
    match type of H with (if ?c then _ else _) = _ => destruct c; [discriminate|] end.
    inversion H; subst. eauto.
Qed.

Section Replay.
Variable names : list text.
Variable defs : list ruledef.
Variable ns : list node.
Variable K : kinfo.
Hypothesis Hres : reserved_free names.
Hypothesis HKsym : forall i, nth_error (k_sym K) i = Some true -> exists e, In (NConst i e) ns /\ const_known e = true.
Hypothesis HKdata : forall w elems d e, In (NData w elems) ns -> In (d, e) elems -> flag (k_data K) d = true -> data_known e = true.
Hypothesis Hok : data_static_ok ns.
Hypothesis Hnd : NoDup (dids ns) /\ NoDup (sids ns).
Hypothesis Hdist : syms_distinct ns.
Variables first m : bool.

Let Hcan : true = true -> NoDup (dids ns) /\ NoDup (sids ns) := fun _ => Hnd.
Notation INV := (Inv names defs ns K true).
Notation NS n x pos := (resolve_nodeS names defs K true first m n x pos).
Notation NF n st pos := (resolve_node names defs m n st pos).

Lemma node_T_to_F n x pos x' rT p' : In n ns -> INV x -> NS n x pos = EOk (x', rT, p') ->
  exists rF, NF n (ss x) pos = EOk (ss x', rF, p') /\ le_res rF rT /\ INV x' /\ sub_flags x x'.
Proof.
  intros Hin HI HT.
  pose proof (node_sim names defs ns K Hres HKsym HKdata true Hok Hcan first m n x pos Hin HI) as H.
  destruct (NF n (ss x) pos) as [[[st' rF] p0]|]; [|rewrite H in HT; discriminate].
  destruct H as (x'' & rT'' & HT' & Hss & Hr & _ & HI' & Hsub). rewrite HT' in HT. inversion HT; subst.
  exists rF. auto.
Qed.

Lemma pass_T_to_F l x pos accF accT x' rT : incl l ns -> INV x -> le_res accF accT ->
  passS names defs K true first m l x pos accT = EOk (x', rT) ->
  exists rF, pass names defs m l (ss x) pos accF = EOk (ss x', rF) /\ le_res rF rT /\ INV x' /\ sub_flags x x'.
Proof.
  intros Hincl HI Hle HT.
  pose proof (pass_sim names defs ns K Hres HKsym HKdata true Hok Hcan first m l Hincl x pos accF accT HI Hle) as H.
  destruct (pass names defs m l (ss x) pos accF) as [[st' rF]|]; [|rewrite H in HT; discriminate].
  destruct H as (x'' & rT'' & HT' & Hss & Hr & _ & HI' & Hsub). rewrite HT' in HT. inversion HT; subst.
  exists rF. auto.
Qed.

(* what the optimised step did, for nodes other than data directives *)
Definition frozen_at (n : node) (x' : sstate) : Prop :=
  match n with
  | NConst s _ => flag (fz_sym x') s = true
  | NInstr i _ => flag (fz_instr x') i = true
  | _ => False
  end.

Lemma flag_set_in_range l i : (i < length l)%nat -> flag (set_nth l i true) i = true.
Proof.
  intro H. unfold flag. destruct (nth_error l i) as [y|] eqn:E; [|apply nth_error_None in E; lia].
  rewrite (nth_error_set_nth_same _ _ _ _ E). reflexivity.
Qed.

Lemma node_outcome n x pos x' rT p' st' rF p'' : In n ns -> INV x ->
  NS n x pos = EOk (x', rT, p') -> NF n (ss x) pos = EOk (st', rF, p'') ->
  match n with NData _ _ => True | _ => (rT = rF /\ x' = with_state x st') \/ frozen_at n x' end.
Proof.
  intros Hin HI HT HF. pose proof HI as (I1 & I2 & I3 & I4 & L1 & L2 & L3).
  destruct n as [s|s e|i src|width elems|k e|k e|k e]; try exact I; cbv beta iota; cbn [resolve_nodeS] in HT;
    try (rewrite HF in HT; inversion HT; subst; left; auto; fail).
  - destruct (flag (fz_sym x) s) eqn:Fs; [inversion HT; subst; right; exact Fs|].
    rewrite HF in HT. destruct (true && first && flag (k_sym K) s) eqn:C; inversion HT; subst; [|left; auto].
    right. cbn [frozen_at fz_sym]. apply flag_set_in_range. rewrite L1.
    apply andb_prop in C. destruct C as [_ Ck]. unfold flag in Ck.
    destruct (nth_error (k_sym K) s) as [b|] eqn:Kb; [subst b|discriminate].
    destruct (HKsym s Kb) as [e' [Hin' Hk']].
    destruct (proj1 (I1 eq_refl) s e' Hin' Hk') as (v & c & _ & Hs & _).
    apply nth_error_Some. congruence.
  - cbn [resolve_node] in HF. destruct (nth_error (s_instr (ss x)) i) as [d|] eqn:Hd; [|discriminate].
    destruct (flag (fz_instr x) i) eqn:Fi; [inversion HT; subst; right; exact Fi|].
    rewrite resolve_encoding_smallest in HF.
    destruct (smallest_encodings defs _ _ (i_matches d)) as [encs|]; [|discriminate]. cbv zeta in HT.
    match type of HT with (if ?c then _ else _) = _ => destruct c end; inversion HT; subst.
    + right. cbn [frozen_at fz_instr]. apply flag_set_in_range. rewrite L2. apply nth_error_Some. congruence.
    + left. destruct encs as [c|]; inversion HF; subst; auto.
Qed.
(* a step that reports Resolved leaves the symbols and the reservation / alignment / address tables alone *)
Lemma node_aux n x pos x' p' : In n ns -> INV x -> labels_ok ns (ss x) ->
  NS n x pos = EOk (x', Resolved, p') -> aux_eq (ss x) (ss x').
Proof.
  intros Hin HI Hl HT. destruct (node_T_to_F n x pos x' Resolved p' Hin HI HT) as (rF & HF & _ & HI' & _).
  pose proof (node_outcome n x pos x' Resolved p' _ _ _ Hin HI HT HF) as Ho.
  destruct n as [s|s e|i src|width elems|k e|k e|k e];
    try (eapply heavy_aux; [|exact HF]; exact I);
    (destruct Ho as [[<- _]|Hz]; [rewrite <- (resolve_node_fix _ _ _ _ _ _ _ _ _ Hl Hin HF); apply aux_refl|]); try (exfalso; exact Hz).
  cbn [frozen_at] in Hz. pose proof HI' as (_ & _ & _ & I4 & _). destruct (I4 s Hz) as [_ [e' [Hin' Hk']]].
  assert (e' = e) by (eapply const_unique; [exact (proj2 Hnd)|exact Hin'|exact Hin]). subst e'.
  pose proof HI as (I1 & _). rewrite (const_noop names defs ns Hres (ss x) pos m s e (proj1 (I1 eq_refl)) Hin Hk') in HF.
  inversion HF. apply aux_refl.
Qed.

Lemma pass_aux : forall l, incl l ns -> forall x pos x2, INV x -> labels_ok ns (ss x) ->
  passS names defs K true first m l x pos Resolved = EOk (x2, Resolved) ->
  aux_eq (ss x) (ss x2) /\ INV x2 /\ labels_ok ns (ss x2).
Proof.
  induction l as [|n l IH]; intros Hincl x pos x2 HI Hl H; cbn [passS] in H.
  - inversion H; subst. split; [apply aux_refl|auto].
  - destruct (NS n x pos) as [[[x1 r1] p1]|] eqn:E; [|discriminate].
    destruct r1; cbn [merge] in H; [|exfalso; eapply passS_sticky; eauto].
    assert (Hin : In n ns) by (apply Hincl; now left).
    pose proof (node_aux n x pos x1 p1 Hin HI Hl E) as Ha.
    destruct (node_T_to_F n x pos x1 Resolved p1 Hin HI E) as (rF & HF & _ & HI1 & _).
    assert (Hl1 : labels_ok ns (ss x1)) by (eapply resolve_node_labels_ok; [exact Hdist|exact Hl|exact Hin|exact HF]).
    destruct (IH (fun y Hy => Hincl y (or_intror Hy)) x1 p1 x2 HI1 Hl1 H) as (Ha' & HI2 & Hl2).
    split; [eapply aux_trans; eauto|auto].
Qed.

Lemma merge_resolved_r a : merge a Resolved = a.
Proof. destruct a; reflexivity. Qed.

Lemma instr_step_pos i src st pos st' r p' : NF (NInstr i src) st pos = EOk (st', r, p') ->
  exists d', nth_error (s_instr st') i = Some d' /\ p' = pos + size_of (i_enc d').
Proof.
  cbn [resolve_node]. destruct (nth_error (s_instr st) i) as [d|] eqn:Hd; [|discriminate].
  destruct (resolve_encoding defs _ _ (i_matches d)) as [chosen|]; [|discriminate]. intro H. inversion H; subst. cbn [s_instr].
  eexists. split; [exact (nth_error_set_nth_same _ _ _ _ Hd)|reflexivity].
Qed.

(* replaying a step of the optimised first pass (which reported Resolved) from the state x2 at the end of that pass *)
Lemma replay_node n x pos x' p' x2 : In n ns -> match n with NData _ _ => False | _ => True end ->
  INV x -> labels_ok ns (ss x) -> NS n x pos = EOk (x', Resolved, p') ->
  INV x2 -> labels_ok ns (ss x2) -> aux_eq (ss x') (ss x2) -> sub_flags x' x2 -> own_eq n (ss x') (ss x2) ->
  NF n (ss x2) pos = EOk (ss x2, Resolved, p').
Proof.
  intros Hin Hnd' HI Hl HT HI2 Hl2 Ha Hsub Ho.
  destruct (node_T_to_F n x pos x' Resolved p' Hin HI HT) as (rF & HF & _ & HI' & _).
  pose proof (node_outcome n x pos x' Resolved p' _ _ _ Hin HI HT HF) as Hout.
  assert (Left : rF = Resolved -> NF n (ss x2) pos = EOk (ss x2, Resolved, p')).
  { intros ->. pose proof (resolve_node_fix _ _ _ _ _ _ _ _ _ Hl Hin HF) as E. rewrite E in *.
    destruct (node_loc names defs m n (ss x) (ss x2) pos _ _ _ HF Ha Ho) as [b' Hb'].
    rewrite <- (resolve_node_fix _ _ _ _ _ _ _ _ _ Hl2 Hin Hb') at 2. exact Hb'. }
  destruct n as [s|s e|i src|width elems|k e|k e|k e]; try destruct Hnd';
    (destruct Hout as [[E _]|Hz]; [apply Left; congruence|]); try (exfalso; exact Hz); cbn [frozen_at] in Hz.
  - (* constant *)
    destruct Hsub as (S1 & _ & _). pose proof HI2 as (I1 & _ & _ & I4 & _). destruct (I4 s (S1 s Hz)) as [_ [e' [Hin' Hk']]].
    assert (e' = e) by (eapply const_unique; [exact (proj2 Hnd)|exact Hin'|exact Hin]). subst e'.
    rewrite (const_noop names defs ns Hres (ss x2) pos m s e (proj1 (I1 eq_refl)) Hin Hk').
    cbn [resolve_node] in HF. destruct (eval code_ops _ e []) as [[v c]|]; [|discriminate].
    try (match type of HF with (if ?c then _ else _) = _ => destruct c; [discriminate HF|] end).
    inversion HF; subst. reflexivity.
  - (* instruction *)
    destruct Hsub as (_ & S2 & _). pose proof HI2 as (I1 & I2 & _). destruct (I2 i (S2 i Hz)) as [_ [d2 [Hd2 Hok2]]].
    rewrite (Hok2 (ss x2) pos m src (proj1 (I1 eq_refl)) Hd2).
    destruct (instr_step_pos i src _ _ _ _ _ HF) as [d' [Hd' ->]]. cbn [own_eq] in Ho. rewrite Ho, Hd2 in Hd'. inversion Hd'. reflexivity.
Qed.

Notation DS w elems x pos acc := (data_goS names K true first m w elems x pos acc).

Lemma data_replay w all_el : In (NData w all_el) ns -> forall elems, incl elems all_el -> NoDup (map fst elems) ->
  forall x pos accT xe pe x2 accF,
  INV x -> (forall d, In d (map fst elems) -> (d < length (s_data (ss x)))%nat) ->
  DS w elems x pos accT = EOk (xe, Resolved, pe) ->
  INV x2 -> s_sym (ss x2) = s_sym (ss x) ->
  (forall d, In d (map fst elems) -> nth_error (s_data (ss x2)) d = nth_error (s_data (ss xe)) d /\
                                     flag (fz_data x2) d = flag (fz_data xe) d) ->
  data_go names m w elems (ss x2) pos accF = EOk (ss x2, accF, pe).
Proof.
  intro Hn. induction elems as [|[d e] r IH]; intros Hincl Hnd' x pos accT xe pe x2 accF HI Hrange HT HI2 Hsym Hent.
  - cbn in HT. inversion HT; subst. reflexivity.
  - assert (Hincl' : incl r all_el) by (intros y Hy; apply Hincl; now right).
    assert (Hde : In (d, e) all_el) by (apply Hincl; now left).
    cbn [map fst] in Hnd'. apply NoDup_cons_iff in Hnd'. destruct Hnd' as [Hdr Hndr].
    destruct (Hent d (or_introl eq_refl)) as [Ent Flg].
    assert (Hlt : (d < length (s_data (ss x)))%nat) by (apply Hrange; now left).
    destruct (nth_error (s_data (ss x)) d) as [prev|] eqn:Eprev; [|apply nth_error_None in Eprev; lia].
    (* the rest of the directive, from a state x1 reached after this element *)
    assert (Rest : forall x1 pos1 accT1, INV x1 -> DS w r x1 pos1 accT1 = EOk (xe, Resolved, pe) ->
               s_sym (ss x1) = s_sym (ss x) -> length (s_data (ss x1)) = length (s_data (ss x)) ->
               data_go names m w r (ss x2) pos1 accF = EOk (ss x2, accF, pe) /\
               nth_error (s_data (ss xe)) d = nth_error (s_data (ss x1)) d /\ flag (fz_data xe) d = flag (fz_data x1) d).
    { intros x1 pos1 accT1 HI1 HT1 Es El.
      destruct (data_goS_flags names K true first m w r x1 pos1 accT1 _ _ _ HT1) as (_ & _ & G3).
      destruct (data_goS_entries names K true first m w r x1 pos1 accT1 _ _ _ HT1) as (_ & _ & G6).
      split; [|split; [apply G6; exact Hdr|apply G3; exact Hdr]].
      eapply IH; eauto.
      - intros d0 Hd0. rewrite El. apply Hrange. now right.
      - congruence.
      - intros d0 Hd0. apply Hent. now right. }
    rewrite data_go_cons. cbn [data_goS] in HT. cbv zeta in HT.
    destruct (flag (fz_data x) d) eqn:Fd.
    + (* flagged before *)
      destruct (Rest x _ _ HI HT eq_refl eq_refl) as (R1 & R2 & R3).
      pose proof HI2 as (_ & _ & I3 & _). rewrite R3, Fd in Flg. destruct (I3 d Flg) as [b2 [Hb2 Hall]].
      rewrite (Hall w all_el e Hn Hde (ss x2) pos m accF Hb2). rewrite merge_resolved_r.
      rewrite Ent, R2, Eprev in Hb2. inversion Hb2; subst b2.
      rewrite (nth_error_nth' _ _ (mk 0 (Some 0%N)) _ Eprev) in R1. exact R1.
    + cbn [data_go]. cbv zeta. rewrite (pvar_eq names (ss x2) (ss x) pos (negb m) Hsym).
      destruct (eval code_ops (pvar names (ss x) pos (negb m)) e []) as [[v c]|] eqn:Ev; [|discriminate].
      destruct (expect_error_or_bigint v) as [v'|] eqn:Ex; [|discriminate].
      set (known := flag (k_data K) d) in *.
      assert (NotInt : (forall b, v' <> VInt b) -> False).
      { intro Hv. destruct (m || known).
        - destruct v'; try discriminate HT. eapply Hv; reflexivity.
        - destruct v'; try (exfalso; eapply Hv; reflexivity); cbn [negb] in HT; rewrite with_state_ss in HT; cbn [merge] in HT;
            (replace (merge accT Unresolved) with Unresolved in HT by (destruct accT; reflexivity));
            eapply data_goS_sticky; exact HT. }
      destruct v' as [| | |b| | |]; try (exfalso; apply NotInt; intros b0 Hb0; discriminate Hb0). clear NotInt.
      fold (sliced w b) in HT |- *. fold (upd_data (ss x) d (sliced w b)) in HT.
      assert (Hchk_m : (if m then match w with Some w0 => negb (size_or_min b >? Z.of_N w0) | None => match bsz b with Some _ => true | None => false end end else true) = true).
      { destruct m; [|reflexivity]. cbn [orb] in HT.
        match type of HT with (if negb ?c then _ else _) = _ => destruct c; [reflexivity|discriminate HT] end. }
      match type of HT with (if negb ?c then _ else _) = _ => destruct c eqn:Hchk; cbn [negb] in HT; [|discriminate HT] end.
      rewrite Hchk_m. cbn [negb].
      assert (Ecur : nth d (s_data (upd_data (ss x) d (sliced w b))) (mk 0 (Some 0%N)) = sliced w b).
      { apply nth_error_nth'. cbn [upd_data s_data]. exact (nth_error_set_nth_same _ _ _ _ Eprev). }
      rewrite Ecur in HT.
      match type of HT with (if ?c then _ else _) = _ => destruct c eqn:Frz end.
      * (* flagged now *)
        apply andb_prop in Frz. destruct Frz as [Frz _]. apply andb_prop in Frz. destruct Frz as [_ Hkn].
        assert (Hk : data_known e = true) by (eapply HKdata; eauto).
        assert (Hce : elem_checked w b = true).
        { unfold known in *. rewrite Hkn, orb_true_r in Hchk. exact Hchk. }
        assert (Hfok : frozen_data_ok names d w e (sliced w b)).
        { eapply freeze_data_ok; eauto. }
        match type of HT with DS w r ?x1 _ _ = _ =>
          assert (HI1 : INV x1) by (eapply (inv_data_freeze names defs ns K true Hcan); eauto);
          destruct (Rest x1 _ _ HI1 HT eq_refl) as (R1 & R2 & R3); [cbn [ss upd_data s_data]; apply set_nth_length|] end.
        cbn [ss fz_data upd_data s_data] in R2, R3.
        rewrite (nth_error_set_nth_same _ _ _ _ Eprev) in R2.
        pose proof HI as (_ & _ & _ & _ & _ & _ & L3).
        rewrite flag_set_in_range in R3 by (rewrite L3; exact Hlt).
        rewrite R3 in Flg. rewrite R2 in Ent.
        pose proof HI2 as (_ & _ & I3 & _). destruct (I3 d Flg) as [b2 [Hb2 Hall]]. rewrite Ent in Hb2. inversion Hb2; subst b2.
        pose proof (Hall w all_el e Hn Hde (ss x2) pos m accF Ent) as Hs. cbn [data_go] in Hs. cbv zeta in Hs.
        rewrite (pvar_eq names (ss x2) (ss x) pos (negb m) Hsym), Ev, Ex, Hchk_m in Hs. cbn [negb] in Hs. fold (sliced w b) in Hs.
        injection Hs as E1 E2 E3. cbn [s_data]. rewrite E3. rewrite E2. rewrite E1. rewrite merge_resolved_r. exact R1.
      * (* not flagged: the element was stable *)
        destruct (bigint_identical (nth d (s_data (ss x)) (mk 0 (Some 0%N))) (sliced w b)) eqn:Stb.
        2:{ exfalso. replace (merge accT Unresolved) with Unresolved in HT by (destruct accT; reflexivity).
            eapply data_goS_sticky; exact HT. }
        apply bigint_identical_eq in Stb. rewrite (nth_error_nth' _ _ (mk 0 (Some 0%N)) _ Eprev) in Stb. 
        assert (Eupd : upd_data (ss x) d (sliced w b) = ss x).
        { unfold upd_data. rewrite <- Stb. rewrite (set_nth_same_entry _ _ _ Eprev). apply state_eta. }
        rewrite Eupd, with_state_ss in HT.
        destruct (Rest x _ _ HI HT eq_refl eq_refl) as (R1 & R2 & R3).
        rewrite R2, Eprev in Ent.
        rewrite (nth_error_nth' (s_data (ss x2)) d (mk 0 (Some 0%N)) _ Ent). rewrite <- Stb. rewrite bigint_identical_refl.
        rewrite (set_nth_same_entry _ _ _ Ent). rewrite state_eta. rewrite merge_resolved_r.
        rewrite (nth_error_nth' (s_data (ss x2)) d (mk 0 (Some 0%N)) _ Ent). rewrite Stb. exact R1.
Qed.

(* ---------- the whole pass ---------- *)
Lemma step_length n st pos st' r p' : In n ns -> NF n st pos = EOk (st', r, p') -> length (s_data st') = length (s_data st).
Proof.
  intros Hin H. pose proof (resolve_node_frame names defs ns m n st pos st' r p' Hin H) as F.
  symmetry. exact (proj1 (f_data _ _ _ F)).
Qed.

Lemma replay_pass : forall l, incl l ns -> NoDup (sids l) -> NoDup (iids l) -> NoDup (dids l) ->
  forall x pos x2, INV x -> labels_ok ns (ss x) -> (forall d, In d (dids l) -> (d < length (s_data (ss x)))%nat) ->
  passS names defs K true first m l x pos Resolved = EOk (x2, Resolved) ->
  pass names defs m l (ss x2) pos Resolved = EOk (ss x2, Resolved).
Proof.
  induction l as [|n l IH]; intros Hincl Ns Ni Nd x pos x2 HI Hl Hrange H; cbn [passS] in H.
  - inversion H; subst. reflexivity.
  - destruct (NS n x pos) as [[[x1 r1] p1]|] eqn:E; [|discriminate].
    destruct r1; cbn [merge] in H; [|exfalso; eapply passS_sticky; eauto].
    assert (Hin : In n ns) by (apply Hincl; now left).
    assert (Hincl' : incl l ns) by (intros y Hy; apply Hincl; now right).
    destruct (ids_cons n l) as (E1 & E2 & E3). rewrite E1 in Ns. rewrite E2 in Ni. rewrite E3 in Nd.
    destruct (node_T_to_F n x pos x1 Resolved p1 Hin HI E) as (rF & HF & _ & HI1 & _).
    assert (Hl1 : labels_ok ns (ss x1)) by (eapply resolve_node_labels_ok; [exact Hdist|exact Hl|exact Hin|exact HF]).
    destruct (pass_aux l Hincl' x1 p1 x2 HI1 Hl1 H) as (Ha & HI2 & Hl2).
    destruct (pass_T_to_F l x1 p1 Resolved Resolved x2 Resolved Hincl' HI1 (le_res_refl _) H) as (rF' & HF' & _ & _ & Hsub).
    pose proof (pass_frame_gen names defs l m l (ss x1) p1 Resolved (ss x2) rF' (fun y Hy => Hy) HF') as Fr.
    destruct (passS_flags names defs K true first m l x1 p1 Resolved x2 Resolved H) as (_ & _ & Fd).
    assert (Hlen : length (s_data (ss x1)) = length (s_data (ss x))) by (eapply step_length; eauto).
    assert (IHr : pass names defs m l (ss x2) p1 Resolved = EOk (ss x2, Resolved)).
    { apply (IH Hincl' (NoDup_app_r _ _ Ns) (NoDup_app_r _ _ Ni) (NoDup_app_r _ _ Nd) x1 p1 x2 HI1 Hl1); [|exact H].
      intros d Hd. rewrite Hlen. apply Hrange. rewrite E3. apply in_or_app. now right. }
    cbn [pass].
    assert (Step : NF n (ss x2) pos = EOk (ss x2, Resolved, p1)).
    { destruct n as [s|s e|i src|width elems|k e|k e|k e];
        try (exact (replay_node _ x pos x1 p1 x2 Hin I HI Hl E HI2 Hl2 Ha Hsub I)).
      - (* instruction: its stored value is not touched by the rest of the pass *)
        apply (replay_node _ x pos x1 p1 x2 Hin I HI Hl E HI2 Hl2 Ha Hsub). cbn [own_eq]. apply (proj2 (f_instr _ _ _ Fr)).
        intro Hi. eapply NoDup_app_disj; [exact Ni| |exact Hi]. cbn. now left.
      - (* data directive *)
        cbn [resolve_nodeS] in E. cbn [resolve_node].
        assert (Hids : dids [NData width elems] = map fst elems) by (unfold dids; cbn [flat_map]; apply app_nil_r).
        rewrite Hids in Nd, E3.
        destruct (data_goS_entries names K true first m width elems x pos Resolved _ _ _ E) as (Es & _ & _).
        eapply (data_replay width elems Hin elems (fun y Hy => Hy) (NoDup_app_l _ _ Nd) x pos Resolved x1 p1 x2 Resolved HI); eauto.
        + intros d Hd. apply Hrange. rewrite E3. apply in_or_app. now left.
        + destruct Ha as (A1 & _). congruence.
        + intros d Hd. assert (Hnot : ~ In d (dids l)) by (intro Hd'; eapply NoDup_app_disj; [exact Nd|exact Hd|exact Hd']).
          split; [symmetry; apply (proj2 (f_data _ _ _ Fr)); exact Hnot|apply Fd; exact Hnot]. }
    rewrite Step. cbn [merge]. exact IHr.
Qed.

End Replay.
