(* Lemmas about Model/Paths.v against Spec/PathSpec.v (C14: navigate) *)
From Coq Require Import NArith List Bool Lia.
From CA Require Import Model.Paths Model.Includes Spec.PathSpec.
Import ListNotations.
Open Scope N_scope.

(* ------------------------------------------------------------------ text equality *)
Lemma text_eqb_refl : forall a, text_eqb a a = true.
Proof. induction a; cbn; auto. rewrite N.eqb_refl; auto. Qed.

Lemma text_eqb_eq : forall a b, text_eqb a b = true <-> a = b.
Proof.
  induction a; destruct b; cbn; split; intro H; try discriminate; auto.
  - apply andb_true_iff in H. destruct H as [H1 H2]. apply N.eqb_eq in H1. apply IHa in H2. congruence.
  - inversion H; subst. rewrite N.eqb_refl. cbn. apply text_eqb_refl.
Qed.

Lemma text_eqb_neq : forall a b, text_eqb a b = false <-> a <> b.
Proof.
  intros. split; intro H.
  - intro E. apply text_eqb_eq in E. congruence.
  - destruct (text_eqb a b) eqn:E; auto. apply text_eqb_eq in E. contradiction.
Qed.

Lemma mem_In : forall x l, mem x l = true <-> In x l.
Proof.
  induction l; cbn; split; intro H; try discriminate; try contradiction.
  - apply orb_true_iff in H. destruct H as [H|H].
    + left. symmetry. apply text_eqb_eq; auto.
    + right. apply IHl; auto.
  - apply orb_true_iff. destruct H as [H|H].
    + left. subst. apply text_eqb_refl.
    + right. apply IHl; auto.
Qed.

(* ------------------------------------------------------------------ split *)
Definition sepfree (f : N -> bool) (p : text) : Prop := forall c, In c p -> f c = false.

Lemma split1_sepfree : forall f s h t, split1 f s = (h, t) ->
  sepfree f h /\ (forall p, In p t -> sepfree f p).
Proof.
  induction s as [|c r IH]; cbn; intros h t H.
  - inversion H; subst. split; [intros c []| intros p []].
  - destruct (split1 f r) as [h0 t0] eqn:E. destruct (IH h0 t0 eq_refl) as [A B].
    destruct (f c) eqn:F; inversion H; subst.
    + split; [intros x []|]. intros p [<-|Hp]; auto.
    + split; auto. intros x [<-|Hx]; auto.
Qed.

Lemma split_on_sepfree : forall f s p, In p (split_on f s) -> sepfree f p.
Proof.
  unfold split_on. intros f s p H. destruct (split1 f s) as [h t] eqn:E.
  destruct (split1_sepfree _ _ _ _ E) as [A B]. destruct H as [<-|H]; auto.
Qed.

Lemma split1_nosep : forall f x, sepfree f x -> split1 f x = (x, []).
Proof.
  induction x as [|c r IH]; cbn; intros H; auto.
  rewrite IH by (intros y Hy; apply H; right; auto).
  rewrite (H c) by (left; auto). auto.
Qed.

Lemma split1_app : forall f x c rest, sepfree f x -> f c = true ->
  split1 f (x ++ c :: rest) = (x, split_on f rest).
Proof.
  induction x as [|a r IH]; intros c rest H Hc.
  - cbn. unfold split_on. destruct (split1 f rest). rewrite Hc. auto.
  - cbn [app split1]. rewrite IH; auto.
    + rewrite (H a) by (left; auto). auto.
    + intros y Hy. apply H. right; auto.
Qed.

(* replacing backslashes then splitting at '/' = splitting at both *)
Lemma is_sep_slash : is_sep c_slash = true. Proof. reflexivity. Qed.

Lemma split1_replace : forall s, split1 is_slash (replace_bslash s) = split1 is_sep s.
Proof.
  induction s as [|c r IH]; cbn [replace_bslash map split1]; auto.
  fold (replace_bslash r). rewrite IH. destruct (split1 is_sep r) as [h t].
  unfold is_slash, is_sep, c_slash, c_bslash.
  destruct (c =? 92) eqn:B.
  - apply N.eqb_eq in B. subst. reflexivity.
  - destruct (c =? 47) eqn:S; cbn; auto.
Qed.

Lemma split_on_replace : forall s, split_on is_slash (replace_bslash s) = split_on is_sep s.
Proof. intros. unfold split_on. rewrite split1_replace. auto. Qed.

Lemma starts_with_slash_replace : forall s, starts_with [c_slash] (replace_bslash s) = absolute s.
Proof.
  destruct s as [|c r]; cbn [replace_bslash map starts_with absolute]; auto.
  unfold is_sep. rewrite andb_true_r. rewrite N.eqb_sym.
  destruct (c =? c_bslash) eqn:B.
  - rewrite orb_true_r. reflexivity.
  - rewrite orb_false_r. reflexivity.
Qed.

(* ------------------------------------------------------------------ remove_last *)
Lemma remove_last_removelast : forall (A : Type) (l : list A), l <> [] -> remove_last l = Some (removelast l).
Proof.
  induction l as [|x r IH]; intro H; [contradiction|].
  destruct r as [|y r']; auto.
  change (remove_last (x :: y :: r')) with (match remove_last (y :: r') with Some r'' => Some (x :: r'') | None => None end).
  rewrite IH by discriminate. reflexivity.
Qed.

Lemma In_removelast : forall (A : Type) (l : list A) x, In x (removelast l) -> In x l.
Proof.
  induction l as [|a r IH]; cbn; intros x H; auto.
  destruct r; [contradiction|]. destruct H as [H|H]; auto.
Qed.

(* ------------------------------------------------------------------ join and components *)
Lemma components_join : forall out, out <> [] -> (forall p, In p out -> sepfree is_sep p) ->
  components (join out) = out.
Proof.
  unfold components.
  induction out as [|x r IH]; intros H S; [contradiction|].
  destruct r as [|y r'].
  - cbn [join]. unfold split_on. rewrite split1_nosep; auto. apply S; left; auto.
  - change (join (x :: y :: r')) with (x ++ c_slash :: join (y :: r')).
    unfold split_on at 1. rewrite split1_app; auto.
    + rewrite IH; auto. discriminate. intros p Hp. apply S. right; auto.
    + apply S; left; auto.
Qed.

Lemma join_first : forall x r, join (x :: r) = x \/ exists rest, join (x :: r) = x ++ c_slash :: rest.
Proof. intros. destruct r; [left; auto| right; eexists; reflexivity]. Qed.

(* ------------------------------------------------------------------ collapse / walk *)
Lemma collapse_In : forall l acc out, collapse acc l = Some out ->
  forall x, In x out -> In x acc \/ (In x l /\ text_eqb x dotdot = false).
Proof.
  induction l as [|c r IH]; cbn [collapse]; intros acc out H x Hx.
  - inversion H; subst. left. apply in_rev; auto.
  - destruct (text_eqb c dotdot) eqn:E.
    + destruct acc as [|a acc']; [discriminate|].
      destruct (IH _ _ H x Hx) as [A|[A B]]; [left; right; auto| right; split; auto; right; auto].
    + destruct (IH _ _ H x Hx) as [[A|A]|[A B]].
      * subst. right. split; auto. left; auto.
      * left; auto.
      * right. split; auto. right; auto.
Qed.

Lemma walk_filter : forall l st, walk st l = walk st (filter (fun c => negb (trivial c)) l).
Proof.
  induction l as [|c r IH]; intro st; cbn [walk filter]; auto.
  destruct (trivial c) eqn:T; cbn [negb].
  - apply IH.
  - cbn [walk]. rewrite T. destruct (text_eqb c dotdot).
    + destruct st; auto.
    + apply IH.
Qed.

Lemma walk_app : forall l1 l2 st,
  walk st (l1 ++ l2) = match walk st l1 with Some s => walk s l2 | None => None end.
Proof.
  induction l1 as [|c r IH]; intros l2 st; cbn [app walk]; auto.
  destruct (trivial c); auto. destruct (text_eqb c dotdot); auto. destruct st; auto.
Qed.

Lemma collapse_walk : forall l acc, (forall c, In c l -> trivial c = false) ->
  collapse acc l = option_map (@rev text) (walk acc l).
Proof.
  induction l as [|c r IH]; intros acc H; cbn [collapse walk]; auto.
  rewrite (H c) by (left; auto).
  destruct (text_eqb c dotdot).
  - destruct acc; auto. apply IH. intros; apply H; right; auto.
  - apply IH. intros; apply H; right; auto.
Qed.

Lemma walk_In : forall l st st', walk st l = Some st' ->
  forall x, In x st' -> In x st \/ (In x l /\ trivial x = false /\ text_eqb x dotdot = false).
Proof.
  induction l as [|c r IH]; cbn [walk]; intros st st' H x Hx.
  - inversion H; subst. auto.
  - destruct (trivial c) eqn:T.
    + destruct (IH _ _ H x Hx) as [A|[A B]]; auto. right. split; auto. right; auto.
    + destruct (text_eqb c dotdot) eqn:E.
      * destruct st as [|a s]; [discriminate|].
        destruct (IH _ _ H x Hx) as [A|[A B]]; [left; right; auto|]. right. split; auto. right; auto.
      * destruct (IH _ _ H x Hx) as [[A|A]|[A B]].
        -- subst. right. split; [left; auto|]. auto.
        -- auto.
        -- right. split; auto. right; auto.
Qed.

(* ------------------------------------------------------------------ navigate in normal form *)
Lemma split_on_nonnil : forall f s, split_on f s <> [].
Proof. intros. unfold split_on. destruct (split1 f s). discriminate. Qed.

Lemma navigate_nonstd : forall cur rel, is_std_path rel = false ->
  navigate cur rel =
    let comps := if absolute rel then [] else retain_components (dir_components cur) in
    let relf := filter (fun s => negb (trivial s)) (components rel) in
    if is_nil relf then RErr
    else match collapse [] (comps ++ relf) with
         | None => RErr
         | Some out =>
             let name := join out in
             if is_nil out || text_eqb name [] || text_eqb name dot || text_eqb name [c_slash]
             then RErr else ROk name
         end.
Proof.
  intros cur rel H. unfold navigate. rewrite H.
  rewrite !split_on_replace. rewrite remove_last_removelast by apply split_on_nonnil.
  rewrite starts_with_slash_replace.
  unfold dir_components, components.
  assert (E : filter (fun s => negb (is_empty s) && negb (text_eqb s dot)) (split_on is_sep rel)
            = filter (fun s => negb (trivial s)) (split_on is_sep rel)).
  { apply filter_ext. intro a. unfold trivial. rewrite negb_orb. auto. }
  rewrite E. cbv zeta. destruct (absolute rel); reflexivity.
Qed.

Lemma navigate_no_panic : forall cur rel, navigate cur rel <> RPanic /\ navigate cur rel <> RFuel.
Proof.
  intros. destruct (is_std_path rel) eqn:S.
  - unfold navigate. rewrite S. destruct (existsb _ _); split; discriminate.
  - rewrite navigate_nonstd by auto. cbv zeta.
    destruct (is_nil _); [split; discriminate|].
    destruct (collapse _ _); [|split; discriminate].
    destruct (_ || _); split; discriminate.
Qed.

(* the directory components of a relative current path, after the retain step, are non-empty *)
Lemma retain_dir_nonempty : forall cur, absolute cur = false ->
  forall c, In c (retain_components (dir_components cur)) -> is_empty c = false.
Proof.
  intros cur A c H. unfold dir_components, components, split_on in H.
  destruct cur as [|x r].
  - cbn in H. contradiction.
  - cbn [split1] in H. cbn [absolute] in A. rewrite A in H.
    destruct (split1 is_sep r) as [h t].
    destruct t as [|t0 t'].
    + cbn in H. contradiction.
    + change (removelast ((x :: h) :: t0 :: t')) with ((x :: h) :: removelast (t0 :: t')) in H.
      cbn [retain_components] in H. destruct H as [<-|H]; auto.
      apply filter_In in H. destruct H as [_ H]. apply negb_true_iff in H. auto.
Qed.

Lemma In_retain : forall l c, In c (retain_components l) -> In c l.
Proof.
  destruct l as [|h t]; cbn; auto. intros c [H|H]; auto. right. apply filter_In in H. tauto.
Qed.

Lemma In_dir_components : forall cur c, In c (dir_components cur) -> sepfree is_sep c.
Proof.
  intros cur c H. apply In_removelast in H. eapply split_on_sepfree; eauto.
Qed.

(* every component that navigate puts into its answer, for a relative current path *)
Lemma navigate_out_components : forall cur rel out,
  absolute cur = false ->
  collapse [] ((if absolute rel then [] else retain_components (dir_components cur)) ++
               filter (fun s => negb (trivial s)) (components rel)) = Some out ->
  forall c, In c out ->
    sepfree is_sep c /\ is_empty c = false /\ text_eqb c dotdot = false /\
    (no_dot_dir cur = true -> text_eqb c dot = false).
Proof.
  intros cur rel out A H c Hc.
  destruct (collapse_In _ _ _ H c Hc) as [[]|[I D]].
  apply in_app_or in I. destruct I as [I|I].
  - assert (I' : In c (retain_components (dir_components cur))) by (destruct (absolute rel); [contradiction|auto]).
    split; [|split; [|split]]; auto.
    + apply In_dir_components with cur. apply In_retain; auto.
    + apply retain_dir_nonempty with cur; auto.
    + intro ND. unfold no_dot_dir in ND. rewrite forallb_forall in ND.
      apply negb_true_iff. apply ND. apply In_retain; auto.
  - apply filter_In in I. destruct I as [I T]. apply negb_true_iff in T.
    unfold trivial in T. apply orb_false_iff in T. destruct T as [T1 T2].
    split; [|split; [|split]]; auto.
    eapply split_on_sepfree; eauto.
Qed.

Lemma absolute_join : forall x r, is_empty x = false -> sepfree is_sep x -> absolute (join (x :: r)) = false.
Proof.
  intros x r E S. destruct x as [|a x']; [discriminate|].
  assert (is_sep a = false) by (apply S; left; auto).
  destruct (join_first (a :: x') r) as [-> | [rest ->]]; cbn [absolute app]; auto.
Qed.

(* C14_confined *)
Lemma navigate_confined : forall cur rel p,
  absolute cur = false -> is_std_path rel = false -> navigate cur rel = ROk p ->
  no_escape p = true /\ (no_dot_dir cur = true -> confined p = true).
Proof.
  intros cur rel p A S H. rewrite navigate_nonstd in H by auto. cbv zeta in H.
  destruct (is_nil (filter _ _)); [discriminate|].
  destruct (collapse [] _) as [out|] eqn:C; [|discriminate].
  destruct (is_nil out) eqn:N; [discriminate|]. cbn [orb] in H.
  destruct (_ || _); [discriminate|]. inversion H; subst p. clear H.
  pose proof (navigate_out_components _ _ _ A C) as P.
  destruct out as [|x r]; [discriminate|].
  assert (CJ : components (join (x :: r)) = x :: r).
  { apply components_join; [discriminate|]. intros q Hq. apply P; auto. }
  assert (NE : no_escape (join (x :: r)) = true).
  { unfold no_escape. rewrite CJ. rewrite absolute_join; try apply P; try (left; auto).
    cbn [negb andb]. apply forallb_forall. intros c Hc. destruct (P c Hc) as (_ & E & D & _).
    rewrite E, D. reflexivity. }
  split; auto. intro ND. unfold confined. rewrite NE. cbn [andb]. rewrite CJ.
  apply forallb_forall. intros c Hc. destruct (P c Hc) as (_ & _ & _ & D). rewrite D; auto.
Qed.

(* C14_std *)
Lemma navigate_std : forall cur rel, is_std_path rel = true ->
  (navigate cur rel = RErr /\ existsb (fun c => text_eqb c dotdot) (components rel) = true) \/
  (navigate cur rel = ROk rel /\ forallb (fun c => negb (text_eqb c dotdot)) (components rel) = true).
Proof.
  intros cur rel S. unfold navigate. rewrite S. fold (components rel).
  destruct (existsb _ (components rel)) eqn:E; [left; auto|right]. split; auto.
  apply forallb_forall. intros c Hc. apply negb_true_iff.
  destruct (text_eqb c dotdot) eqn:D; auto.
  assert (existsb (fun c => text_eqb c dotdot) (components rel) = true) by (apply existsb_exists; eauto).
  congruence.
Qed.

Lemma navigate_std_spec : forall cur rel, is_std_path rel = true ->
  navigate cur rel = match spec_navigate cur rel with Some p => ROk p | None => RErr end.
Proof.
  intros. unfold navigate, spec_navigate. rewrite H. fold (components rel).
  destruct (existsb _ _); auto.
Qed.

(* ------------------------------------------------------------------ reference normaliser *)
Lemma is_nil_filter_forallb : forall (l : list text),
  is_nil (filter (fun s => negb (trivial s)) l) = forallb trivial l.
Proof.
  induction l as [|c r IH]; cbn [filter forallb is_nil]; auto.
  destruct (trivial c); cbn [negb andb]; auto.
Qed.

Lemma dir_shape : forall cur, absolute cur = false ->
  dir_components cur = [] \/ exists h t, dir_components cur = h :: t /\ is_empty h = false.
Proof.
  intros cur A. unfold dir_components, components, split_on.
  destruct cur as [|x r]; [left; reflexivity|].
  cbn [split1]. cbn [absolute] in A. rewrite A. destruct (split1 is_sep r) as [h t].
  destruct t as [|t0 t']; [left; reflexivity|right].
  exists (x :: h), (removelast (t0 :: t')). split; auto.
Qed.

Lemma retain_filter : forall cur, absolute cur = false -> no_dot_dir cur = true ->
  retain_components (dir_components cur) = filter (fun c => negb (trivial c)) (dir_components cur).
Proof.
  intros cur A ND. unfold no_dot_dir in ND. rewrite forallb_forall in ND.
  destruct (dir_shape cur A) as [E|(h & t & E & NE)]; rewrite E in *; [reflexivity|].
  cbn [retain_components filter]. unfold trivial at 1. rewrite NE.
  assert (D : text_eqb h dot = false) by (apply negb_true_iff; apply ND; left; auto).
  rewrite D. cbn [orb negb]. f_equal.
  apply filter_ext_in. intros c Hc. unfold trivial.
  assert (D' : text_eqb c dot = false) by (apply negb_true_iff; apply ND; right; auto).
  rewrite D'. rewrite orb_false_r. reflexivity.
Qed.

Lemma join_proper : forall out, out <> [] ->
  (forall c, In c out -> sepfree is_sep c /\ is_empty c = false /\ text_eqb c dot = false) ->
  text_eqb (join out) [] = false /\ text_eqb (join out) dot = false /\ text_eqb (join out) [c_slash] = false.
Proof.
  intros out NE P. destruct out as [|x r]; [contradiction|].
  destruct (P x (or_introl eq_refl)) as (S & E & D).
  destruct x as [|a x']; [discriminate|].
  destruct r as [|y r'].
  - cbn [join]. repeat split; auto.
    apply text_eqb_neq. intro X. inversion X; subst.
    assert (is_sep c_slash = false) by (apply S; left; auto). discriminate.
  - change (join ((a :: x') :: y :: r')) with ((a :: x') ++ c_slash :: join (y :: r')).
    repeat split; apply text_eqb_neq; intro X; apply (f_equal (@length N)) in X;
      rewrite app_length in X; unfold dot in X; cbn [length] in X; lia.
Qed.

Lemma navigate_spec_rel : forall cur rel, absolute cur = false -> no_dot_dir cur = true ->
  navigate cur rel = match spec_navigate cur rel with Some p => ROk p | None => RErr end.
Proof.
  intros cur rel A ND. destruct (is_std_path rel) eqn:S; [apply navigate_std_spec; auto|].
  rewrite navigate_nonstd by auto. unfold spec_navigate. rewrite S. cbv zeta.
  rewrite is_nil_filter_forallb. destruct (forallb trivial (components rel)) eqn:T; auto.
  rewrite A. cbn [andb app].
  set (relf := filter (fun s => negb (trivial s)) (components rel)).
  set (comps := if absolute rel then [] else retain_components (dir_components cur)).
  assert (NT : forall c, In c (comps ++ relf) -> trivial c = false).
  { intros c Hc. apply in_app_or in Hc. destruct Hc as [Hc|Hc].
    - subst comps. destruct (absolute rel); [contradiction|].
      rewrite retain_filter in Hc by auto. apply filter_In in Hc. apply negb_true_iff. tauto.
    - subst relf. apply filter_In in Hc. apply negb_true_iff. tauto. }
  rewrite collapse_walk by auto. rewrite walk_app.
  assert (W1 : walk [] comps = if absolute rel then Some [] else walk [] (dir_components cur)).
  { subst comps. destruct (absolute rel); auto. rewrite retain_filter by auto. symmetry. apply walk_filter. }
  rewrite W1.
  destruct (if absolute rel then Some [] else walk [] (dir_components cur)) as [st|] eqn:W0; [|reflexivity].
  subst relf. rewrite <- walk_filter.
  destruct (walk st (components rel)) as [st'|] eqn:W2; [|reflexivity].
  cbn [option_map]. destruct st' as [|s0 sr]; [reflexivity|].
  assert (NN : is_nil (rev (s0 :: sr)) = false).
  { destruct (rev (s0 :: sr)) eqn:R; auto. apply (f_equal (@length text)) in R. rewrite rev_length in R. discriminate. }
  rewrite NN. cbn [orb].
  assert (P : forall c, In c (rev (s0 :: sr)) -> sepfree is_sep c /\ is_empty c = false /\ text_eqb c dot = false).
  { intros c Hc. apply in_rev in Hc.
    assert (Q : forall c, In c st -> sepfree is_sep c /\ is_empty c = false /\ text_eqb c dot = false).
    { intros d Hd. destruct (absolute rel).
      - inversion W0; subst. contradiction.
      - destruct (walk_In _ _ _ W0 d Hd) as [[]|(I & T1 & _)].
        unfold trivial in T1. apply orb_false_iff in T1. split; [|tauto].
        eapply In_dir_components; eauto. }
    destruct (walk_In _ _ _ W2 c Hc) as [I|(I & T1 & _)]; auto.
    unfold trivial in T1. apply orb_false_iff in T1. split; [|tauto].
    eapply split_on_sepfree; eauto. }
  destruct (join_proper (rev (s0 :: sr))) as (J1 & J2 & J3); auto.
  { intro R. rewrite R in NN. discriminate. }
  rewrite J1, J2, J3. reflexivity.
Qed.

(* `..` past the start is rejected, in terms of the walk alone *)
Lemma navigate_escape_rejected : forall cur rel, absolute cur = false -> no_dot_dir cur = true ->
  is_std_path rel = false -> absolute rel = false ->
  (match walk [] (dir_components cur) with Some st => walk st (components rel) | None => None end) = None ->
  navigate cur rel = RErr.
Proof.
  intros cur rel A ND S AR W. rewrite navigate_spec_rel by auto. unfold spec_navigate.
  rewrite S, AR. destruct (forallb trivial (components rel)); auto.
  destruct (walk [] (dir_components cur)); auto. rewrite W. auto.
Qed.

(* the two places where the implementation leaves the reference normaliser (findings) *)
Lemma navigate_dot_refuted :
  exists cur rel, absolute cur = false /\ spec_navigate cur rel = None /\ navigate cur rel = ROk [97].
Proof. exists [46; 47; 109], [46; 46; 47; 97]. repeat split. Qed.

Lemma navigate_abs_refuted :
  exists cur rel, no_dot_dir cur = true /\ spec_navigate cur rel = None /\ navigate cur rel = ROk [97].
Proof. exists [47; 109], [46; 46; 47; 97]. repeat split. Qed.
