(* Lemmas about the depth counters of Model/Limits.v (C19): the counters never exceed their limit, nesting beyond the
   limit is an error, the native recursion depth equals the counter where every recursive edge is counted -- and
   the three places where it is not (left-associative chains at evaluation, nested asm blocks, #elif chains). *)
From Coq Require Import ZArith List Bool Lia ZifyBool.
From CA Require Import Model.Overlap Model.Limits.
Import ListNotations.
Open Scope Z_scope.

(* ------------------------------------------------------------------ induction principles (nested lists) *)
Section sk_induction.
  Variable P : sk -> Prop.
  Hypothesis HL : P SLeaf.
  Hypothesis HN : forall cs, Forall P cs -> P (SNest cs).
  Hypothesis HU : forall c, P c -> P (SUnary c).
  Hypothesis HC : forall cs, Forall P cs -> P (SChain cs).
  Hypothesis HA : forall ls, Forall P ls -> P (SAsm ls).
  Hypothesis HI : forall ls, Forall P ls -> P (SIf ls).
  Fixpoint sk_ind' (s : sk) : P s :=
    let fix go (l : list sk) : Forall P l :=
        match l with [] => Forall_nil P | c :: r => Forall_cons c (sk_ind' c) (go r) end in
    match s with
    | SLeaf => HL
    | SNest cs => HN cs (go cs)
    | SUnary c => HU c (sk_ind' c)
    | SChain cs => HC cs (go cs)
    | SAsm ls => HA ls (go ls)
    | SIf ls => HI ls (go ls)
    end.
End sk_induction.

Section ev_induction.
  Variable P : ev -> Prop.
  Hypothesis HL : P VLeaf.
  Hypothesis HS : forall l, Forall P l -> P (VSeq l).
  Hypothesis HC : forall b, P b -> P (VCall b).
  Hypothesis HA : forall l, Forall P l -> P (VAsm l).
  Fixpoint ev_ind' (e : ev) : P e :=
    let fix go (l : list ev) : Forall P l :=
        match l with [] => Forall_nil P | c :: r => Forall_cons c (ev_ind' c) (go r) end in
    match e with
    | VLeaf => HL
    | VSeq l => HS l (go l)
    | VCall b => HC b (ev_ind' b)
    | VAsm l => HA l (go l)
    end.
End ev_induction.

Lemma list_max_nonneg l : 0 <= list_max l.
Proof. induction l; cbn [list_max]; lia. Qed.
Lemma existsb_false_Forall {A} (f : A -> bool) l : existsb f l = false -> Forall (fun x => f x = false) l.
Proof. induction l; cbn [existsb]; intros H; constructor; destruct (f a) eqn:E; try discriminate; auto. Qed.

(* ------------------------------------------------------------------ all_max *)
Lemma all_max_ge {A} (f : A -> res (Z * Z)) l acc r : all_max f l acc = Ok r -> fst acc <= fst r /\ snd acc <= snd r.
Proof.
  revert acc. induction l as [|c l IH]; intros acc H; cbn [all_max] in H.
  - inversion H; subst. lia.
  - destruct (f c) as [m| |]; try discriminate. apply IH in H. unfold pmax in H. cbn [fst snd] in H. lia.
Qed.
Lemma all_max_le {A} (f : A -> res (Z * Z)) bound l acc r :
  Forall (fun c => forall m, f c = Ok m -> fst m <= bound) l -> fst acc <= bound -> all_max f l acc = Ok r -> fst r <= bound.
Proof.
  revert acc. induction l as [|c l IH]; intros acc HF Ha H; cbn [all_max] in H.
  - inversion H; subst. exact Ha.
  - inversion HF; subst. destruct (f c) as [m| |] eqn:E; try discriminate.
    apply (IH (pmax acc m)); auto. unfold pmax. cbn [fst]. specialize (H2 m eq_refl). lia.
Qed.
(* every child behaves like "Ok (d + g c, nd + g c) if that stays within the limit, else Err" *)
Lemma all_max_exact {A} (g : A -> Z) (f : A -> res (Z * Z)) limit d nd cs a :
  0 <= a -> d + a <= limit ->
  Forall (fun c => 0 <= g c /\ f c = if d + g c <=? limit then Ok (d + g c, nd + g c) else Err) cs ->
  all_max f cs (d + a, nd + a) =
  let k := Z.max a (list_max (map g cs)) in if d + k <=? limit then Ok (d + k, nd + k) else Err.
Proof.
  revert a. induction cs as [|c cs IH]; intros a Ha Hl HF; cbn [all_max map list_max].
  - cbn zeta. replace (Z.max a 0) with a by lia. replace (d + a <=? limit) with true by lia. reflexivity.
  - inversion HF as [|? ? (Hg & Hc) HF']; subst. rewrite Hc.
    pose proof (list_max_nonneg (map g cs)) as Hn.
    destruct (d + g c <=? limit) eqn:E.
    + unfold pmax. cbn [fst snd].
      replace (Z.max (d + a) (d + g c)) with (d + Z.max a (g c)) by lia.
      replace (Z.max (nd + a) (nd + g c)) with (nd + Z.max a (g c)) by lia.
      rewrite IH by (auto; lia). cbn zeta.
      replace (Z.max (Z.max a (g c)) (list_max (map g cs))) with (Z.max a (Z.max (g c) (list_max (map g cs)))) by lia.
      reflexivity.
    + cbn zeta. replace (d + Z.max a (Z.max (g c) (list_max (map g cs))) <=? limit) with false by lia. reflexivity.
Qed.

(* ------------------------------------------------------------------ expression parser + block counter *)
Lemma all_max_inv {A} (f : A -> res (Z * Z)) (Q : Z * Z -> Prop) l acc r :
  (forall a b, Q a -> Q b -> Q (pmax a b)) -> Q acc ->
  Forall (fun c => forall m, f c = Ok m -> Q m) l -> all_max f l acc = Ok r -> Q r.
Proof.
  intros HQ. revert acc. induction l as [|c l IH]; intros acc Ha HF H; cbn [all_max] in H.
  - inversion H; subst. exact Ha.
  - inversion HF; subst. destruct (f c) as [m| |] eqn:E; try discriminate.
    apply (IH (pmax acc m)); auto.
Qed.
Lemma all_max_no_panic {A} (f : A -> res (Z * Z)) l acc : Forall (fun c => f c <> Panic) l -> all_max f l acc <> Panic.
Proof.
  revert acc. induction l as [|c l IH]; intros acc HF; cbn [all_max]; [discriminate|].
  inversion HF; subst. destruct (f c); try congruence; try discriminate. apply IH; auto.
Qed.
Lemma all_max_err {A} (f : A -> res (Z * Z)) l acc :
  Forall (fun c => f c <> Panic) l -> Exists (fun c => f c = Err) l -> all_max f l acc = Err.
Proof.
  revert acc. induction l as [|c l IH]; intros acc HF HE; [inversion HE|]. cbn [all_max].
  inversion HF; subst. inversion HE; subst.
  - rewrite H0. reflexivity.
  - destruct (f c); try congruence; try reflexivity. apply IH; auto.
Qed.

Lemma pwalk_nest limit bd d nd cs : pwalk limit bd d nd (SNest cs) =
  if d + 1 >? limit then Err else all_max (pwalk limit bd (d + 1) (nd + 1)) cs (d + 1, nd + 1).
Proof. reflexivity. Qed.
Lemma pwalk_unary limit bd d nd c : pwalk limit bd d nd (SUnary c) = if d + 1 >? limit then Err else pwalk limit bd (d + 1) (nd + 1) c.
Proof. reflexivity. Qed.
Lemma pwalk_chain limit bd d nd cs : pwalk limit bd d nd (SChain cs) = all_max (pwalk limit bd d nd) cs (d, nd).
Proof. reflexivity. Qed.
Lemma pwalk_asm limit bd d nd ls : pwalk limit bd d nd (SAsm ls) =
  if bd >=? limit then Err else all_max (pwalk limit (bd + 1) d (nd + 1)) ls (d, nd + 1).
Proof. reflexivity. Qed.
Lemma pwalk_if limit bd d nd ls : pwalk limit bd d nd (SIf ls) =
  if bd >=? limit then Err else all_max (pwalk limit (bd + 1) d (nd + 1)) ls (d, nd + 1).
Proof. reflexivity. Qed.

Lemma pwalk_no_panic limit s : forall bd d nd, pwalk limit bd d nd s <> Panic.
Proof.
  induction s as [|cs IH|s IH|cs IH|ls IH|ls IH] using sk_ind'; intros bd d nd.
  - discriminate.
  - rewrite pwalk_nest. destruct (_ >? _); [discriminate|]. apply all_max_no_panic.
    eapply Forall_impl; [|exact IH]. cbn beta. auto.
  - rewrite pwalk_unary. destruct (_ >? _); [discriminate|]. apply IH.
  - rewrite pwalk_chain. apply all_max_no_panic. eapply Forall_impl; [|exact IH]. cbn beta. auto.
  - rewrite pwalk_asm. destruct (_ >=? _); [discriminate|]. apply all_max_no_panic.
    eapply Forall_impl; [|exact IH]. cbn beta. auto.
  - rewrite pwalk_if. destruct (_ >=? _); [discriminate|]. apply all_max_no_panic.
    eapply Forall_impl; [|exact IH]. cbn beta. auto.
Qed.

(* the counters never exceed the limit, on any skeleton; and the NATIVE nesting of counted frames (expression levels
   and blocks together) is LINEAR in the limit: both counters are cumulative, each bounds its own kind of frame *)
Lemma pwalk_bound limit : 0 <= limit -> forall s bd d nd c n, d <= limit -> bd <= limit ->
  pwalk limit bd d nd s = Ok (c, n) ->
  d <= c <= limit /\ nd <= n /\ n - nd <= (limit - d) + (limit - bd).
Proof.
  intros Hl s. induction s as [|cs IH|s IH|cs IH|ls IH|ls IH] using sk_ind'; intros bd d nd c n Hd Hb H.
  - cbn in H. inversion H; subst. lia.
  - rewrite pwalk_nest in H. destruct (d + 1 >? limit) eqn:E; [discriminate|].
    pose proof (all_max_ge _ _ _ _ H) as G. cbn [fst snd] in G.
    assert (Q : fst (c, n) <= limit /\ snd (c, n) - nd <= (limit - d) + (limit - bd)).
    { eapply (all_max_inv _ (fun m => fst m <= limit /\ snd m - nd <= (limit - d) + (limit - bd))); [| |  |exact H].
      - intros a b (A1 & A2) (B1 & B2). unfold pmax. cbn [fst snd]. lia.
      - cbn [fst snd]. lia.
      - eapply Forall_impl; [|exact IH]. cbn beta. intros x Hx [c' n'] Hm. cbn [fst snd].
        specialize (Hx bd (d + 1) (nd + 1) c' n' ltac:(lia) Hb Hm). lia. }
    cbn [fst snd] in Q. lia.
  - rewrite pwalk_unary in H. destruct (d + 1 >? limit) eqn:E; [discriminate|].
    apply IH in H; [|lia|lia]. lia.
  - rewrite pwalk_chain in H.
    pose proof (all_max_ge _ _ _ _ H) as G. cbn [fst snd] in G.
    assert (Q : fst (c, n) <= limit /\ snd (c, n) - nd <= (limit - d) + (limit - bd)).
    { eapply (all_max_inv _ (fun m => fst m <= limit /\ snd m - nd <= (limit - d) + (limit - bd))); [| |  |exact H].
      - intros a b (A1 & A2) (B1 & B2). unfold pmax. cbn [fst snd]. lia.
      - cbn [fst snd]. lia.
      - eapply Forall_impl; [|exact IH]. cbn beta. intros x Hx [c' n'] Hm. cbn [fst snd].
        specialize (Hx bd d nd c' n' Hd Hb Hm). lia. }
    cbn [fst snd] in Q. lia.
  - rewrite pwalk_asm in H. destruct (bd >=? limit) eqn:E; [discriminate|].
    pose proof (all_max_ge _ _ _ _ H) as G. cbn [fst snd] in G.
    assert (Q : fst (c, n) <= limit /\ snd (c, n) - nd <= (limit - d) + (limit - bd)).
    { eapply (all_max_inv _ (fun m => fst m <= limit /\ snd m - nd <= (limit - d) + (limit - bd))); [| |  |exact H].
      - intros a b (A1 & A2) (B1 & B2). unfold pmax. cbn [fst snd]. lia.
      - cbn [fst snd]. lia.
      - eapply Forall_impl; [|exact IH]. cbn beta. intros x Hx [c' n'] Hm. cbn [fst snd].
        specialize (Hx (bd + 1) d (nd + 1) c' n' Hd ltac:(lia) Hm). lia. }
    cbn [fst snd] in Q. lia.
  - rewrite pwalk_if in H. destruct (bd >=? limit) eqn:E; [discriminate|].
    pose proof (all_max_ge _ _ _ _ H) as G. cbn [fst snd] in G.
    assert (Q : fst (c, n) <= limit /\ snd (c, n) - nd <= (limit - d) + (limit - bd)).
    { eapply (all_max_inv _ (fun m => fst m <= limit /\ snd m - nd <= (limit - d) + (limit - bd))); [| |  |exact H].
      - intros a b (A1 & A2) (B1 & B2). unfold pmax. cbn [fst snd]. lia.
      - cbn [fst snd]. lia.
      - eapply Forall_impl; [|exact IH]. cbn beta. intros x Hx [c' n'] Hm. cbn [fst snd].
        specialize (Hx (bd + 1) d (nd + 1) c' n' Hd ltac:(lia) Hm). lia. }
    cbn [fst snd] in Q. lia.
Qed.

Lemma list_max_exists_sk (g : sk -> Z) l : 0 < list_max (map g l) -> Exists (fun c => g c = list_max (map g l)) l.
Proof.
  induction l as [|c l IH]; cbn [map list_max]; intros H; [lia|].
  destruct (Z.max_spec (g c) (list_max (map g l))) as [(Hlt & ->)|(Hge & ->)].
  - right. apply IH. pose proof (list_max_nonneg (map g l)). lia.
  - left. reflexivity.
Qed.
(* #if blocks and asm blocks share ONE limit: whatever the interleaving (and whatever expressions sit in between),
   more than `limit` nested blocks are an error *)
Lemma pwalk_rejects_blocks limit s : forall bd d nd, bd <= limit -> limit < bd + block_depth s ->
  pwalk limit bd d nd s = Err.
Proof.
  induction s as [|cs IH|s IH|cs IH|ls IH|ls IH] using sk_ind'; intros bd d nd Hb H; cbn [block_depth] in H.
  - lia.
  - rewrite pwalk_nest. destruct (_ >? _); [reflexivity|]. apply all_max_err.
    + rewrite Forall_forall. intros x _. apply pwalk_no_panic.
    + assert (Hp : 0 < list_max (map block_depth cs)) by lia.
      apply list_max_exists_sk in Hp. rewrite Exists_exists in *. destruct Hp as (x & Hin & Hx).
      exists x. split; [exact Hin|]. rewrite Forall_forall in IH. apply IH; auto. lia.
  - rewrite pwalk_unary. destruct (_ >? _); [reflexivity|]. apply IH; auto.
  - rewrite pwalk_chain. apply all_max_err.
    + rewrite Forall_forall. intros x _. apply pwalk_no_panic.
    + assert (Hp : 0 < list_max (map block_depth cs)) by lia.
      apply list_max_exists_sk in Hp. rewrite Exists_exists in *. destruct Hp as (x & Hin & Hx).
      exists x. split; [exact Hin|]. rewrite Forall_forall in IH. apply IH; auto. lia.
  - rewrite pwalk_asm. destruct (bd >=? limit) eqn:E; [reflexivity|]. apply all_max_err.
    + rewrite Forall_forall. intros x _. apply pwalk_no_panic.
    + assert (Hp : 0 < list_max (map block_depth ls)) by lia.
      apply list_max_exists_sk in Hp. rewrite Exists_exists in *. destruct Hp as (x & Hin & Hx).
      exists x. split; [exact Hin|]. rewrite Forall_forall in IH. apply IH; auto; lia.
  - rewrite pwalk_if. destruct (bd >=? limit) eqn:E; [reflexivity|]. apply all_max_err.
    + rewrite Forall_forall. intros x _. apply pwalk_no_panic.
    + assert (Hp : 0 < list_max (map block_depth ls)) by lia.
      apply list_max_exists_sk in Hp. rewrite Exists_exists in *. destruct Hp as (x & Hin & Hx).
      exists x. split; [exact Hin|]. rewrite Forall_forall in IH. apply IH; auto; lia.
Qed.

(* without blocks the parser's behaviour is decided by the counted nesting alone, and the native nesting of
   counted frames moves in lock-step with the counter *)
Lemma pwalk_exact limit bd s : has_asm s = false ->
  0 <= counted_depth s /\
  forall d nd, d <= limit ->
    pwalk limit bd d nd s = if d + counted_depth s <=? limit then Ok (d + counted_depth s, nd + counted_depth s) else Err.
Proof.
  induction s as [|cs IH|s IH|cs IH|ls IH|ls IH] using sk_ind'; cbn [has_asm counted_depth]; intros Hasm.
  - split; [lia|]. intros d nd Hd. cbn [pwalk]. replace (d + 0 <=? limit) with true by lia. do 2 f_equal; lia.
  - apply existsb_false_Forall in Hasm.
    assert (HF : Forall (fun c => 0 <= counted_depth c /\ forall d nd, d <= limit -> pwalk limit bd d nd c =
                  if d + counted_depth c <=? limit then Ok (d + counted_depth c, nd + counted_depth c) else Err) cs).
    { rewrite Forall_forall in *. intros x Hx. apply IH; auto. }
    pose proof (list_max_nonneg (map counted_depth cs)) as Hn. split; [lia|].
    intros d nd Hd. rewrite pwalk_nest. destruct (d + 1 >? limit) eqn:E.
    + replace (d + (1 + list_max (map counted_depth cs)) <=? limit) with false by lia. reflexivity.
    + replace (d + 1, nd + 1) with (d + 1 + 0, nd + 1 + 0) by (f_equal; lia).
      rewrite (all_max_exact counted_depth) with (limit := limit); try lia.
      2:{ eapply Forall_impl; [|exact HF]. cbn beta. intros x (H0 & Hx). split; [exact H0|]. apply Hx. lia. }
      cbn zeta. replace (Z.max 0 (list_max (map counted_depth cs))) with (list_max (map counted_depth cs)) by lia.
      replace (d + 1 + list_max (map counted_depth cs)) with (d + (1 + list_max (map counted_depth cs))) by lia.
      replace (nd + 1 + list_max (map counted_depth cs)) with (nd + (1 + list_max (map counted_depth cs))) by lia.
      reflexivity.
  - destruct (IH Hasm) as (H0 & Hx). split; [lia|]. intros d nd Hd. rewrite pwalk_unary. destruct (d + 1 >? limit) eqn:E.
    + replace (d + (1 + counted_depth s) <=? limit) with false by lia. reflexivity.
    + rewrite Hx by lia.
      replace (d + 1 + counted_depth s) with (d + (1 + counted_depth s)) by lia.
      replace (nd + 1 + counted_depth s) with (nd + (1 + counted_depth s)) by lia. reflexivity.
  - apply existsb_false_Forall in Hasm.
    assert (HF : Forall (fun c => 0 <= counted_depth c /\ forall d nd, d <= limit -> pwalk limit bd d nd c =
                  if d + counted_depth c <=? limit then Ok (d + counted_depth c, nd + counted_depth c) else Err) cs).
    { rewrite Forall_forall in *. intros x Hx. apply IH; auto. }
    pose proof (list_max_nonneg (map counted_depth cs)) as Hn. split; [lia|].
    intros d nd Hd. rewrite pwalk_chain.
    replace (d, nd) with (d + 0, nd + 0) by (f_equal; lia).
    rewrite (all_max_exact counted_depth) with (limit := limit); try lia.
    2:{ eapply Forall_impl; [|exact HF]. cbn beta. intros x (H0 & Hx). split; [exact H0|]. apply Hx. lia. }
    cbn zeta. replace (Z.max 0 (list_max (map counted_depth cs))) with (list_max (map counted_depth cs)) by lia.
    reflexivity.
  - discriminate.
  - discriminate.
Qed.
Lemma parse_top_exact limit s : has_asm s = false -> 0 <= limit ->
  parse_top limit s = if 1 + counted_depth s <=? limit then Ok (1 + counted_depth s, 1 + counted_depth s) else Err.
Proof.
  intros Ha Hl. unfold parse_top.
  assert (Ha' : has_asm (SNest [s]) = false) by (cbn; rewrite Ha; reflexivity).
  destruct (pwalk_exact limit 0 (SNest [s]) Ha') as (_ & H). rewrite H by lia.
  cbn [counted_depth map list_max]. destruct (pwalk_exact limit 0 s Ha) as (H0 & _).
  replace (0 + (1 + Z.max (counted_depth s) 0)) with (1 + counted_depth s) by lia. reflexivity.
Qed.
Lemma parse_top_bound limit s c n : 0 <= limit -> parse_top limit s = Ok (c, n) -> c <= limit /\ n <= 2 * limit.
Proof. intros Hl H. apply (pwalk_bound limit Hl) in H; lia. Qed.

Lemma nest_paren_facts n : has_asm (nest_paren n) = false /\ counted_depth (nest_paren n) = Z.of_nat n.
Proof.
  induction n as [|k (IH1 & IH2)]; [split; reflexivity|]. cbn [nest_paren has_asm counted_depth existsb map list_max].
  rewrite IH1, IH2. split; [reflexivity|lia].
Qed.
Lemma nest_unary_facts n : has_asm (nest_unary n) = false /\ counted_depth (nest_unary n) = Z.of_nat n.
Proof.
  induction n as [|k (IH1 & IH2)]; [split; reflexivity|]. cbn [nest_unary has_asm counted_depth].
  rewrite IH2. split; [exact IH1|lia].
Qed.
Lemma leaves_facts n : existsb has_asm (leaves n) = false /\ list_max (map counted_depth (leaves n)) = 0.
Proof. unfold leaves. induction n as [|k (IH1 & IH2)]; [split; reflexivity|]. cbn. rewrite IH1, IH2. split; reflexivity. Qed.

(* F11: a left-associative chain of n operators is parsed with the counter at 1 (the loop is iterative) ... *)
Lemma chain_parse limit n : 1 <= limit -> parse_top limit (SChain (leaves (S n))) = Ok (1, 1).
Proof.
  intros Hl. destruct (leaves_facts (S n)) as (H1 & H2). rewrite parse_top_exact by (cbn [has_asm]; auto; lia).
  cbn [counted_depth]. rewrite H2. replace (1 + 0 <=? limit) with true by lia. reflexivity.
Qed.
(* ... while the tree it builds, hence the evaluator's (and the destructor's) recursion, has depth n + 1 *)
Lemma chain_height_ones n acc : 1 <= acc -> chain_height (repeat 1 n) acc = acc + Z.of_nat n.
Proof.
  revert acc. induction n as [|k IH]; intros acc Ha; cbn [repeat chain_height]; [lia|].
  rewrite IH by lia. lia.
Qed.
Lemma chain_eval_depth n : eval_recursion_depth (SChain (leaves (S n))) = Z.of_nat n + 1.
Proof.
  unfold eval_recursion_depth, leaves. cbn [ast_height repeat map].
  replace (map ast_height (repeat SLeaf n)) with (repeat 1 n) by (induction n; cbn; congruence).
  rewrite chain_height_ones; lia.
Qed.
(* asm blocks nested through line expressions (x = asm { x = asm { ... } }): every level costs one expression level
   and one block level, both cumulative: exactly `limit` levels are accepted *)
Lemma nest_asm_walk limit n : forall bd d nd, bd <= limit -> d <= limit ->
  pwalk limit bd d nd (nest_asm n) =
  if (d + Z.of_nat n <=? limit) && (bd + Z.of_nat n <=? limit) then Ok (d + Z.of_nat n, nd + 2 * Z.of_nat n) else Err.
Proof.
  induction n as [|k IH]; intros bd d nd Hb Hd.
  - cbn. replace ((d + 0 <=? limit) && (bd + 0 <=? limit)) with true by lia. do 2 f_equal; lia.
  - cbn [nest_asm]. rewrite pwalk_nest. destruct (d + 1 >? limit) eqn:E0.
    { replace ((d + Z.of_nat (S k) <=? limit) && (bd + Z.of_nat (S k) <=? limit)) with false by lia. reflexivity. }
    cbn [all_max]. rewrite pwalk_asm. destruct (bd >=? limit) eqn:E.
    + replace ((d + Z.of_nat (S k) <=? limit) && (bd + Z.of_nat (S k) <=? limit)) with false by lia. reflexivity.
    + cbn [all_max]. rewrite IH by lia.
      destruct ((d + 1 + Z.of_nat k <=? limit) && (bd + 1 + Z.of_nat k <=? limit)) eqn:E2.
      * replace ((d + Z.of_nat (S k) <=? limit) && (bd + Z.of_nat (S k) <=? limit)) with true by lia.
        unfold pmax. cbn [fst snd]. do 2 f_equal; lia.
      * replace ((d + Z.of_nat (S k) <=? limit) && (bd + Z.of_nat (S k) <=? limit)) with false by lia. reflexivity.
Qed.
Lemma nest_asm_lines limit n : 0 <= limit ->
  parse_lines limit [nest_asm n] = if Z.of_nat n <=? limit then Ok (Z.of_nat n, 2 * Z.of_nat n) else Err.
Proof.
  intros Hl. unfold parse_lines. cbn [all_max]. rewrite nest_asm_walk by lia.
  replace ((0 + Z.of_nat n <=? limit) && (0 + Z.of_nat n <=? limit)) with (Z.of_nat n <=? limit) by lia.
  destruct (_ <=? _); [|reflexivity]. unfold pmax. cbn [fst snd]. do 2 f_equal; lia.
Qed.

(* ------------------------------------------------------------------ #if blocks *)
Scheme blk_mut := Induction for blk Sort Prop
  with blks_mut := Induction for blks Sort Prop
  with belse_mut := Induction for belse Sort Prop.
Combined Scheme blk_mutind from blk_mut, blks_mut, belse_mut.

Lemma bwalk_bound_all limit : 0 <= limit ->
  (forall b d nd c n, d <= limit -> bwalk limit d nd b = Ok (c, n) -> d <= c <= limit) /\
  (forall l d nd acc c n, d <= limit -> fst acc <= limit -> blines limit d nd l acc = Ok (c, n) -> fst acc <= c <= limit) /\
  (forall e d nd c n, d <= limit -> belse_walk limit d nd e = Ok (c, n) -> d <= c <= limit).
Proof.
  intros Hl. apply blk_mutind.
  - intros d nd c n Hd H. cbn in H. inversion H; subst. lia.
  - intros t IHt e IHe d nd c n Hd H. cbn [bwalk] in H. destruct (d >=? limit) eqn:E; [discriminate|].
    destruct (blines limit (d + 1) (nd + 1) t (d + 1, nd + 1)) as [[c1 n1]| |] eqn:E1; try discriminate.
    destruct (belse_walk limit d (nd + 1) e) as [[c2 n2]| |] eqn:E2; try discriminate.
    apply IHt in E1; [|lia|cbn; lia]. apply IHe in E2; [|lia]. inversion H; subst. cbn [fst] in *. lia.
  - intros d nd acc c n Hd Ha H. cbn in H. inversion H; subst. cbn [fst] in *. lia.
  - intros b IHb r IHr d nd acc c n Hd Ha H. cbn [blines] in H.
    destruct (bwalk limit d nd b) as [[c1 n1]| |] eqn:E1; try discriminate.
    apply IHb in E1; [|lia]. apply IHr in H; [|lia|unfold pmax; cbn [fst]; lia].
    unfold pmax in H. cbn [fst] in H. lia.
  - intros d nd c n Hd H. cbn in H. inversion H; subst. lia.
  - intros arm IHa d nd c n Hd H. cbn [belse_walk] in H. destruct (d >=? limit) eqn:E; [discriminate|].
    apply IHa in H; [|lia|cbn; lia]. cbn [fst] in H. lia.
  - intros t IHt e IHe d nd c n Hd H. cbn [belse_walk] in H. destruct (d >=? limit) eqn:E; [discriminate|].
    destruct (blines limit (d + 1) (nd + 1) t (d + 1, nd + 1)) as [[c1 n1]| |] eqn:E1; try discriminate.
    destruct (belse_walk limit d (nd + 1) e) as [[c2 n2]| |] eqn:E2; try discriminate.
    apply IHt in E1; [|lia|cbn; lia]. apply IHe in E2; [|lia]. inversion H; subst. cbn [fst] in *. lia.
Qed.
Lemma parse_file_line_bound limit b c n : 0 <= limit -> parse_file_line limit b = Ok (c, n) -> c <= limit.
Proof. intros Hl H. destruct (bwalk_bound_all limit Hl) as (Hb & _). apply Hb in H; lia. Qed.

Lemma nest_if_walk limit n : forall d nd, d <= limit ->
  bwalk limit d nd (nest_if n) = if d + Z.of_nat n <=? limit then Ok (d + Z.of_nat n, nd + Z.of_nat n) else Err.
Proof.
  induction n as [|k IH]; intros d nd Hd.
  - cbn. replace (d + 0 <=? limit) with true by lia. do 2 f_equal; lia.
  - cbn [nest_if bwalk blines belse_walk]. destruct (d >=? limit) eqn:E.
    + replace (d + Z.of_nat (S k) <=? limit) with false by lia. reflexivity.
    + rewrite IH by lia. destruct (d + 1 + Z.of_nat k <=? limit) eqn:E2.
      * replace (d + Z.of_nat (S k) <=? limit) with true by lia. unfold pmax. cbn [fst snd]. do 2 f_equal; lia.
      * replace (d + Z.of_nat (S k) <=? limit) with false by lia. reflexivity.
Qed.
Lemma nest_if_exact limit n : 0 <= limit ->
  parse_file_line limit (nest_if n) = if Z.of_nat n <=? limit then Ok (Z.of_nat n, Z.of_nat n) else Err.
Proof. intros Hl. unfold parse_file_line. rewrite nest_if_walk by lia. reflexivity. Qed.
(* F56: every #elif arm is a new native frame of directive_if::parse that no counter sees *)
Lemma elif_tail_walk limit n : forall d nd, d < limit ->
  belse_walk limit d nd (elif_tail n) = Ok (d + 1, nd + Z.of_nat n).
Proof.
  induction n as [|k IH]; intros d nd Hd.
  - cbn [elif_tail belse_walk blines bwalk]. replace (d >=? limit) with false by lia.
    unfold pmax. cbn [fst snd]. do 2 f_equal; lia.
  - cbn [elif_tail belse_walk blines]. replace (d >=? limit) with false by lia. rewrite IH by lia.
    unfold pmax. cbn [fst snd]. do 2 f_equal; lia.
Qed.
Lemma elif_chain_walk limit n : 1 <= limit -> parse_file_line limit (elif_chain n) = Ok (1, Z.of_nat n + 1).
Proof.
  intros Hl. unfold parse_file_line, elif_chain. cbn [bwalk blines]. replace (0 >=? limit) with false by lia.
  rewrite elif_tail_walk by lia. unfold pmax. cbn [fst snd]. do 2 f_equal; lia.
Qed.

(* ------------------------------------------------------------------ evaluation depth *)
Lemma all_maxz_ge {A} (f : A -> res Z) l acc r : all_maxz f l acc = Ok r -> acc <= r.
Proof.
  revert acc. induction l as [|c l IH]; intros acc H; cbn [all_maxz] in H.
  - inversion H; lia.
  - destruct (f c); try discriminate. apply IH in H. lia.
Qed.
Lemma all_maxz_le {A} (f : A -> res Z) bound l acc r :
  Forall (fun c => forall m, f c = Ok m -> m <= bound) l -> acc <= bound -> all_maxz f l acc = Ok r -> r <= bound.
Proof.
  revert acc. induction l as [|c l IH]; intros acc HF Ha H; cbn [all_maxz] in H.
  - inversion H; subst. exact Ha.
  - inversion HF; subst. destruct (f c) as [m| |] eqn:E; try discriminate.
    apply (IH (Z.max acc m)); auto. specialize (H2 m eq_refl). lia.
Qed.
Lemma all_maxz_no_panic {A} (f : A -> res Z) l acc : Forall (fun c => f c <> Panic) l -> all_maxz f l acc <> Panic.
Proof.
  revert acc. induction l as [|c l IH]; intros acc HF; cbn [all_maxz]; [discriminate|].
  inversion HF; subst. destruct (f c); try congruence; try discriminate. apply IH; auto.
Qed.
Lemma all_maxz_err {A} (f : A -> res Z) l acc :
  Forall (fun c => f c <> Panic) l -> Exists (fun c => f c = Err) l -> all_maxz f l acc = Err.
Proof.
  revert acc. induction l as [|c l IH]; intros acc HF HE; [inversion HE|]. cbn [all_maxz].
  inversion HF; subst. inversion HE; subst.
  - rewrite H0. reflexivity.
  - destruct (f c); try congruence; try reflexivity. apply IH; auto.
Qed.
Lemma ewalk_no_panic limit e : forall d, ewalk limit d e <> Panic.
Proof.
  induction e as [|l IH|b IH|l IH] using ev_ind'; intros d; cbn [ewalk].
  - discriminate.
  - apply all_maxz_no_panic. eapply Forall_impl; [|exact IH]. cbn beta. auto.
  - destruct (d >=? limit); [discriminate|apply IH].
  - destruct (d >=? limit); [discriminate|]. apply all_maxz_no_panic. eapply Forall_impl; [|exact IH]. cbn beta. auto.
Qed.
(* recursion_depth never exceeds LIMIT + 1 (an asm block entered at LIMIT - 1 runs its productions at LIMIT + 1) *)
Lemma ewalk_bound limit e : 0 <= limit -> forall d m, d <= limit + 1 -> ewalk limit d e = Ok m -> d <= m <= limit + 1.
Proof.
  intros Hl. induction e as [|l IH|b IH|l IH] using ev_ind'; intros d m Hd H; cbn [ewalk] in H.
  - inversion H; lia.
  - pose proof (all_maxz_ge _ _ _ _ H). split; [lia|]. eapply all_maxz_le; [| |exact H]; [|lia].
    eapply Forall_impl; [|exact IH]. cbn beta. intros x Hx m' Hm. apply (Hx d m' Hd) in Hm. lia.
  - destruct (d >=? limit) eqn:E; [discriminate|]. apply IH in H; lia.
  - destruct (d >=? limit) eqn:E; [discriminate|].
    pose proof (all_maxz_ge _ _ _ _ H). split; [lia|]. eapply all_maxz_le; [| |exact H]; [|lia].
    eapply Forall_impl; [|exact IH]. cbn beta. intros x Hx m' Hm. apply (Hx (d + 2) m' ltac:(lia)) in Hm. lia.
Qed.
Lemma list_max_exists (g : ev -> Z) l : 0 < list_max (map g l) -> Exists (fun c => g c = list_max (map g l)) l.
Proof.
  induction l as [|c l IH]; cbn [map list_max]; intros H; [lia|].
  destruct (Z.max_spec (g c) (list_max (map g l))) as [(Hlt & ->)|(Hge & ->)].
  - right. apply IH. pose proof (list_max_nonneg (map g l)). lia.
  - left. reflexivity.
Qed.
(* any evaluation whose nesting of calls (1 each) and asm blocks (2 each) goes beyond the limit is an error *)
Lemma ewalk_rejects limit e : forall d, d <= limit + 1 -> limit + 1 < d + ev_cost e -> ewalk limit d e = Err.
Proof.
  induction e as [|l IH|b IH|l IH] using ev_ind'; intros d Hd H; cbn [ewalk ev_cost] in *.
  - lia.
  - apply all_maxz_err.
    + rewrite Forall_forall. intros x _. apply ewalk_no_panic.
    + assert (Hp : 0 < list_max (map ev_cost l)) by lia.
      apply list_max_exists in Hp. rewrite Exists_exists in *. destruct Hp as (x & Hin & Hx).
      exists x. split; [exact Hin|]. rewrite Forall_forall in IH. apply IH; auto. lia.
  - destruct (d >=? limit) eqn:E; [reflexivity|]. apply IH; lia.
  - destruct (d >=? limit) eqn:E; [reflexivity|]. apply all_maxz_err.
    + rewrite Forall_forall. intros x _. apply ewalk_no_panic.
    + assert (Hp : 0 < list_max (map ev_cost l)) by lia.
      apply list_max_exists in Hp. rewrite Exists_exists in *. destruct Hp as (x & Hin & Hx).
      exists x. split; [exact Hin|]. rewrite Forall_forall in IH. apply IH; auto; lia.
Qed.
Lemma call_chain_walk limit n : forall d, d <= limit ->
  ewalk limit d (call_chain n) = if d + Z.of_nat n <=? limit then Ok (d + Z.of_nat n) else Err.
Proof.
  induction n as [|k IH]; intros d Hd.
  - cbn. replace (d + 0 <=? limit) with true by lia. f_equal; lia.
  - cbn [call_chain ewalk]. destruct (d >=? limit) eqn:E.
    + replace (d + Z.of_nat (S k) <=? limit) with false by lia. reflexivity.
    + rewrite IH by lia. replace (d + 1 + Z.of_nat k) with (d + Z.of_nat (S k)) by lia. reflexivity.
Qed.
Lemma asm_chain_walk limit n : forall d,
  ewalk limit d (asm_chain (S n)) = if d + 2 * Z.of_nat n <? limit then Ok (d + 2 * Z.of_nat (S n)) else Err.
Proof.
  induction n as [|k IH]; intros d.
  - cbn [asm_chain ewalk all_maxz]. destruct (d >=? limit) eqn:E.
    + replace (d + 2 * Z.of_nat 0 <? limit) with false by lia. reflexivity.
    + replace (d + 2 * Z.of_nat 0 <? limit) with true by lia. f_equal. lia.
  - change (asm_chain (S (S k))) with (VAsm [asm_chain (S k)]). cbn [ewalk all_maxz]. destruct (d >=? limit) eqn:E.
    + replace (d + 2 * Z.of_nat (S k) <? limit) with false by lia. reflexivity.
    + rewrite IH. destruct (d + 2 + 2 * Z.of_nat k <? limit) eqn:E2.
      * replace (d + 2 * Z.of_nat (S k) <? limit) with true by lia. f_equal. lia.
      * replace (d + 2 * Z.of_nat (S k) <? limit) with false by lia. reflexivity.
Qed.
