From Coq Require Import NArith ZArith List Bool Lia.
From CA Require Import Model.Lexer Model.Parser Model.Literal Model.BigIntOps Model.Evaluator Model.Matcher Model.Resolver
  Spec.Denote Proofs.ResolverFixP Proofs.ResolverMonoP Proofs.ResolverTopP.
Import ListNotations.
Open Scope Z_scope.

Lemma layout_labels_ok all : syms_distinct all -> forall ns st pos st',
  labels_ok all st -> layout ns st pos = Some st' -> labels_ok all st'.
Proof.
  intro Hd. induction ns as [|n ns IH]; intros st pos st' Hl H; cbn [layout] in H.
  - now inversion H; subst.
  - destruct n as [s|s e|i src|width elems|k e|k e|k e]; try (eapply IH; [|exact H]; intros s0 Hs0; cbn [s_sym]; apply Hl, Hs0).
    destruct (negb (pos mod 8 =? 0)); [discriminate|].
    eapply IH; [|exact H]. intros s0 Hs0. cbn [s_sym].
    destruct (Nat.eq_dec s0 s) as [->|Hne].
    + destruct (nth_set_nth_same (s_sym st) s (VInt (un (pos / 8))) VUnknown) as [E|E]; rewrite E; [right; eauto|apply Hl, Hs0].
    + rewrite nth_set_nth_other by exact Hne. apply Hl, Hs0.
Qed.

Lemma const_sweep_labels_ok names all : syms_distinct all -> forall ns st pos st',
  (forall n, In n ns -> In n all) -> labels_ok all st -> const_sweep names ns st pos = Some st' -> labels_ok all st'.
Proof.
  intro Hd. induction ns as [|n ns IH]; intros st pos st' Hsub Hl H; cbn [const_sweep] in H.
  - now inversion H; subst.
  - assert (Hsub' : forall m, In m ns -> In m all) by (intros m Hm; apply Hsub; now right).
    destruct n as [s|s e|i src|width elems|k e|k e|k e]; try (eapply IH; eauto; fail).
    destruct (eval code_ops (pvar names st pos true) e []) as [[v c]|]; [|discriminate].
    eapply IH; [exact Hsub'| |exact H]. intros s0 Hs0. cbn [s_sym].
    assert (s0 <> s) by (intro; subst; eapply Hd; eauto; apply Hsub; now left).
    rewrite nth_set_nth_other by assumption. apply Hl, Hs0.
Qed.

Lemma const_sweeps_labels_ok names ns : syms_distinct ns -> forall fuel st st',
  labels_ok ns st -> const_sweeps fuel names ns st = Some st' -> labels_ok ns st'.
Proof.
  intro Hd. induction fuel as [|f IH]; intros st st' Hl H; cbn [const_sweeps] in H.
  - now inversion H; subst.
  - destruct (const_sweep names ns st 0) as [s|] eqn:E; [|discriminate].
    eapply IH; [|exact H]. eapply const_sweep_labels_ok with (ns := ns); eauto.
Qed.

(* the meaning assigned by `denote` is itself a certified (self-consistent) state *)
Theorem denote_certified indexed defs names ns out syms :
  syms_distinct ns -> denote indexed defs names ns = DOk out syms ->
  exists st, Certified names defs ns st /\ out = build_output ns st /\ syms = s_sym st.
Proof.
  intros Hd H. unfold denote in H.
  destruct (init_state indexed defs (length names) ns) as [st0|] eqn:E0; [|discriminate].
  destruct (negb (size_static defs ns st0)); [discriminate|].
  destruct (layout ns st0 0) as [st1|] eqn:E1; [|discriminate].
  destruct (const_sweeps (S (length ns)) names ns st1) as [st2|] eqn:E2; [|discriminate].
  destruct (pass names defs false ns st2 0 Resolved) as [[st3 r3]|] eqn:E3; [|discriminate].
  destruct (pass names defs true ns st3 0 Resolved) as [[st4 r4]|] eqn:E4; [|discriminate].
  destruct r4; [|discriminate]. inversion H; subst; clear H.
  assert (L0 : labels_ok ns st0) by (eapply init_labels_ok; eauto).
  assert (L1 : labels_ok ns st1) by (eapply layout_labels_ok; eauto).
  assert (L2 : labels_ok ns st2) by (eapply const_sweeps_labels_ok; eauto).
  assert (L3 : labels_ok ns st3) by (eapply pass_labels_ok; eauto).
  assert (st4 = st3) by (eapply pass_fix; eauto). subst st4.
  exists st3. unfold Certified. auto.
Qed.

(* both the assembler's answer and the language definition's answer are certified states of the same program *)
Theorem sound_partial indexed defs names ns budget out syms n out' syms' :
  syms_distinct ns ->
  assemble indexed defs names ns budget = Some (out, syms, n) ->
  denote indexed defs names ns = DOk out' syms' ->
  (exists st, Certified names defs ns st /\ out = build_output ns st /\ syms = s_sym st) /\
  (exists st', Certified names defs ns st' /\ out' = build_output ns st' /\ syms' = s_sym st').
Proof.
  intros Hd Ha Hden. split.
  - destruct (assemble_certificate _ _ _ _ _ _ _ _ Hd Ha) as [st [Hc [Hs [Ho _]]]]. eauto.
  - eapply denote_certified; eauto.
Qed.
