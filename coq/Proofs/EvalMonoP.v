(* Provider monotonicity of the expression evaluator: if every variable lookup that succeeds under pv1 gives the
   same value under pv2 (pv2 may succeed where pv1 errors), every evaluation that succeeds under pv1 gives the
   same (value, locals) under pv2.  Used by the resolver proofs (C09). *)
From Coq Require Import ZArith NArith List Bool.
From CA Require Import Model.Lexer Model.Parser Model.Literal Model.BigIntOps Model.Evaluator Proofs.EvalSemP.
Import ListNotations.

Section Mono.
Variable O : ops.
Variables pv1 pv2 : N -> list text -> eres value.
Hypothesis Hpv : forall l p v, pv1 l p = EOk v -> pv2 l p = EOk v.

Definition monoE (e : expr) : Prop :=
  forall ctx r, eval O pv1 e ctx = EOk r -> eval O pv2 e ctx = EOk r.

(* evaluate a subexpression under pv1 (it must succeed), transport to pv2, decide propagation *)
Ltac stepm H :=
  match type of H with
  | context [eval O pv1 ?a ?c] =>
    let E := fresh "E" in
    destruct (eval O pv1 a c) as [[? ?]|] eqn:E; [|discriminate H];
    match goal with IH : monoE a |- _ => rewrite (IH _ _ E) end;
    clear E
  end.
Ltac prop H :=
  match type of H with
  | context [should_propagate ?v] => destruct (should_propagate v); [exact H|]
  end.

Lemma pvar_mono level path (ctx : locals) r :
  match pv1 level path with EOk v => EOk (v, ctx) | EErr => EErr end = EOk r ->
  match pv2 level path with EOk v => EOk (v, ctx) | EErr => EErr end = EOk r.
Proof.
  destruct (pv1 level path) as [v|] eqn:E; [|discriminate]. rewrite (Hpv _ _ _ E). exact (fun H => H).
Qed.

Lemma eval_mono_e : forall e, monoE e.
Proof.
  induction e using expr_ind'; intros ctx r Hr; cbn [eval] in *.
  - exact Hr.
  - exact Hr.
  - exact Hr.
  - destruct level; [|apply pvar_mono; exact Hr].
    destruct path as [|n [|? ?]]; try (apply pvar_mono; exact Hr).
    destruct (is_builtin n); [exact Hr|]. destruct (lookup ctx n); [exact Hr|]. apply pvar_mono; exact Hr.
  - stepm Hr. exact Hr.
  - destruct o.
    1:{ destruct e1; try exact Hr. destruct level; try exact Hr. destruct path as [|n [|? ?]]; try exact Hr.
        stepm Hr. exact Hr. }
    18:{ stepm Hr. prop Hr. destruct v; try exact Hr. destruct (eqb b true); [exact Hr|]. stepm Hr. exact Hr. }
    17:{ stepm Hr. prop Hr. destruct v; try exact Hr. destruct (eqb b false); [exact Hr|]. stepm Hr. exact Hr. }
    all: stepm Hr; prop Hr; stepm Hr; exact Hr.
  - stepm Hr. prop Hr. destruct v; try exact Hr. destruct b; [apply IHe2|apply IHe3]; exact Hr.
  - stepm Hr. prop Hr. destruct (get_bigint v); [|exact Hr]. stepm Hr. prop Hr. stepm Hr. exact Hr.
  - stepm Hr. prop Hr. destruct (get_bigint v); [|exact Hr]. stepm Hr. exact Hr.
  - revert ctx Hr. generalize VVoid as last.
    induction H as [|x rest Hx Hrest IH]; intros last ctx Hr; [exact Hr|].
    stepm Hr. prop Hr. apply IH. exact Hr.
  - stepm Hr. prop Hr. revert l Hr. generalize (@nil value) as acc.
    induction H as [|x rest Hx Hrest IH]; intros acc ctx' Hr; [exact Hr|].
    stepm Hr. prop Hr. apply IH. exact Hr.
Qed.
End Mono.

Theorem eval_mono : forall (O : ops) (pv1 pv2 : N -> list text -> eres value),
  (forall l p v, pv1 l p = EOk v -> pv2 l p = EOk v) ->
  forall e ctx r, eval O pv1 e ctx = EOk r -> eval O pv2 e ctx = EOk r.
Proof. intros O pv1 pv2 H e. exact (eval_mono_e O pv1 pv2 H e). Qed.

(* non-vacuity: pv1 knows nothing, pv2 knows `x`; an expression without variables evaluates alike under both *)
Example eval_mono_nonvacuous :
  eval code_ops dummy_var (EBin Add (ENum 1 None) (ENum 2 None)) [] = EOk (VInt (un 3), []) /\
  eval code_ops (fun _ _ => EOk (VInt (un 7))) (EBin Add (ENum 1 None) (ENum 2 None)) [] = EOk (VInt (un 3), []).
Proof. split; reflexivity. Qed.
