(* C05 round trip: the family of statements, one per precedence level, and how they follow from each other.
   `SpecAt p s ch n dp e o` says that the parser of precedence level p reads the text s as e
   (levels 0/1: parse_expr; 2..11: the binary level in loop form; 12: parse_levels []; 13 parse_short;
    14 parse_unary; 15 parse_call; 16 parse_leaf).
   `spec_down` : a text read at level q is read the same at every looser level p <= q (the tower of stop lemmas),
   `spec_pr`   : from the statement for the unparenthesised body of e at e's own level follow the statements for
                 `pr full p e` at every level p (parenthesised exactly when `needs_paren`). *)
From Coq Require Import NArith List Bool Arith Lia ZifyBool.
From CA Require Import Model.Lexer Model.Parser Spec.Printer Proofs.ParseWfP Proofs.RoundTripLex Proofs.RoundTripNum
  Proofs.RoundTripLevels.
Import ListNotations.
Open Scope N_scope.

Definition K : nat := 200.

Fixpoint size (e : expr) : nat :=
  match e with
  | EUn _ a => S (size a)
  | EBin _ a b => S (size a + size b)
  | ETern c t f => S (size c + size t + size f)
  | ESlice l r a => S (size l + size r + size a)
  | EShort s a => S (size s + size a)
  | EBlock es => S (list_sum (map size es))
  | ECall f args => S (size f + list_sum (map size args))
  | EVar l path => Nat.max 1 (N.to_nat l + length path)
  | _ => 1
  end%nat.
Lemma size_pos e : (1 <= size e)%nat.
Proof. destruct e; cbn [size]; lia. Qed.

(* ---------- the family ---------- *)
Definition BinSpec (i : nat) (s : text) (ch n dp : nat) (e : expr) : Prop :=
  match skipn i level_ops with
  | ops :: inner => LoopParses ops inner (badp (3 + i)) n dp s e ch
  | [] => Parses (plev []) (badp (2 + i)) n dp s e
  end.

Definition SpecAt (p : nat) (s : text) (ch n dp : nat) (e : expr) (o : bool) : Prop :=
  match p with
  | 0 | 1 => Parses parse_expr (bad0 o) n (S dp) s e
  | 13 => Parses parse_short (badp 13) n dp s e
  | 14 => Parses parse_unary (badp 14) n dp s e
  | 15 => Parses parse_call (badp 15) n dp s e
  | 16 => Parses parse_leaf (badp 16) n dp s e
  | S (S i) => BinSpec i s ch n dp e
  end%nat.

Lemma SpecAt_bin i s ch n dp e o : (i <= 10)%nat -> SpecAt (S (S i)) s ch n dp e o = BinSpec i s ch n dp e.
Proof. intro H. do 11 (destruct i as [|i]; [reflexivity|]). lia. Qed.

Lemma LoopParses_weaken ops inner bad n n' dp dp' s e ch :
  LoopParses ops inner bad n dp s e ch -> (n <= n')%nat -> (dp <= dp')%nat -> LoopParses ops inner bad n' dp' s e ch.
Proof. intros H Hn Hd g d c b r Hbl Hf Hdp HF. apply H; assumption || lia. Qed.

Lemma BinSpec_weaken i s ch n n' dp dp' e : (n <= n')%nat -> (dp <= dp')%nat ->
  BinSpec i s ch n dp e -> BinSpec i s ch n' dp' e.
Proof.
  intros Hn Hd. unfold BinSpec. destruct (skipn i level_ops).
  - intro H. apply (Parses_weaken _ _ _ _ _ _ _ _ _ H); auto.
  - intro H. apply (LoopParses_weaken _ _ _ _ _ _ _ _ _ _ H); auto.
Qed.

Lemma SpecAt_weaken p s ch n n' dp dp' e o : (p <= 16)%nat -> (n <= n')%nat -> (dp <= dp')%nat ->
  SpecAt p s ch n dp e o -> SpecAt p s ch n' dp' e o.
Proof.
  intros Hp Hn Hd.
  do 17 (destruct p as [|p];
    [ first [ apply BinSpec_weaken; assumption
            | intro H; apply (Parses_weaken _ _ _ _ _ _ _ _ _ H); auto; lia ] | ]).
  lia.
Qed.

(* the flag o only matters at levels 0/1 *)
Lemma SpecAt_flag p s ch n dp e o o' : (2 <= p)%nat -> SpecAt p s ch n dp e o -> SpecAt p s ch n dp e o'.
Proof. intro Hp. destruct p as [|[|p]]; [lia|lia|]. do 15 (destruct p as [|p]; [exact (fun H => H)|]). exact (fun H => H). Qed.

(* plain form of a binary level *)
Lemma bin_plain i s ch n dp e : (i <= 10)%nat -> BinSpec i s ch n dp e -> (ch + 2 <= n)%nat ->
  Parses (plev (skipn i level_ops)) (badp (2 + i)) n dp s e.
Proof.
  intros Hi H Hn. destruct (Nat.eq_dec i 10) as [-> | Hne].
  - exact H.
  - destruct (level_split i ltac:(lia)) as (ops & inner & E1 & E2 & Hok). unfold BinSpec in H. rewrite E1 in *.
    pose proof (loop_close (2 + i) ops inner Hok n dp s e ch H) as H'.
    apply (Parses_weaken _ _ _ _ _ _ _ _ _ H'); auto. lia.
Qed.

(* ---------- one step down the tower ---------- *)
Lemma spec_step p s ch n dp e o : (p < 16)%nat -> SpecAt (S p) s ch n dp e o -> (ch + 2 <= n)%nat ->
  (p = 14%nat -> lstarts s) -> SpecAt p s 0 (n + 2) dp e o.
Proof.
  intros Hp H Hn Hs.
  destruct p as [|[|p]].
  - (* 1 -> 0 : the same statement *) revert H. apply (SpecAt_weaken 0); lia.
  - (* 2 -> 1 : assignment and ternary stop *)
    change (BinSpec 0 s ch n dp e) in H. apply (bin_plain 0) in H; [|lia|lia]. change (skipn 0 level_ops) with level_ops in H.
    change (Parses parse_expr (bad0 o) (n + 2) (S dp) s e).
    replace (n + 2)%nat with (S (S n)) by lia.
    apply lift_expr; [|destruct o; reflexivity]. apply lift_assign; [|destruct o; reflexivity].
    apply (Parses_bad _ _ _ _ _ _ _ H). intro k. apply bad0_badp.
  - destruct (le_lt_dec p 9) as [Hle | Hgt].
    + (* a binary level *)
      rewrite SpecAt_bin in H by lia. rewrite SpecAt_bin by lia.
      apply (bin_plain (S p)) in H; [|lia|lia].
      destruct (level_split p ltac:(lia)) as (ops & inner & E1 & E2 & Hok). rewrite E2 in H.
      unfold BinSpec. rewrite E1.
      pose proof (loop_base (2 + p) ops inner n dp s e H) as H'.
      apply (LoopParses_weaken _ _ _ _ _ _ _ _ _ _ H'); lia.
    + assert (Hc : p = 10%nat \/ p = 11%nat \/ p = 12%nat \/ p = 13%nat) by lia.
      destruct Hc as [-> | [-> | [-> | ->]]].
      * (* 13 -> 12 : slice stops, then parse_levels [] *)
        change (Parses parse_short (badp 13) n dp s e) in H. change (Parses (plev []) (badp 12) (n + 2) dp s e).
        replace (n + 2)%nat with (S (S n)) by lia. apply lift_lev0. apply lift_slice; [|reflexivity].
        apply (Parses_bad _ _ _ _ _ _ _ H). intro k. apply badp_mono. lia.
      * (* 14 -> 13 *)
        change (Parses parse_unary (badp 14) n dp s e) in H. change (Parses parse_short (badp 13) (n + 2) dp s e).
        apply (Parses_fuel _ _ (S n)); [|lia]. apply lift_short; [|reflexivity].
        apply (Parses_bad _ _ _ _ _ _ _ H). intro k. apply badp_mono. lia.
      * (* 15 -> 14 *)
        change (Parses parse_call (badp 15) n dp s e) in H. change (Parses parse_unary (badp 14) (n + 2) dp s e).
        apply (Parses_fuel _ _ (S n)); [|lia]. apply lift_unary; [|auto].
        apply (Parses_bad _ _ _ _ _ _ _ H). intro k. apply badp_mono. lia.
      * (* 16 -> 15 *)
        change (Parses parse_leaf (badp 16) n dp s e) in H. change (Parses parse_call (badp 15) (n + 2) dp s e).
        apply (Parses_fuel _ _ (S n)); [|lia]. apply lift_call; [|reflexivity].
        apply (Parses_bad _ _ _ _ _ _ _ H). intro k. apply badp_mono. lia.
Qed.

Lemma spec_down q s ch n dp e o : (q <= 16)%nat -> SpecAt q s ch n dp e o -> (ch + 2 <= n)%nat ->
  forall k, (1 <= k <= q)%nat -> ((q - k <= 14)%nat -> (14 < q)%nat -> lstarts s) ->
  SpecAt (q - k) s 0 (n + 2 * k) dp e o.
Proof.
  intros Hq H Hn k. induction k as [|k IH]; intros Hk Hs; [lia|].
  destruct (Nat.eq_dec k 0) as [-> | Hk0].
  - destruct q as [|q]; [lia|]. replace (S q - 1)%nat with q by lia.
    replace (n + 2 * 1)%nat with (n + 2)%nat by lia.
    apply (spec_step q s ch); [lia | exact H | exact Hn | intro E; apply Hs; lia].
  - assert (IH' : SpecAt (q - k) s 0 (n + 2 * k) dp e o).
    { apply IH; [lia|]. intros H1 H2. apply Hs; lia. }
    replace (q - k)%nat with (S (q - S k)) in IH' by lia.
    replace (n + 2 * S k)%nat with (n + 2 * k + 2)%nat by lia.
    apply (spec_step (q - S k) s 0); [lia | exact IH' | lia | intro E; apply Hs; lia].
Qed.

(* ---------- printer equations ---------- *)
Section Pr.
Variable full : bool.
Notation pr := (pr full).
Notation pd := (pd full).

Definition gtext (e : expr) : text := if guard_paren full e then paren (pr 0 e) else pr 0 e.
Definition gdep (e : expr) : nat := if guard_paren full e then S (pd 0 e) else pd 0 e.

Definition body (e : expr) : text :=
  match e with
  | ENum v sz => print_num v sz
  | EBool b => if b then kw_true else kw_false
  | EStr raw => raw
  | EVar level path => print_var level path
  | EUn o a => unop_text o ++ pr 14 a
  | EBin o a b =>
    match o with
    | Assign => pr 2 a ++ [32; 61; 32] ++ pr 0 b
    | _ => pr (binop_prec o) a ++ [32] ++ binop_text o ++ [32] ++ pr (S (binop_prec o)) b
    end
  | ETern c t f =>
    pr 2 c ++ [32; 63; 32] ++ (if is_empty_block f then pr 0 t else gtext t ++ [32; 58; 32] ++ pr 0 f)
  | ESlice l r a => pr 13 a ++ [91] ++ gtext l ++ [58] ++ pr 0 r ++ [93]
  | EShort s a => pr 14 a ++ [96] ++ pr 16 s
  | EBlock es => [123] ++ sepby [44; 32] (map (pr 0) es) ++ [125]
  | ECall f args => pr 16 f ++ [40] ++ sepby [44; 32] (map (pr 0) args) ++ [41]
  end.

Definition bd (e : expr) : nat :=
  match e with
  | ENum _ _ | EBool _ | EStr _ | EVar _ _ => O
  | EUn _ a => S (pd 14 a)
  | EBin o a b =>
    match o with
    | Assign => Nat.max (pd 2 a) (S (pd 0 b))
    | _ => Nat.max (pd (binop_prec o) a) (pd (S (binop_prec o)) b)
    end
  | ETern c t f =>
    Nat.max (pd 2 c) (if is_empty_block f then S (pd 0 t) else Nat.max (S (gdep t)) (S (pd 0 f)))
  | ESlice l r a => Nat.max (pd 13 a) (Nat.max (S (gdep l)) (S (pd 0 r)))
  | EShort s a => Nat.max (pd 14 a) (pd 16 s)
  | EBlock es => list_max (map (fun x => S (pd 0 x)) es)
  | ECall f args => Nat.max (pd 16 f) (list_max (map (fun x => S (pd 0 x)) args))
  end.

Lemma pr_eq p e : pr p e = if needs_paren full p e then paren (body e) else body e.
Proof. destruct e; reflexivity. Qed.
Lemma pd_eq p e : pd p e = if needs_paren full p e then S (bd e) else bd e.
Proof. destruct e; reflexivity. Qed.

(* operators of level p folded by the loop while reading `pr p e` *)
Fixpoint chain (p : nat) (e : expr) {struct e} : nat :=
  if needs_paren full p e then O
  else match e with
       | EBin o a _ => if Nat.eqb (binop_prec o) p then S (chain p a) else O
       | _ => O
       end.
Lemma chain_le p e : (chain p e <= size e)%nat.
Proof.
  induction e; cbn [chain size]; destruct (needs_paren full p _); try lia.
  destruct (Nat.eqb _ p); lia.
Qed.

(* the level at which the body of e is read directly, and the operators folded there *)
Definition olev (e : expr) : nat := match prec e with 1%nat => 0%nat | q => q end.
Definition ochain (e : expr) : nat :=
  match e with EBin o a _ => match o with Assign => O | _ => S (chain (binop_prec o) a) end | _ => O end.

Definition OwnSpec (e : expr) : Prop :=
  SpecAt (olev e) (body e) (ochain e) (K * size e - 70) (bd e) e (ends_open e).

Definition Q (e : expr) : Prop :=
  forall p, (p <= 16)%nat -> SpecAt p (pr p e) (chain p e) (K * size e) (pd p e) e (guard_paren full e).

Lemma olev_le e : (olev e <= 16)%nat /\ (olev e <= prec e)%nat.
Proof. unfold olev. destruct e; cbn [prec]; try lia. destruct o; cbn; lia. Qed.

Lemma paren_lstarts s : lstarts (paren s).
Proof. reflexivity. Qed.

Lemma spec_pr e : OwnSpec e -> ((15 <= olev e)%nat -> lstarts (body e)) -> Q e.
Proof.
  intros Hown Hls p Hp. unfold OwnSpec in Hown. pose proof (olev_le e) as [Ho1 Ho2].
  pose proof (chain_le p e) as Hch. pose proof (size_pos e) as Hsz. unfold K in *.
  assert (Hoc : (ochain e <= size e)%nat).
  { unfold ochain. destruct e as [v sz|bb|raw|lv path|uo a|o a b|c t f|l r a|s a|es|f args]; try lia.
    pose proof (chain_le (binop_prec o) a). cbn [size]. destruct o; lia. }
  (* the body at expression level *)
  assert (Htop : Parses parse_expr (bad0 (ends_open e)) (200 * size e - 38) (S (bd e)) (body e) e).
  { destruct (Nat.eq_dec (olev e) 0) as [E0 | Hne].
    - rewrite E0 in Hown. apply (Parses_weaken _ _ _ _ _ _ _ _ _ Hown); auto; lia.
    - pose proof (spec_down (olev e) (body e) (ochain e) _ (bd e) e (ends_open e) Ho1 Hown ltac:(lia) (olev e) ltac:(lia)
                    ltac:(intros; apply Hls; lia)) as H.
      rewrite Nat.sub_diag in H. change (Parses parse_expr (bad0 (ends_open e)) (200 * size e - 70 + 2 * olev e) (S (bd e)) (body e) e) in H.
      apply (Parses_weaken _ _ _ _ _ _ _ _ _ H); auto; lia. }
  rewrite pr_eq, pd_eq. destruct (needs_paren full p e) eqn:Enp.
  - (* parenthesised *)
    assert (Hc0 : chain p e = 0%nat) by (destruct e; cbn [chain]; rewrite Enp; reflexivity). rewrite Hc0.
    pose proof (paren_leaf (badp 16) _ _ _ _ _ Htop) as H16.
    destruct (Nat.eq_dec p 16) as [-> | Hne].
    + apply (Parses_weaken _ _ _ _ _ _ _ _ _ H16); auto; lia.
    + pose proof (spec_down 16 (paren (body e)) 0 _ (S (bd e)) e (guard_paren full e) ltac:(lia) H16 ltac:(lia) (16 - p)%nat ltac:(lia)
                    ltac:(intros; apply paren_lstarts)) as H.
      replace (16 - (16 - p))%nat with p in H by lia.
      revert H. apply SpecAt_weaken; lia.
  - (* not parenthesised: p <= prec e, and in full mode e is a leaf *)
    pose proof Enp as Enp0. unfold needs_paren in Enp. apply orb_false_elim in Enp. destruct Enp as [E1 E2]. apply Nat.ltb_ge in E1.
    assert (Hflag : guard_paren full e = ends_open e).
    { unfold guard_paren. destruct full; cbn [negb andb] in *; [|reflexivity].
      destruct e; try discriminate; reflexivity. }
    rewrite Hflag.
    destruct (Nat.eq_dec p (olev e)) as [-> | Hne].
    + assert (Hc : chain (olev e) e = ochain e \/ (olev e <= 1)%nat).
      { destruct e as [v sz|bb|raw|lv path|uo a|o a b|c t f|l r a|s a|es|f args];
          try (left; cbn [chain ochain]; destruct (needs_paren full _ _); reflexivity).
        - destruct o; try (right; cbn; lia); left; cbn [olev prec binop_prec] in *;
            cbn [chain ochain binop_prec Nat.eqb]; rewrite Enp0; reflexivity. }
      destruct Hc as [-> | Hle].
      * revert Hown. apply SpecAt_weaken; lia.
      * destruct (olev e) as [|[|q]]; [| |lia];
          apply (Parses_weaken _ _ _ _ _ _ _ _ _ Hown); auto; lia.
    + destruct (le_lt_dec p 1) as [Hp1 | Hp1].
      * (* p is 0 or 1: the expression level *)
        assert (Hc : SpecAt p (body e) (chain p e) (200 * size e) (bd e) e (ends_open e) = Parses parse_expr (bad0 (ends_open e)) (200 * size e) (S (bd e)) (body e) e).
        { destruct p as [|[|p]]; [reflexivity|reflexivity|lia]. }
        rewrite Hc. apply (Parses_weaken _ _ _ _ _ _ _ _ _ Htop); auto; lia.
      * assert (Hlt : (p < olev e)%nat).
        { unfold olev in *. destruct (prec e) as [|[|q]]; lia. }
        assert (Hc0 : chain p e = 0%nat).
        { destruct e; cbn [chain]; try (destruct (needs_paren full p _); reflexivity).
          destruct (needs_paren full p _); [reflexivity|].
          destruct (Nat.eqb_spec (binop_prec o) p); [|reflexivity]. unfold olev in Hlt. cbn [prec] in Hlt.
          destruct (binop_prec o) as [|[|q]]; lia. }
        rewrite Hc0.
        pose proof (spec_down (olev e) (body e) (ochain e) _ (bd e) e (ends_open e) Ho1 Hown ltac:(lia) (olev e - p)%nat ltac:(lia)) as H.
        replace (olev e - (olev e - p))%nat with p in H by lia.
        specialize (H ltac:(intros; apply Hls; lia)).
        revert H. apply SpecAt_weaken; lia.
Qed.

End Pr.
