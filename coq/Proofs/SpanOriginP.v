(* C12 over the whole pipeline, part 1 (no resolver yet): where the spans recorded by build_output come from.

   Model/Output.v already records every BitVecSpan as an [item] (bank, offset, size, address, encoding).  Here:
     * [run_nodes_origin]: every recorded item was produced by exactly one node of the program, visited at the bank
       and position the iterator's cursor walk ([cwalk] / [cvisit], the functions Cursor.advance / Cursor.enter of
       Model/Cursor.v) reaches it with: an instruction / data element gives (outp + pos, size of its encoding,
       ResolverContext::get_address), a label gives (outp + pos or none, 0, the label's value);
     * [located]: the item lies at position pos of its bank b, which is usable, its offset is outp + pos and its
       address is addr_start + pos / unit;
     * [located_addr_ok]: a located item passes the address specification of Spec/ListingSpec.v ([span_addr_ok]),
       given that the bank windows were accepted by check_bank_overlap;
     * [content_bits_at]: the bits of the output at the item's span are the item's encoding. *)
From Coq Require Import ZArith NArith List Bool Lia ZifyBool Arith.
From CA Require Import Model.Overlap Model.Cursor Model.Output Spec.OverlapSpec Spec.LayoutInv Proofs.CursorP Proofs.OutputP
  Model.Listing Spec.ListingSpec.
Import ListNotations.
Open Scope N_scope.

Ltac Zify.zify_post_hook ::= Z.div_mod_to_equations.

(* ------------------------------------------------------------------ spans and banks as the listing specification sees them *)
(* Resolver2 / Output do not model source locations: file handle 0, no location (addresses_ok reads neither) *)
Definition lspan_of_item (it : item) : lspan := mk_lspan (it_off it) (it_size it) (it_addr it) 0 None.

Definition bankw_of (i : nat) (b : bank) : bankw := mk_bankw (N.of_nat i) (bk_addr b) (bk_unit b) (bk_outp b) (bk_size b).

Fixpoint bankws_from (i : nat) (banks : list bank) : list bankw :=
  match banks with [] => [] | b :: r => bankw_of i b :: bankws_from (S i) r end.
Definition bankws (banks : list bank) : list bankw := bankws_from 0 banks.

(* ------------------------------------------------------------------ the cursor walk of build_output *)
Section Trace.
Variable mb : N.
Variable banks : list bank.

Fixpoint cwalk (vs : list node) (c : cursor) (prev : option node) : res (cursor * option node) :=
  match vs with
  | [] => Ok (c, prev)
  | v :: r =>
    match advance (Z.of_N mb) banks c prev with
    | Err => Err | Panic => Panic
    | Ok c1 =>
      match enter (Z.of_N mb) banks c1 v with
      | Err => Err | Panic => Panic
      | Ok c2 => cwalk r c2 (Some v)
      end
    end
  end.

Definition cvisit (v : node) (c : cursor) (prev : option node) : res (cursor * bank * N) :=
  match advance (Z.of_N mb) banks c prev with
  | Err => Err | Panic => Panic
  | Ok c1 =>
    match enter (Z.of_N mb) banks c1 v with
    | Err => Err | Panic => Panic
    | Ok c2 => match cur_bank banks c2 with Ok (b, pos) => Ok (c2, b, pos) | Err => Err | Panic => Panic end
    end
  end.

(* the span a node records when visited at (c2, b, pos) *)
Definition produced (c2 : cursor) (b : bank) (pos : N) (v : node) (it : item) : Prop :=
  match v with
  | NSymbol true _ value =>
    exists mp, get_output_position b pos = Ok mp /\ check_bank_output mb b pos 0 false = Ok tt
               /\ check_bank_usage banks c2 = Ok tt /\ it = mkItem (c_bank c2) mp 0 value None
  | NEmit enc =>
    exists addr o, get_address (Z.of_N mb) b pos true = Ok (Some addr) /\ get_output_position b pos = Ok (Some o)
               /\ check_bank_output mb b pos (N.of_nat (length enc)) true = Ok tt
               /\ check_bank_usage banks c2 = Ok tt
               /\ it = mkItem (c_bank c2) (Some o) (N.of_nat (length enc)) addr (Some enc)
  | _ => False
  end.

Definition origin (vs : list node) (c0 : cursor) (p0 : option node) (it : item) : Prop :=
  exists vs1 v vs2 c p c2 b pos,
    vs = vs1 ++ v :: vs2 /\ cwalk vs1 c0 p0 = Ok (c, p) /\ cvisit v c p = Ok (c2, b, pos) /\ produced c2 b pos v it.

Lemma fold_not_ok (nodes : list node) (x : res wstate) st' : (forall s, x <> Ok s) ->
  fold_left (fun acc n => match acc with Ok s => step mb banks s n | Err => Err | Panic => Panic end) nodes x <> Ok st'.
Proof.
  revert x. induction nodes as [|n r IH]; intros x Hx; cbn [fold_left]; [apply Hx|].
  apply IH. intros s. destruct x as [s0| |]; [exfalso; now apply (Hx s0)|discriminate|discriminate].
Qed.

Lemma run_nodes_cons n r st st' : run_nodes mb banks (n :: r) st = Ok st' ->
  exists s1, step mb banks st n = Ok s1 /\ run_nodes mb banks r s1 = Ok st'.
Proof.
  unfold run_nodes. cbn [fold_left]. intro H.
  destruct (step mb banks st n) as [s1| |] eqn:E.
  - exists s1. split; [reflexivity|exact H].
  - exfalso. revert H. apply fold_not_ok. discriminate.
  - exfalso. revert H. apply fold_not_ok. discriminate.
Qed.

(* one node: at most one new span, produced by this node where the cursor stands *)
Lemma step_origin st v s1 : step mb banks st v = Ok s1 ->
  exists c2 b pos, cvisit v (w_cur st) (w_prev st) = Ok (c2, b, pos) /\ w_cur s1 = c2 /\ w_prev s1 = Some v /\
    (w_spans s1 = w_spans st \/ exists it, w_spans s1 = w_spans st ++ [it] /\ produced c2 b pos v it).
Proof.
  unfold step, cvisit. intro H.
  destruct (advance (Z.of_N mb) banks (w_cur st) (w_prev st)) as [c1| |]; try discriminate.
  destruct (enter (Z.of_N mb) banks c1 v) as [c2| |]; try discriminate.
  destruct (cur_bank banks c2) as [[b pos]| |]; try discriminate.
  destruct (emit_node mb banks c2 b pos v (w_es st) (w_out st) (w_spans st)) as [[[es out] spans]| |] eqn:E; try discriminate.
  injection H as <-. exists c2, b, pos. cbn [w_cur w_prev w_spans].
  split; [reflexivity|]. split; [reflexivity|]. split; [reflexivity|].
  destruct v as [i|is_label d0 value|enc|k|a|a|]; cbn [emit_node] in E;
    try (injection E as _ _ <-; now left).
  - destruct is_label; [|injection E as _ _ <-; now left].
    destruct (check_bank_usage banks c2) as [[]| |] eqn:Eu; try discriminate.
    destruct (check_bank_output mb b pos 0 false) as [[]| |] eqn:Eo; try discriminate.
    destruct (get_output_position b pos) as [mp| |] eqn:Ep; try discriminate.
    injection E as _ _ <-. right. eexists. split; [reflexivity|]. cbn [produced]. exists mp. auto.
  - destruct (check_bank_usage banks c2) as [[]| |] eqn:Eu; try discriminate.
    destruct (check_bank_output mb b pos (N.of_nat (length enc)) true) as [[]| |] eqn:Eo; try discriminate.
    destruct (get_address (Z.of_N mb) b pos true) as [[addr|]| |] eqn:Ea; try discriminate.
    destruct (get_output_position b pos) as [[o|]| |] eqn:Ep; try discriminate.
    destruct (check_and_insert (w_es st) o (N.of_nat (length enc))) as [es1| |]; try discriminate.
    injection E as _ _ <-. right. eexists. split; [reflexivity|]. cbn [produced]. exists addr, o. auto 6.
  - destruct (check_bank_usage banks c2) as [[]| |]; try discriminate.
    destruct (check_bank_output mb b pos k false) as [[]| |]; try discriminate.
    destruct (get_output_position b pos) as [[o|]| |]; try discriminate.
    + destruct (check_and_insert (w_es st) o k) as [es1| |]; try discriminate. injection E as _ _ <-. now left.
    + injection E as _ _ <-. now left.
Qed.

Lemma origin_shift v vs c0 p0 c2 it :
  (exists c1, advance (Z.of_N mb) banks c0 p0 = Ok c1 /\ enter (Z.of_N mb) banks c1 v = Ok c2) ->
  origin vs c2 (Some v) it -> origin (v :: vs) c0 p0 it.
Proof.
  intros (c1 & A1 & A2) (vs1 & v' & vs2 & c & p & c2' & b & pos & -> & W & V & P).
  exists (v :: vs1), v', vs2, c, p, c2', b, pos. split; [reflexivity|]. split; [|auto].
  cbn [cwalk]. rewrite A1, A2. exact W.
Qed.

Lemma cvisit_moves v c p c2 b pos : cvisit v c p = Ok (c2, b, pos) ->
  exists c1, advance (Z.of_N mb) banks c p = Ok c1 /\ enter (Z.of_N mb) banks c1 v = Ok c2.
Proof.
  unfold cvisit. destruct (advance (Z.of_N mb) banks c p) as [c1| |]; try discriminate.
  destruct (enter (Z.of_N mb) banks c1 v) as [c2'| |] eqn:E2; try discriminate.
  destruct (cur_bank banks c2') as [[b' pos']| |]; try discriminate.
  intro H. injection H as H1 H2 H3. subst c2'. exists c1. split; [reflexivity|exact E2].
Qed.

(* every span recorded while running the nodes vs was produced by one node of vs, where the cursor walk stands *)
Lemma run_nodes_origin : forall vs st st', run_nodes mb banks vs st = Ok st' ->
  exists new, w_spans st' = w_spans st ++ new /\ Forall (origin vs (w_cur st) (w_prev st)) new.
Proof.
  induction vs as [|v vs IH]; intros st st' H.
  - unfold run_nodes in H. cbn in H. injection H as <-. exists []. split; [now rewrite app_nil_r|constructor].
  - destruct (run_nodes_cons _ _ _ _ H) as (s1 & E1 & E2).
    destruct (step_origin _ _ _ E1) as (c2 & b & pos & V & Hc & Hp & Hs).
    destruct (IH _ _ E2) as (new & Hn & Fn). rewrite Hc, Hp in Fn.
    pose proof (cvisit_moves _ _ _ _ _ _ V) as M.
    assert (Forall (origin (v :: vs) (w_cur st) (w_prev st)) new) as Fn'
      by (eapply Forall_impl; [|exact Fn]; intros it Hit; eapply origin_shift; eauto).
    destruct Hs as [Hs|(it & Hs & P)].
    + exists new. rewrite Hn, Hs. auto.
    + exists (it :: new). rewrite Hn, Hs, <- app_assoc. split; [reflexivity|].
      constructor; [|exact Fn'].
      exists [], v, vs, (w_cur st), (w_prev st), c2, b, pos. auto.
Qed.

Lemma build_output_origin nodes out items : build_output mb banks nodes = Ok (out, items) ->
  Forall (origin nodes (init_cursor banks) None) items.
Proof.
  unfold build_output. destruct (fill_banks mb banks []) as [out0| |]; try discriminate.
  destruct (run_nodes mb banks nodes (mkW (init_cursor banks) None [] out0 [])) as [st| |] eqn:R; try discriminate.
  destruct (advance (Z.of_N mb) banks (w_cur st) (w_prev st)) as [c| |]; try discriminate.
  intro H. injection H as _ <-.
  destruct (run_nodes_origin _ _ _ R) as (new & Hn & Fn). cbn [w_spans w_cur w_prev app] in *. now rewrite Hn.
Qed.

(* ------------------------------------------------------------------ located items *)
(* the item lies at position pos of the usable bank b: offset outp + pos, address addr_start + pos / unit *)
Definition located (it : item) : Prop :=
  exists b pos,
    nth_error banks (it_bank it) = Some b /\ (it_bank it <> 0%nat \/ length banks = 1%nat) /\ bk_unit b <> 0 /\
    (forall sz, bk_size b = Some sz -> pos + it_size it <= sz) /\
    match it_off it with
    | None => True
    | Some o => exists outp, bk_outp b = Some outp /\ o = outp + pos
                             /\ it_addr it = (bk_addr b + Z.of_N (pos / bk_unit b))%Z
    end.

Lemma usage_cases c : check_bank_usage banks c = Ok tt -> c_bank c <> 0%nat \/ length banks = 1%nat.
Proof.
  unfold check_bank_usage. destruct (Nat.eqb_spec (c_bank c) 0); [|now left].
  destruct (Nat.eqb_spec (length banks) 1); [now right|discriminate].
Qed.

Lemma cvisit_bank v c p c2 b pos : cvisit v c p = Ok (c2, b, pos) -> cur_bank banks c2 = Ok (b, pos).
Proof.
  unfold cvisit. destruct (advance (Z.of_N mb) banks c p) as [c1| |]; try discriminate.
  destruct (enter (Z.of_N mb) banks c1 v) as [c2'| |]; try discriminate.
  destruct (cur_bank banks c2') as [[b' pos']| |] eqn:E; try discriminate.
  intro H. injection H as H1 H2 H3. subst. exact E.
Qed.

(* an instruction / data element is located by build_output alone *)
Lemma produced_emit_located c2 b pos enc it : cur_bank banks c2 = Ok (b, pos) ->
  produced c2 b pos (NEmit enc) it -> located it /\ it_size it = N.of_nat (length enc) /\ it_enc it = Some enc.
Proof.
  intros Hcb (addr & o & Ea & Ep & Eo & Eu & ->). cbn [it_size it_enc]. split; [|auto].
  destruct (bank_output_ok _ _ _ _ _ Eo) as (Hsz & _ & _).
  destruct (output_position_some _ _ _ Ep) as (outp & Ho & ->).
  destruct (get_address_guess _ _ _ _ Ea) as (Hu & Haddr & _).
  exists b, pos. cbn [it_bank it_size it_off it_addr].
  split; [exact (cur_bank_nth banks _ _ _ Hcb)|]. split; [exact (usage_cases _ Eu)|]. split; [exact Hu|].
  split; [exact Hsz|]. exists outp. auto.
Qed.

(* a label is located as soon as its value is the address of the cursor that reaches it *)
Lemma produced_label_located c2 b pos d0 value it : cur_bank banks c2 = Ok (b, pos) ->
  bk_unit b <> 0 -> value = (bk_addr b + Z.of_N (pos / bk_unit b))%Z ->
  produced c2 b pos (NSymbol true d0 value) it -> located it /\ it_size it = 0 /\ it_enc it = None.
Proof.
  intros Hcb Hu Hv (mp & Ep & Eo & Eu & ->). cbn [it_size it_enc]. split; [|auto].
  destruct (bank_output_ok _ _ _ _ _ Eo) as (Hsz & _ & _).
  exists b, pos. cbn [it_bank it_size it_off it_addr].
  split; [exact (cur_bank_nth banks _ _ _ Hcb)|]. split; [exact (usage_cases _ Eu)|]. split; [exact Hu|].
  split; [exact Hsz|]. destruct mp as [o|]; [|exact I].
  destruct (output_position_some _ _ _ Ep) as (outp & Ho & ->). exists outp. auto.
Qed.
End Trace.

(* ------------------------------------------------------------------ located => the address specification *)
Lemma bankws_from_in i banks bw : In bw (bankws_from i banks) <->
  exists j b, nth_error banks j = Some b /\ bw = bankw_of (i + j) b.
Proof.
  revert i. induction banks as [|b0 r IH]; intro i; cbn [bankws_from In].
  - split; [tauto|]. intros (j & b & H & _). destruct j; discriminate.
  - rewrite IH. split.
    + intros [<-|(j & b & H & ->)].
      * exists 0%nat, b0. split; [reflexivity|]. now rewrite Nat.add_0_r.
      * exists (S j), b. split; [exact H|]. f_equal. lia.
    + intros ([|j] & b & H & ->).
      * cbn in H. injection H as <-. left. now rewrite Nat.add_0_r.
      * right. exists j, b. split; [exact H|]. f_equal. lia.
Qed.

(* the banks the specification may use: every user bank, or the default bank while it is alone *)
Lemma usable_in banks bw : In bw (usable_banks (bankws banks)) <->
  exists j b, nth_error banks j = Some b /\ bw = bankw_of j b /\ (j <> 0%nat \/ length banks = 1%nat).
Proof.
  unfold bankws.
  assert (forall l, In bw (filter (fun b => negb (bw_index b =? 0)) (bankws_from 0 l)) <->
                    exists j b, nth_error l j = Some b /\ bw = bankw_of j b /\ j <> 0%nat) as HF.
  { intro l. rewrite filter_In, bankws_from_in. split.
    - intros ((j & b & H & ->) & Hi). exists j, b. cbn [plus]. split; [exact H|]. split; [reflexivity|].
      cbn [bankw_of bw_index] in Hi. destruct j; [discriminate|congruence].
    - intros (j & b & H & -> & Hj). split; [exists j, b; auto|].
      cbn [bankw_of bw_index]. destruct j; [congruence|]. apply negb_true_iff. apply N.eqb_neq. lia. }
  destruct banks as [|b0 [|b1 r]].
  - cbn. split; [tauto|]. intros (j & b & H & _). destruct j; discriminate.
  - cbn [bankws_from usable_banks In]. split.
    + intros [<-|[]]. exists 0%nat, b0. auto.
    + intros ([|j] & b & H & -> & _); [cbn in H; injection H as <-; now left|destruct j; discriminate].
  - change (usable_banks (bankws_from 0 (b0 :: b1 :: r)))
      with (filter (fun b => negb (bw_index b =? 0)) (bankws_from 0 (b0 :: b1 :: r))).
    rewrite HF. split.
    + intros (j & b & H & -> & Hj). exists j, b. auto.
    + intros (j & b & H & -> & [Hj|Hl]); [exists j, b; auto|cbn in Hl; lia].
Qed.

Lemma bank_addr_at_spec closed j b off a : bank_addr_at closed (bankw_of j b) off = Some a ->
  exists outp, bk_outp b = Some outp /\ outp <= off /\ bk_unit b <> 0
    /\ (forall sz, bk_size b = Some sz -> if closed then off <= outp + sz else off < outp + sz)
    /\ a = (bk_addr b + Z.of_N ((off - outp) / bk_unit b))%Z.
Proof.
  unfold bank_addr_at. cbn [bankw_of bw_outp bw_unit bw_size bw_addr].
  destruct (bk_outp b) as [outp|]; [|discriminate].
  destruct (N.eqb_spec (bk_unit b) 0); cbn [orb]; [discriminate|].
  destruct (N.ltb_spec off outp); [discriminate|].
  destruct (bk_size b) as [sz|].
  - destruct closed.
    + destruct (N.leb_spec off (outp + sz)); [|discriminate]. intro Q. injection Q as <-.
      exists outp. repeat split; auto. intros s Hs. injection Hs as <-. assumption.
    + destruct (N.ltb_spec off (outp + sz)); [|discriminate]. intro Q. injection Q as <-.
      exists outp. repeat split; auto. intros s Hs. injection Hs as <-. assumption.
  - intro Q. injection Q as <-. exists outp. repeat split; auto. discriminate.
Qed.

Lemma bank_addr_at_own (closed : bool) j b off outp pos :
  bk_outp b = Some outp -> off = outp + pos -> bk_unit b <> 0 ->
  (forall sz, bk_size b = Some sz -> if closed then pos <= sz else pos < sz) ->
  bank_addr_at closed (bankw_of j b) off = Some (bk_addr b + Z.of_N (pos / bk_unit b))%Z.
Proof.
  intros Ho -> Hu Hs. unfold bank_addr_at. cbn [bankw_of bw_outp bw_unit bw_size bw_addr]. rewrite Ho.
  destruct (N.eqb_spec (bk_unit b) 0); [contradiction|]. cbn [orb].
  destruct (N.ltb_spec (outp + pos) outp); [lia|].
  replace (outp + pos - outp) with pos by lia.
  destruct (bk_size b) as [sz|]; [|reflexivity].
  specialize (Hs sz eq_refl). destruct closed.
  - destruct (N.leb_spec (outp + pos) (outp + sz)); [reflexivity|lia].
  - destruct (N.ltb_spec (outp + pos) (outp + sz)); [reflexivity|lia].
Qed.

Theorem located_addr_ok banks it : check_bank_overlap banks = Ok tt -> located banks it ->
  span_addr_ok (bankws banks) (lspan_of_item it) = true.
Proof.
  intros W (b & pos & Hb & Hus & Hu & Hsz & Hoff).
  unfold span_addr_ok, lspan_of_item. cbn [ls_offset ls_size ls_addr].
  destruct (it_off it) as [off|]; [|reflexivity].
  destruct Hoff as (outp & Ho & -> & Ha).
  assert (In (bankw_of (it_bank it) b) (usable_banks (bankws banks))) as Hin
    by (apply usable_in; exists (it_bank it), b; auto).
  destruct (N.ltb_spec 0 (it_size it)) as [Hpos|Hzero].
  - (* an item with bits: its own bank gives the address, and no other usable bank holds the offset *)
    assert (bank_addr_at false (bankw_of (it_bank it) b) (outp + pos) = Some (it_addr it)) as Own.
    { rewrite Ha. apply (bank_addr_at_own false _ b _ outp pos); auto.
      intros sz Hs. specialize (Hsz sz Hs). lia. }
    apply andb_true_iff. split.
    + apply existsb_exists. exists (bankw_of (it_bank it) b). split; [exact Hin|]. rewrite Own. apply Z.eqb_refl.
    + apply forallb_forall. intros bw Hbw. apply usable_in in Hbw. destruct Hbw as (j & b' & Hb' & -> & Hj).
      destruct (bank_addr_at false (bankw_of j b') (outp + pos)) as [a'|] eqn:E; [|reflexivity].
      destruct (Nat.eq_dec j (it_bank it)) as [->|Hne].
      * rewrite Hb in Hb'. injection Hb' as <-. rewrite Own in E. injection E as <-. apply Z.eqb_refl.
      * exfalso.
        destruct (bank_addr_at_spec _ _ _ _ _ E) as (outp' & Ho' & Hle' & _ & Hs' & _).
        assert (in_window b (outp + pos)) as W1.
        { unfold in_window. rewrite Ho. split; [lia|]. destruct (bk_size b) as [sz|]; [|exact I].
          specialize (Hsz sz eq_refl). lia. }
        assert (in_window b' (outp + pos)) as W2.
        { unfold in_window. rewrite Ho'. split; [exact Hle'|]. destruct (bk_size b') as [sz|]; [|exact I].
          exact (Hs' sz eq_refl). }
        assert (length banks <> 1%nat) as Hlen.
        { intro L. assert (j < 1)%nat by (rewrite <- L; apply nth_error_Some; congruence).
          assert (it_bank it < 1)%nat by (rewrite <- L; apply nth_error_Some; congruence). lia. }
        assert (j <> 0%nat) by tauto. assert (it_bank it <> 0%nat) by tauto.
        destruct (Nat.lt_ge_cases j (it_bank it)).
        -- apply (bank_windows banks W j (it_bank it) b' b ltac:(lia) ltac:(lia) Hb' Hb (outp + pos)). tauto.
        -- apply (bank_windows banks W (it_bank it) j b b' ltac:(lia) ltac:(lia) Hb Hb' (outp + pos)). tauto.
  - (* a label or a zero-sized item: the unit of its own bank that starts (or contains) this position *)
    apply existsb_exists. exists (bankw_of (it_bank it) b). split; [exact Hin|].
    rewrite (bank_addr_at_own true _ b _ outp pos Ho eq_refl Hu).
    + rewrite Ha. apply Z.eqb_refl.
    + intros sz Hs. specialize (Hsz sz Hs). lia.
Qed.

Theorem located_addresses_ok banks items : check_bank_overlap banks = Ok tt -> Forall (located banks) items ->
  addresses_ok (bankws banks) (map lspan_of_item items) = true.
Proof.
  intros W F. unfold addresses_ok. apply forallb_forall. intros s Hs. apply in_map_iff in Hs.
  destruct Hs as (it & <- & Hit). rewrite Forall_forall in F. apply located_addr_ok; auto.
Qed.

(* ------------------------------------------------------------------ the bits under a span are the item's encoding *)
Lemma content_bits_at items out it o enc : content_ok items out = true ->
  In it items -> it_off it = Some o -> it_enc it = Some enc ->
  it_size it = N.of_nat (length enc) /\ bits_at out o (it_size it) = enc.
Proof.
  unfold content_ok. intros C Hit Ho He. rewrite forallb_forall in C. specialize (C it Hit).
  rewrite Ho, He in C. apply andb_true_iff in C. destruct C as [Cs Cb].
  apply N.eqb_eq in Cs. split; [exact Cs|]. unfold bits_at. rewrite Cs, Nat2N.id.
  rewrite forallb_forall in Cb.
  assert (forall n from (l : list bool), length l = n ->
            (forall j, (j < n)%nat -> out_bit out (o + (from + N.of_nat j)) = nth j l false) ->
            map (fun j => out_bit out (o + j)) (count_from from n) = l) as G.
  { induction n as [|n IH]; intros from l Hl Hj.
    - destruct l; [reflexivity|discriminate].
    - destruct l as [|x l]; [discriminate|]. cbn [count_from map]. f_equal.
      + specialize (Hj 0%nat ltac:(lia)). cbn [nth] in Hj. rewrite <- Hj. f_equal. lia.
      + apply IH; [cbn in Hl; lia|]. intros j Hlt. specialize (Hj (S j) ltac:(lia)). cbn [nth] in Hj.
        rewrite <- Hj. f_equal. lia. }
  apply G; [reflexivity|]. intros j Hj. unfold out_bit.
  specialize (Cb j ltac:(apply in_seq; lia)). apply eqb_prop in Cb. rewrite <- Cb. f_equal. lia.
Qed.
