(* C09 / C17 for the inner loop of an asm block (Model/AsmBlock.v = src/asm/resolver/eval_asm.rs, resolve_iteratively and
   its rounds, as of /repo b4e61a4, i.e. after F65: the rounds of the block are strict only when the enclosing pass is).

   (a) no leak: whenever the confirming round is not stable the block hands the enclosing pass Unknown (if that pass may
       guess) or fails (if it may not); the latest estimate never leaves the block.
   (b) budget independence: a value obtained with a round budget n is obtained, identically, with every larger budget,
       and it is the fixed point (the block's labels are the addresses at which they lie under their own values).
   The only property of the one-line resolver that (b) needs is MODE AGREEMENT: an encoding found in the strict mode is
   the encoding found in the guessing mode (H_mode).  It is discharged below for the resolver of Model/Resolver.v
   (Proofs/ResolverMonoP.resolve_encoding_mono), with the block's labels handed to it through the variable provider. *)
From Coq Require Import NArith ZArith List Bool Lia ZifyBool.
From CA Require Import Model.Lexer Model.Parser Model.Literal Model.BigIntOps Model.Evaluator Model.Matcher Model.Resolver Model.AsmBlock
  Spec.Inline Proofs.AsmBlockP Proofs.EvalMonoP Proofs.ResolverMonoP.
Import ListNotations.
Open Scope Z_scope.

Section Budget.
Variable match_resolve : text -> Z -> labels -> bool -> eres (option bigint).
Variable address_of : Z -> bool -> eres Z.
Variable substitute : text -> eres text.
Variable outer_last : bool.

(* mode agreement of the one-line resolver: what the strict mode settles on, the guessing mode settles on too *)
Hypothesis H_mode : forall line pos ls enc,
  match_resolve line pos ls false = EOk (Some enc) -> match_resolve line pos ls true = EOk (Some enc).

Notation rn := (resolve_nodes match_resolve address_of substitute).
Notation ronce := (resolve_once match_resolve address_of substitute).
Notation rnds := (rounds match_resolve address_of substitute outer_last).
Notation riter := (resolve_iteratively match_resolve address_of substitute outer_last).

(* is_first_iteration is carried along but never read *)
Lemma first_irrelevant : forall f f' last ns pos res u ls, rn f last ns pos res u ls = rn f' last ns pos res u ls.
Proof.
  induction ns as [|n r IH]; intros pos res u ls; cbn [resolve_nodes]; [reflexivity|].
  destruct n as [name|src].
  - destruct (address_of pos true); [apply IH|reflexivity].
  - destruct (substitute src) as [line|]; [|reflexivity].
    destruct (match_resolve line pos ls (negb last)) as [[enc|]|]; [| |reflexivity].
    + destruct (bsz enc) as [size|]; [|reflexivity]. destruct (bsz res); [|reflexivity].
      destruct (pos + Z.of_N size >? usize_max); [reflexivity|apply IH].
    + destruct last; [reflexivity|apply IH].
Qed.

(* a round that succeeds in the strict mode is reproduced verbatim in the guessing mode *)
Lemma strict_round_is_guess_round : forall f ns pos res u ls r,
  rn f true ns pos res u ls = BOk r -> rn f false ns pos res u ls = BOk r.
Proof.
  induction ns as [|n rest IH]; intros pos res u ls r H; cbn [resolve_nodes] in *; [exact H|].
  destruct n as [name|src].
  - destruct (address_of pos true); [apply IH; exact H|discriminate].
  - destruct (substitute src) as [line|]; [|discriminate]. cbn [negb] in *.
    destruct (match_resolve line pos ls false) as [[enc|]|] eqn:E; [| discriminate | discriminate].
    rewrite (H_mode _ _ _ _ E).
    destruct (bsz enc) as [size|]; [|discriminate]. destruct (bsz res); [|discriminate].
    destruct (pos + Z.of_N size >? usize_max); [discriminate|apply IH; exact H].
Qed.

Lemma weaken_flags : forall f f' l l' ns pos ls r,
  (l' = l \/ l' = false) -> ronce f l ns pos ls = BOk r -> ronce f' l' ns pos ls = BOk r.
Proof.
  intros f f' l l' ns pos ls r Hl H. unfold resolve_once in *. rewrite (first_irrelevant f' f).
  destruct Hl as [->| ->]; [exact H|]. destruct l; [apply strict_round_is_guess_round; exact H|exact H].
Qed.

(* what follows the while loop *)
Definition finish (ns : list anode) (pos : Z) (r : bres labels) : bres value :=
  match r with
  | BErr => BErr
  | BPanic => BPanic
  | BOk ls1 =>
    match ronce false outer_last ns pos ls1 with
    | BErr => BErr
    | BPanic => BPanic
    | BOk (v, false, _) => BOk (VInt v)
    | BOk (_, true, _) => if negb outer_last then BOk VUnknown else BErr
    end
  end.

Lemma riter_finish : forall ns pos max ls, riter ns pos max ls = finish ns pos (rnds ns pos max 0 max ls).
Proof. reflexivity. Qed.

(* ---------- (a) no leak ---------- *)
Theorem no_leak : forall ns pos max ls ls1 x ls2,
  rnds ns pos max 0 max ls = BOk ls1 ->
  ronce false outer_last ns pos ls1 = BOk (x, true, ls2) ->
  riter ns pos max ls = if outer_last then BErr else BOk VUnknown.
Proof.
  intros ns pos max ls ls1 x ls2 Hr Hc. rewrite riter_finish, Hr. cbn [finish]. rewrite Hc.
  destruct outer_last; reflexivity.
Qed.

(* ---------- (b) budget independence ---------- *)
(* once the confirming round is stable from ls, any number of further rounds changes nothing *)
Lemma settled : forall ns pos ls V ls2,
  labels_wf ls -> covers ns ls ->
  ronce false outer_last ns pos ls = BOk (V, false, ls2) ->
  forall k i max, finish ns pos (rnds ns pos k i max ls) = BOk (VInt V).
Proof.
  intros ns pos ls V ls2 Hw Hc H.
  assert (ls2 = ls) by (unfold resolve_once in H; destruct (stable_round _ _ _ _ _ _ _ _ _ _ _ Hw Hc H) as [E _]; exact E).
  subst ls2. intros k i max. destruct k as [|k]; cbn [rounds].
  - cbn [finish]. rewrite H. reflexivity.
  - assert (G : ronce (Nat.eqb (S i) 1) (Nat.eqb (S i) max && outer_last) ns pos ls = BOk (V, false, ls)).
    { eapply weaken_flags; [|exact H]. destruct (Nat.eqb (S i) max); cbn [andb]; auto. }
    rewrite G. cbn [finish]. rewrite H. reflexivity.
Qed.

Lemma finish_value_inv : forall ns pos ls V,
  finish ns pos (BOk ls) = BOk (VInt V) -> exists ls2, ronce false outer_last ns pos ls = BOk (V, false, ls2).
Proof.
  intros ns pos ls V H. cbn [finish] in H.
  destruct (ronce false outer_last ns pos ls) as [[[v u] ls2]| |]; try discriminate.
  destruct u; [destruct (negb outer_last); discriminate|]. inversion H; subst. eexists; reflexivity.
Qed.

Lemma mono_aux : forall ns pos d k i ls V,
  labels_wf ls -> covers ns ls ->
  finish ns pos (rnds ns pos k i (i + k) ls) = BOk (VInt V) ->
  finish ns pos (rnds ns pos (k + d) i (i + k + d) ls) = BOk (VInt V).
Proof.
  intros ns pos d. induction k as [|k IH]; intros i ls V Hw Hc H.
  - cbn [rounds] in H. destruct (finish_value_inv _ _ _ _ H) as [ls2 Hs].
    eapply settled; eassumption.
  - cbn [rounds Nat.add] in *.
    destruct (ronce (Nat.eqb (S i) 1) (Nat.eqb (S i) (i + S k) && outer_last) ns pos ls) as [[[v u] ls']| |] eqn:E;
      try (cbn [finish] in H; discriminate).
    assert (E' : ronce (Nat.eqb (S i) 1) (Nat.eqb (S i) (i + S k + d) && outer_last) ns pos ls = BOk (v, u, ls')).
    { eapply weaken_flags; [|exact E].
      destruct d as [|d]; [left; rewrite Nat.add_0_r; reflexivity|].
      right. replace (Nat.eqb (S i) (i + S k + S d)) with false; [reflexivity|].
      symmetry. apply Nat.eqb_neq. lia. }
    rewrite E'.
    unfold resolve_once in E.
    pose proof (round_wf _ _ _ _ _ _ _ _ _ _ _ _ _ Hw E) as Hw'.
    pose proof (round_covers _ _ _ ns _ _ _ _ _ _ _ _ _ _ Hc E) as Hc'.
    destruct u; [|exact H].
    replace (i + S k + d)%nat with (S i + k + d)%nat by lia.
    apply IH; try assumption.
    replace (S i + k)%nat with (i + S k)%nat by lia. exact H.
Qed.

Theorem block_budget_monotone : forall ns pos n n' ls V,
  labels_wf ls -> covers ns ls -> (n <= n')%nat ->
  riter ns pos n ls = BOk (VInt V) -> riter ns pos n' ls = BOk (VInt V).
Proof.
  intros ns pos n n' ls V Hw Hc Hle H. rewrite riter_finish in *.
  replace n' with (n + (n' - n))%nat by lia.
  pose proof (mono_aux ns pos (n' - n) n 0 ls V Hw Hc H) as G. cbn [Nat.add] in G. exact G.
Qed.

End Budget.

(* the whole entry point: depth check, pre-scan, loop *)
Theorem eval_asm_budget_monotone : forall mr ao sub outer_last,
  (forall line pos ls enc, mr line pos ls false = EOk (Some enc) -> mr line pos ls true = EOk (Some enc)) ->
  forall depth raw pos n n' V, (n <= n')%nat ->
  eval_asm mr ao sub outer_last depth raw pos n = BOk (VInt V) ->
  eval_asm mr ao sub outer_last depth raw pos n' = BOk (VInt V).
Proof.
  intros mr ao sub outer_last Hm depth raw pos n n' V Hle H. unfold eval_asm in *.
  destruct (depth >=? EVAL_DEPTH_MAX); [discriminate|].
  destruct (prescan raw [] []) as [[ns ls0]|] eqn:Ep; [|discriminate].
  destruct (prescan_inv raw [] [] ns ls0 (Forall_nil _) (fun _ F => match F with end) Ep) as [Hw Hc].
  eapply block_budget_monotone; eassumption.
Qed.

Theorem eval_asm_no_leak : forall mr ao sub outer_last depth raw pos n v,
  eval_asm mr ao sub outer_last depth raw pos n = BOk v ->
  (exists V ns ls0 L, v = VInt V /\ prescan raw [] [] = EOk (ns, ls0) /\
                      resolve_once mr ao sub false outer_last ns pos L = BOk (V, false, L))
  \/ (v = VUnknown /\ outer_last = false).
Proof.
  intros mr ao sub outer_last depth raw pos n v H.
  destruct (eval_asm_outcomes _ _ _ _ _ _ _ _ _ H) as [_ [ns [ls0 [Hp [[V [L [fin [Hv [_ [_ [_ Hr]]]]]]]|Hu]]]]].
  - left. exists V, ns, ls0, L. repeat split; assumption.
  - right. exact Hu.
Qed.

(* ---------- the hypothesis holds for the resolver of Model/Resolver.v ---------- *)
(* the block's labels reach the line through the variable provider (in the code: as locals of the context in which the
   line's ARGUMENTS are evaluated; here they are visible to productions as well) *)
Definition with_labels (ls : labels) (pv : N -> list text -> eres value) : N -> list text -> eres value :=
  fun level path =>
    match level, path with
    | 0%N, [n] => match lookup ls n with Some v => EOk v | None => pv level path end
    | _, _ => pv level path
    end.

Definition resolver_line (indexed : bool) (defs : list ruledef) (names : list text) (st : state)
  (line : text) (pos : Z) (ls : labels) (can_guess : bool) : eres (option bigint) :=
  resolve_encoding defs (with_labels ls (pvar names st pos can_guess)) can_guess (match_instr indexed defs line).

Lemma with_labels_le : forall ls pv1 pv2, pv_le pv1 pv2 -> pv_le (with_labels ls pv1) (with_labels ls pv2).
Proof.
  intros ls pv1 pv2 H l p v. unfold with_labels.
  destruct l; [|apply H]. destruct p as [|n [|? ?]]; try apply H.
  destruct (lookup ls n); [auto|apply H].
Qed.

Theorem resolver_line_mode_agree : forall indexed defs names st line pos ls enc,
  resolver_line indexed defs names st line pos ls false = EOk (Some enc) ->
  resolver_line indexed defs names st line pos ls true = EOk (Some enc).
Proof.
  intros indexed defs names st line pos ls enc H. unfold resolver_line in *.
  eapply resolve_encoding_mono; [|exact H]. apply with_labels_le. apply pvar_mono.
Qed.

(* hence, for asm blocks over Model/Resolver.v's one-line resolver, without hypotheses *)
Theorem resolver_block_budget_monotone : forall indexed defs names st sub outer_last depth raw pos n n' V,
  (n <= n')%nat ->
  eval_asm (resolver_line indexed defs names st) address_at sub outer_last depth raw pos n = BOk (VInt V) ->
  eval_asm (resolver_line indexed defs names st) address_at sub outer_last depth raw pos n' = BOk (VInt V).
Proof.
  intros indexed defs names st sub outer_last depth raw pos n n' V Hle H.
  eapply eval_asm_budget_monotone; [|exact Hle|exact H].
  intros line p ls enc. apply resolver_line_mode_agree.
Qed.

(* ---------- refutation of budget independence of the guess-mode OUTCOME (Unknown versus value) ---------- *)
Lemma toy_resolve_mode : forall line p ls enc,
  toy_resolve line p ls false = EOk (Some enc) -> toy_resolve line p ls true = EOk (Some enc).
Proof. intros line p ls enc H. exact H. Qed.

Theorem toy_block_outcome_depends_on_budget :
  exists mr ao sub depth raw pos n n' V,
    (forall line p ls enc, mr line p ls false = EOk (Some enc) -> mr line p ls true = EOk (Some enc)) /\
    (n <= n')%nat /\
    eval_asm mr ao sub false depth raw pos n = BOk VUnknown /\
    eval_asm mr ao sub false depth raw pos n' = BOk (VInt V).
Proof.
  exists toy_resolve, toy_address, (fun t => EOk t), 1, toy_block, 16, 0%nat, 10%nat, (mk 0x040004 (Some 24%N)).
  split; [exact toy_resolve_mode|]. split; [lia|]. split; vm_compute; reflexivity.
Qed.
