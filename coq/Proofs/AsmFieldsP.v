(* Proofs about Model/AsmFields.v (fields.rs / directive_bankdef.rs with the span of the first error).
   - forgetting the error spans gives exactly the parsers of Model/AsmParser.v (so everything proved there carries over);
   - every field's span is exactly the token that spells its name (a running join of the fields' spans is excluded);
   - fault localisation: a duplicate / unknown field is reported at the NAME token of the first faulty field in
     source order, for every block shape.
   No axioms. *)
From Coq Require Import NArith List Bool Lia ZifyBool.
Import ListNotations.
From CA Require Import Model.Lexer Model.Parser Model.Literal Model.Matcher Model.AsmAst Model.AsmParser Model.AsmFields
                       Proofs.MatcherP Proofs.AsmParserP.
Open Scope N_scope.
Local Arguments N.add : simpl never.
Local Arguments N.sub : simpl never.

Definition fname (x : afield) : text := fst (fst x).
Definition fspan (x : afield) : span := snd (fst x).

(* ================================================================================================ *)
(* A. the located parsers refine the unlocated ones                                                  *)

Lemma ffields_S dup hook f ed g w acc : ffields dup hook f ed (S g) w acc =
    if xnext_useful_is w TBraceClose then FOk (rev acc) w else
    let '(w, hash) := match xmaybe_expect w THash with Some (w', _) => (w', true) | None => (w, false) end in
    fdo (nm, w) <- fexpect_sp w TIdentifier;
    if dup && has_field (snd nm) acc then FErr (fst nm) else
    let cont (oe : option xexpr) (w : walker) : fres (list afield) :=
      let acc' := (snd nm, fst nm, oe) :: acc in
      match xmaybe_expect w TComma with
      | Some (w, _) => ffields dup hook f ed g w acc'
      | None => match xnext_linebreak w with
                | Some w => ffields dup hook f ed g w acc'
                | None => FOk (rev acc') w
                end
      end in
    if hash && negb (xat_linebreak w) then fdo (e, w) <- fpexpr hook f ed w; cont (Some e) w
    else match xmaybe_expect w TEqual with
         | Some (w, _) => fdo (e, w) <- fpexpr hook f ed w; cont (Some e) w
         | None => cont None w
         end.
Proof. reflexivity. Qed.

(* case analysis on whatever a match of the goal is stuck on *)
Ltac er_step :=
  cbn [erase fbind bind fst snd andb];
  match goal with
  | |- context [match ?x with _ => _ end] =>
      lazymatch x with
      | context [match _ with _ => _ end] => fail
      | _ => destruct x eqn:?
      end
  end.

Lemma ffields_erase hook f ed : forall g w acc, erase (ffields true hook f ed g w acc) = parse_fields hook f ed g w acc.
Proof.
  induction g as [|g IH]; intros w acc; [reflexivity|].
  rewrite ffields_S, parse_fields_S. unfold fexpect_sp, xexpect_sp, fpexpr, has_field. cbv zeta.
  repeat er_step; cbn [erase fbind bind fst snd andb]; try reflexivity; try apply IH; try congruence.
Qed.

Lemma fbankdef_erase hook f ed header w : erase (fbankdef hook f ed header w) = parse_bankdef hook f ed header w.
Proof.
  unfold fbankdef, parse_bankdef, fexpect_sp, xexpect_sp, fexpect, xexpect, fexpect_linebreak, xexpect_linebreak.
  destruct (xmaybe_expect_sp w TIdentifier) as [[[w1 s1] t1]|]; cbn [erase fbind bind]; [|reflexivity].
  destruct (xmaybe_expect w1 TBraceOpen) as [[w2 t2]|]; cbn [erase fbind bind]; [|reflexivity].
  rewrite <- (ffields_erase hook f ed f w2 []).
  destruct (ffields true hook f ed f w2 []) as [fl w3| | |]; cbn [erase fbind bind]; try reflexivity.
  repeat er_step; cbn [erase fbind bind]; try reflexivity.
Qed.

Lemma fparse_lines_erase : forall fuel w acc, erase (fparse_lines fuel w acc) = parse_lines_d fuel 0 0 false w acc.
Proof.
  induction fuel as [|f IH]; intros w acc; [reflexivity|].
  cbn [fparse_lines]. rewrite parse_lines_d_S. cbn [andb].
  destruct (xover w); [reflexivity|].
  destruct f as [|f']; [reflexivity|].
  assert (Hgen : erase (match parse_line_d (S f') 0 0 w with
                        | POk on w' => fparse_lines (S f') w' (match on with Some n => n :: acc | None => acc end)
                        | PErr => FErrExpr (cur w)
                        | PFuel => FFuel
                        end) = (do (on, w0) <- parse_line_d (S f') 0 0 w; parse_lines_d (S f') 0 0 false w0 (match on with Some n => n :: acc | None => acc end))).
  { destruct (parse_line_d (S f') 0 0 w) as [on w'| |]; cbn [erase bind]; [apply IH | reflexivity | reflexivity]. }
  destruct (xnext_useful_is w THash) eqn:Eh; [|exact Hgen].
  destruct (xexpect_sp w THash) as [h w1| |] eqn:E1; try exact Hgen.
  destruct (xexpect_sp w1 TIdentifier) as [nm w2| |] eqn:E2; try exact Hgen.
  destruct (classify (map to_lower (snd nm))) eqn:K; try exact Hgen.
  (* the #bankdef line *)
  rewrite (parse_line_d_S f'). rewrite Eh, E1. cbn [bind]. rewrite E2. cbn [bind]. cbv zeta. rewrite K.
  cbn [parse_directive]. rewrite <- fbankdef_erase.
  destruct (fbankdef (asm_hook f' 0) f' 0 (join_s (fst h) (fst nm)) w2) as [n w3| | |]; cbn [erase fbind bind]; try reflexivity.
  apply IH.
Qed.

(* asm::parser::parse: same acceptance and same AST, the located model only adds where the first error is *)
Theorem fparse_file_erase : forall t, erase (fparse_file t) = parse_file t.
Proof. intros t. unfold fparse_file, parse_file, parse_lines. apply fparse_lines_erase. Qed.

(* ================================================================================================ *)
(* B. a field's span is exactly the token that spells its name                                       *)

Lemma xmaybe_expect_sp_excerpt t w k w' sp txt : wf t w -> xmaybe_expect_sp w k = Some (w', sp, txt) -> excerpt t sp = txt.
Proof.
  intros Hw. unfold xmaybe_expect_sp, xnext_useful.
  destruct (xtoken (xskip w)) as [k' n] eqn:E. destruct (tkind_eqb k k'); [|discriminate].
  intros H. injection H as _ <- <-.
  pose proof (wf_ext t w (xskip w) Hw (xskip_ext w)) as (pre & post & Ht & Hc & _).
  apply xtoken_ext in E. destruct E as (_ & p & s & Tp & ->).
  unfold excerpt. cbn [fst snd]. replace (cur (xskip w) + bytes_len p - cur (xskip w)) with (bytes_len p) by lia.
  rewrite Hc, Ht, drop_blen_app, Tp, <- app_assoc, !take_blen_app. reflexivity.
Qed.

(* the field's span is a valid span of the file and the text under it is the field's name *)
Definition field_exact (t : text) (x : afield) : Prop := vspan t (fspan x) /\ excerpt t (fspan x) = fname x.

Lemma ffields_exact t dup hook f ed :
  (forall d w r w', wf t w -> hook d w = POk r w' -> ext w w') ->
  forall g w acc l w', wf t w -> Forall (field_exact t) acc ->
  ffields dup hook f ed g w acc = FOk l w' -> Forall (field_exact t) l.
Proof.
  intros Hhook.
  assert (Hhook' : forall d w r w', wf t w -> hook d w = POk r w' -> ext w w' /\ (fun _ : span * list anode => True) r)
    by (intros d w r w' Hw Hh; split; [eapply Hhook; eassumption | exact I]).
  induction g as [|g IH]; intros w acc l w' Hw Ha H; [discriminate|].
  rewrite ffields_S in H.
  destruct (xnext_useful_is w TBraceClose); [assert (E : l = rev acc) by congruence; rewrite E; apply Forall_rev; exact Ha|].
  assert (exists w1 hash, (match xmaybe_expect w THash with Some (w', _) => (w', true) | None => (w, false) end) = (w1, hash) /\ wf t w1) as (w1 & hash & Eq & Hw1).
  { destruct (xmaybe_expect w THash) as [[w9 t9]|] eqn:E9; eexists; eexists; (split; [reflexivity|]).
    - eapply wf_ext; [exact Hw | eapply xmaybe_expect_ext; eassumption].
    - exact Hw. }
  rewrite Eq in H. clear Eq. unfold fexpect_sp in H.
  destruct (xmaybe_expect_sp w1 TIdentifier) as [[[w2 sp] nm]|] eqn:En; cbn [fbind fst snd] in H; [|discriminate].
  pose proof (xmaybe_expect_sp_excerpt _ _ _ _ _ _ Hw1 En) as Hex.
  apply (xmaybe_expect_sp_ext t) in En; [|exact Hw1]. destruct En as [En Hsp].
  assert (wf t w2) as Hw2 by (eapply wf_ext; eassumption).
  destruct (dup && has_field nm acc); [discriminate|]. cbv zeta in H.
  assert (Hcont : forall oe wc, wf t wc ->
            match xmaybe_expect wc TComma with
            | Some (w3, _) => ffields dup hook f ed g w3 ((nm, sp, oe) :: acc)
            | None => match xnext_linebreak wc with
                      | Some w3 => ffields dup hook f ed g w3 ((nm, sp, oe) :: acc)
                      | None => FOk (rev ((nm, sp, oe) :: acc)) wc
                      end
            end = FOk l w' -> Forall (field_exact t) l).
  { intros oe wc Hwc G.
    assert (Forall (field_exact t) ((nm, sp, oe) :: acc)) as Hacc by (constructor; [split; assumption | assumption]).
    destruct (xmaybe_expect wc TComma) as [[w3 t3]|] eqn:Ec.
    - eapply IH; [|exact Hacc|exact G]. eapply wf_ext; [exact Hwc | eapply xmaybe_expect_ext; eassumption].
    - destruct (xnext_linebreak wc) as [w3|] eqn:El.
      + eapply IH; [|exact Hacc|exact G]. eapply wf_ext; [exact Hwc | apply xnext_linebreak_ext; assumption].
      + assert (E : l = rev ((nm, sp, oe) :: acc)) by congruence. rewrite E. apply Forall_rev. exact Hacc. }
  assert (Hval : forall wv, wf t wv -> forall oe, (fdo (e, w3) <- fpexpr hook f ed wv;
            match xmaybe_expect w3 TComma with
            | Some (w4, _) => ffields dup hook f ed g w4 ((nm, sp, Some e) :: acc)
            | None => match xnext_linebreak w3 with
                      | Some w4 => ffields dup hook f ed g w4 ((nm, sp, Some e) :: acc)
                      | None => FOk (rev ((nm, sp, Some e) :: acc)) w3
                      end
            end) = FOk l w' -> oe = tt -> Forall (field_exact t) l).
  { intros wv Hwv _ G _. unfold fpexpr in G. destruct (pexpr hook f ed wv) as [e w3| |] eqn:Ep; cbn [fbind] in G; try discriminate.
    eapply Hcont; [|exact G].
    unfold pexpr in Ep. eapply wf_ext; [exact Hwv|].
    exact (proj1 (gparse_expr_ok t hook _ Hhook' f ed wv e w3 Hwv Ep)). }
  destruct (hash && negb (xat_linebreak w2)).
  - eapply (Hval w2 Hw2 tt); [exact H | reflexivity].
  - destruct (xmaybe_expect w2 TEqual) as [[w3 t3]|] eqn:Ee.
    + eapply (Hval w3); [| exact H | reflexivity]. eapply wf_ext; [exact Hw2 | eapply xmaybe_expect_ext; eassumption].
    + eapply Hcont; [exact Hw2 | exact H].
Qed.

(* ================================================================================================ *)
(* C. fault localisation                                                                             *)

Definition located (o : option afield) (ok : fres (list afield)) : fres (list afield) :=
  match o with Some x => FErr (fspan x) | None => ok end.

(* duplicates: whatever the block looks like (fields `l` as written, in source order), the parser stops at the first field
   whose name has already been used and reports that field's own span *)
Lemma ffields_dup_localised hook f ed : forall g w acc l w',
  ffields false hook f ed g w acc = FOk l w' ->
  exists s, l = rev acc ++ s /\ ffields true hook f ed g w acc = located (first_dup acc s) (FOk l w').
Proof.
  induction g as [|g IH]; intros w acc l w' H; [discriminate|].
  rewrite ffields_S in H. rewrite ffields_S.
  destruct (xnext_useful_is w TBraceClose).
  { exists []. assert (E : l = rev acc) by congruence. rewrite app_nil_r. split; [exact E|]. cbn [first_dup located]. congruence. }
  destruct (match xmaybe_expect w THash with Some (w', _) => (w', true) | None => (w, false) end) as [w1 hash].
  unfold fexpect_sp in *. destruct (xmaybe_expect_sp w1 TIdentifier) as [[[w2 sp] nm]|]; cbn [fbind fst snd] in *; [|discriminate].
  cbn [andb] in H. cbv zeta in H. cbv zeta.
  assert (Hcont : forall oe wc,
            match xmaybe_expect wc TComma with
            | Some (w3, _) => ffields false hook f ed g w3 ((nm, sp, oe) :: acc)
            | None => match xnext_linebreak wc with
                      | Some w3 => ffields false hook f ed g w3 ((nm, sp, oe) :: acc)
                      | None => FOk (rev ((nm, sp, oe) :: acc)) wc
                      end
            end = FOk l w' ->
            exists s, l = rev acc ++ s /\
              (if true && has_field nm acc then FErr sp else
               match xmaybe_expect wc TComma with
               | Some (w3, _) => ffields true hook f ed g w3 ((nm, sp, oe) :: acc)
               | None => match xnext_linebreak wc with
                         | Some w3 => ffields true hook f ed g w3 ((nm, sp, oe) :: acc)
                         | None => FOk (rev ((nm, sp, oe) :: acc)) wc
                         end
               end) = located (first_dup acc s) (FOk l w')).
  { intros oe wc G.
    assert (Hfin : forall s', l = rev ((nm, sp, oe) :: acc) ++ s' ->
              forall r, r = located (first_dup ((nm, sp, oe) :: acc) s') (FOk l w') ->
              exists s, l = rev acc ++ s /\ (if true && has_field nm acc then FErr sp else r) = located (first_dup acc s) (FOk l w')).
    { intros s' El r Er. exists ((nm, sp, oe) :: s'). split; [rewrite El; cbn [rev]; rewrite <- app_assoc; reflexivity|].
      cbn [first_dup andb]. change (fst (fst (nm, sp, oe))) with nm.
      destruct (has_field nm acc); [reflexivity | exact Er]. }
    destruct (xmaybe_expect wc TComma) as [[w3 t3]|].
    - destruct (IH _ _ _ _ G) as (s' & El & Er). eapply Hfin; eassumption.
    - destruct (xnext_linebreak wc) as [w3|].
      + destruct (IH _ _ _ _ G) as (s' & El & Er). eapply Hfin; eassumption.
      + eapply (Hfin []); [rewrite app_nil_r; congruence|]. cbn [first_dup located]. congruence. }
  assert (Hval : forall wv,
            (fdo (e, w3) <- fpexpr hook f ed wv;
             match xmaybe_expect w3 TComma with
             | Some (w4, _) => ffields false hook f ed g w4 ((nm, sp, Some e) :: acc)
             | None => match xnext_linebreak w3 with
                       | Some w4 => ffields false hook f ed g w4 ((nm, sp, Some e) :: acc)
                       | None => FOk (rev ((nm, sp, Some e) :: acc)) w3
                       end
             end) = FOk l w' ->
            exists s, l = rev acc ++ s /\
              (if true && has_field nm acc then FErr sp else
               fdo (e, w3) <- fpexpr hook f ed wv;
               match xmaybe_expect w3 TComma with
               | Some (w4, _) => ffields true hook f ed g w4 ((nm, sp, Some e) :: acc)
               | None => match xnext_linebreak w3 with
                         | Some w4 => ffields true hook f ed g w4 ((nm, sp, Some e) :: acc)
                         | None => FOk (rev ((nm, sp, Some e) :: acc)) w3
                         end
               end) = located (first_dup acc s) (FOk l w')).
  { intros wv G. destruct (fpexpr hook f ed wv) as [e w3| | |]; cbn [fbind] in *; try discriminate. exact (Hcont (Some e) w3 G). }
  destruct (hash && negb (xat_linebreak w2)).
  - destruct (Hval w2 H) as (s & El & Er). exists s. split; [exact El|]. destruct (true && has_field nm acc); exact Er.
  - destruct (xmaybe_expect w2 TEqual) as [[w3 t3]|].
    + destruct (Hval w3 H) as (s & El & Er). exists s. split; [exact El|]. destruct (true && has_field nm acc); exact Er.
    + destruct (Hcont None w2 H) as (s & El & Er). exists s. split; [exact El|]. destruct (true && has_field nm acc); exact Er.
Qed.

Corollary ffields_first_duplicate hook f ed g w l w' :
  ffields false hook f ed g w [] = FOk l w' -> ffields true hook f ed g w [] = located (first_dup [] l) (FOk l w').
Proof. intros H. destruct (ffields_dup_localised _ _ _ _ _ _ _ _ H) as (s & El & Er). cbn [rev app] in El. subst s. exact Er. Qed.

(* --- unknown fields: what is left after the seven extractions of directive_bankdef.rs --- *)
Lemma has_field_In n acc : has_field n acc = true <-> In n (map fname acc).
Proof.
  unfold has_field. rewrite existsb_exists. split.
  - intros (x & Hin & E). apply text_eqb_eq in E. apply in_map_iff. exists x. split; [exact E | exact Hin].
  - intros Hin. apply in_map_iff in Hin. destruct Hin as (x & E & Hin). exists x. split; [exact Hin|].
    unfold fname in E. rewrite E. apply text_eqb_refl.
Qed.

Lemma first_dup_none : forall l seen, first_dup seen l = None ->
  NoDup (map fname l) /\ forall x, In x l -> ~ In (fname x) (map fname seen).
Proof.
  induction l as [|x l IH]; intros seen H; cbn [first_dup map] in *; [split; [constructor | intros ? []]|].
  destruct (has_field (fst (fst x)) seen) eqn:E; [discriminate|].
  destruct (IH _ H) as [Hnd Hdis]. split.
  - constructor; [|exact Hnd]. intros Hin. apply in_map_iff in Hin. destruct Hin as (y & Ey & Hy).
    apply (Hdis y Hy). cbn [map]. left. symmetry. exact Ey.
  - intros y [<-|Hy].
    + intros Hin. apply has_field_In in Hin. unfold fname in Hin. congruence.
    + intros Hin. apply (Hdis y Hy). cbn [map]. right. exact Hin.
Qed.

Lemma first_dup_In : forall l seen x, first_dup seen l = Some x -> In x l.
Proof.
  induction l as [|y l IH]; intros seen x H; cbn [first_dup] in H; [discriminate|].
  destruct (has_field (fst (fst y)) seen); [injection H as <-; left; reflexivity | right; eapply IH; eassumption].
Qed.
Lemma first_unknown_In : forall l x, first_unknown l = Some x -> In x l /\ known_field x = false.
Proof.
  induction l as [|y l IH]; intros x H; cbn [first_unknown] in H; [discriminate|].
  destruct (known_field y) eqn:K.
  - destruct (IH _ H). split; [right; assumption | assumption].
  - injection H as <-. split; [left; reflexivity | exact K].
Qed.

Definition other (name : text) (x : afield) : bool := negb (text_eqb (fst (fst x)) name).

Lemma filter_other_id name : forall l, (forall y, In y l -> text_eqb (fst (fst y)) name = false) -> filter (other name) l = l.
Proof.
  induction l as [|y l IH]; intros H; cbn [filter]; [reflexivity|].
  unfold other at 1. rewrite (H y (or_introl eq_refl)). cbn [negb]. f_equal. apply IH. intros z Hz. apply H. right. exact Hz.
Qed.

Lemma extract_field_filter name : forall l, NoDup (map fname l) -> snd (extract_field name l) = filter (other name) l.
Proof.
  induction l as [|x l IH]; intros Hnd; cbn [extract_field filter]; [reflexivity|].
  inversion Hnd as [|x0 l0 Hx Hl Ex0]. clear x0 l0 Ex0 H. unfold other at 1.
  destruct (text_eqb (fst (fst x)) name) eqn:E; cbn [negb snd].
  - apply text_eqb_eq in E. symmetry. apply filter_other_id. intros y Hy.
    destruct (text_eqb (fst (fst y)) name) eqn:Ey; [|reflexivity].
    exfalso. apply text_eqb_eq in Ey. apply Hx. apply in_map_iff. exists y. split; [unfold fname; congruence | exact Hy].
  - destruct (extract_field name l) as [o r] eqn:Ex. cbn [snd] in *. rewrite IH by exact Hl. reflexivity.
Qed.

Lemma NoDup_fname_filter p l : NoDup (map fname l) -> NoDup (map fname (filter p l)).
Proof. apply NoDup_map_filter. Qed.

Lemma filter_filter {X} (p q : X -> bool) l : filter p (filter q l) = filter (fun x => q x && p x) l.
Proof.
  induction l as [|x l IH]; cbn [filter]; [reflexivity|].
  destruct (q x); cbn [filter andb]; [destruct (p x); rewrite IH; reflexivity | exact IH].
Qed.

Lemma first_unknown_filter : forall l, first_unknown l = hd_error (filter (fun x => negb (known_field x)) l).
Proof.
  induction l as [|x l IH]; cbn [first_unknown filter]; [reflexivity|].
  destruct (known_field x); cbn [negb hd_error]; [exact IH | reflexivity].
Qed.

(* the list report_remaining walks: the unknown fields in source order *)
Lemma remaining_fields l : NoDup (map fname l) ->
  snd (extract_field nm_fill (snd (extract_field nm_outp (snd (extract_field nm_size (snd (extract_field nm_addr_end
    (snd (extract_field nm_addr (snd (extract_field nm_labelalign (snd (extract_field nm_bits l)))))))))))))
  = filter (fun x => negb (known_field x)) l.
Proof.
  intros H0.
  rewrite (extract_field_filter nm_bits l H0). pose proof (NoDup_fname_filter (other nm_bits) l H0) as H1.
  rewrite (extract_field_filter nm_labelalign _ H1). pose proof (NoDup_fname_filter (other nm_labelalign) _ H1) as H2.
  rewrite (extract_field_filter nm_addr _ H2). pose proof (NoDup_fname_filter (other nm_addr) _ H2) as H3.
  rewrite (extract_field_filter nm_addr_end _ H3). pose proof (NoDup_fname_filter (other nm_addr_end) _ H3) as H4.
  rewrite (extract_field_filter nm_size _ H4). pose proof (NoDup_fname_filter (other nm_size) _ H4) as H5.
  rewrite (extract_field_filter nm_outp _ H5). pose proof (NoDup_fname_filter (other nm_outp) _ H5) as H6.
  rewrite (extract_field_filter nm_fill _ H6).
  rewrite !filter_filter. apply filter_ext. intros x. unfold known_field, bankdef_names, other. cbn [existsb].
  repeat match goal with |- context [text_eqb ?a ?b] => destruct (text_eqb a b) end; reflexivity.
Qed.

Lemma fbankdef_after_fields hook f ed header w nm w1 b w2 l w3 :
  fexpect_sp w TIdentifier = FOk nm w1 -> fexpect w1 TBraceOpen = FOk b w2 -> ffields true hook f ed f w2 [] = FOk l w3 ->
  NoDup (map fname l) -> forall x, first_unknown l = Some x -> fbankdef hook f ed header w = FErr (fspan x).
Proof.
  intros E1 E2 E3 Hnd x Hx. unfold fbankdef. rewrite E1. cbn [fbind]. rewrite E2. cbn [fbind]. rewrite E3. cbn [fbind].
  pose proof (remaining_fields l Hnd) as Hr. rewrite first_unknown_filter in Hx. revert Hr.
  destruct (extract_field nm_bits l) as [o1 l1]; cbn [snd]. destruct (extract_field nm_labelalign l1) as [o2 l2]; cbn [snd].
  destruct (extract_field nm_addr l2) as [o3 l3]; cbn [snd]. destruct (extract_field nm_addr_end l3) as [o4 l4]; cbn [snd].
  destruct (extract_field nm_size l4) as [o5 l5]; cbn [snd]. destruct (extract_field nm_outp l5) as [o6 l6]; cbn [snd].
  destruct (extract_field nm_fill l6) as [o7 l7]; cbn [snd]. intros Hr. rewrite Hr.
  destruct (filter (fun x0 => negb (known_field x0)) l) as [|y r]; cbn [hd_error] in Hx; [discriminate|].
  injection Hx as <-. reflexivity.
Qed.

(* THE localisation theorem.  Let l be the fields of the block as written (ffields without the duplicate check), in
   source order.  If some field repeats an earlier name, #bankdef fails with the span of the FIRST such field; otherwise
   if some field is not one of bits/labelalign/addr/addr_end/size/outp/fill, it fails with the span of the FIRST such
   field - for every block shape: any number of fields, either field style, any separators, comments, values. *)
Theorem fbankdef_fault_localised hook f ed header w nm w1 b w2 l w3 x :
  fexpect_sp w TIdentifier = FOk nm w1 -> fexpect w1 TBraceOpen = FOk b w2 ->
  ffields false hook f ed f w2 [] = FOk l w3 ->
  (first_dup [] l = Some x \/ (first_dup [] l = None /\ first_unknown l = Some x)) ->
  fbankdef hook f ed header w = FErr (fspan x) /\ In x l.
Proof.
  intros E1 E2 E3 [Hd|[Hd Hu]]; pose proof (ffields_first_duplicate _ _ _ _ _ _ _ E3) as Ht; rewrite Hd in Ht; cbn [located] in Ht.
  - split; [|eapply first_dup_In; eassumption].
    unfold fbankdef. rewrite E1. cbn [fbind]. rewrite E2. cbn [fbind]. rewrite Ht. reflexivity.
  - split; [|apply (first_unknown_In _ _ Hu)].
    eapply fbankdef_after_fields; try eassumption. apply (first_dup_none _ _ Hd).
Qed.

(* ================================================================================================ *)
(* D. inside a file: the statements for Props/C13.v                                                  *)

Lemma asm_hook_ext t fuel bd : forall d w r w', wf t w -> asm_hook fuel bd d w = POk r w' -> ext w w'.
Proof.
  intros d w r w' Hw H. destruct (kinv_all t fuel) as (_ & _ & _ & _ & _ & Hk). exact (proj1 (Hk bd d w r w' Hw H)).
Qed.

(* every field that fields::parse records carries, as its span, exactly the token that spells its name: a valid span
   of the file whose text is the field's name.  (The seeded defect C13-4 - storing the running join of all the
   fields' spans - is excluded: the text under such a span is not the name of any field but the first.) *)
Theorem C13_field_spans_exact : forall t dup fuel bd f ed g w l w',
  wf t w -> ffields dup (asm_hook fuel bd) f ed g w [] = FOk l w' ->
  Forall (fun x : afield => vspan t (snd (fst x)) /\ excerpt t (snd (fst x)) = fst (fst x)) l.
Proof.
  intros t dup fuel bd f ed g w l w' Hw H.
  exact (ffields_exact t dup _ f ed (asm_hook_ext t fuel bd) g w [] l w' Hw (Forall_nil _) H).
Qed.

(* fault localisation: with l the fields of the block as written, in source order, a #bankdef whose block repeats a
   field name fails AT THE NAME TOKEN of the first repeating field; otherwise, one that uses an unknown field name fails
   AT THE NAME TOKEN of the first unknown field - on the faulty line, at the faulty token, for every block shape *)
Theorem C13_bankdef_field_fault_at_name : forall t fuel bd f ed header w nm w1 b w2 l w3 x,
  wf t w ->
  fexpect_sp w TIdentifier = FOk nm w1 -> fexpect w1 TBraceOpen = FOk b w2 ->
  ffields false (asm_hook fuel bd) f ed f w2 [] = FOk l w3 ->
  (first_dup [] l = Some x \/ (first_dup [] l = None /\ first_unknown l = Some x)) ->
  fbankdef (asm_hook fuel bd) f ed header w = FErr (snd (fst x)) /\ In x l /\
  vspan t (snd (fst x)) /\ excerpt t (snd (fst x)) = fst (fst x).
Proof.
  intros t fuel bd f ed header w nm w1 b w2 l w3 x Hw E1 E2 E3 Hx.
  destruct (fbankdef_fault_localised _ f ed header _ _ _ _ _ _ _ x E1 E2 E3 Hx) as [Hf Hin].
  split; [exact Hf|]. split; [exact Hin|].
  assert (wf t w2) as Hw2.
  { unfold fexpect_sp in E1. destruct (xmaybe_expect_sp w TIdentifier) as [[[wa sa] ta]|] eqn:Ea; [|discriminate].
    injection E1 as _ <-. apply (xmaybe_expect_sp_ext t) in Ea; [|exact Hw]. destruct Ea as [Ea _].
    unfold fexpect in E2. destruct (xmaybe_expect wa TBraceOpen) as [[wb tb]|] eqn:Eb; [|discriminate].
    injection E2 as _ <-. apply xmaybe_expect_ext in Eb. eapply wf_ext; [eapply wf_ext; eassumption | exact Eb]. }
  pose proof (C13_field_spans_exact t false fuel bd f ed f w2 l w3 Hw2 E3) as Hall.
  rewrite Forall_forall in Hall. exact (Hall x Hin).
Qed.

(* non-vacuity: a block over several lines; `sizee` is the third field: the error is its name token (bytes 39..44), not
   the block, not the first field *)
Definition fsample : text :=    (* "#bankdef b\n{\n  addr = 0,\n  #outp 0\n  sizee = 4\n  fill\n}\n" *)
  [35;98;97;110;107;100;101;102;32;98;10;123;10;32;32;97;100;100;114;32;61;32;48;44;10;32;32;35;111;117;116;112;32;48;10;32;32;115;105;122;101;101;32;61;32;52;10;32;32;102;105;108;108;10;125;10].
Example C13_bankdef_field_fault_nonvacuous :
  fparse_file fsample = FErr (37, 42) /\ excerpt fsample (37, 42) = [115;105;122;101;101] /\ parse_file fsample = PErr.
Proof. repeat split; vm_compute; reflexivity. Qed.

(* ================================================================================================ *)
(* E. the located model inherits span validity, and its error spans are valid too                    *)

Theorem C13_spans_valid_located : forall t nodes w n m sp,
  fparse_file t = FOk nodes w -> In n nodes -> sub m n -> In sp (node_spans m) -> vspan t sp.
Proof.
  intros t nodes w n m sp H. pose proof (fparse_file_erase t) as E. rewrite H in E. cbn [erase] in E. symmetry in E.
  intros Hn Hs Hsp. exact (C13_spans_valid t nodes w n m sp E Hn Hs Hsp).
Qed.

Lemma cursor_span_valid t w : wf t w -> vspan t (cursor_span w).
Proof. intros Hw. unfold cursor_span. apply vspan_intro; [apply wf_boundary; exact Hw | apply wf_boundary; exact Hw | lia]. Qed.

Lemma ffields_ok_wf t dup hook f ed :
  (forall d w r w', wf t w -> hook d w = POk r w' -> ext w w') ->
  forall g w acc, wf t w ->
  (forall l w', ffields dup hook f ed g w acc = FOk l w' -> wf t w') /\
  (forall sp, ffields dup hook f ed g w acc = FErr sp -> vspan t sp).
Proof.
  intros Hhook.
  assert (Hhook' : forall d w r w', wf t w -> hook d w = POk r w' -> ext w w' /\ (fun _ : span * list anode => True) r)
    by (intros d w r w' Hw Hh; split; [eapply Hhook; eassumption | exact I]).
  induction g as [|g IH]; intros w acc Hw; [split; intros; discriminate|].
  rewrite ffields_S.
  destruct (xnext_useful_is w TBraceClose); [split; [intros l w' H; injection H as _ <-; exact Hw | intros; discriminate]|].
  assert (exists w1 hash, (match xmaybe_expect w THash with Some (w', _) => (w', true) | None => (w, false) end) = (w1, hash) /\ wf t w1) as (w1 & hash & Eq & Hw1).
  { destruct (xmaybe_expect w THash) as [[w9 t9]|] eqn:E9; eexists; eexists; (split; [reflexivity|]).
    - eapply wf_ext; [exact Hw | eapply xmaybe_expect_ext; eassumption].
    - exact Hw. }
  rewrite Eq. clear Eq. unfold fexpect_sp.
  destruct (xmaybe_expect_sp w1 TIdentifier) as [[[w2 sp0] nm]|] eqn:En; cbn [fbind fst snd].
  2:{ split; [intros; discriminate | intros sp H; injection H as <-; apply cursor_span_valid; exact Hw1]. }
  apply (xmaybe_expect_sp_ext t) in En; [|exact Hw1]. destruct En as [En Hsp].
  assert (wf t w2) as Hw2 by (eapply wf_ext; eassumption).
  destruct (dup && has_field nm acc); [split; [intros; discriminate | intros sp H; injection H as <-; exact Hsp]|]. cbv zeta.
  assert (Hcont : forall oe wc, wf t wc ->
            (forall l w', match xmaybe_expect wc TComma with
                          | Some (w3, _) => ffields dup hook f ed g w3 ((nm, sp0, oe) :: acc)
                          | None => match xnext_linebreak wc with
                                    | Some w3 => ffields dup hook f ed g w3 ((nm, sp0, oe) :: acc)
                                    | None => FOk (rev ((nm, sp0, oe) :: acc)) wc
                                    end
                          end = FOk l w' -> wf t w') /\
            (forall sp, match xmaybe_expect wc TComma with
                        | Some (w3, _) => ffields dup hook f ed g w3 ((nm, sp0, oe) :: acc)
                        | None => match xnext_linebreak wc with
                                  | Some w3 => ffields dup hook f ed g w3 ((nm, sp0, oe) :: acc)
                                  | None => FOk (rev ((nm, sp0, oe) :: acc)) wc
                                  end
                        end = FErr sp -> vspan t sp)).
  { intros oe wc Hwc.
    destruct (xmaybe_expect wc TComma) as [[w3 t3]|] eqn:Ec.
    - apply IH. eapply wf_ext; [exact Hwc | eapply xmaybe_expect_ext; eassumption].
    - destruct (xnext_linebreak wc) as [w3|] eqn:El.
      + apply IH. eapply wf_ext; [exact Hwc | apply xnext_linebreak_ext; assumption].
      + split; [intros l w' H; injection H as _ <-; exact Hwc | intros; discriminate]. }
  assert (Hval : forall wv, wf t wv ->
            (forall l w', (fdo (e, w3) <- fpexpr hook f ed wv;
                           match xmaybe_expect w3 TComma with
                           | Some (w4, _) => ffields dup hook f ed g w4 ((nm, sp0, Some e) :: acc)
                           | None => match xnext_linebreak w3 with
                                     | Some w4 => ffields dup hook f ed g w4 ((nm, sp0, Some e) :: acc)
                                     | None => FOk (rev ((nm, sp0, Some e) :: acc)) w3
                                     end
                           end) = FOk l w' -> wf t w') /\
            (forall sp, (fdo (e, w3) <- fpexpr hook f ed wv;
                         match xmaybe_expect w3 TComma with
                         | Some (w4, _) => ffields dup hook f ed g w4 ((nm, sp0, Some e) :: acc)
                         | None => match xnext_linebreak w3 with
                                   | Some w4 => ffields dup hook f ed g w4 ((nm, sp0, Some e) :: acc)
                                   | None => FOk (rev ((nm, sp0, Some e) :: acc)) w3
                                   end
                         end) = FErr sp -> vspan t sp)).
  { intros wv Hwv. unfold fpexpr. destruct (pexpr hook f ed wv) as [e w3| |] eqn:Ep; cbn [fbind]; try (split; intros; discriminate).
    apply Hcont. unfold pexpr in Ep. eapply wf_ext; [exact Hwv|].
    exact (proj1 (gparse_expr_ok t hook _ Hhook' f ed wv e w3 Hwv Ep)). }
  destruct (hash && negb (xat_linebreak w2)); [apply Hval; exact Hw2|].
  destruct (xmaybe_expect w2 TEqual) as [[w3 t3]|] eqn:Ee.
  - apply Hval. eapply wf_ext; [exact Hw2 | eapply xmaybe_expect_ext; eassumption].
  - apply Hcont. exact Hw2.
Qed.

Lemma fbankdef_wf t hook f ed header w :
  (forall d w r w', wf t w -> hook d w = POk r w' -> ext w w') -> wf t w ->
  (forall sp, fbankdef hook f ed header w = FErr sp -> vspan t sp).
Proof.
  intros Hhook Hw sp. unfold fbankdef, fexpect_sp, fexpect, fexpect_linebreak.
  destruct (xmaybe_expect_sp w TIdentifier) as [[[w1 s1] t1]|] eqn:E1; cbn [fbind].
  2:{ intros H; injection H as <-; apply cursor_span_valid; exact Hw. }
  apply (xmaybe_expect_sp_ext t) in E1; [|exact Hw]. destruct E1 as [E1 _]. assert (wf t w1) as Hw1 by (eapply wf_ext; eassumption).
  destruct (xmaybe_expect w1 TBraceOpen) as [[w2 t2]|] eqn:E2; cbn [fbind].
  2:{ intros H; injection H as <-; apply cursor_span_valid; exact Hw1. }
  apply xmaybe_expect_ext in E2. assert (wf t w2) as Hw2 by (eapply wf_ext; eassumption).
  destruct (ffields_ok_wf t true hook f ed Hhook f w2 [] Hw2) as [Hok Herr].
  pose proof (ffields_exact t true hook f ed Hhook f w2 [] ) as Hex.
  destruct (ffields true hook f ed f w2 []) as [fl w3| | |] eqn:Ef; cbn [fbind]; try discriminate.
  2:{ intros H. apply Herr. injection H as <-. reflexivity. }
  specialize (Hok _ _ eq_refl). specialize (Hex fl w3 Hw2 (Forall_nil _) eq_refl).
  assert (Hsub : forall name l, Forall (field_exact t) l -> Forall (field_exact t) (snd (extract_field name l))).
  { intros name l Hl. induction l as [|x l IHl]; cbn [extract_field]; [constructor|].
    inversion Hl; subst. destruct (text_eqb (fst (fst x)) name); cbn [snd]; [assumption|].
    destruct (extract_field name l) as [o r]. cbn [snd] in *. constructor; [assumption | apply IHl; assumption]. }
  pose proof (Hsub nm_bits _ Hex) as H1. destruct (extract_field nm_bits fl) as [o1 l1]; cbn [snd] in H1.
  pose proof (Hsub nm_labelalign _ H1) as H2. destruct (extract_field nm_labelalign l1) as [o2 l2]; cbn [snd] in H2.
  pose proof (Hsub nm_addr _ H2) as H3. destruct (extract_field nm_addr l2) as [o3 l3]; cbn [snd] in H3.
  pose proof (Hsub nm_addr_end _ H3) as H4. destruct (extract_field nm_addr_end l3) as [o4 l4]; cbn [snd] in H4.
  pose proof (Hsub nm_size _ H4) as H5. destruct (extract_field nm_size l4) as [o5 l5]; cbn [snd] in H5.
  pose proof (Hsub nm_outp _ H5) as H6. destruct (extract_field nm_outp l5) as [o6 l6]; cbn [snd] in H6.
  pose proof (Hsub nm_fill _ H6) as H7. destruct (extract_field nm_fill l6) as [o7 l7]; cbn [snd] in H7.
  destruct l7 as [|bad l7].
  - destruct (xmaybe_expect w3 TBraceClose) as [[w4 t4]|] eqn:E4; cbn [fbind].
    2:{ intros H; injection H as <-; apply cursor_span_valid; exact Hok. }
    apply xmaybe_expect_ext in E4. assert (wf t w4) as Hw4 by (eapply wf_ext; eassumption).
    destruct (xnext_linebreak w4) as [w5|]; cbn [fbind]; [discriminate|].
    intros H; injection H as <-; apply cursor_span_valid; exact Hw4.
  - intros H. injection H as <-. inversion H7 as [|? ? Hb _]; subst. exact (proj1 Hb).
Qed.

Lemma fparse_lines_err_valid t : forall fuel w acc sp, wf t w -> fparse_lines fuel w acc = FErr sp -> vspan t sp.
Proof.
  induction fuel as [|f IH]; intros w acc sp Hw; [discriminate|].
  cbn [fparse_lines]. destruct (xover w); [discriminate|]. destruct f as [|f']; [discriminate|].
  destruct (kinv_all t (S f')) as (_ & Kline & _).
  assert (Hgen : match parse_line_d (S f') 0 0 w with
                 | POk on w' => fparse_lines (S f') w' (match on with Some n => n :: acc | None => acc end)
                 | PErr => FErrExpr (cur w)
                 | PFuel => FFuel
                 end = FErr sp -> vspan t sp).
  { destruct (parse_line_d (S f') 0 0 w) as [on w'| |] eqn:E; try discriminate.
    intros H. eapply IH; [|exact H]. eapply wf_ext; [exact Hw | exact (proj1 (Kline _ _ _ _ _ Hw E))]. }
  destruct (xnext_useful_is w THash); [|exact Hgen].
  destruct (xexpect_sp w THash) as [h w1| |] eqn:E1; try exact Hgen.
  destruct (xexpect_sp w1 TIdentifier) as [nm w2| |] eqn:E2; try exact Hgen.
  destruct (classify (map to_lower (snd nm))); try exact Hgen.
  apply (xexpect_sp_ext t) in E1; [|exact Hw]. destruct E1 as [E1 Hvh]. assert (wf t w1) as Hw1 by (eapply wf_ext; eassumption).
  apply (xexpect_sp_ext t) in E2; [|exact Hw1]. destruct E2 as [E2 Hvn]. assert (wf t w2) as Hw2 by (eapply wf_ext; eassumption).
  pose proof (fbankdef_wf t (asm_hook f' 0) f' 0 (join_s (fst h) (fst nm)) w2 (asm_hook_ext t f' 0) Hw2) as Herr.
  pose proof (fbankdef_erase (asm_hook f' 0) f' 0 (join_s (fst h) (fst nm)) w2) as Her.
  destruct (fbankdef (asm_hook f' 0) f' 0 (join_s (fst h) (fst nm)) w2) as [n w3| | |] eqn:Eb; cbn [fbind]; try discriminate.
  - cbn [erase] in Her. symmetry in Her.
    destruct (kinv_all t f') as (_ & _ & _ & _ & _ & Hk).
    destruct (parse_bankdef_ok t 0 (asm_hook f' 0) f' 0 (fun d w r w' Hw0 Hh => Hk 0%nat d w r w' Hw0 Hh) (join_s (fst h) (fst nm)) w2 n w3) as [Hext _];
      [apply vspan_join_s; assumption | exact Hw2 | exact Her |].
    intros H. eapply IH; [|exact H]. eapply wf_ext; eassumption.
  - intros H. injection H as <-. apply Herr. reflexivity.
Qed.

(* the span of a located first error is a valid span of the file: on character boundaries, inside the text *)
Theorem C13_error_span_valid : forall t sp, fparse_file t = FErr sp -> vspan t sp.
Proof. intros t sp H. unfold fparse_file in H. eapply fparse_lines_err_valid; [apply wf_start | exact H]. Qed.
