(* A statically known data element that does not pass the checks of its directive (value wider than the directive, or
   no definite size) is an error under either setting of the static-value switch, and in the resolver model without flags:
   the optimised and the flag-carrying runs reject it in their first pass (the checks of the last iteration are applied
   to statically known elements in every iteration), the plain model in its last pass.  This removes the hypothesis
   data_static_ok from the statements about the switch.  (C08, static half.) *)
From Coq Require Import NArith ZArith List Bool Lia.
Import ListNotations.
From CA Require Import Model.Lexer Model.Parser Model.Literal Model.BigIntOps Model.Evaluator Model.Matcher Model.Resolver
  Model.StaticKnown Model.ResolverS Spec.StaticSpec Proofs.EvalSemP Proofs.EvalMonoP Proofs.ResolverFixP Proofs.ResolverMonoP
  Proofs.ResolverTopP Proofs.CertUniqueP Proofs.StaticKnownP Proofs.ResolverSSimP Proofs.ResolverSPreP Proofs.ResolverSFrameP.
Open Scope Z_scope.

Lemma forallb_false {A} (f : A -> bool) l : forallb f l = false -> exists x, In x l /\ f x = false.
Proof.
  induction l as [|a l IH]; cbn; [discriminate|]. destruct (f a) eqn:E; cbn; [|eauto].
  intro H. destruct (IH H) as [x [Hx Hf]]. eauto.
Qed.

Lemma okb_true ns : data_static_okb ns = true -> data_static_ok ns.
Proof.
  unfold data_static_okb. intros H w el d e Hn He Hk. rewrite forallb_forall in H. specialize (H _ Hn). cbn beta iota in H.
  rewrite forallb_forall in H. specialize (H _ He). cbn [snd] in H. rewrite Hk in H. exact H.
Qed.

Definition bad_elem (ns : list node) (w : option N) (el : list (nat * expr)) (d : nat) (e : expr) : Prop :=
  In (NData w el) ns /\ In (d, e) el /\ data_known e = true /\ elem_strict_ok w e = false.

Lemma okb_false ns : data_static_okb ns = false -> exists w el d e, bad_elem ns w el d e.
Proof.
  unfold data_static_okb. intro H. destruct (forallb_false _ _ H) as [n [Hn Hf]].
  destruct n as [| | |w el| | |]; try discriminate. destruct (forallb_false _ _ Hf) as [[d e] [He Hb]]. cbn [snd] in Hb.
  apply orb_false_iff in Hb. destruct Hb as [Hk Hs]. apply negb_false_iff in Hk. exists w, el, d, e. repeat split; assumption.
Qed.

Section Bad.
Variable names : list text.
Hypothesis Hres : reserved_free names.

(* what a bad element evaluates to *)
Lemma bad_value w e st pos cg : data_known e = true -> elem_strict_ok w e = false ->
  exists v c v', eval code_ops (pvar names st pos cg) e [] = EOk (v, c) /\ expect_error_or_bigint v = EOk v' /\
    match v' with VInt b => elem_checked w b = false | _ => True end.
Proof.
  intros Hk Hs. unfold elem_strict_ok in Hs.
  rewrite (closed_known_indep (pvar names st pos cg) dummy_var e [] (asm_agree_pvar_dummy names Hres _ _ _) Hk).
  destruct (eval code_ops dummy_var e []) as [[v c]|]; [|discriminate].
  destruct (expect_error_or_bigint v) as [v'|] eqn:Ex; [|discriminate]. exists v, c, v'. split; [reflexivity|]. split; [exact Ex|]. destruct v'; try exact I. exact Hs.
Qed.

(* ---------- the plain resolver model: the last pass rejects it ---------- *)
Lemma data_go_bad w d e : data_known e = true -> elem_strict_ok w e = false ->
  forall el, In (d, e) el -> forall st pos acc r, data_go names true w el st pos acc = EOk r -> False.
Proof.
  intros Hk Hs. induction el as [|[d0 e0] rest IH]; intros Hin st pos acc r H; [destruct Hin|].
  cbn [data_go] in H. cbv zeta in H. destruct Hin as [Hin|Hin].
  - inversion Hin; subst d0 e0. destruct (bad_value w e st pos (negb true) Hk Hs) as (v & c & v' & Ev & Ex & Hv).
    rewrite Ev, Ex in H. destruct v'; try discriminate H. unfold elem_checked in Hv. rewrite Hv in H. discriminate H.
  - destruct (eval code_ops _ e0 []) as [[v c]|]; [|discriminate].
    destruct (expect_error_or_bigint v) as [v'|]; [|discriminate].
    match type of H with match ?m with _ => _ end = _ => destruct m as [menc|]; [|discriminate] end.
    match type of H with (if negb ?c then _ else _) = _ => destruct c; cbn [negb] in H; [|discriminate] end.
    eapply IH; eauto.
Qed.

Lemma pass_bad defs w el d e : In (d, e) el -> data_known e = true -> elem_strict_ok w e = false ->
  forall l, In (NData w el) l -> forall st pos acc r, pass names defs true l st pos acc = EOk r -> False.
Proof.
  intros He Hk Hs. induction l as [|n l IH]; intros Hn st pos acc r H; [destruct Hn|]. cbn [pass] in H.
  destruct (resolve_node names defs true n st pos) as [[[st1 r1] p1]|] eqn:E; [|discriminate].
  destruct Hn as [->|Hn]; [|eapply IH; eauto].
  cbn [resolve_node] in E. eapply data_go_bad; eauto.
Qed.

(* ---------- the model with flags: the first pass that reaches it rejects it ---------- *)
Variable K : kinfo.
Variables opt first last : bool.

Lemma data_goS_bad w d e : data_known e = true -> elem_strict_ok w e = false -> flag (k_data K) d = true ->
  forall el, In (d, e) el -> NoDup (map fst el) -> forall x pos acc r, flag (fz_data x) d = false ->
  data_goS names K opt first last w el x pos acc = EOk r -> False.
Proof.
  intros Hk Hs Hkd. induction el as [|[d0 e0] rest IH]; intros Hin Hnd x pos acc r Fd H; [destruct Hin|].
  cbn [map fst] in Hnd. apply NoDup_cons_iff in Hnd. destruct Hnd as [Hd0 Hnd].
  cbn [data_goS] in H. cbv zeta in H. destruct Hin as [Hin|Hin].
  - inversion Hin; subst d0 e0. rewrite Fd, Hkd, orb_true_r in H.
    destruct (bad_value w e (ss x) pos (negb last) Hk Hs) as (v & c & v' & Ev & Ex & Hv).
    rewrite Ev, Ex in H. destruct v'; try discriminate H. unfold elem_checked in Hv. rewrite Hv in H. discriminate H.
  - assert (Hne : d <> d0) by (intro; subst; apply Hd0; apply in_map_iff; exists (d0, e); auto).
    destruct (flag (fz_data x) d0); [eapply IH; eauto|].
    destruct (eval code_ops _ e0 []) as [[v c]|]; [|discriminate].
    destruct (expect_error_or_bigint v) as [v'|]; [|discriminate].
    match type of H with match ?m with _ => _ end = _ => destruct m as [menc|]; [|discriminate] end.
    match type of H with (if negb ?c then _ else _) = _ => destruct c; cbn [negb] in H; [|discriminate] end.
    match type of H with (if ?c then _ else _) = _ => destruct c end; (eapply IH; [exact Hin|exact Hnd| |exact H]);
      cbn [fz_data with_state]; [rewrite flag_set_other by exact Hne|]; exact Fd.
Qed.

Lemma passS_bad defs w el d e : In (d, e) el -> data_known e = true -> elem_strict_ok w e = false -> flag (k_data K) d = true ->
  forall l, In (NData w el) l -> NoDup (dids l) -> forall x pos acc r, flag (fz_data x) d = false ->
  passS names defs K opt first last l x pos acc = EOk r -> False.
Proof.
  intros He Hk Hs Hkd. induction l as [|n l IH]; intros Hn Hnd x pos acc r Fd H; [destruct Hn|]. cbn [passS] in H.
  destruct (resolve_nodeS names defs K opt first last n x pos) as [[[x1 r1] p1]|] eqn:E; [|discriminate].
  destruct (ids_cons n l) as (_ & _ & E3). rewrite E3 in Hnd.
  destruct Hn as [->|Hn].
  - cbn [resolve_nodeS] in E. eapply data_goS_bad; eauto.
    apply NoDup_app_l in Hnd. unfold dids in Hnd. cbn [flat_map] in Hnd. rewrite app_nil_r in Hnd. exact Hnd.
  - eapply IH; [exact Hn|eapply NoDup_app_r; exact Hnd| |exact H].
    destruct (nodeS_flags names defs K opt first last n x pos x1 r1 p1 E) as (_ & _ & A3). rewrite A3; [exact Fd|].
    intro Hd. eapply NoDup_app_disj; [exact Hnd|exact Hd|]. eapply in_ids_data; eauto.
Qed.
End Bad.
