(* C01, step 1: the static size guess (inspect::get_static_size / matcher::get_match_static_size) is sound.
   If `static_size sizes e = Some s` then every integer-like value the evaluator produces for `e` is either unsized
   or has exactly `s` bits, PROVIDED the expression never assigns to one of the names whose size is taken from
   `sizes` (a local assignment `x = ...` shadows the typed parameter `x`; get_static_size does not see that).
   Lifted to matches: a resolved candidate of a match with static size `s` has `size_of b = s`. *)
From Coq Require Import NArith ZArith List Bool Lia.
From CA Require Import Model.Lexer Model.Parser Model.Literal Model.BigIntOps Model.Evaluator Model.Matcher Model.Resolver
  Proofs.EvalSemP Proofs.EvalMonoP Proofs.ResolverFixP.
Import ListNotations.
Open Scope Z_scope.

(* ---------- small facts about texts and locals ---------- *)
Lemma text_eqb_rfl : forall a, text_eqb a a = true.
Proof. induction a as [|x a IH]; cbn; [reflexivity|]. rewrite N.eqb_refl. exact IH. Qed.

Lemma text_eqb_false a b : a <> b -> text_eqb a b = false.
Proof. intro H. destruct (text_eqb a b) eqn:E; [|reflexivity]. apply text_eqb_eq in E. contradiction. Qed.

Lemma lookup_app c ctx n : lookup (c ++ ctx) n = match lookup c n with Some v => Some v | None => lookup ctx n end.
Proof.
  induction c as [|[k v] c IH]; cbn [app lookup]; [reflexivity|].
  destruct (text_eqb k n); [reflexivity|exact IH].
Qed.

(* ---------- every variable occurrence of an expression ---------- *)
Fixpoint evars (e : expr) : list (N * list text) :=
  match e with
  | ENum _ _ | EBool _ | EStr _ => []
  | EVar l p => [(l, p)]
  | EUn _ a => evars a
  | EBin _ a b => evars a ++ evars b
  | ETern c t f => evars c ++ evars t ++ evars f
  | ESlice l r a => evars l ++ evars r ++ evars a
  | EShort s a => evars s ++ evars a
  | EBlock es => (fix go (es : list expr) := match es with [] => [] | x :: r => evars x ++ go r end) es
  | ECall f args => evars f ++ (fix go (es : list expr) := match es with [] => [] | x :: r => evars x ++ go r end) args
  end.
Definition evars_list (es : list expr) : list (N * list text) :=
  (fix go (es : list expr) := match es with [] => [] | x :: r => evars x ++ go r end) es.
Lemma evars_list_cons x r : evars_list (x :: r) = evars x ++ evars_list r.
Proof. reflexivity. Qed.

(* ---------- the evaluator reads the provider only at the variables that occur; unknown inputs give an
   unknown result or the same result ---------- *)
Section Ext.
Variable O : ops.
Variables pv1 pv2 : N -> list text -> eres value.
Variable U : Prop.     (* U = False: plain extensionality;  U = True: pv1 may answer Unknown where pv2 knows *)

Definition rel_at (l : N) (p : list text) : Prop := pv1 l p = pv2 l p \/ (U /\ pv1 l p = EOk VUnknown).
Definition same_or_unknown (e : expr) (ctx : locals) : Prop :=
  eval O pv1 e ctx = eval O pv2 e ctx \/ (U /\ exists c, eval O pv1 e ctx = EOk (VUnknown, c)).
Definition extE (e : expr) : Prop :=
  forall ctx, (forall l p, In (l, p) (evars e) -> rel_at l p) -> same_or_unknown e ctx.

Ltac sub_in := intros ? ? ?; match goal with H : forall l p, In (l, p) _ -> rel_at l p |- _ => apply H end;
  cbn [evars]; repeat rewrite in_app_iff; auto 6.

(* evaluate subexpression a under ctx c in lock step *)
Ltac stepx a c :=
  match goal with
  | IH : extE a |- _ =>
    let S := fresh "S" in
    assert (S : same_or_unknown a c) by (apply IH; sub_in);
    destruct S as [S|[HU [? S]]];
    [ rewrite S; destruct (eval O pv2 a c) as [[? ?]|]; [|left; reflexivity]
    | rewrite S; cbn [should_propagate]; right; split; [exact HU|eexists; reflexivity] ]
  end.
Ltac propx := match goal with |- context [should_propagate ?v] => destruct (should_propagate v); [left; reflexivity|] end.

Lemma pvar_rel l p (ctx : locals) : rel_at l p ->
  match pv1 l p with EOk v => EOk (v, ctx) | EErr => EErr end = match pv2 l p with EOk v => EOk (v, ctx) | EErr => EErr end \/
  (U /\ exists c, match pv1 l p with EOk v => EOk (v, ctx) | EErr => EErr end = EOk (VUnknown, c)).
Proof. intros [H|[HU H]]; rewrite H; [left; reflexivity|right; split; [exact HU|eexists; reflexivity]]. Qed.

Lemma eval_ext_e : forall e, extE e.
Proof.
  induction e using expr_ind'; intros ctx Hv; unfold same_or_unknown; cbn [eval].
  - left; reflexivity.
  - left; reflexivity.
  - left; reflexivity.
  - assert (R : rel_at level path) by (apply Hv; cbn; auto).
    destruct level; [|apply pvar_rel; exact R].
    destruct path as [|n [|? ?]]; try (apply pvar_rel; exact R).
    destruct (is_builtin n); [left; reflexivity|]. destruct (lookup ctx n); [left; reflexivity|]. apply pvar_rel; exact R.
  - stepx e ctx. left; reflexivity.
  - destruct o.
    1:{ destruct e1; try (left; reflexivity). destruct level; try (left; reflexivity).
        destruct path as [|n [|? ?]]; try (left; reflexivity).
        stepx e2 ctx. left; reflexivity. }
    18:{ stepx e1 ctx. propx. destruct v; try (left; reflexivity). destruct (eqb b true); [left; reflexivity|].
         stepx e2 l. left; reflexivity. }
    17:{ stepx e1 ctx. propx. destruct v; try (left; reflexivity). destruct (eqb b false); [left; reflexivity|].
         stepx e2 l. left; reflexivity. }
    all: stepx e1 ctx; propx; stepx e2 l; left; reflexivity.
  - stepx e1 ctx. propx. destruct v; try (left; reflexivity).
    destruct b; [apply IHe2|apply IHe3]; sub_in.
  - stepx e3 ctx. propx. destruct (get_bigint v); [|left; reflexivity]. stepx e1 l. propx. stepx e2 l0. left; reflexivity.
  - stepx e2 ctx. propx. destruct (get_bigint v); [|left; reflexivity]. stepx e1 l. left; reflexivity.
  - assert (Hv' : forall l p, In (l, p) (evars_list es) -> rel_at l p) by exact Hv. clear Hv. rename Hv' into Hv.
    revert ctx Hv. generalize VVoid as last.
    induction H as [|x rest Hx Hrest IH]; intros last ctx Hv; [left; reflexivity|].
    rewrite evars_list_cons in Hv.
    assert (S : same_or_unknown x ctx) by (apply Hx; intros; apply Hv; rewrite in_app_iff; auto).
    destruct S as [S|[HU [? S]]].
    + rewrite S. destruct (eval O pv2 x ctx) as [[? ?]|]; [|left; reflexivity]. propx.
      apply IH. intros; apply Hv; rewrite in_app_iff; auto.
    + rewrite S. cbn [should_propagate]. right; split; [exact HU|eexists; reflexivity].
  - assert (Hv' : forall l p, In (l, p) (evars e ++ evars_list args) -> rel_at l p) by exact Hv. clear Hv. rename Hv' into Hv.
    assert (S : same_or_unknown e ctx) by (apply IHe; intros; apply Hv; rewrite in_app_iff; auto).
    destruct S as [S|[HU [? S]]]; [|rewrite S; cbn [should_propagate]; right; split; [exact HU|eexists; reflexivity]].
    rewrite S. destruct (eval O pv2 e ctx) as [[fv l]|]; [|left; reflexivity]. propx.
    assert (Hv' : forall l p, In (l, p) (evars_list args) -> rel_at l p) by (intros; apply Hv; rewrite in_app_iff; auto).
    clear Hv S. revert l Hv'. generalize (@nil value) as acc.
    induction H as [|x rest Hx Hrest IH]; intros acc ctx' Hv; [left; reflexivity|].
    rewrite evars_list_cons in Hv.
    assert (S : same_or_unknown x ctx') by (apply Hx; intros; apply Hv; rewrite in_app_iff; auto).
    destruct S as [S|[HU [? S]]].
    + rewrite S. destruct (eval O pv2 x ctx') as [[? ?]|]; [|left; reflexivity]. propx.
      apply IH. intros; apply Hv; rewrite in_app_iff; auto.
    + rewrite S. cbn [should_propagate]. right; split; [exact HU|eexists; reflexivity].
Qed.
End Ext.

Theorem eval_ext : forall (O : ops) pv1 pv2 e ctx,
  (forall l p, In (l, p) (evars e) -> pv1 l p = pv2 l p) -> eval O pv1 e ctx = eval O pv2 e ctx.
Proof.
  intros O pv1 pv2 e ctx H.
  destruct (eval_ext_e O pv1 pv2 False e ctx) as [S|[[] _]]; [|exact S].
  intros l p Hin. left. apply H, Hin.
Qed.

Theorem eval_unknown_or_same : forall (O : ops) pv1 pv2 e ctx,
  (forall l p, In (l, p) (evars e) -> pv1 l p = pv2 l p \/ pv1 l p = EOk VUnknown) ->
  eval O pv1 e ctx = eval O pv2 e ctx \/ exists c, eval O pv1 e ctx = EOk (VUnknown, c).
Proof.
  intros O pv1 pv2 e ctx H.
  destruct (eval_ext_e O pv1 pv2 True e ctx) as [S|[_ S]]; [|left; exact S|right; exact S].
  intros l p Hin. destruct (H l p Hin) as [E|E]; [left; exact E|right; split; [exact I|exact E]].
Qed.

(* ---------- an evaluation that succeeds without any provider and from locals `c` is reproduced under every
   provider and every extension of the locals (used for the literal bounds of slices) ---------- *)
Section Closed.
Variable O : ops.
Variable pv : N -> list text -> eres value.
Variable ext : locals.

Definition closedE (e : expr) : Prop :=
  forall c v c', eval O dummy_var e c = EOk (v, c') -> eval O pv e (c ++ ext) = EOk (v, c' ++ ext).

Ltac stepc H :=
  match type of H with
  | context [eval O dummy_var ?a ?c] =>
    let E := fresh "E" in
    destruct (eval O dummy_var a c) as [[? ?]|] eqn:E; [|discriminate H];
    match goal with IH : closedE a |- _ => rewrite (IH _ _ _ E) end;
    clear E
  end.
Ltac propc H :=
  match type of H with
  | context [should_propagate ?v] => destruct (should_propagate v); [injection H as <- <-; reflexivity|]
  end.
Ltac fin H := first [ discriminate H | injection H as <- <-; reflexivity ].

Ltac crunch H := repeat (first [ fin H | stepc H | propc H
  | match type of H with
    | (match ?x with _ => _ end) = _ => destruct x
    end ]).

Lemma eval_closed_e : forall e, closedE e.
Proof.
  induction e using expr_ind'; intros c0 rv rc Hr; cbn [eval] in *.
  - fin Hr.
  - fin Hr.
  - crunch Hr.
  - unfold dummy_var in Hr. destruct level; [|discriminate].
    destruct path as [|n [|? ?]]; try discriminate.
    destruct (is_builtin n); [fin Hr|]. rewrite lookup_app. destruct (lookup c0 n); [fin Hr|discriminate].
  - crunch Hr.
  - destruct o.
    1:{ destruct e1; try discriminate. crunch Hr. }
    18:{ crunch Hr. }
    17:{ crunch Hr. }
    all: stepc Hr; propc Hr; stepc Hr; propc Hr;
      repeat (match type of Hr with (match ?x with _ => _ end) = _ => destruct x end); fin Hr.
  - stepc Hr. propc Hr.
    match type of Hr with match ?x with _ => _ end = _ => destruct x; try discriminate end.
    match type of Hr with match ?x with _ => _ end = _ => destruct x end; [apply IHe2|apply IHe3]; exact Hr.
  - crunch Hr.
  - crunch Hr.
  - revert c0 Hr. generalize VVoid as last.
    induction H as [|x rest Hx Hrest IH]; intros last c0 Hr; [fin Hr|].
    destruct (eval O dummy_var x c0) as [[? ?]|] eqn:E; [|discriminate]. rewrite (Hx _ _ _ E).
    propc Hr. apply IH. exact Hr.
  - stepc Hr. propc Hr.
    match type of Hr with _ _ _ ?l = _ => revert l Hr end. generalize (@nil value) as acc.
    induction H as [|x rest Hx Hrest IH]; intros acc c1 Hr.
    + crunch Hr.
    + destruct (eval O dummy_var x c1) as [[? ?]|] eqn:E; [|discriminate]. rewrite (Hx _ _ _ E).
      propc Hr. apply IH. exact Hr.
Qed.
End Closed.

Theorem eval_closed : forall O pv e v c' ctx,
  eval O dummy_var e [] = EOk (v, c') -> eval O pv e ctx = EOk (v, c' ++ ctx).
Proof. intros O pv e v c' ctx H. exact (eval_closed_e O pv ctx e [] v c' H). Qed.

(* ---------- local assignments: an expression that never assigns to a name of `names` leaves those locals alone ---------- *)
Fixpoint no_assign (names : list text) (e : expr) : bool :=
  match e with
  | ENum _ _ | EBool _ | EStr _ | EVar _ _ => true
  | EUn _ a => no_assign names a
  | EBin o a b =>
    (match o, a with Assign, EVar 0%N [n] => negb (existsb (text_eqb n) names) | _, _ => true end)
    && no_assign names a && no_assign names b
  | ETern c t f => no_assign names c && no_assign names t && no_assign names f
  | ESlice l r a => no_assign names l && no_assign names r && no_assign names a
  | EShort s a => no_assign names s && no_assign names a
  | EBlock es => (fix go (es : list expr) := match es with [] => true | x :: r => no_assign names x && go r end) es
  | ECall f args => no_assign names f && (fix go (es : list expr) := match es with [] => true | x :: r => no_assign names x && go r end) args
  end.
Definition no_assign_list (names : list text) (es : list expr) : bool :=
  (fix go (es : list expr) := match es with [] => true | x :: r => no_assign names x && go r end) es.

Lemma no_assign_nil : forall e, no_assign [] e = true.
Proof.
  induction e using expr_ind'; cbn [no_assign]; try reflexivity; try assumption;
    repeat (match goal with H : no_assign [] _ = true |- _ => rewrite H; clear H end); cbn [andb]; try reflexivity.
  - destruct o; try reflexivity. destruct e1; try reflexivity. destruct level; try reflexivity.
    destruct path as [|? [|? ?]]; reflexivity.
  - induction H as [|x r Hx Hr IH]; [reflexivity|]. rewrite Hx. exact IH.
  - induction H as [|x r Hx Hr IH]; [reflexivity|]. rewrite Hx. exact IH.
Qed.

Section Stable.
Variable O : ops.
Variable pv : N -> list text -> eres value.
Variable names : list text.

Definition stableE (e : expr) : Prop :=
  forall ctx v ctx', no_assign names e = true -> eval O pv e ctx = EOk (v, ctx') ->
  forall n, In n names -> lookup ctx' n = lookup ctx n.

Ltac steps H :=
  match type of H with
  | context [eval O pv ?a ?c] =>
    match goal with
    | IH : stableE a, Hn : no_assign names a = true |- _ =>
      let E := fresh "E" in
      destruct (eval O pv a c) as [[? ?]|] eqn:E; [|discriminate H];
      pose proof (IH _ _ _ Hn E); clear E
    end
  end.
Ltac done_s H := first [ discriminate H
  | injection H as <- <-; let n := fresh "n" in let Hn := fresh "Hn" in intros n Hn;
    repeat match goal with F : forall n, In n names -> _ |- _ => specialize (F n Hn) end; congruence ].
Ltac props H :=
  match type of H with
  | context [should_propagate ?v] => destruct (should_propagate v); [done_s H|]
  end.
Ltac crunchs H := repeat (first [ done_s H | steps H | props H
  | match type of H with (match ?x with _ => _ end) = _ => destruct x end ]).
Ltac split_na H := cbn [no_assign] in H; repeat (let H' := fresh "Hna" in apply andb_prop in H; destruct H as [H H']).

Lemma eval_stable_e : forall e, stableE e.
Proof.
  induction e using expr_ind'; intros c0 rv rc Hna Hr; cbn [eval] in Hr.
  - done_s Hr.
  - done_s Hr.
  - crunchs Hr.
  - crunchs Hr.
  - split_na Hna. crunchs Hr.
  - split_na Hna. destruct o.
    1:{ destruct e1; try discriminate. destruct level; try discriminate. destruct path as [|n0 [|? ?]]; try discriminate.
        steps Hr. destruct (should_propagate v); [done_s Hr|].
        injection Hr as <- <-. intros n Hn. cbn [lookup].
        apply negb_true_iff in Hna.
        assert (text_eqb n0 n = false) as ->.
        { destruct (text_eqb n0 n) eqn:E; [|reflexivity]. apply text_eqb_eq in E. subst n0.
          assert (existsb (text_eqb n) names = true) by (apply existsb_exists; exists n; split; [exact Hn|apply text_eqb_rfl]).
          congruence. }
        auto. }
    18:{ crunchs Hr. }
    17:{ crunchs Hr. }
    all: steps Hr; props Hr; steps Hr; props Hr;
      repeat (match type of Hr with (match ?x with _ => _ end) = _ => destruct x end); done_s Hr.
  - split_na Hna. steps Hr. props Hr.
    match type of Hr with match ?x with _ => _ end = _ => destruct x; try discriminate end.
    match type of Hr with match ?x with _ => _ end = _ => destruct x end.
    + pose proof (IHe2 _ _ _ Hna1 Hr). intros n Hn. rewrite (H0 n Hn). auto.
    + pose proof (IHe3 _ _ _ Hna0 Hr). intros n Hn. rewrite (H0 n Hn). auto.
  - split_na Hna. crunchs Hr.
  - split_na Hna. crunchs Hr.
  - change (no_assign names (EBlock es)) with (no_assign_list names es) in Hna.
    revert c0 Hna Hr. generalize VVoid as last.
    induction H as [|x rest Hx Hrest IH]; intros last c0 Hna Hr; [done_s Hr|].
    cbn [no_assign_list] in Hna. apply andb_prop in Hna. destruct Hna as [Hn1 Hn2].
    destruct (eval O pv x c0) as [[? ?]|] eqn:E; [|discriminate]. pose proof (Hx _ _ _ Hn1 E) as F.
    props Hr. intros n Hn. rewrite (IH _ _ Hn2 Hr n Hn). auto.
  - cbn [no_assign] in Hna. apply andb_prop in Hna. destruct Hna as [Hnf Hna].
    change (no_assign_list names args = true) in Hna.
    steps Hr. props Hr.
    match type of Hr with _ _ _ ?l = _ => revert l H0 Hr end. generalize (@nil value) as acc.
    induction H as [|x rest Hx Hrest IH]; intros acc c1 F0 Hr.
    + crunchs Hr.
    + cbn [no_assign_list] in Hna. apply andb_prop in Hna. destruct Hna as [Hn1 Hn2].
      destruct (eval O pv x c1) as [[? ?]|] eqn:E; [|discriminate]. pose proof (Hx _ _ _ Hn1 E) as F.
      props Hr. eapply IH; [exact Hn2| |exact Hr].
      intros n Hn. rewrite (F n Hn). auto.
Qed.
End Stable.

Theorem eval_stable : forall O pv names e ctx v ctx',
  no_assign names e = true -> eval O pv e ctx = EOk (v, ctx') ->
  forall n, In n names -> lookup ctx' n = lookup ctx n.
Proof. intros O pv names e. exact (eval_stable_e O pv names e). Qed.

(* ---------- static_size is sound ---------- *)
Definition sized_as (s : Z) (v : value) : Prop :=
  forall b n, get_bigint v = Some b -> bsz b = Some n -> Z.of_N n = s.
Definition slk (sizes : list (text * Z)) (n : text) : option Z :=
  (fix lk (l : list (text * Z)) := match l with [] => None | (k, v) :: r => if text_eqb k n then Some v else lk r end) sizes.
Definition ctx_ok (sizes : list (text * Z)) (ctx : locals) : Prop :=
  forall n s, slk sizes n = Some s -> exists v, lookup ctx n = Some v /\ sized_as s v.

Lemma sized_as_prop s v : should_propagate v = true -> sized_as s v.
Proof. destruct v; cbn; try discriminate; intros _ b n H; discriminate. Qed.

Lemma slk_in sizes n s : slk sizes n = Some s -> In n (map fst sizes).
Proof.
  induction sizes as [|[k v] r IH]; cbn; [discriminate|].
  destruct (text_eqb k n) eqn:E; [intros _; left; now apply text_eqb_eq|intro H; right; apply IH, H].
Qed.

Lemma ctx_ok_stable sizes ctx ctx' : ctx_ok sizes ctx ->
  (forall n, In n (map fst sizes) -> lookup ctx' n = lookup ctx n) -> ctx_ok sizes ctx'.
Proof. intros H F n s Hs. rewrite (F n (slk_in _ _ _ Hs)). apply H, Hs. Qed.

Lemma slice_bsz x l r : bsz (slice x l r) = Some (l - r)%N.
Proof.
  unfold slice. destruct (bsz x) as [n|] eqn:E; [|reflexivity].
  destruct ((0 <=? bv x) && (l =? n)%N && (r =? 0)%N) eqn:C; [|reflexivity].
  apply andb_prop in C. destruct C as [C C2]. apply andb_prop in C. destruct C as [_ C1].
  apply N.eqb_eq in C1. apply N.eqb_eq in C2. subst. rewrite N.sub_0_r. exact E.
Qed.

Lemma try_eval_usize_inv e z : try_eval_usize e = Some z ->
  exists b c, eval code_ops dummy_var e [] = EOk (VInt b, c) /\ z = bv b /\ 0 <= z <= usize_max.
Proof.
  unfold try_eval_usize. destruct (eval code_ops dummy_var e []) as [[v c]|]; [|discriminate].
  destruct v; try discriminate.
  destruct ((bv b <? 0) || (bv b >? usize_max)) eqn:C; [discriminate|].
  intro H. injection H as <-. exists b, c. split; [reflexivity|]. split; [reflexivity|].
  apply orb_false_elim in C. destruct C as [C1 C2]. apply Z.ltb_ge in C1. rewrite Z.gtb_ltb in C2. apply Z.ltb_ge in C2. lia.
Qed.

Lemma expect_usize_int b z : expect_usize (VInt b) = EOk z -> z = bv b.
Proof. cbn. destruct ((bv b <? 0) || (bv b >? usize_max)); [discriminate|]. intro H. now injection H as <-. Qed.

Definition sizeE (e : expr) : Prop :=
  forall names sizes s pv ctx v ctx', (forall n, In n (map fst sizes) -> In n names) ->
  no_assign names e = true -> ctx_ok sizes ctx ->
  static_size sizes e = Some s -> eval code_ops pv e ctx = EOk (v, ctx') -> sized_as s v.

Ltac split_na H := cbn [no_assign] in H; repeat (let H' := fresh "Hna" in apply andb_prop in H; destruct H as [H H']).

(* evaluate a sub-expression; propagate case closes the goal *)
Ltac ev H a c va ca E :=
  destruct (eval code_ops _ a c) as [[va ca]|] eqn:E; [|discriminate H];
  let P := fresh "P" in
  destruct (should_propagate va) eqn:P; [injection H as <- <-; apply sized_as_prop; exact P|].

Lemma static_size_sound_e : forall e, sizeE e.
Proof.
  induction e using expr_ind'; intros names sizes s pv ctx rv rc Hincl Hna Hc Hs Hr; cbn [static_size] in Hs; try discriminate.
  - (* sized literal *)
    destruct sz as [n|]; [|discriminate]. injection Hs as <-. cbn [eval] in Hr. injection Hr as <- <-.
    intros b n' Hg Hb. cbn in Hg. injection Hg as <-. cbn in Hb. now injection Hb as <-.
  - (* parameter *)
    destruct level; try discriminate. destruct path as [|n [|? ?]]; try discriminate.
    change (slk sizes n = Some s) in Hs. destruct (Hc n s Hs) as [v0 [Hl Hv]].
    cbn [eval] in Hr. destruct (is_builtin n).
    + injection Hr as <- <-. intros b n' Hg; discriminate.
    + rewrite Hl in Hr. injection Hr as <- <-. exact Hv.
  - (* concatenation *)
    destruct o; try discriminate. split_na Hna.
    destruct (static_size sizes e1) as [x|] eqn:S1; [|discriminate].
    destruct (static_size sizes e2) as [y|] eqn:S2; [|discriminate]. injection Hs as <-.
    cbn [eval] in Hr.
    ev Hr e1 ctx va c1 E1. ev Hr e2 c1 vb c2 E2.
    pose proof (IHe1 _ _ _ _ _ _ _ Hincl Hna1 Hc S1 E1) as I1.
    assert (Hc1 : ctx_ok sizes c1) by (eapply ctx_ok_stable; [exact Hc|]; intros n' Hn'; exact (eval_stable _ _ _ _ _ _ _ Hna1 E1 n' (Hincl n' Hn'))).
    pose proof (IHe2 _ _ _ _ _ _ _ Hincl Hna0 Hc1 S2 E2) as I2.
    destruct va, vb; try discriminate; cbn [get_bigint int_binop] in Hr;
      match type of Hr with context [bsz ?p] => destruct (bsz p) as [sa|] eqn:Ea; [|discriminate] end;
      match type of Hr with context [match bsz ?p with _ => _ end] => destruct (bsz p) as [sb|] eqn:Eb; [|discriminate] end;
      injection Hr as <- <-; intros bX nX Hg Hb; cbn in Hg; injection Hg as <-; cbn in Hb; injection Hb as <-;
      rewrite N2Z.inj_add; rewrite (I1 _ _ eq_refl Ea), (I2 _ _ eq_refl Eb); reflexivity.
  - (* ternary *)
    split_na Hna.
    destruct (static_size sizes e2) as [x|] eqn:S1; [|discriminate].
    destruct (static_size sizes e3) as [y|] eqn:S2; [|discriminate].
    destruct (x =? y) eqn:Exy; [|discriminate]. apply Z.eqb_eq in Exy. subst y. injection Hs as <-.
    cbn [eval] in Hr. ev Hr e1 ctx vc c1 E1.
    assert (Hc1 : ctx_ok sizes c1) by (eapply ctx_ok_stable; [exact Hc|]; intros n' Hn'; exact (eval_stable _ _ _ _ _ _ _ Hna E1 n' (Hincl n' Hn'))).
    destruct vc; try discriminate. destruct b.
    + exact (IHe2 _ _ _ _ _ _ _ Hincl Hna1 Hc1 S1 Hr).
    + exact (IHe3 _ _ _ _ _ _ _ Hincl Hna0 Hc1 S2 Hr).
  - (* slice *)
    destruct (try_eval_usize e1) as [lz|] eqn:T1; [|discriminate].
    destruct (try_eval_usize e2) as [rz|] eqn:T2; [|discriminate].
    destruct (rz >? lz + 1) eqn:G; [discriminate|]. injection Hs as <-.
    apply try_eval_usize_inv in T1. destruct T1 as [bl [cl [T1 [-> R1]]]].
    apply try_eval_usize_inv in T2. destruct T2 as [br [cr [T2 [-> R2]]]].
    cbn [eval] in Hr. ev Hr e3 ctx va c1 E3.
    destruct (get_bigint va) as [x|]; [|discriminate].
    rewrite (eval_closed _ pv _ _ _ c1 T1) in Hr. cbn [should_propagate] in Hr.
    rewrite (eval_closed _ pv _ _ _ _ T2) in Hr. cbn [should_propagate] in Hr.
    destruct (expect_usize (VInt bl)) as [lz|] eqn:X1; [|discriminate]. apply expect_usize_int in X1. subst lz.
    destruct (expect_usize (VInt br)) as [rz|] eqn:X2; [|discriminate]. apply expect_usize_int in X2. subst rz.
    destruct (bv bl + 1 >? usize_max); [discriminate|].
    unfold checked_slice in Hr. destruct (bv bl + 1 <? bv br) eqn:L; [discriminate|].
    destruct (bv bl + 1 - bv br >? BIGINT_MAX_BITS); [discriminate|].
    injection Hr as <- <-. intros b n Hg Hb. cbn in Hg. injection Hg as <-. cbn [op_slice code_ops] in Hb.
    rewrite slice_bsz in Hb. injection Hb as <-. apply Z.ltb_ge in L. lia.
  - (* short slice *)
    destruct (try_eval_usize e1) as [sz|] eqn:T1; [|discriminate]. injection Hs as <-.
    apply try_eval_usize_inv in T1. destruct T1 as [bl [cl [T1 [-> R1]]]].
    cbn [eval] in Hr. ev Hr e2 ctx va c1 E3.
    destruct (get_bigint va) as [x|]; [|discriminate].
    rewrite (eval_closed _ pv _ _ _ c1 T1) in Hr. cbn [should_propagate] in Hr.
    destruct (expect_usize (VInt bl)) as [lz|] eqn:X1; [|discriminate]. apply expect_usize_int in X1. subst lz.
    unfold checked_slice in Hr. destruct (bv bl <? 0) eqn:L; [discriminate|].
    destruct (bv bl - 0 >? BIGINT_MAX_BITS); [discriminate|].
    injection Hr as <- <-. intros b n Hg Hb. cbn in Hg. injection Hg as <-. cbn [op_slice code_ops] in Hb.
    rewrite slice_bsz in Hb. injection Hb as <-. lia.
  - (* block: the last expression *)
    change (no_assign_list names es = true) in Hna. cbn [eval] in Hr.
    revert ctx Hna Hc Hs Hr. generalize VVoid as last.
    induction H as [|x rest Hx Hrest IH]; intros last ctx Hna Hc Hs Hr; [discriminate|].
    cbn [no_assign_list] in Hna. apply andb_prop in Hna. destruct Hna as [Hn1 Hn2].
    destruct (eval code_ops pv x ctx) as [[vx cx]|] eqn:Ex; [|discriminate].
    destruct rest as [|y rest'].
    + destruct (should_propagate vx); injection Hr as <- <-; eapply Hx; eauto.
    + destruct (should_propagate vx) eqn:P; [injection Hr as <- <-; apply sized_as_prop; exact P|].
      eapply (IH vx cx); [exact Hn2| |exact Hs|exact Hr].
      eapply ctx_ok_stable; [exact Hc|]. intros n' Hn'; exact (eval_stable _ _ _ _ _ _ _ Hn1 Ex n' (Hincl n' Hn')).
  - (* sizeof / le *)
    destruct e; try discriminate. destruct level; try discriminate. destruct path as [|n [|? ?]]; try discriminate.
    destruct args as [|a [|? ?]]; try discriminate.
    cbn [no_assign] in Hna. cbn [andb] in Hna. rewrite andb_true_r in Hna.
    inversion H as [|a' r' Ha _]; subst.
    destruct (text_eqb n s_sizeof || text_eqb n s_le) eqn:B; [|discriminate].
    cbn [eval] in Hr.
    assert (Hb : is_builtin n = true).
    { apply orb_prop in B. destruct B as [B|B]; apply text_eqb_eq in B; subst n; reflexivity. }
    rewrite Hb in Hr. cbn [should_propagate] in Hr.
    ev Hr a ctx va c1 Ea.
    pose proof (Ha _ _ _ _ _ _ _ Hincl Hna Hc Hs Ea) as Ia.
    cbn [rev app] in Hr.
    apply orb_prop in B. destruct B as [B|B]; apply text_eqb_eq in B; subst n.
    + (* sizeof: an unsized integer *)
      change (eval_builtin code_ops s_sizeof [va]) with
        (match get_bigint va with Some b => match bsz b with Some s => EOk (VInt (un (Z.of_N s))) | None => EErr end | None => EErr end) in Hr.
      destruct (get_bigint va) as [b|]; [|discriminate]. destruct (bsz b); [|discriminate].
      injection Hr as <- <-. intros b0 n0 Hg Hb0. cbn in Hg. injection Hg as <-. discriminate.
    + change (eval_builtin code_ops s_le [va]) with
        (match va with VInt b => match bsz b with Some s => if (s mod 8 =? 0)%N then EOk (VInt (convert_le b s)) else EErr | None => EErr end | _ => EErr end) in Hr.
      destruct va; try discriminate. destruct (bsz b) as [sb|] eqn:Eb; [|discriminate].
      destruct (sb mod 8 =? 0)%N; [|discriminate].
      injection Hr as <- <-. intros b0 n0 Hg Hb0. cbn in Hg. injection Hg as <-. cbn in Hb0. injection Hb0 as <-.
      exact (Ia _ _ eq_refl Eb).
Qed.

(* the statement of the plan; `sizeof(x)` has a static size but yields an UNSIZED integer, hence the disjunction *)
Theorem static_size_sound : forall sizes e s pv ctx b ctx',
  no_assign (map fst sizes) e = true ->
  (forall n z, slk sizes n = Some z -> exists v, lookup ctx n = Some v /\ sized_as z v) ->
  static_size sizes e = Some s ->
  eval code_ops pv e ctx = EOk (VInt b, ctx') ->
  bsz b = None \/ bsz b = Some (Z.to_N s).
Proof.
  intros sizes e s pv ctx b ctx' Hna Hc Hs Hr.
  pose proof (static_size_sound_e e (map fst sizes) sizes s pv ctx _ _ (fun n H => H) Hna Hc Hs Hr) as H.
  destruct (bsz b) as [n|] eqn:E; [right|left; reflexivity].
  rewrite <- (H b n eq_refl E). now rewrite N2Z.id.
Qed.

(* ---------- lifted to matches ---------- *)
Fixpoint distinct (l : list text) : bool :=
  match l with [] => true | x :: r => negb (existsb (text_eqb x) r) && distinct r end.

(* well-formed rule: parameter names are distinct (parse_pattern refuses duplicates) and the production never
   assigns to a parameter name (NOT enforced by customasm: such a production defeats get_static_size) *)
Definition rule_ok (r : rule) : bool :=
  distinct (map fst (rparams r)) && no_assign (map fst (rparams r)) (rexpr r).
Definition defs_ok (defs : list ruledef) : bool := forallb (fun d => forallb rule_ok (rd_rules d)) defs.

Lemma defs_ok_rule defs rd ru r : defs_ok defs = true -> get_rule defs rd ru = Some r -> rule_ok r = true.
Proof.
  unfold defs_ok, get_rule. intros H G.
  destruct (nth_error defs rd) as [d|] eqn:E; [|discriminate].
  rewrite forallb_forall in H. pose proof (H d (nth_error_In _ _ E)) as Hd.
  rewrite forallb_forall in Hd. apply Hd. eapply nth_error_In; eauto.
Qed.

(* a nested match only ever sits at a parameter that is not an integer type (what the matcher produces) *)
Fixpoint match_typed (defs : list ruledef) (m : imatch) {struct m} : bool :=
  match m with
  | IMatch rd ru args _ =>
    match get_rule defs rd ru with
    | None => true
    | Some r =>
      (fix go (args : list iarg) (params : list (text * pty)) : bool :=
         match args, params with
         | AExpr _ _ _ _ :: ar, _ :: pr => go ar pr
         | ANested n _ _ _ :: ar, (_, pt) :: pr =>
           match pt with TyU _ | TyS _ | TyI _ => false | _ => true end && match_typed defs n && go ar pr
         | _, _ => true
         end) args (rparams r)
    end
  end.

Lemma constrain_sized v n c :
  forall t, (t = TyU n \/ t = TyS n \/ t = TyI n) -> constrain v t = EOk c -> should_propagate c = false ->
  sized_as (Z.of_N n) c.
Proof.
  intros t Ht H P. unfold constrain in H. destruct (coallesce v); try discriminate.
  destruct Ht as [ -> | [ -> | -> ] ];
    match type of H with (if ?c then _ else _) = _ => destruct c end; injection H as <-; try discriminate P;
    intros b' n' Hg Hb; cbn in Hg; injection Hg as <-; cbn in Hb; now injection Hb as <-.
Qed.

Section MatchSize.
Variable defs : list ruledef.
Variable pv : N -> list text -> eres value.
Hypothesis Hdefs : defs_ok defs = true.

Lemma existsb_text_false x l n : existsb (text_eqb x) l = false -> In n l -> text_eqb x n = false.
Proof.
  intros H Hin. destruct (text_eqb x n) eqn:E; [|reflexivity].
  assert (existsb (text_eqb x) l = true) by (apply existsb_exists; exists n; auto). congruence.
Qed.

Theorem match_static_size_sound : forall m v s,
  match_typed defs m = true -> match_static_size defs m = Some s ->
  resolve_match defs pv m = EOk v -> sized_as s v.
Proof.
  fix IH 1. intros [rd ru args ex] v s. cbn [match_typed match_static_size resolve_match].
  destruct (get_rule defs rd ru) as [r|] eqn:Gr; [|intros _ HH; discriminate HH].
  pose proof (defs_ok_rule _ _ _ _ Hdefs Gr) as Hr. unfold rule_ok in Hr. apply andb_prop in Hr. destruct Hr as [Hdist Hna].
  match goal with |- ?ty args ?p = true -> static_size (?sz args ?p) _ = _ -> ?f args ?p [] = _ -> _ =>
    assert (G : forall a q ctx w, ty a q = true -> distinct (map fst q) = true -> f a q ctx = EOk w ->
      should_propagate w = true \/
      exists cf c', eval code_ops pv (rexpr r) cf = EOk (w, c') /\
        (forall n z, slk (sz a q) n = Some z -> exists v', lookup cf n = Some v' /\ sized_as z v') /\
        (forall n, ~ In n (map fst q) -> lookup cf n = lookup ctx n) /\
        (forall n, In n (map fst (sz a q)) -> In n (map fst q))) end.
  { fix IHa 1. intros [|a args0] params ctx w Ht Hd H.
    - cbn beta iota in H. destruct (eval code_ops pv (rexpr r) ctx) as [[x c]|] eqn:E; [|discriminate].
      injection H as <-. right. exists ctx, c. split; [exact E|]. split; [|split].
      + intros n z Hs. destruct params; discriminate Hs.
      + reflexivity.
      + intros n Hn. destruct params; destruct Hn.
    - destruct a as [e s0 t0 exc|nm s0 t0 exc].
      + destruct params as [|[pn pt] pr]; cbn beta iota in H; [discriminate|].
        cbn [map fst distinct] in Hd. apply andb_prop in Hd. destruct Hd as [Hpn Hd]. apply negb_true_iff in Hpn.
        cbn beta iota in Ht.
        destruct (eval code_ops pv e []) as [[x c]|] eqn:E; [|discriminate].
        destruct (should_propagate x) eqn:Px; [injection H as <-; left; exact Px|].
        destruct (constrain x pt) as [c0|] eqn:C; [|discriminate].
        destruct (should_propagate c0) eqn:Pc; [injection H as <-; left; exact Pc|].
        destruct (IHa args0 pr _ w Ht Hd H) as [L|[cf [c' [Ev [Hs [Hk Hsub]]]]]]; [left; exact L|].
        right. exists cf, c'. split; [exact Ev|].
        assert (Hpnl : lookup cf pn = Some c0).
        { rewrite Hk. - cbn [lookup]. now rewrite text_eqb_rfl.
          - intro Hin. pose proof (existsb_text_false _ _ _ Hpn Hin) as F. rewrite text_eqb_rfl in F. discriminate. }
        split; [|split].
        * intros n z Hz. cbn beta iota in Hz.
          destruct pt as [|k|k|k|nmr]; try (apply Hs; exact Hz);
            (cbn [slk] in Hz; destruct (text_eqb pn n) eqn:En;
             [apply text_eqb_eq in En; subst n; injection Hz as <-; exists c0; split; [exact Hpnl|];
              eapply constrain_sized; [|exact C|exact Pc]; auto
             |apply Hs; exact Hz]).
        * intros n Hn. cbn [map fst] in Hn. rewrite Hk by (intro; apply Hn; now right).
          cbn [lookup]. rewrite text_eqb_false; [reflexivity|]. intro; subst. apply Hn. now left.
        * intros n Hn. cbn [map fst]. cbn beta iota in Hn.
          destruct pt as [|k|k|k|nmr]; try (right; apply Hsub; exact Hn);
            (cbn [map fst] in Hn; destruct Hn as [Hn|Hn]; [left; exact Hn|right; apply Hsub; exact Hn]).
      + destruct params as [|[pn pt] pr]; cbn beta iota in H; [discriminate|].
        cbn [map fst distinct] in Hd. apply andb_prop in Hd. destruct Hd as [Hpn Hd]. apply negb_true_iff in Hpn.
        cbn beta iota in Ht. apply andb_prop in Ht. destruct Ht as [Ht Ht2]. apply andb_prop in Ht. destruct Ht as [Hpt Htn].
        destruct (resolve_match defs pv nm) as [x|] eqn:E; [|discriminate].
        destruct (should_propagate x) eqn:Px; [injection H as <-; left; exact Px|].
        destruct (IHa args0 pr _ w Ht2 Hd H) as [L|[cf [c' [Ev [Hs [Hk Hsub]]]]]]; [left; exact L|].
        right. exists cf, c'. split; [exact Ev|].
        assert (Hpnl : lookup cf pn = Some x).
        { rewrite Hk. - cbn [lookup]. now rewrite text_eqb_rfl.
          - intro Hin. pose proof (existsb_text_false _ _ _ Hpn Hin) as F. rewrite text_eqb_rfl in F. discriminate. }
        split; [|split].
        * intros n z Hz. cbn beta iota in Hz.
          destruct pt as [|k|k|k|nmr]; try discriminate Hpt; [apply Hs; exact Hz|].
          destruct (match_static_size defs nm) as [sn|] eqn:Sn; [|apply Hs; exact Hz].
          cbn [slk] in Hz. destruct (text_eqb pn n) eqn:En; [|apply Hs; exact Hz].
          apply text_eqb_eq in En. subst n. injection Hz as <-. exists x. split; [exact Hpnl|].
          exact (IH nm x sn Htn Sn E).
        * intros n Hn. cbn [map fst] in Hn. rewrite Hk by (intro; apply Hn; now right).
          cbn [lookup]. rewrite text_eqb_false; [reflexivity|]. intro; subst. apply Hn. now left.
        * intros n Hn. cbn [map fst]. cbn beta iota in Hn.
          destruct pt as [|k|k|k|nmr]; try discriminate Hpt; [right; apply Hsub; exact Hn|].
          destruct (match_static_size defs nm) as [sn|]; [|right; apply Hsub; exact Hn].
          cbn [map fst] in Hn. destruct Hn as [Hn|Hn]; [left; exact Hn|right; apply Hsub; exact Hn]. }
  intros Ht Hs H.
  destruct (G args (rparams r) [] v Ht Hdist H) as [L|[cf [c' [Ev [Hc [_ Hsub]]]]]]; [apply sized_as_prop; exact L|].
  eapply static_size_sound_e; [exact Hsub|exact Hna|exact Hc|exact Hs|exact Ev].
Qed.

(* every resolved candidate of a match has the match's static size *)
Lemma resolve_matches_sizes : forall ms rs b,
  (forall m, In m ms -> match_typed defs m = true) ->
  resolve_matches defs pv ms = EOk rs -> In b (flat_map (fun r => match r with MResolved b => [b] | _ => [] end) rs) ->
  exists m, In m ms /\ (forall s, match_static_size defs m = Some s -> size_of b = s).
Proof.
  unfold resolve_matches. induction ms as [|m ms IH]; intros rs b Ht H Hin.
  - change (EOk (@nil mres) = EOk rs) in H. inversion H; subst. destruct Hin.
  - cbn beta iota in H. destruct (resolve_match defs pv m) as [v|] eqn:E; [|discriminate].
    assert (Ht' : forall m', In m' ms -> match_typed defs m' = true) by (intros; apply Ht; now right).
    assert (Rec : forall l, (fix go (ms : list imatch) : eres (list mres) :=
        match ms with [] => EOk [] | m :: r => match resolve_match defs pv m with EErr => EErr | EOk v =>
          match coallesce v with
          | VUnknown => match go r with EOk l => EOk (MUnresolved :: l) | EErr => EErr end
          | VFailed => match go r with EOk l => EOk (MFailed :: l) | EErr => EErr end
          | VInt b => match bsz b with Some _ => match go r with EOk l => EOk (MResolved b :: l) | EErr => EErr end | None => EErr end
          | _ => EErr end end end) ms = EOk l ->
        In b (flat_map (fun r => match r with MResolved b => [b] | _ => [] end) l) ->
        exists m0, In m0 (m :: ms) /\ (forall s, match_static_size defs m0 = Some s -> size_of b = s)).
    { intros l Hl Hb. destruct (IH l b Ht' Hl Hb) as [m0 [Hm Hs]]. exists m0. split; [now right|exact Hs]. }
    destruct (coallesce v) as [| | |bb| | |] eqn:Cv; try discriminate.
    + match type of H with match ?x with _ => _ end = _ => destruct x as [l|] eqn:G; [|discriminate] end.
      injection H as <-. cbn [flat_map app] in Hin. exact (Rec l eq_refl Hin).
    + match type of H with match ?x with _ => _ end = _ => destruct x as [l|] eqn:G; [|discriminate] end.
      injection H as <-. cbn [flat_map app] in Hin. exact (Rec l eq_refl Hin).
    + destruct (bsz bb) as [nb|] eqn:Eb; [|discriminate].
      match type of H with match ?x with _ => _ end = _ => destruct x as [l|] eqn:G; [|discriminate] end.
      injection H as <-. cbn [flat_map app] in Hin. destruct Hin as [<-|Hin]; [|exact (Rec l eq_refl Hin)].
      exists m. split; [now left|]. intros s Sm.
      pose proof (match_static_size_sound m v s (Ht m (or_introl eq_refl)) Sm E) as Hsz.
      unfold size_of. rewrite Eb. apply (Hsz bb nb); [|exact Eb].
      destruct v; cbn in Cv; try discriminate; cbn; congruence.
Qed.
End MatchSize.
