(* C16: monotonicity of the condition evaluator in the information order Unknown ⊑ v (DESIGN.md A.7) *)
From Coq Require Import ZArith NArith List Bool Lia.
From CA Require Import Model.Driver Model.Cond.
Import ListNotations.
Open Scope list_scope.
Open Scope nat_scope.

(* g knows at least what f knows *)
Definition le_lk (f g : nat -> path -> cval) : Prop := forall l p, f l p = VUnknown \/ f l p = g l p.

Lemma le_lk_refl f : le_lk f f.
Proof. intros l p; now right. Qed.

Lemma le_lk_trans f g h : le_lk f g -> le_lk g h -> le_lk f h.
Proof.
  intros A B l p. destruct (A l p) as [U|E]; [now left|]. rewrite E. apply B.
Qed.

Definition definite (v : cval) : Prop := v <> VUnknown.

Ltac leaf IH L E D :=
  first [ discriminate
        | (injection E as E; subst; now elim D)
        | (rewrite (IH _ L eq_refl) by discriminate; exact E) ].

Lemma eval_mono : forall f g e v, le_lk f g -> eval f e = ROk v -> definite v -> eval g e = ROk v.
Proof.
  intros f g e. induction e as [b|z|l p|a IH|a IH|o a IHa b IHb]; intros v L E D; cbn [eval] in *.
  - exact E.
  - exact E.
  - injection E as E. destruct (L l p) as [U|Q]; [congruence|]. now rewrite <- Q, E.
  - destruct (eval f a) as [[| x | x]| | |] eqn:Ea; leaf IH L E D.
  - destruct (eval f a) as [[| x | x]| | |] eqn:Ea; leaf IH L E D.
  - destruct (is_lazy o).
    + destruct (eval f a) as [[| x | x]| | |] eqn:Ea; try discriminate.
      * injection E as E; subst; now elim D.
      * rewrite (IHa _ L eq_refl) by discriminate.
        destruct (Bool.eqb x (is_or o)); [exact E|].
        destruct (eval f b) as [[| y | y]| | |] eqn:Eb; leaf IHb L E D.
    + destruct (eval f a) as [[| x | x]| | |] eqn:Ea; try discriminate.
      * injection E as E; subst; now elim D.
      * rewrite (IHa _ L eq_refl) by discriminate.
        destruct (eval f b) as [[| y | y]| | |] eqn:Eb; leaf IHb L E D.
      * rewrite (IHa _ L eq_refl) by discriminate.
        destruct (eval f b) as [[| y | y]| | |] eqn:Eb; leaf IHb L E D.
Qed.

(* an error, too, is final: once the evaluator fails it fails under every richer valuation *)
Lemma eval_mono_err : forall f g e c, le_lk f g -> eval f e = RErr c -> exists c', eval g e = RErr c'.
Proof.
  intros f g e. induction e as [b|z|l p|a IH|a IH|o a IHa b IHb]; intros c L E; cbn [eval] in *; try discriminate.
  - destruct (eval f a) as [[| x | x]| c0 | |] eqn:Ea; try discriminate.
    destruct (IH _ L eq_refl) as [c' ->]. eauto.
  - destruct (eval f a) as [[| x | x]| c0 | |] eqn:Ea; try discriminate.
    + rewrite (eval_mono f g a _ L Ea) by discriminate. eauto.
    + destruct (IH _ L eq_refl) as [c' ->]. eauto.
  - destruct (is_lazy o).
    + destruct (eval f a) as [[| x | x]| c0 | |] eqn:Ea; try discriminate.
      * rewrite (eval_mono f g a _ L Ea) by discriminate.
        destruct (Bool.eqb x (is_or o)); [discriminate|].
        destruct (eval f b) as [[| y | y]| c1 | |] eqn:Eb; try discriminate.
        -- rewrite (eval_mono f g b _ L Eb) by discriminate. eauto.
        -- destruct (IHb _ L eq_refl) as [c' ->]. eauto.
      * rewrite (eval_mono f g a _ L Ea) by discriminate. eauto.
      * destruct (IHa _ L eq_refl) as [c' ->]. eauto.
    + destruct (eval f a) as [[| x | x]| c0 | |] eqn:Ea; try discriminate.
      * rewrite (eval_mono f g a _ L Ea) by discriminate.
        destruct (eval f b) as [[| y | y]| c1 | |] eqn:Eb; try discriminate.
        -- rewrite (eval_mono f g b _ L Eb) by discriminate. eauto.
        -- rewrite (eval_mono f g b _ L Eb) by discriminate. eauto.
        -- destruct (IHb _ L eq_refl) as [c' ->]. eauto.
      * rewrite (eval_mono f g a _ L Ea) by discriminate.
        destruct (eval f b) as [[| y | y]| c1 | |] eqn:Eb; try discriminate.
        -- rewrite (eval_mono f g b _ L Eb) by discriminate. eauto.
        -- rewrite (eval_mono f g b _ L Eb) by discriminate. eauto.
        -- destruct (IHb _ L eq_refl) as [c' ->]. eauto.
      * destruct (IHa _ L eq_refl) as [c' ->]. eauto.
Qed.

(* the evaluator never reaches a panic or fuel value *)
Lemma eval_total : forall f e, eval f e <> RPanic /\ eval f e <> RFuel.
Proof.
  intros f e. induction e as [b|z|l p|a IH|a IH|o a IHa b IHb]; cbn [eval]; try (split; discriminate).
  - destruct IH. destruct (eval f a) as [[| x | x]| | |]; split; congruence.
  - destruct IH. destruct (eval f a) as [[| x | x]| | |]; split; congruence.
  - destruct IHa, IHb.
    assert (B : forall x y, binop o x y <> RPanic /\ binop o x y <> RFuel).
    { intros x y. destruct x, y, o; cbn; unfold lift_big;
        try (split; discriminate);
        try (destruct (BigIntOps.checked_add _ _); split; discriminate);
        try (destruct (BigIntOps.checked_sub _ _); split; discriminate). }
    destruct (is_lazy o).
    + destruct (eval f a) as [[| x | x]| | |]; try (split; congruence).
      destruct (Bool.eqb x (is_or o)); [split; discriminate|].
      destruct (eval f b) as [[| y | y]| | |]; split; congruence.
    + destruct (eval f a) as [[| x | x]| | |]; try (split; congruence);
      destruct (eval f b) as [[| y | y]| | |]; try (split; congruence); apply B.
Qed.
