(* C11 round-trip theorems, part 4: the two dump formats (address column and data area checked; the
   strict gutter check is exercised by the decoder run on the implementation's text). *)
From Coq Require Import Ascii String ZArith NArith List Bool Lia ZifyBool Arith.
From CA Require Import Model.Formats Spec.Decoders Proofs.FmtBase Proofs.FormatsP Proofs.FormatsP2 Proofs.FormatsP5.
Import ListNotations.
Open Scope N_scope.
Ltac Zify.zify_post_hook ::= Z.div_mod_to_equations.

(* ------------------------------------------------------------------ layout: the cell stream *)
Definition cell_ok (db : nat) (c : option N) : Prop :=
  match c with Some v => v < 2 ^ N.of_nat db | None => True end.

Lemma cells_nil n db : cells n db [] = (repeat None n, []).
Proof. induction n as [|n IH]; [reflexivity|]. cbn [cells]. rewrite IH. reflexivity. Qed.

Lemma cells_app n m db : forall l,
  cells (n + m) db l = (fst (cells n db l) ++ fst (cells m db (snd (cells n db l))),
                        snd (cells m db (snd (cells n db l)))).
Proof.
  induction n as [|n IH]; intro l.
  - cbn [Nat.add cells fst snd app]. now destruct (cells m db l).
  - cbn [Nat.add cells]. destruct l as [|b t].
    + rewrite (IH []). destruct (cells n db []) as [c1 r1]. cbn [fst snd]. destruct (cells m db r1). reflexivity.
    + destruct (take_val db (b :: t) 0) as [v rest]. rewrite (IH rest).
      destruct (cells n db rest) as [c1 r1]. cbn [fst snd]. destruct (cells m db r1). reflexivity.
Qed.

Lemma cells_length n db : forall l, length (fst (cells n db l)) = n.
Proof.
  induction n as [|n IH]; intro l; [reflexivity|]. cbn [cells]. destruct l as [|b t].
  - specialize (IH []). destruct (cells n db []). cbn [fst length] in *. congruence.
  - destruct (take_val db (b :: t) 0) as [v rest]. specialize (IH rest). destruct (cells n db rest).
    cbn [fst length] in *. congruence.
Qed.

Lemma all_none_repeat n : forallb (fun c : option N => match c with None => true | Some _ => false end) (repeat None n) = true.
Proof. induction n; [reflexivity|exact IHn]. Qed.

Lemma cells_rest_length m db : forall l, length (snd (cells m db l)) = (length l - m * db)%nat.
Proof.
  induction m as [|m IH]; intro l; [cbn; lia|]. cbn [cells]. destruct l as [|b t].
  - rewrite cells_nil. reflexivity.
  - rewrite take_val_spec. specialize (IH (skipn db (b :: t))).
    destruct (cells m db (skipn db (b :: t))) as [c r]. cbn [snd] in *. rewrite IH, skipn_length. lia.
Qed.

Lemma all_none_ok db m : Forall (cell_ok db) (repeat None m).
Proof. induction m; [constructor|]. cbn [repeat]. constructor; [exact I|exact IHm]. Qed.

Lemma cells_decode db : (0 < db)%nat -> forall n l, (length l <= n * db)%nat ->
  exists vs, cells_data (fst (cells n db l)) = Some vs /\ bits_of_vals db vs = pad db l
             /\ Forall (cell_ok db) (fst (cells n db l)).
Proof.
  intros Hdb n. induction n as [|n IH]; intros l Hl.
  - destruct l; [|cbn in Hl; lia]. exists []. cbn [cells fst cells_data]. rewrite pad_nil. repeat split. constructor.
  - destruct l as [|b t].
    + rewrite cells_nil. exists []. cbn [fst repeat cells_data]. rewrite all_none_repeat, pad_nil.
      repeat split. apply (all_none_ok db (S n)).
    + cbn [cells]. rewrite take_val_spec.
      set (l := b :: t) in *. set (rest := skipn db l).
      assert (length rest <= n * db)%nat as Hr.
      { subst rest. rewrite skipn_length. lia. }
      destruct (IH rest Hr) as (vs & E & B & F).
      destruct (cells n db rest) as [cs r] eqn:Ec. cbn [fst] in *.
      exists (bits_val (first_bits db l) 0 :: vs). cbn [cells_data]. rewrite E. cbn [bind].
      repeat split.
      * unfold bits_of_vals in *. cbn [map concat]. rewrite B.
        rewrite <- (first_bits_length db l) at 1. rewrite val_bits_bits_val.
        apply first_bits_pad; [exact Hdb|subst l; congruence].
      * constructor; [|exact F]. cbn [cell_ok]. pose proof (bits_val_lt (first_bits db l)) as Hb.
        now rewrite first_bits_length in Hb.
Qed.

Lemma byte_cells_spec nb dpb db : forall l,
  concat (fst (byte_cells nb dpb db l)) = fst (cells (nb * dpb) db l)
  /\ snd (byte_cells nb dpb db l) = snd (cells (nb * dpb) db l)
  /\ length (fst (byte_cells nb dpb db l)) = nb
  /\ Forall (fun g => length g = dpb) (fst (byte_cells nb dpb db l)).
Proof.
  induction nb as [|nb IH]; intro l.
  - cbn. repeat split. constructor.
  - cbn [byte_cells]. change (S nb * dpb)%nat with (dpb + nb * dpb)%nat. rewrite cells_app.
    pose proof (cells_length dpb db l) as Hlen.
    destruct (cells dpb db l) as [c rest]. cbn [fst snd] in *.
    destruct (IH rest) as (E1 & E2 & E3 & E4). destruct (byte_cells nb dpb db rest) as [cs r].
    cbn [fst snd concat length] in *. repeat split; [now rewrite E1|exact E2|now rewrite E3|].
    constructor; assumption.
Qed.

(* ------------------------------------------------------------------ layout: the gutter shows the same bytes *)
Definition gv (db : nat) (cs : list (option N)) (acc : N) : N :=
  fold_left (fun a c => a * 2 ^ N.of_nat db + match c with Some v => v | None => 0 end) cs acc.

Lemma bits_val_repeat_false n : forall acc, bits_val (repeat false n) acc = acc * 2 ^ N.of_nat n.
Proof.
  induction n as [|n IH]; intro acc; [cbn; lia|]. cbn [repeat bits_val fold_left b2n].
  fold (bits_val (repeat false n) (2 * acc + 0)). rewrite IH, Nat2N.inj_succ, N.pow_succ_r'. lia.
Qed.

Lemma first_bits_nil k : first_bits k [] = repeat false k.
Proof. unfold first_bits. cbn [app]. apply firstn_repeat_le. lia. Qed.

Lemma first_bits_add a b : forall l, first_bits (a + b) l = first_bits a l ++ first_bits b (skipn a l).
Proof.
  induction a as [|a IH]; intro l; [reflexivity|]. destruct l as [|x t].
  - rewrite skipn_nil, !first_bits_nil. apply repeat_app.
  - cbn [Nat.add skipn]. rewrite !first_bits_S, IH. reflexivity.
Qed.

Lemma gv_none db m : forall acc, gv db (repeat None m) acc = acc * 2 ^ N.of_nat (m * db).
Proof.
  induction m as [|m IH]; intro acc; [cbn; lia|]. cbn [repeat gv fold_left]. fold (gv db (repeat None m) (acc * 2 ^ N.of_nat db + 0)).
  rewrite IH. change (S m * db)%nat with (db + m * db)%nat. rewrite Nat2N.inj_add, N.pow_add_r. lia.
Qed.

Lemma gv_cells db n : forall l acc, gv db (fst (cells n db l)) acc = bits_val (first_bits (n * db) l) acc.
Proof.
  induction n as [|n IH]; intros l acc; [reflexivity|]. destruct l as [|b t].
  - rewrite cells_nil. cbn [fst]. rewrite gv_none, first_bits_nil, bits_val_repeat_false. reflexivity.
  - cbn [cells]. rewrite take_val_spec. specialize (IH (skipn db (b :: t))).
    destruct (cells n db (skipn db (b :: t))) as [cs r]. cbn [fst] in *.
    cbn [gv fold_left]. fold (gv db cs (acc * 2 ^ N.of_nat db + bits_val (first_bits db (b :: t)) 0)).
    rewrite IH. change (S n * db)%nat with (db + n * db)%nat. rewrite first_bits_add.
    unfold bits_val at 3. rewrite fold_left_app. fold (bits_val (first_bits db (b :: t)) acc).
    rewrite (bits_val_acc (first_bits db (b :: t)) acc), first_bits_length. reflexivity.
Qed.

Lemma cells_rest n db : forall l, snd (cells n db l) = skipn (n * db) l.
Proof.
  induction n as [|n IH]; intro l; [reflexivity|]. destruct l as [|b t].
  - rewrite cells_nil, skipn_nil. reflexivity.
  - cbn [cells]. rewrite take_val_spec. specialize (IH (skipn db (b :: t))).
    destruct (cells n db (skipn db (b :: t))) as [cs r]. cbn [snd] in *. rewrite IH, skipn_skipn'.
    f_equal. lia.
Qed.

(* a digit group and the gutter cell of the same byte *)
Definition grel (db : nat) (g : list (option N)) (c : option N) : Prop :=
  match c with
  | None => exists r, g = None :: r
  | Some b => (exists v r, g = Some v :: r) /\ group_value db g = b
  end.

Lemma byte_cells_gutter dpb db : (0 < dpb)%nat -> forall bpl l,
  Forall2 (grel db) (fst (byte_cells bpl dpb db l)) (fst (cells bpl (dpb * db) l)).
Proof.
  intros Hdpb bpl. induction bpl as [|n IH]; intro l; [constructor|].
  cbn [byte_cells]. pose proof (cells_rest dpb db l) as Er. pose proof (gv_cells db dpb l 0) as Ev.
  destruct l as [|b t].
  - rewrite cells_nil in *. cbn [fst snd] in *. specialize (IH []).
    destruct (byte_cells n dpb db []) as [cs r]. cbn [cells]. destruct (cells n (dpb * db) []) as [gs r'].
    cbn [fst] in *. constructor; [|exact IH]. destruct dpb; [lia|]. cbn [repeat grel]. eauto.
  - cbn [cells]. rewrite take_val_spec.
    assert (exists v r, fst (cells dpb db (b :: t)) = Some v :: r) as Hsome.
    { destruct dpb as [|d]; [lia|]. cbn [cells]. destruct (take_val db (b :: t) 0). destruct (cells d db b0). cbn [fst]. eauto. }
    destruct (cells dpb db (b :: t)) as [c rest]. cbn [fst snd] in *. subst rest.
    specialize (IH (skipn (dpb * db) (b :: t))).
    destruct (byte_cells n dpb db (skipn (dpb * db) (b :: t))) as [cs r].
    destruct (cells n (dpb * db) (skipn (dpb * db) (b :: t))) as [gs r']. cbn [fst] in *.
    constructor; [|exact IH]. cbn [grel]. split; [exact Hsome|exact Ev].
Qed.

Lemma gutter_ok_grel db g c : grel db g c -> gutter_ok db g (gutter_char c) = true.
Proof.
  destruct c as [b|]; cbn [grel gutter_char].
  - intros [(v & r & ->) Ev]. cbn [gutter_ok]. rewrite Ev. unfold is_ws.
    destruct ((b =? 32) || (b =? 9) || (b =? 13) || (b =? 10)) eqn:E1.
    + replace ((b =? 32) || (b =? 10) || (b =? 9) || (b =? 13)) with true by lia. reflexivity.
    + destruct ((128 <=? b) || (b <? 32) || (b =? 124)) eqn:E2; [reflexivity|]. lia.
  - intros (r & ->). reflexivity.
Qed.

Lemma forallb2_gutter db groups gutter : Forall2 (grel db) groups gutter ->
  forallb2 (gutter_ok db) groups (map gutter_char gutter) = true.
Proof. induction 1 as [|g c gs cs H _ IH]; [reflexivity|]. cbn [map forallb2]. now rewrite gutter_ok_grel, IH. Qed.

(* what the text level needs to know about a line *)
Definition line_ok (db dpb bpl : nat) (li : N) (ln : dump_line) : Prop :=
  dl_addr ln = li * N.of_nat bpl /\ length (dl_bytes ln) = bpl
  /\ Forall (fun g => length g = dpb /\ Forall (cell_ok db) g) (dl_bytes ln)
  /\ Forall2 (grel db) (dl_bytes ln) (dl_gutter ln).

Fixpoint lines_ok (db dpb bpl : nat) (li : N) (lines : list dump_line) : Prop :=
  match lines with
  | [] => True
  | ln :: r => line_ok db dpb bpl li ln /\ lines_ok db dpb bpl (li + 1) r
  end.

Definition line_cells (ln : dump_line) : list (option N) := concat (dl_bytes ln).

Lemma Forall_concat_groups {A} (P : A -> Prop) (gs : list (list A)) :
  Forall P (concat gs) -> Forall (fun g => Forall P g) gs.
Proof.
  induction gs as [|g r IH]; intro H; [constructor|]. cbn [concat] in H. apply Forall_app in H.
  destruct H. constructor; auto.
Qed.

Lemma dump_lines_spec db dpb bpl nl : (0 < db)%nat -> (0 < dpb)%nat -> forall li l, (length l <= nl * (bpl * dpb) * db)%nat ->
  lines_ok db dpb bpl li (dump_lines nl db (dpb * db) bpl li l)
  /\ exists vs, cells_data (concat (map line_cells (dump_lines nl db (dpb * db) bpl li l))) = Some vs
                /\ bits_of_vals db vs = pad db l.
Proof.
  intros Hdb Hdpb. induction nl as [|nl IH]; intros li l Hl.
  - destruct l; [|cbn in Hl; lia]. cbn [dump_lines lines_ok map concat cells_data]. split; [exact I|]. exists []. rewrite pad_nil. now split.
  - cbn [dump_lines]. rewrite Nat.div_mul by lia.
    destruct (byte_cells_spec bpl dpb db l) as (E1 & E2 & E3 & E4).
    pose proof (byte_cells_gutter dpb db Hdpb bpl l) as EG.
    destruct (byte_cells bpl dpb db l) as [bc rest] eqn:Eb. cbn [fst snd] in *.
    destruct (cells bpl (dpb * db) l) as [g g'] eqn:Eg. cbn [fst] in EG.
    cbn [lines_ok map concat].
    (* the cells of this line are the first bpl*dpb cells of the stream *)
    destruct (cells_decode db Hdb (S nl * (bpl * dpb)) l ltac:(lia)) as (vs & D & B & F).
    change (S nl * (bpl * dpb))%nat with (bpl * dpb + nl * (bpl * dpb))%nat in D, F.
    rewrite cells_app in D, F. cbn [fst] in D, F. rewrite <- E1, <- E2 in D, F.
    apply Forall_app in F. destruct F as [F1 F2].
    assert (length rest <= nl * (bpl * dpb) * db)%nat as Hrest.
    { rewrite E2, cells_rest_length. lia. }
    destruct (IH (li + 1) rest Hrest) as (L & vs' & D' & B').
    split.
    + split; [|exact L]. unfold line_ok. cbn [dl_addr dl_bytes dl_gutter]. repeat split; [exact E3| |exact EG].
      apply Forall_concat_groups in F1. clear - E4 F1. induction E4; [constructor|].
      inversion F1; subst. constructor; auto.
    + exists vs. split; [|exact B]. unfold line_cells at 1. cbn [dl_bytes].
      (* the remaining lines are the remaining cells *)
      assert (concat (map line_cells (dump_lines nl db (dpb * db) bpl (li + 1) rest))
              = fst (cells (nl * (bpl * dpb)) db rest)) as Erest.
      { clear - Hdb. revert li rest. induction nl as [|nl IHn]; intros li rest; [reflexivity|].
        cbn [dump_lines]. rewrite Nat.div_mul by lia.
        destruct (byte_cells_spec bpl dpb db rest) as (E1 & E2 & _ & _).
        destruct (byte_cells bpl dpb db rest) as [bc r2]. destruct (cells bpl (dpb * db) rest).
        cbn [map concat fst snd] in *. unfold line_cells at 1. cbn [dl_bytes].
        change (S nl * (bpl * dpb))%nat with (bpl * dpb + nl * (bpl * dpb))%nat. rewrite cells_app. cbn [fst].
        rewrite IHn, E1, E2. reflexivity. }
      rewrite Erest. exact D.
Qed.

(* ------------------------------------------------------------------ text level: one line *)
Lemma pow2_le16 db : (db <= 4)%nat -> 2 ^ N.of_nat db <= 16.
Proof. intro H. change 16 with (2 ^ 4). apply N.pow_le_mono_r; lia. Qed.

Lemma cell_char_not p db c : (db <= 4)%nat -> cell_ok db c -> clean p hexchars -> p 46 = false ->
  p (cell_char c) = false.
Proof.
  intros Hdb Hc Hh H46. destruct c as [v|]; cbn [cell_char]; [|exact H46].
  cbn [cell_ok] in Hc. pose proof (pow2_le16 db Hdb). apply digit_char_not; [lia|exact Hh].
Qed.

Lemma cells_clean p db g : (db <= 4)%nat -> Forall (cell_ok db) g -> clean p hexchars -> p 46 = false ->
  clean p (map cell_char g).
Proof.
  intros Hdb F Hh H46. induction F as [|c t Hc Ft IH]; [reflexivity|]. cbn [map].
  apply clean_cons; [now apply (cell_char_not p db)|exact IH].
Qed.

Lemma cell_of_cell_char db c : (db <= 4)%nat -> cell_ok db c -> cell_of_char db (cell_char c) = Some c.
Proof.
  intros Hdb Hc. destruct c as [v|]; cbn [cell_char]; [|reflexivity].
  cbn [cell_ok] in Hc. pose proof (pow2_le16 db Hdb). unfold cell_of_char.
  rewrite (digit_char_not (fun c => c =? 46) false v) by (lia || reflexivity).
  rewrite hex_val_digit_char by lia. cbn [bind]. rewrite below_ok by exact Hc. reflexivity.
Qed.

Definition group_ok (db dpb : nat) (g : list (option N)) : Prop := length g = dpb /\ Forall (cell_ok db) g.

Lemma dump_bytes_tokens db dpb bpl bytes : (db <= 4)%nat -> (0 < dpb)%nat -> Forall (group_ok db dpb) bytes ->
  forall bi, tokens is_space (render_dump_bytes bpl bi bytes) = map (map cell_char) bytes.
Proof.
  intros Hdb Hdpb F. induction F as [|g t [Hl Hg] Ft IH]; intro bi; [reflexivity|].
  cbn [render_dump_bytes map]. rewrite <- ?app_assoc. cbn [app].
  rewrite tokens_app; [| |apply (cells_clean is_space db); (assumption || reflexivity)|reflexivity].
  - f_equal. destruct (_ && _); cbn [app]; [rewrite tokens_sep by reflexivity|]; apply IH.
  - destruct g; [cbn in Hl; lia|cbn; congruence].
Qed.

Lemma dump_bytes_clean p db dpb bpl bytes : (db <= 4)%nat -> Forall (group_ok db dpb) bytes ->
  clean p hexchars -> p 46 = false -> p 32 = false ->
  forall bi, clean p (render_dump_bytes bpl bi bytes).
Proof.
  intros Hdb F Hh H46 H32. induction F as [|g t [Hl Hg] Ft IH]; intro bi; [reflexivity|].
  cbn [render_dump_bytes]. apply clean_app; [now apply (cells_clean p db)|].
  apply clean_cons; [exact H32|]. apply clean_app; [|apply IH].
  destruct (_ && _); [apply clean_cons; [exact H32|reflexivity]|reflexivity].
Qed.

Lemma gutter_char_not c : (gutter_char c =? 10) = false /\ (gutter_char c =? 124) = false.
Proof.
  destruct c as [b|]; cbn [gutter_char]; [|split; reflexivity].
  destruct ((b =? 32) || (b =? 9) || (b =? 13) || (b =? 10)) eqn:E1; [split; reflexivity|].
  destruct ((128 <=? b) || (b <? 32) || (b =? 124)) eqn:E2; [split; reflexivity|].
  split; lia.
Qed.

Lemma gutter_clean c g : c = 10 \/ c = 124 -> clean (N.eqb c) (map gutter_char g).
Proof.
  intro Hc. induction g as [|x t IH]; [reflexivity|]. cbn [map]. apply clean_cons; [|exact IH].
  destruct (gutter_char_not x) as [H1 H2]. destruct Hc as [->| ->]; rewrite N.eqb_sym; assumption.
Qed.

Definition line_body (addr_w bpl : nat) (ln : dump_line) : text :=
  (32 :: pad_left 48 addr_w (hex_lower (dl_addr ln)) ++ [32]) ++ 124 ::
  (32 :: render_dump_bytes bpl 0 (dl_bytes ln)) ++ 124 ::
  (32 :: map gutter_char (dl_gutter ln) ++ [32]) ++ 124 :: [].

Lemma render_dump_line_body addr_w bpl ln :
  render_dump_line addr_w 8 bpl ln = line_body addr_w bpl ln ++ [10].
Proof.
  unfold render_dump_line, line_body. cbn [Nat.eqb].
  repeat first [rewrite <- app_assoc | progress cbn [app]]. reflexivity.
Qed.

Lemma forallb_length_groups db dpb bytes : Forall (group_ok db dpb) bytes ->
  forallb (fun gr => Nat.eqb (length gr) dpb) bytes = true.
Proof. induction 1 as [|g t [Hl _] _ IH]; [reflexivity|]. cbn [forallb]. now rewrite Hl, Nat.eqb_refl, IH. Qed.

Lemma dump_line_decode strict db dpb bpl addr_w li ln : (0 < db <= 4)%nat -> (0 < dpb)%nat ->
  line_ok db dpb bpl li ln ->
  clean (N.eqb 10) (line_body addr_w bpl ln)
  /\ decode_dump_line strict db dpb bpl li (line_body addr_w bpl ln) = Some (line_cells ln).
Proof.
  intros Hdb Hdpb (Ha & Hlen & Hg & Hgut).
  assert (Forall (group_ok db dpb) (dl_bytes ln)) as Hg' by exact Hg.
  split.
  - unfold line_body. unfold hex_lower.
    repeat first [ reflexivity | apply hexpad_clean | apply clean_cons; [reflexivity|]
                 | apply (dump_bytes_clean _ db dpb); (assumption || lia || reflexivity)
                 | apply gutter_clean; now left | apply clean_app ].
  - unfold decode_dump_line, line_body.
    rewrite split_on_line by (unfold hex_lower; clean_tac).
    rewrite split_on_line by (apply clean_cons; [reflexivity|apply (dump_bytes_clean _ db dpb); (assumption || lia || reflexivity)]).
    rewrite split_on_line by (apply clean_cons; [reflexivity|apply clean_app; [apply gutter_clean; now right|reflexivity]]).
    change (split_on 124 []) with [@nil N].
    rewrite tokens_sep by reflexivity.
    rewrite tokens_app; [|apply hexpad_nonempty|unfold hex_lower; clean_tac|reflexivity].
    rewrite tokens_nil. unfold hex_lower. rewrite parse_hex_fmt. rewrite Ha, N.eqb_refl.
    rewrite tokens_sep by reflexivity. rewrite (dump_bytes_tokens db dpb) by (assumption || lia).
    rewrite (map_opt_map _ _ (fun g => g)).
    + rewrite map_id. cbn [bind]. rewrite Hlen, Nat.eqb_refl, (forallb_length_groups db dpb) by assumption.
      rewrite rev_app_distr. cbn [rev app]. rewrite rev_involutive, (forallb2_gutter db) by exact Hgut.
      now destruct strict.
    + intros g Hin. rewrite Forall_forall in Hg'. destruct (Hg' g Hin) as [_ Fg].
      rewrite (map_opt_map _ _ (fun c => c)); [now rewrite map_id|].
      intros c Hc. rewrite Forall_forall in Fg. apply cell_of_cell_char; [lia|now apply Fg].
Qed.

(* ------------------------------------------------------------------ text level: all lines *)
Lemma decode_dump_lines_cons s db dpb bpl li c t r :
  decode_dump_lines s db dpb bpl li ((c :: t) :: r)
  = bind (decode_dump_line s db dpb bpl li (c :: t)) (fun cs =>
    bind (decode_dump_lines s db dpb bpl (li + 1) r) (fun rest => Some (cs ++ rest))).
Proof. reflexivity. Qed.

Lemma dump_text_decode strict db dpb bpl addr_w lines : (0 < db <= 4)%nat -> (0 < dpb)%nat -> forall li,
  lines_ok db dpb bpl li lines ->
  decode_dump_lines strict db dpb bpl li (split_on 10 (concat (map (render_dump_line addr_w 8 bpl) lines)))
  = Some (concat (map line_cells lines)).
Proof.
  intros Hdb Hdpb. induction lines as [|ln r IH]; intros li L; [reflexivity|].
  cbn [lines_ok] in L. destruct L as [L1 L2].
  destruct (dump_line_decode strict db dpb bpl addr_w li ln Hdb Hdpb L1) as [C D].
  cbn [map concat]. rewrite render_dump_line_body, <- app_assoc. cbn [app].
  rewrite split_on_line by exact C.
  remember (line_body addr_w bpl ln) as body eqn:Eb.
  destruct body as [|c t]; [unfold line_body in Eb; cbn [app] in Eb; discriminate Eb|].
  rewrite decode_dump_lines_cons, D. cbn [bind]. rewrite (IH (li + 1) L2). reflexivity.
Qed.

Lemma dump_roundtrip strict db dpb bpl bs : (0 < db <= 4)%nat -> (0 < dpb)%nat -> (dpb * db = 8)%nat ->
  (length bs <= N.to_nat (dump_line_end (blen bs) 8 bpl) * (bpl * dpb) * db)%nat ->
  decode_dump strict db dpb bpl (format_dump db 8 bpl bs) = Some (pad db bs).
Proof.
  intros Hdb Hdpb H8 Hn. unfold decode_dump, format_dump.
  destruct (dump_lines_spec db dpb bpl (N.to_nat (dump_line_end (blen bs) 8 bpl)) ltac:(lia) Hdpb 0 bs Hn)
    as (L & vs & D & B).
  rewrite H8 in L, D. rewrite (dump_text_decode strict db dpb bpl) by assumption.
  cbn [bind]. rewrite D. cbn [bind]. now rewrite B.
Qed.

Lemma line_end_enough bs bpl : (0 < bpl)%nat ->
  N.of_nat (length bs) <= dump_line_end (blen bs) 8 bpl * (8 * N.of_nat bpl).
Proof.
  intro Hb. unfold dump_line_end, blen. change (N.of_nat 8) with 8.
  set (len := N.of_nat (length bs)). set (lb := 8 * N.of_nat bpl).
  assert (0 < lb) by lia.
  destruct (N.ltb_spec len 8); [lia|].
  pose proof (N.div_mod (len + lb - 1) lb ltac:(lia)). pose proof (N.mod_lt (len + lb - 1) lb ltac:(lia)). lia.
Qed.

Theorem bindump_roundtrip strict bs : decode_bindump strict (format_bindump bs) = Some (pad 1 bs).
Proof.
  apply (dump_roundtrip strict 1 8 8); try lia.
  pose proof (line_end_enough bs 8 ltac:(lia)). lia.
Qed.

Theorem hexdump_roundtrip strict bs : decode_hexdump strict (format_hexdump bs) = Some (pad 4 bs).
Proof.
  apply (dump_roundtrip strict 4 2 16); try lia.
  pose proof (line_end_enough bs 16 ltac:(lia)). lia.
Qed.

(* the whole text of a dump, column by column: line i is
     " " address(i * bytes_per_line, lower-case hex, zero-padded to the common width) " | " digit groups "| " gutter " |"
   where (line_ok) every group has digits_per_byte cells with in-range digits, and the gutter cell of a byte is
   absent exactly when its group starts with an absent cell and otherwise holds the value the group's digits
   denote (grel); the gutter text is gutter_char of those cells. *)
Lemma dump_columns db dpb bpl bs : (0 < db)%nat -> (0 < dpb)%nat -> (dpb * db = 8)%nat ->
  (length bs <= N.to_nat (dump_line_end (blen bs) 8 bpl) * (bpl * dpb) * db)%nat ->
  let lines := dump_lines (N.to_nat (dump_line_end (blen bs) 8 bpl)) db 8 bpl 0 bs in
  let w := length (hex_lower ((dump_line_end (blen bs) 8 bpl - 1) * N.of_nat bpl)) in
  format_dump db 8 bpl bs = concat (map (fun ln => line_body w bpl ln ++ [10]) lines)
  /\ lines_ok db dpb bpl 0 lines.
Proof.
  intros Hdb Hdpb H8 Hn lines w. split.
  - unfold format_dump. fold lines. fold w. f_equal. apply map_ext. intro ln. apply render_dump_line_body.
  - destruct (dump_lines_spec db dpb bpl (N.to_nat (dump_line_end (blen bs) 8 bpl)) Hdb Hdpb 0 bs Hn) as (L & _).
    rewrite H8 in L. exact L.
Qed.

Lemma bindump_columns bs :
  let lines := dump_lines (N.to_nat (dump_line_end (blen bs) 8 8)) 1 8 8 0 bs in
  let w := length (hex_lower ((dump_line_end (blen bs) 8 8 - 1) * 8)) in
  format_bindump bs = concat (map (fun ln => line_body w 8 ln ++ [10]) lines) /\ lines_ok 1 8 8 0 lines.
Proof. apply (dump_columns 1 8 8); try lia. pose proof (line_end_enough bs 8 ltac:(lia)). lia. Qed.

Lemma hexdump_columns bs :
  let lines := dump_lines (N.to_nat (dump_line_end (blen bs) 8 16)) 4 8 16 0 bs in
  let w := length (hex_lower ((dump_line_end (blen bs) 8 16 - 1) * 16)) in
  format_hexdump bs = concat (map (fun ln => line_body w 16 ln ++ [10]) lines) /\ lines_ok 4 2 16 0 lines.
Proof. apply (dump_columns 4 2 16); try lia. pose proof (line_end_enough bs 16 ltac:(lia)). lia. Qed.
