(* C12 over the whole pipeline, part 2: for every successful result of Model/Resolver2.assemble2 (constants pre-pass,
   bank definitions, iterative resolver with per-bank cursors, final confirming pass, check_bank_overlap,
   build_output) the recorded spans (r_items) satisfy the address specification of Spec/ListingSpec.v, have the
   size of their item's encoding, do not overlap, and the output bits under each span are that item's encoding.

   Instructions and data elements get their address from ResolverContext::get_address at the cursor position of
   build_output's own walk (Proofs/SpanOriginP.v).  A label's span carries the label's VALUE; that it is the address
   of the cursor position where build_output visits the label is the certificate of C02 (certified2_label:
   in the final state every label equals addr_start + position / unit of the resolver's cursor walk) plus the fact
   that build_output's walk over the resolved nodes is the resolver's walk (same Cursor.advance / Cursor.enter, and
   `enter` reads only the kind of a node).  New non-emitting node kinds of Resolver2 do not affect these proofs. *)
From Coq Require Import ZArith NArith List Bool Lia.
From CA Require Import Model.Lexer Model.Parser Model.Literal Model.BigIntOps Model.Evaluator Model.Matcher Model.Resolver
  Model.Resolver2 Proofs.ResolverFixP Proofs.Resolver2FixP Proofs.Resolver2CertP Proofs.Resolver2TopP.
From CA Require Model.Overlap Model.Cursor Model.Output Model.Symbols Spec.OverlapSpec Spec.LayoutInv Proofs.CursorP Proofs.OutputP.
From CA Require Import Spec.Decoders Model.Listing Spec.ListingSpec Proofs.SpanOriginP Proofs.ListingP2 Proofs.ListingP3.
Import ListNotations.
Open Scope Z_scope.

Lemma max_bits_roundtrip : Z.of_N (Z.to_N max_bits) = max_bits.
Proof. apply Z2N.id. vm_compute. discriminate. Qed.

(* build_output sees the nodes through [view]; the iterator's `enter` reads only what [shape] keeps *)
Lemma enter_view_shape mb banks c st n : Cursor.enter mb banks c (view st n) = Cursor.enter mb banks c (shape n).
Proof. destruct n; reflexivity. Qed.

Lemma out_nodes_view st : forall ns vs, out_nodes st ns = Ok vs -> vs = map (fun n => view st (fst n)) ns.
Proof.
  induction ns as [|n r IH]; intros vs H; cbn [out_nodes] in H.
  - injection H as <-. reflexivity.
  - destruct (out_node st (fst n)) as [v| |] eqn:E; try discriminate.
    destruct (out_nodes st r) as [l| |] eqn:E2; try discriminate.
    injection H as <-. cbn [map]. f_equal; [|now apply IH].
    unfold out_node in E.
    destruct (fst n);
      repeat match type of E with
             | match ?x with _ => _ end = _ => destruct x; try discriminate
             end; now injection E as <-.
Qed.

Section Walk.
Variable banks : list Cursor.bank.
Variable mbn : N.
Let mb := Z.of_N mbn.

(* build_output's cursor walk over the resolved nodes is the resolver's cursor walk *)
Lemma cwalk_is_walk st : forall ns c prev,
  cwalk mbn banks (map (fun n => view st (fst n)) ns) c prev = walk banks mb ns st c prev.
Proof.
  induction ns as [|n r IH]; intros c prev; cbn [map cwalk walk]; [reflexivity|].
  fold mb. destruct (Cursor.advance mb banks c prev) as [c1| |]; try reflexivity.
  rewrite enter_view_shape. destruct (Cursor.enter mb banks c1 (shape (fst n))) as [c2| |]; try reflexivity.
  apply IH.
Qed.

Lemma cvisit_is_visit st n c prev c2 b pos :
  cvisit mbn banks (view st (fst n)) c prev = Ok (c2, b, pos) -> visit banks mb n c prev = Ok (b, pos).
Proof.
  unfold cvisit, visit. fold mb. destruct (Cursor.advance mb banks c prev) as [c1| |]; try discriminate.
  rewrite enter_view_shape. destruct (Cursor.enter mb banks c1 (shape (fst n))) as [c2'| |]; try discriminate.
  destruct (Cursor.cur_bank banks c2') as [[b' pos']| |]; try discriminate.
  intro H. injection H as H1 H2 H3. subst. reflexivity.
Qed.
End Walk.

Lemma map_split {A B} (f : A -> B) : forall l l1 y l2, map f l = l1 ++ y :: l2 ->
  exists a1 x a2, l = a1 ++ x :: a2 /\ map f a1 = l1 /\ f x = y /\ map f a2 = l2.
Proof.
  induction l as [|a l IH]; intros l1 y l2 H.
  - destruct l1; discriminate.
  - destruct l1 as [|z l1]; cbn [map app] in H.
    + injection H as H1 H2. exists [], a, l. auto.
    + injection H as H1 H2. destruct (IH _ _ _ H2) as (a1 & x & a2 & -> & M1 & M2 & M3).
      exists (a :: a1), x, a2. cbn [map app]. rewrite M1, H1. auto.
Qed.

(* every span of a certified state's output is located: at position pos of its usable bank, offset outp + pos,
   address addr_start + pos / unit *)
Lemma certified_items_located m banks defs ns st vs out items :
  labels_ok2 ns st -> Certified2 m banks defs max_bits ns st ->
  out_nodes st ns = Ok vs ->
  Output.build_output (Z.to_N max_bits) banks vs = Ok (out, items) ->
  Forall (located banks) items.
Proof.
  intros Hl Hc Hv Hb. apply out_nodes_view in Hv. subst vs.
  pose proof (build_output_origin _ _ _ _ _ Hb) as F.
  eapply Forall_impl; [|exact F]. clear F.
  intros it (vs1 & v & vs2 & c & p & c2 & b & pos & Hsplit & W & V & P).
  destruct (map_split _ _ _ _ _ Hsplit) as (ns1 & n & ns2 & -> & <- & <- & _).
  pose proof (cvisit_bank _ _ _ _ _ _ _ _ V) as Hcb.
  destruct (view st (fst n)) as [i|is_label d0 value|enc|k|a|a|] eqn:Ev; cbn [produced] in P; try contradiction.
  - (* a label: its value is the address of this very cursor position *)
    destruct is_label; [|contradiction].
    destruct n as [x ctx]. cbn [fst] in *.
    assert (exists s, x = XLabel s d0 /\ value = match nth s (s_sym st) VUnknown with VInt b => bv b | _ => 0 end)
      as (s & -> & Evalue).
    { destruct x; cbn [view] in Ev; try discriminate. injection Ev as <- <-. eauto. }
    clear Ev.
    destruct (certified2_label m banks defs max_bits ns1 s d0 ctx ns2 st Hl Hc) as (c0 & p0 & b' & pos' & Hw & Hvis & Hm & Hval).
    rewrite cwalk_is_walk, max_bits_roundtrip in W. rewrite W in Hw. injection Hw as <- <-.
    assert (visit banks max_bits (XLabel s d0, ctx) c p = Ok (b, pos)) as V'.
    { rewrite <- max_bits_roundtrip. apply (cvisit_is_visit banks (Z.to_N max_bits) st (XLabel s d0, ctx) c p c2).
      cbn [fst view]. rewrite <- Evalue. exact V. }
    rewrite V' in Hvis. injection Hvis as <- <-.
    rewrite Hval in Evalue. cbn in Evalue.
    apply (produced_label_located (Z.to_N max_bits) banks c2 b pos d0 value it Hcb) in P; [tauto| |exact Evalue].
    (* unit 0 is impossible: the label resolved, so eval_address did not panic *)
    intro U.
    destruct (certified2_node m banks defs max_bits ns1 (XLabel s d0, ctx) ns2 st Hl Hc) as (c0 & p0 & b0 & q0 & Hw & Hvis & R).
    rewrite W in Hw. injection Hw as <- <-. rewrite V' in Hvis. injection Hvis as <- <-.
    cbn [fst snd] in R. unfold resolve_node2 in R. cbv zeta in R.
    unfold Cursor.eval_address in R. rewrite U in R. cbn in R. discriminate.
  - (* an instruction or a data element *)
    apply (produced_emit_located (Z.to_N max_bits) banks c2 b pos enc it Hcb) in P. tauto.
Qed.

(* ------------------------------------------------------------------ the theorems of Props/C12.v *)
Lemma assemble2_final indexed defs ps budget r : assemble2 indexed defs ps budget = Ok r ->
  exists m ns st,
    labels_ok2 ns st /\ Certified2 m (r_banks r) defs max_bits ns st /\ out_nodes st ns = Ok (r_nodes r) /\
    Output.check_bank_overlap (r_banks r) = Ok tt /\
    Output.build_output (Z.to_N max_bits) (r_banks r) (r_nodes r) = Ok (r_bits r, r_items r).
Proof.
  intro H. unfold assemble2 in H.
  destruct (setup indexed defs ps) as [[[[m ns] banks] st1]|] eqn:S; [|discriminate].
  destruct (loop2 m banks defs max_bits ns budget 0 budget st1) as [[st n]| |] eqn:L; try discriminate.
  destruct (out_nodes st ns) as [vs| |] eqn:O; try discriminate.
  destruct (Output.output_stage (Z.to_N max_bits) banks vs) as [[bits items]| |] eqn:B; try discriminate.
  injection H as <-. cbn [r_banks r_nodes r_bits r_items].
  destruct (setup_ok _ _ _ _ _ _ _ S) as [Hd Hl].
  destruct (loop2_inv m banks defs max_bits ns Hd budget 0 budget st1 st n Hl L ltac:(lia)) as (Hl' & Hc & _).
  unfold Output.output_stage in B.
  destruct (Output.check_bank_overlap banks) as [[]| |] eqn:W; try discriminate.
  exists m, ns, st. auto 6.
Qed.

(* (1) every span's address is the address the bank layout assigns to its output position *)
Theorem pipeline_addresses indexed defs ps budget r : assemble2 indexed defs ps budget = Ok r ->
  Forall (located (r_banks r)) (r_items r)
  /\ addresses_ok (bankws (r_banks r)) (map lspan_of_item (r_items r)) = true.
Proof.
  intro H. destruct (assemble2_final _ _ _ _ _ H) as (m & ns & st & Hl & Hc & Ho & W & B).
  pose proof (certified_items_located _ _ _ _ _ _ _ _ Hl Hc Ho B) as F.
  split; [exact F|]. apply located_addresses_ok; assumption.
Qed.

(* (2) + (3): a span has the size of its item's encoding, the output bits under it are that encoding, spans with bits
   are pairwise disjoint, and a span without encoding (a label) has no bits *)
Theorem pipeline_one_item indexed defs ps budget r : assemble2 indexed defs ps budget = Ok r ->
  (forall it o enc, In it (r_items r) -> Output.it_off it = Some o -> Output.it_enc it = Some enc ->
     Output.it_size it = N.of_nat (length enc) /\ bits_at (r_bits r) o (Output.it_size it) = enc)
  /\ OverlapSpec.pairwise_disjointb (LayoutInv.ranges (r_items r)) = true
  /\ (forall it, In it (r_items r) -> Output.it_enc it = None -> Output.it_size it = 0%N).
Proof.
  intro H. destruct (assemble2_final _ _ _ _ _ H) as (m & ns & st & _ & _ & _ & _ & B).
  destruct (OutputP.layout_partial _ _ _ _ _ B) as (_ & PD & _ & _ & C).
  split; [intros it o enc Hi Ho He; eapply content_bits_at; eauto|]. split; [exact PD|].
  (* labels: from the origin of the span *)
  pose proof (build_output_origin _ _ _ _ _ B) as F. rewrite Forall_forall in F.
  intros it Hi He. destruct (F it Hi) as (vs1 & v & vs2 & c & p & c2 & b & pos & _ & _ & _ & P).
  destruct v as [i|is_label d0 value|enc|k|a|a|]; cbn [produced] in P; try contradiction.
  - destruct is_label; [|contradiction]. destruct P as (mp & _ & _ & _ & ->). reflexivity.
  - destruct P as (addr & o & _ & _ & _ & _ & ->). cbn in He. discriminate.
Qed.

(* hence the digits a listing row shows for such a span are the digits of exactly that item's encoding *)
Theorem pipeline_row_digits indexed defs ps budget r base g : assemble2 indexed defs ps budget = Ok r ->
  listing_params_ok base g = true ->
  forall it o enc, In it (r_items r) -> Output.it_off it = Some o -> Output.it_enc it = Some enc ->
    let k := bits_per_digit base in
    bits_of_vals (N.to_nat k) (span_digits overshoot_fixed (r_bits r) o (Output.it_size it) k) = pad (N.to_nat k) enc.
Proof.
  intros H Hp it o enc Hi Ho He k.
  destruct (pipeline_one_item _ _ _ _ _ H) as (A & _ & _). destruct (A it o enc Hi Ho He) as (_ & Hb).
  destruct (digits_roundtrip base g (r_bits r) o (Output.it_size it) Hp) as (_ & _ & _ & _ & D & _).
  fold k in D. rewrite D, Hb. reflexivity.
Qed.

(* ------------------------------------------------------------------ non-vacuity *)
(* #bankdef b { bits = 12, addr = 0x100, outp = 8 } / #d12 1, 2 / x: / #d12 3 *)
Definition ex_pipe : list pnode :=
  [ PBankdef [98%N] (mkFields (Some (ENum 12 None)) None (Some (ENum 256 None)) None None (Some (ENum 8 None)) false);
    PData (Some 12%N) [ENum 1 None; ENum 2 None];
    PLabel 0 [120%N];
    PData (Some 12%N) [ENum 3 None] ].

Lemma pipeline_nonvacuous :
  exists r, assemble2 true [] ex_pipe 3 = Ok r
    /\ map (fun it => (Output.it_off it, Output.it_size it, Output.it_addr it)) (r_items r)
       = [(Some 8%N, 12%N, 256); (Some 20%N, 12%N, 257); (Some 32%N, 0%N, 258); (Some 32%N, 12%N, 258)]
    /\ addresses_ok (bankws (r_banks r)) (map lspan_of_item (r_items r)) = true
    /\ addresses_ok (bankws (r_banks r)) [mk_lspan (Some 20%N) 12 259 0 None] = false.
Proof.
  eexists. split; [vm_compute; reflexivity|]. split; [vm_compute; reflexivity|].
  split; vm_compute; reflexivity.
Qed.
