(* C05 — final statements of the evaluator / literal / error / arithmetic / string families, each proved here from
   the lemmas of Proofs/EvalSemP.v, ParseWfP.v, LiteralP.v, StringsP.v.  Props/C05.v restates them with `exact`. *)
From Coq Require Import ZArith NArith List Bool Lia.
From CA Require Import Model.Lexer Model.Parser Model.Literal Model.BigIntOps Model.Evaluator
  Spec.Sem Spec.SemEval Spec.EvalWf Spec.LiteralSpec Spec.StrCodec
  Proofs.BitOpsP Proofs.EvalSemP Proofs.ParseWfP Proofs.LiteralP Proofs.StringsP.
Import ListNotations.
Open Scope Z_scope.

(* ================================================================ (1) evaluator = mathematics *)
(* the evaluator running the code's bit loops / byte algorithms computes exactly what the evaluator running the
   closed mathematical forms (Spec/Sem.v) computes, for every well-formed expression, environment and provider *)
Theorem C05_eval_sem : forall pvar e ctx, wf_pvar pvar -> wf_expr e -> wf_ctx ctx ->
  eval code_ops pvar e ctx = eval math_ops pvar e ctx.
Proof. exact eval_sem. Qed.

(* the invariant behind it: every value the evaluator returns (and every local it binds) is well formed *)
Theorem C05_eval_wf : forall pvar e ctx v ctx', wf_pvar pvar -> wf_expr e -> wf_ctx ctx ->
  eval math_ops pvar e ctx = EOk (v, ctx') -> wf_value v /\ wf_ctx ctx'.
Proof. exact eval_wf. Qed.

(* every tree the parser produces from a text of scalar values is well formed (sized literals fit their size) *)
Theorem C05_parse_wf : forall t e w, scalar_text t -> parse_text t = POk e w -> wf_expr e.
Proof. exact ParseWfP.parse_wf. Qed.

(* the integer a string denotes (unsigned big-endian import of its encoding) fits its size 8 x #bytes *)
Theorem C05_str_wf : forall s enc, scalar_text s -> wf (str_bigint s enc).
Proof. exact wf_str_bigint. Qed.

(* end to end: parse-and-evaluate a source text *)
Theorem C05_run_sem : forall t, scalar_text t -> run code_ops t = run math_ops t.
Proof.
  intros t Ht. unfold run. destruct (parse_text t) as [e w| |] eqn:E; try reflexivity.
  rewrite (eval_sem dummy_var e []); [reflexivity| |exact (ParseWfP.parse_wf t e w Ht E)|constructor].
  intros l p v H. discriminate H.
Qed.

(* ================================================================ strict binary operators are int_binop *)
Definition strict_op (o : binop) : bool := match o with Assign | LazyAnd | LazyOr => false | _ => true end.

Section AnyOps.
Variable O : ops.
Variable pvar : N -> list text -> eres value.

Lemma eval_bin_int o a b ctx va c1 vb c2 x y : strict_op o = true ->
  eval O pvar a ctx = EOk (va, c1) -> eval O pvar b c1 = EOk (vb, c2) ->
  get_bigint va = Some x -> get_bigint vb = Some y ->
  eval O pvar (EBin o a b) ctx = match int_binop O o x y with EOk v => EOk (v, c2) | EErr => EErr end.
Proof.
  intros Ho Ha Hb Hx Hy.
  destruct o; try discriminate Ho; cbn [eval]; rewrite Ha;
    (destruct va; try discriminate Hx); cbn [should_propagate]; rewrite Hb;
    (destruct vb; try discriminate Hy); cbn [should_propagate]; rewrite Hx, Hy; reflexivity.
Qed.

(* ================================================================ (3) errors, never a made-up value *)
Theorem C05_errors :
  (* division / modulo by zero *)
  (forall o a b ctx va c1 vb c2 x y, o = Div \/ o = Mod ->
     eval O pvar a ctx = EOk (va, c1) -> eval O pvar b c1 = EOk (vb, c2) ->
     get_bigint va = Some x -> get_bigint vb = Some y -> bv y = 0 ->
     eval O pvar (EBin o a b) ctx = EErr) /\
  (* concatenation with an unsized operand *)
  (forall a b ctx va c1 vb c2 x y,
     eval O pvar a ctx = EOk (va, c1) -> eval O pvar b c1 = EOk (vb, c2) ->
     get_bigint va = Some x -> get_bigint vb = Some y -> bsz x = None \/ bsz y = None ->
     eval O pvar (EBin Concat a b) ctx = EErr) /\
  (* inverted slice bounds: x[l:r] names the bits r..l, i.e. left = l+1 (exclusive) and right = r; left < right is an error *)
  (forall l r a ctx v c0 x lb c1 rb c2,
     eval O pvar a ctx = EOk (v, c0) -> get_bigint v = Some x ->
     eval O pvar l c0 = EOk (VInt lb, c1) -> eval O pvar r c1 = EOk (VInt rb, c2) ->
     bv lb + 1 < bv rb ->
     eval O pvar (ESlice l r a) ctx = EErr) /\
  (* non-boolean condition of ?: *)
  (forall c t f ctx v c1,
     eval O pvar c ctx = EOk (v, c1) -> should_propagate v = false -> (forall b, v <> VBool b) ->
     eval O pvar (ETern c t f) ctx = EErr) /\
  (* non-boolean left operand of && / || *)
  (forall o a b ctx v c1, o = LazyAnd \/ o = LazyOr ->
     eval O pvar a ctx = EOk (v, c1) -> should_propagate v = false -> (forall x, v <> VBool x) ->
     eval O pvar (EBin o a b) ctx = EErr) /\
  (* non-boolean right operand of && / || (when the left operand does not decide) *)
  (forall o a b ctx x c1 v c2, (o = LazyAnd /\ x = true) \/ (o = LazyOr /\ x = false) ->
     eval O pvar a ctx = EOk (VBool x, c1) ->
     eval O pvar b c1 = EOk (v, c2) -> should_propagate v = false -> (forall y, v <> VBool y) ->
     eval O pvar (EBin o a b) ctx = EErr) /\
  (* arithmetic on booleans, negation of a boolean, `!`/`-` of a string: wrong operand types *)
  (forall o a b ctx x c1 y c2, strict_op o = true ->
     eval O pvar a ctx = EOk (VBool x, c1) -> eval O pvar b c1 = EOk (VBool y, c2) ->
     match o with And | Or | Xor | Eq | Ne => False | _ => True end ->
     eval O pvar (EBin o a b) ctx = EErr).
Proof.
  repeat split.
  - intros o a b ctx va c1 vb c2 x y Ho Ha Hb Hx Hy H0.
    rewrite (eval_bin_int o a b ctx va c1 vb c2 x y) by (try assumption; destruct Ho; subst; reflexivity).
    destruct Ho; subst; cbn [int_binop]; unfold checked_div, checked_mod; rewrite H0; reflexivity.
  - intros a b ctx va c1 vb c2 x y Ha Hb Hx Hy Hs.
    rewrite (eval_bin_int Concat a b ctx va c1 vb c2 x y) by (try assumption; reflexivity).
    cbn [int_binop]. destruct Hs as [-> | Hs]; [reflexivity|]. rewrite Hs. destruct (bsz x); reflexivity.
  - intros l r a ctx v c0 x lb c1 rb c2 Ha Hx Hl Hr Hlt.
    cbn [eval]. rewrite Ha. destruct (should_propagate v) eqn:Ep.
    { destruct v; discriminate. }
    rewrite Hx, Hl. cbn [should_propagate]. rewrite Hr. cbn [should_propagate expect_usize].
    destruct ((bv lb <? 0) || (bv lb >? usize_max)); [reflexivity|].
    destruct ((bv rb <? 0) || (bv rb >? usize_max)); [reflexivity|].
    destruct (bv lb + 1 >? usize_max); [reflexivity|].
    unfold checked_slice. destruct (Z.ltb_spec (bv lb + 1) (bv rb)); [reflexivity|lia].
  - intros c t f ctx v c1 Hc Hp Hnb. cbn [eval]. rewrite Hc, Hp.
    destruct v; try reflexivity. exfalso. exact (Hnb b eq_refl).
  - intros o a b ctx v c1 Ho Ha Hp Hnb. destruct Ho; subst; cbn [eval]; rewrite Ha, Hp;
      (destruct v; try reflexivity; exfalso; exact (Hnb b0 eq_refl)).
  - intros o a b ctx x c1 v c2 Ho Ha Hb Hp Hnb.
    destruct Ho as [[-> ->] | [-> ->]]; cbn [eval]; rewrite Ha; cbn [should_propagate eqb]; rewrite Hb, Hp;
      (destruct v; try reflexivity; exfalso; exact (Hnb b0 eq_refl)).
  - intros o a b ctx x c1 y c2 Ho Ha Hb Hm.
    destruct o; try discriminate Ho; try contradiction; cbn [eval]; rewrite Ha; cbn [should_propagate]; rewrite Hb; reflexivity.
Qed.
End AnyOps.

(* ================================================================ (4) the arithmetic of int_binop *)
(* `/` is truncation toward zero *)
Theorem C05_div_trunc : forall O a b, bv b <> 0 ->
  let q := Z.quot (bv a) (bv b) in
  int_binop O Div a b = EOk (VInt (un q)) /\
  q = Z.sgn (bv a) * Z.sgn (bv b) * (Z.abs (bv a) / Z.abs (bv b)) /\          (* magnitude floor(|a|/|b|), sign rule *)
  Z.abs (q * bv b) <= Z.abs (bv a) < Z.abs (q * bv b) + Z.abs (bv b).          (* rounds toward zero, by less than one *)
Proof.
  intros O a b Hb q. split; [|split].
  - cbn [int_binop]. unfold checked_div. destruct (Z.eqb_spec (bv b) 0); [contradiction|reflexivity].
  - apply Z.quot_div. exact Hb.
  - rewrite Z.abs_mul. assert (Hq : Z.abs q = Z.abs (bv a) / Z.abs (bv b)).
    { unfold q. rewrite <- Z.quot_abs by exact Hb. apply Z.quot_div_nonneg; lia. }
    rewrite Hq. assert (Hp : 0 < Z.abs (bv b)) by lia.
    pose proof (Z.mul_div_le (Z.abs (bv a)) (Z.abs (bv b)) Hp).
    pose proof (Z.mul_succ_div_gt (Z.abs (bv a)) (Z.abs (bv b)) Hp). lia.
Qed.

(* `%` is the remainder of that division: sign of the dividend *)
Theorem C05_mod_sign : forall O a b, bv b <> 0 ->
  let r := Z.rem (bv a) (bv b) in
  int_binop O Mod a b = EOk (VInt (un r)) /\
  bv a = bv b * Z.quot (bv a) (bv b) + r /\
  Z.abs r < Z.abs (bv b) /\
  (r = 0 \/ Z.sgn r = Z.sgn (bv a)).
Proof.
  intros O a b Hb r. repeat split.
  - cbn [int_binop]. unfold checked_mod. destruct (Z.eqb_spec (bv b) 0); [contradiction|reflexivity].
  - apply Z.quot_rem'.
  - apply Z.rem_bound_abs. exact Hb.
  - destruct (Z.eq_dec r 0); [left; assumption|right; apply Z.rem_sign_nz; assumption].
Qed.

(* `<<` multiplies by 2^n, `>>` is floor division by 2^n (arithmetic shift of the two's-complement representation);
   a negative shift amount is an error *)
Theorem C05_shifts : forall O a b,
  (forall v, int_binop O Shl a b = EOk v -> 0 <= bv b /\ v = VInt (un (bv a * 2 ^ bv b))) /\
  (forall v, int_binop O Shr a b = EOk v -> 0 <= bv b /\ v = VInt (un (bv a / 2 ^ bv b)) /\
             forall i, 0 <= i -> Z.testbit (bv a / 2 ^ bv b) i = Z.testbit (bv a) (i + bv b)) /\
  (bv b < 0 -> int_binop O Shl a b = EErr /\ int_binop O Shr a b = EErr) /\
  (0 <= bv b <= u32_max -> bits (bv a) + bv b < BIGINT_MAX_BITS -> int_binop O Shl a b = EOk (VInt (un (bv a * 2 ^ bv b)))) /\
  (0 <= bv b <= usize_max -> int_binop O Shr a b = EOk (VInt (un (bv a / 2 ^ bv b)))).
Proof.
  intros O a b. cbn [int_binop]. unfold checked_shl, checked_shr. repeat split.
  - destruct (Z.ltb_spec (bv b) 0); [discriminate|lia].
  - destruct (Z.ltb_spec (bv b) 0); [discriminate|]. cbn [orb] in H.
    destruct (bv b >? u32_max); [discriminate|]. destruct (_ >=? _); [discriminate|].
    inversion H. rewrite Z.shiftl_mul_pow2 by assumption. reflexivity.
  - destruct (Z.ltb_spec (bv b) 0); [discriminate|lia].
  - destruct (Z.ltb_spec (bv b) 0); [discriminate|]. cbn [orb] in H.
    destruct (bv b >? usize_max); [discriminate|].
    inversion H. rewrite Z.shiftr_div_pow2 by assumption. reflexivity.
  - destruct (Z.ltb_spec (bv b) 0); [discriminate|]. intros i Hi.
    rewrite <- Z.shiftr_div_pow2 by assumption. apply Z.shiftr_spec. exact Hi.
  - destruct (Z.ltb_spec (bv b) 0); [reflexivity|lia].
  - destruct (Z.ltb_spec (bv b) 0); [reflexivity|lia].
  - intros [H0 H1] H2. destruct (Z.ltb_spec (bv b) 0); [lia|]. cbn [orb].
    destruct (Z.gtb_spec (bv b) u32_max); [lia|]. destruct (Z.geb_spec (bits (bv a) + bv b) BIGINT_MAX_BITS); [lia|].
    rewrite Z.shiftl_mul_pow2 by assumption. reflexivity.
  - intros [H0 H1]. destruct (Z.ltb_spec (bv b) 0); [lia|]. cbn [orb].
    destruct (Z.gtb_spec (bv b) usize_max); [lia|]. rewrite Z.shiftr_div_pow2 by assumption. reflexivity.
Qed.

(* `& | ^` act bit by bit on the infinite two's-complement representation; unary `!` is the complement *)
Theorem C05_bitwise : forall O a b,
  (exists r, int_binop O And a b = EOk (VInt (un r)) /\ forall i, Z.testbit r i = Z.testbit (bv a) i && Z.testbit (bv b) i) /\
  (exists r, int_binop O Or a b = EOk (VInt (un r)) /\ forall i, Z.testbit r i = Z.testbit (bv a) i || Z.testbit (bv b) i) /\
  (exists r, int_binop O Xor a b = EOk (VInt (un r)) /\ forall i, Z.testbit r i = xorb (Z.testbit (bv a) i) (Z.testbit (bv b) i)) /\
  (forall i, 0 <= i -> Z.testbit (not_bytes (bv a)) i = negb (Z.testbit (bv a) i)).
Proof.
  intros O a b. repeat split.
  - eexists. split; [reflexivity|]. intro i. apply Z.land_spec.
  - eexists. split; [reflexivity|]. intro i. apply Z.lor_spec.
  - eexists. split; [reflexivity|]. intro i. apply Z.lxor_spec.
  - intros i Hi. rewrite not_bytes_spec. unfold sem_not.
    replace (- bv a - 1) with (Z.lnot (bv a)) by (unfold Z.lnot; lia). apply Z.lnot_spec. exact Hi.
Qed.

(* + - * are exact (when within the supported range), comparisons are the mathematical ones *)
Theorem C05_arith : forall O a b,
  (forall v, int_binop O Add a b = EOk v -> v = VInt (un (bv a + bv b))) /\
  (forall v, int_binop O Sub a b = EOk v -> v = VInt (un (bv a - bv b))) /\
  (forall v, int_binop O Mul a b = EOk v -> v = VInt (un (bv a * bv b))) /\
  int_binop O Eq a b = EOk (VBool (bv a =? bv b)) /\ int_binop O Ne a b = EOk (VBool (negb (bv a =? bv b))) /\
  int_binop O Lt a b = EOk (VBool (bv a <? bv b)) /\ int_binop O Le a b = EOk (VBool (bv a <=? bv b)) /\
  int_binop O Gt a b = EOk (VBool (bv b <? bv a)) /\ int_binop O Ge a b = EOk (VBool (bv b <=? bv a)).
Proof.
  intros O a b. cbn [int_binop]. unfold checked_add, checked_sub, checked_mul. repeat split.
  - intros v H. destruct (_ >=? _); [discriminate|]. inversion H. reflexivity.
  - intros v H. destruct (_ >=? _); [discriminate|]. inversion H. reflexivity.
  - intros v H. destruct (_ >=? _); [discriminate|]. inversion H. reflexivity.
  - rewrite Z.gtb_ltb. reflexivity.
  - rewrite Z.geb_leb. reflexivity.
Qed.

(* slices and concatenations at the level of the evaluator's primitives on well-formed operands:
   the early return of BigInt::slice is not a special case *)
Theorem C05_slice_concat_value : forall x left right, wf x ->
  slice x left right = mk ((bv x / 2 ^ Z.of_N right) mod 2 ^ Z.of_N (left - right)) (Some (left - right)%N) /\
  forall y sx sy, concat x sx y sy = mk ((bv x mod 2 ^ Z.of_N sx) * 2 ^ Z.of_N sy + bv y mod 2 ^ Z.of_N sy) (Some (sx + sy)%N).
Proof.
  intros x left right Hwf. split; [|intros; rewrite concat_spec; reflexivity].
  rewrite slice_spec. unfold sem_slice. fold (sem_slice_bits (bv x) left right).
  destruct (bsz x) as [size|] eqn:Es; [|reflexivity].
  destruct ((0 <=? bv x) && (left =? size)%N && (right =? 0)%N) eqn:E; [|reflexivity].
  apply andb_prop in E. destruct E as [E E3]. apply andb_prop in E. destruct E as [E1 E2].
  apply Z.leb_le in E1. apply N.eqb_eq in E2. apply N.eqb_eq in E3. subst left right.
  unfold wf in Hwf. rewrite Es in Hwf. specialize (Hwf E1).
  unfold sem_slice_bits. rewrite N.sub_0_r. change (Z.of_N 0) with 0. rewrite Z.pow_0_r, Z.div_1_r.
  rewrite Z.mod_small by lia. destruct x as [v s]. cbn [bv bsz] in *. subst s. reflexivity.
Qed.

(* ================================================================ (2) literals *)
Theorem C05_literal :
  (* the five radix prefixes and plain decimal *)
  (forall body, number_literal (48 :: 98 :: body)%N = literal_spec 2 body) /\      (* 0b *)
  (forall body, number_literal (48 :: 111 :: body)%N = literal_spec 8 body) /\     (* 0o *)
  (forall body, number_literal (48 :: 120 :: body)%N = literal_spec 16 body) /\    (* 0x *)
  (forall body, number_literal (37 :: body)%N = literal_spec 2 body) /\            (* %  *)
  (forall body, number_literal (36 :: body)%N = literal_spec 16 body) /\           (* $  *)
  (forall t, has_prefix t = false -> number_literal t = literal_spec 10 t) /\
  (* acceptance: value = Σ dᵢ·rⁱ over the digits without `_`, size = #digits × bits per digit (none for decimal) *)
  (forall radix body v sz, literal_spec radix body = Some (v, sz) ->
     exists ds, digit_list body = Some ds /\ ds <> [] /\ Forall (fun d => (d < radix)%N) ds /\
                v = value_of_digits radix ds /\
                sz = match bits_per_digit radix with Some k => Some (k * N.of_nat (length ds))%N | None => None end) /\
  (* rejection: exactly when a character is no digit, there is no digit, or a digit is not below the radix *)
  (forall radix body, literal_spec radix body = None <->
     match digit_list body with Some ds => ds = [] \/ Exists (fun d => (radix <= d)%N) ds | None => True end) /\
  (* a sized literal fits its size *)
  (forall t v s, number_literal t = Some (v, Some s) -> Z.of_N v < 2 ^ Z.of_N s).
Proof.
  destruct literal_prefixes as [H1 [H2 [H3 [H4 [H5 H6]]]]].
  repeat (split; [assumption|]).
  split; [exact literal_spec_accept|]. split; [exact literal_spec_reject|exact LiteralP.number_literal_bound].
Qed.

(* ================================================================ (5) strings *)
Theorem C05_strings :
  (* the string-literal reader inverts the escape printer *)
  (forall s, scalar_text s -> string_contents (34 :: escape s ++ [34])%N = Some s) /\
  (* strlen is the UTF-8 byte length *)
  (forall O s e, eval_builtin O s_strlen [VStr s e] = EOk (VInt (un (Z.of_N (bytes_len s))))) /\
  (forall s, Z.of_nat (length (utf8_bytes s)) = Z.of_N (bytes_len s)) /\
  (* every encoding is decoded back by the standard's own strict decoder *)
  (forall enc s, (enc <= 4)%N -> scalar_text s -> decode enc (encode enc s) = Some s) /\
  (* `ascii`: code points >= 256 become 0, the others themselves *)
  (forall enc s, (4 < enc)%N -> encode enc s = map (fun c => if (256 <=? c)%N then 0 else Z.of_N c) s) /\
  (* every produced byte is a byte *)
  (forall enc s, scalar_text s -> Forall (fun b => 0 <= b < 256) (encode enc s)).
Proof.
  destruct strings_all as [H1 [H2 [H3 [H4 H5]]]].
  split; [exact H1|]. split; [exact strlen_builtin|]. split; [exact H2|]. split; [exact H3|]. split; [exact H4|exact H5].
Qed.

(* the encoder builtins only relabel the string; its integer value is the big-endian import of the encoding *)
Theorem C05_string_value : forall s enc,
  bv (str_bigint s enc) = from_bytes_be (encode enc s) /\
  bsz (str_bigint s enc) = Some (N.of_nat (8 * length (encode enc s))).
Proof. intros; split; reflexivity. Qed.

(* ================================================================ non-vacuity *)
Example C05More_nonvacuous :
  (* eval_sem: a tree exercising slice, concat, not, le evaluates alike (and to a value) under both instantiations *)
  (let t := [108;101;40;48;120;49;50;51;52;41;32;64;32;40;33;53;41;91;55;58;48;93]%N in   (* le(0x1234) @ (!5)[7:0] *)
   scalar_text t /\
   match parse_text t with POk e _ => wf_expr e | _ => False end /\
   match run code_ops t with POk (_, r) _ => r = EOk (VInt (mk 0x3412fa (Some 24%N))) | _ => False end /\
   match run math_ops t with POk (_, r) _ => r = EOk (VInt (mk 0x3412fa (Some 24%N))) | _ => False end) /\
  (* errors *)
  eval code_ops dummy_var (EBin Div (ENum 1 None) (ENum 0 None)) [] = EErr /\
  eval code_ops dummy_var (EBin Concat (ENum 1 None) (ENum 0 (Some 1%N))) [] = EErr /\
  eval code_ops dummy_var (ESlice (ENum 1 None) (ENum 3 None) (ENum 5 None)) [] = EErr /\
  eval code_ops dummy_var (ETern (ENum 1 None) (ENum 3 None) (ENum 5 None)) [] = EErr /\
  eval code_ops dummy_var (EBin LazyAnd (EBool true) (ENum 5 None)) [] = EErr /\
  (* arithmetic *)
  int_binop code_ops Div (un (-7)) (un 2) = EOk (VInt (un (-3))) /\ int_binop code_ops Mod (un (-7)) (un 2) = EOk (VInt (un (-1))) /\
  int_binop code_ops Shr (un (-7)) (un 1) = EOk (VInt (un (-4))) /\ int_binop code_ops Shl (un (-7)) (un 2) = EOk (VInt (un (-28))) /\
  int_binop code_ops And (un (-2)) (un 7) = EOk (VInt (un 6)) /\
  (* literals *)
  number_literal [48;120;102;95;70]%N = Some (255%N, Some 8%N) /\ number_literal [48;98;50]%N = None /\
  (* strings *)
  string_contents (34 :: escape [34;233;0x1F600] ++ [34])%N = Some [34;233;0x1F600]%N /\
  decode 1 (encode 1 [0x1F600]%N) = Some [0x1F600]%N /\ encode 5 [65;233;0x20AC]%N = [65;233;0].
Proof.
  split; [cbv zeta; split; [repeat constructor|vm_compute; repeat split; reflexivity]|].
  vm_compute. repeat split; reflexivity.
Qed.
