(* C01, step 5: the language definition reconstructs every certified state of a size-static program with acyclic
   constants.  Static layout reproduces the labels and the reserve/align/address values; the constant sweeps reach
   the constants (rank induction); the guessing pass from there computes exactly the certified encodings. *)
From Coq Require Import NArith ZArith List Bool Lia.
From CA Require Import Model.Lexer Model.Parser Model.Literal Model.BigIntOps Model.Evaluator Model.Matcher Model.Resolver
  Spec.Denote Proofs.EvalSemP Proofs.EvalMonoP Proofs.ResolverFixP Proofs.ResolverMonoP Proofs.ResolverTopP
  Proofs.CertifiedP Proofs.DenoteP Proofs.StaticSizeP Proofs.CertUniqueP.
Import ListNotations.
Open Scope Z_scope.

Ltac ids_tac :=
  intro; unfold label_ids, const_ids, sym_ids, instr_ids, data_ids, res_ids, align_ids, addr_ids;
  rewrite flat_map_app; cbn [flat_map]; rewrite !in_app_iff; cbn [In app]; intuition (subst; auto).

Section Complete.
Variable names : list text.
Variable defs : list ruledef.
Variable ns : list node.
Variables st0 st : state.
Hypothesis HX : cert_ctx names defs ns st0 st.
Hypothesis Hsym0 : forall i v, nth_error (s_sym st0) i = Some v -> v = VUnknown.
Let HF := cx_frame _ _ _ _ _ HX.

Lemma in_mid (n : node) l1 l2 : ns = l1 ++ n :: l2 -> In n ns.
Proof. intros ->. apply in_or_app. right. now left. Qed.

Lemma nth_target {A} (l : list A) k d x : nth k l d = x -> forall y, nth_error l k = Some y -> y = x.
Proof. intros H y Hy. rewrite (nth_error_nth' _ _ d _ Hy) in H. exact H. Qed.

(* ---------- stage 1: the static layout ---------- *)
Record linv (ns1 : list node) (cur : state) : Prop := {
  li_instr : s_instr cur = s_instr st0;
  li_data : s_data cur = s_data st0;
  li_sym : upd_rel (label_ids ns1) (s_sym cur) (s_sym st0) (s_sym st);
  li_res : upd_rel (res_ids ns1) (s_res cur) (s_res st0) (s_res st);
  li_align : upd_rel (align_ids ns1) (s_align cur) (s_align st0) (s_align st);
  li_addr : upd_rel (addr_ids ns1) (s_addr cur) (s_addr st0) (s_addr st) }.

Lemma linv_init : linv [] st0.
Proof.
  constructor; try reflexivity; apply upd_rel_init.
  - exact (proj1 (f_sym _ _ _ HF)). - exact (proj1 (f_res _ _ _ HF)).
  - exact (proj1 (f_align _ _ _ HF)). - exact (proj1 (f_addr _ _ _ HF)).
Qed.

Lemma sz_agree_linv ns1 cur : linv ns1 cur -> sz_agree ns st cur.
Proof.
  intros [Hi Hdt _ _ _ _]. apply (sz_agree_either names defs ns st0 st HX).
  - intro i. right. now rewrite Hi. - intro i. right. now rewrite Hdt.
Qed.

Lemma layout_ok : forall ns2 ns1 cur, ns = ns1 ++ ns2 -> linv ns1 cur ->
  exists st1, layout ns2 cur (cursor ns1 st 0) = Some st1 /\ linv ns st1.
Proof.
  induction ns2 as [|n ns2 IH]; intros ns1 cur E I.
  - rewrite app_nil_r in E. subst ns1. exists cur. split; [reflexivity|exact I].
  - assert (E' : ns = (ns1 ++ [n]) ++ ns2) by (rewrite <- app_assoc; exact E).
    pose proof (in_mid _ _ _ E) as Hin.
    pose proof (sz_agree_linv _ _ I) as Hsz.
    destruct I as [Ii Idt Is Ir Ial Iad].
    assert (Step : forall cur', linv (ns1 ++ [n]) cur' -> forall pos', pos' = advance st n (cursor ns1 st 0) ->
              exists st1, layout ns2 cur' pos' = Some st1 /\ linv ns st1).
    { intros cur' I' pos' ->. rewrite <- cursor_snoc. apply IH; assumption. }
    destruct n as [s|s e|i src|w el|k e|k e|k e]; cbn [layout].
    + destruct (label_at names defs ns st0 st HX _ _ _ E) as [Hal Hv].
      rewrite Hal. cbn [Z.eqb negb]. apply Step; [|reflexivity].
      constructor; cbn [s_sym s_instr s_data s_res s_align s_addr]; try assumption.
      * eapply upd_rel_write; [exact Is|ids_tac|]. eapply nth_target; exact Hv.
      * eapply upd_rel_same; [exact Ir|ids_tac]. * eapply upd_rel_same; [exact Ial|ids_tac]. * eapply upd_rel_same; [exact Iad|ids_tac].
    + apply Step; [|reflexivity].
      constructor; try assumption.
      * eapply upd_rel_same; [exact Is|ids_tac]. * eapply upd_rel_same; [exact Ir|ids_tac].
      * eapply upd_rel_same; [exact Ial|ids_tac]. * eapply upd_rel_same; [exact Iad|ids_tac].
    + apply Step.
      * constructor; try assumption.
        -- eapply upd_rel_same; [exact Is|ids_tac]. -- eapply upd_rel_same; [exact Ir|ids_tac].
        -- eapply upd_rel_same; [exact Ial|ids_tac]. -- eapply upd_rel_same; [exact Iad|ids_tac].
      * rewrite <- (advance_agree ns st cur _ _ Hin Hsz); try (intros; discriminate). reflexivity.
    + apply Step.
      * constructor; try assumption.
        -- eapply upd_rel_same; [exact Is|ids_tac]. -- eapply upd_rel_same; [exact Ir|ids_tac].
        -- eapply upd_rel_same; [exact Ial|ids_tac]. -- eapply upd_rel_same; [exact Iad|ids_tac].
      * rewrite <- (advance_agree ns st cur _ _ Hin Hsz); try (intros; discriminate). reflexivity.
    + destruct (res_at names defs ns st0 st HX _ _ _ _ E) as [b [c [Hlit Hv]]]. rewrite Hlit.
      apply Step.
      * constructor; cbn [s_sym s_instr s_data s_res s_align s_addr]; try assumption.
        -- eapply upd_rel_same; [exact Is|ids_tac].
        -- eapply upd_rel_write; [exact Ir|ids_tac|]. eapply nth_target; exact Hv.
        -- eapply upd_rel_same; [exact Ial|ids_tac]. -- eapply upd_rel_same; [exact Iad|ids_tac].
      * cbn [advance]. now rewrite Hv.
    + destruct (align_at names defs ns st0 st HX _ _ _ _ E) as [b [c [Hlit Hv]]]. rewrite Hlit.
      apply Step.
      * constructor; cbn [s_sym s_instr s_data s_res s_align s_addr]; try assumption.
        -- eapply upd_rel_same; [exact Is|ids_tac]. -- eapply upd_rel_same; [exact Ir|ids_tac].
        -- eapply upd_rel_write; [exact Ial|ids_tac|]. eapply nth_target; exact Hv.
        -- eapply upd_rel_same; [exact Iad|ids_tac].
      * cbn [advance]. now rewrite Hv.
    + destruct (addr_at names defs ns st0 st HX _ _ _ _ E) as [b [c [Hlit [Hv Hr]]]]. rewrite Hlit.
      apply Step.
      * constructor; cbn [s_sym s_instr s_data s_res s_align s_addr]; try assumption.
        -- eapply upd_rel_same; [exact Is|ids_tac]. -- eapply upd_rel_same; [exact Ir|ids_tac].
        -- eapply upd_rel_same; [exact Ial|ids_tac].
        -- eapply upd_rel_write; [exact Iad|ids_tac|]. eapply nth_target; exact Hv.
      * cbn [advance]. rewrite Hv. cbv zeta.
        destruct (bv b >=? 0) eqn:G; [|reflexivity].
        destruct (bv b >? usize_max) eqn:G2; [|reflexivity]. rewrite Z.gtb_ltb in G2. apply Z.ltb_lt in G2. lia.
Qed.

(* what the layout leaves behind *)
Lemma linv_final st1 : linv ns st1 ->
  s_instr st1 = s_instr st0 /\ s_data st1 = s_data st0 /\ s_res st1 = s_res st /\ s_align st1 = s_align st /\ s_addr st1 = s_addr st /\
  upd_rel (label_ids ns) (s_sym st1) (s_sym st0) (s_sym st).
Proof.
  intros [Hi Hdt Hs Hr Hal Had]. split; [exact Hi|]. split; [exact Hdt|].
  split; [eapply upd_rel_done; [exact Hr|exact (f_res _ _ _ HF)]|].
  split; [eapply upd_rel_done; [exact Hal|exact (f_align _ _ _ HF)]|].
  split; [eapply upd_rel_done; [exact Had|exact (f_addr _ _ _ HF)]|]. exact Hs.
Qed.

(* ---------- stage 2: the constant sweeps ---------- *)
Variable rank : nat -> nat.
Hypothesis Hrank : forall s e, In (NConst s e) ns ->
  (rank s <= length ns)%nat /\ forall s', reads_sym names e s' -> In s' (const_ids ns) -> (rank s' < rank s)%nat.

Record sinv (cur : state) : Prop := {
  si_instr : s_instr cur = s_instr st0;
  si_data : s_data cur = s_data st0;
  si_res : s_res cur = s_res st;
  si_align : s_align cur = s_align st;
  si_addr : s_addr cur = s_addr st;
  si_len : length (s_sym cur) = length (s_sym st);
  si_weak : forall i, nth_error (s_sym cur) i = nth_error (s_sym st) i \/ nth_error (s_sym cur) i = Some VUnknown }.

Definition good (k : nat) (ns1 : list node) (cur : state) : Prop :=
  forall i, (In i (const_ids ns) -> (rank i < k)%nat \/ (rank i = k /\ In i (const_ids ns1))) ->
    nth_error (s_sym cur) i = nth_error (s_sym st) i.

Lemma sz_agree_sinv cur : sinv cur -> sz_agree ns st cur.
Proof.
  intros I. apply (sz_agree_either names defs ns st0 st HX).
  - intro i. right. now rewrite (si_instr _ I). - intro i. right. now rewrite (si_data _ I).
Qed.

Lemma set_nth_target {A} (l t : list A) s d : length l = length t ->
  nth_error (set_nth l s (nth s t d)) s = nth_error t s.
Proof.
  intro HL. destruct (nth_error l s) as [z|] eqn:El.
  - rewrite (nth_error_set_nth_same _ _ _ _ El). rewrite nth_nth_error.
    destruct (nth_error t s) eqn:Et; [reflexivity|]. apply nth_error_None in Et.
    assert (s < length l)%nat by (apply nth_error_Some; congruence). lia.
  - rewrite nth_error_set_nth_none by exact El. rewrite El. symmetry. eapply nth_error_None_len; eauto.
Qed.

Lemma sinv_set cur s v' : sinv cur -> (v' = nth s (s_sym st) VUnknown \/ v' = VUnknown) ->
  sinv {| s_sym := set_nth (s_sym cur) s v'; s_instr := s_instr cur; s_data := s_data cur;
          s_res := s_res cur; s_align := s_align cur; s_addr := s_addr cur |}.
Proof.
  intros [A B C D E HLn W] Hv. constructor; cbn [s_sym s_instr s_data s_res s_align s_addr]; try assumption.
  - now rewrite set_nth_length.
  - intro i. destruct (Nat.eq_dec i s) as [->|Hne]; [|rewrite nth_error_set_nth_other by exact Hne; apply W].
    destruct (nth_error (s_sym cur) s) as [z|] eqn:El.
    + rewrite (nth_error_set_nth_same _ _ _ _ El). destruct Hv as [->| ->]; [left|now right].
      rewrite nth_nth_error. destruct (nth_error (s_sym st) s) eqn:Et; [reflexivity|]. apply nth_error_None in Et.
      assert (s < length (s_sym cur))%nat by (apply nth_error_Some; congruence). lia.
    + rewrite nth_error_set_nth_none by exact El. apply W.
Qed.

Lemma sweep_ok k : forall ns2 ns1 cur, ns = ns1 ++ ns2 -> sinv cur -> good k ns1 cur ->
  exists cur', const_sweep names ns2 cur (cursor ns1 st 0) = Some cur' /\ sinv cur' /\ good k ns cur'.
Proof.
  induction ns2 as [|n ns2 IH]; intros ns1 cur E I G.
  - rewrite app_nil_r in E. subst ns1. exists cur. auto.
  - assert (E' : ns = (ns1 ++ [n]) ++ ns2) by (rewrite <- app_assoc; exact E).
    pose proof (in_mid _ _ _ E) as Hin.
    pose proof (sz_agree_sinv _ I) as Hsz.
    assert (Step : forall pos', pos' = advance st n (cursor ns1 st 0) ->
              (forall i, In i (const_ids (ns1 ++ [n])) <-> In i (const_ids ns1)) ->
              exists cur', const_sweep names ns2 cur pos' = Some cur' /\ sinv cur' /\ good k ns cur').
    { intros pos' -> Hids. rewrite <- cursor_snoc. apply IH; try assumption.
      intros i Hp. apply G. intro Hc. destruct (Hp Hc) as [L|[L1 L2]]; [now left|right; split; [exact L1|now apply Hids]]. }
    assert (Adv : advance cur n (cursor ns1 st 0) = advance st n (cursor ns1 st 0)).
    { apply (advance_agree ns st cur _ _ Hin Hsz); intros; [now rewrite (si_res _ I)|now rewrite (si_align _ I)|now rewrite (si_addr _ I)]. }
    destruct n as [s|s e|i src|w el|k0 e|k0 e|k0 e]; cbn [const_sweep].
    + apply Step; [reflexivity|ids_tac].
    + (* a constant *)
      set (pos := cursor ns1 st 0).
      destruct (const_at names defs ns st0 st HX _ _ _ _ E) as [v [c [Hev Hv]]]. fold pos in Hev.
      pose proof (eval_mono code_ops _ _ (pvar_mono names st pos) _ _ _ Hev) as Hev'.
      assert (Hcase : eval code_ops (pvar names cur pos true) e [] = EOk (v, c) \/
                      exists c', eval code_ops (pvar names cur pos true) e [] = EOk (VUnknown, c')).
      { destruct (eval_unknown_or_same code_ops (pvar names cur pos true) (pvar names st pos true) e [])
          as [S|S]; [|left; now rewrite S|right; exact S].
        intros l p _. apply pvar_weak. apply (si_weak _ I). }
      assert (Hrk : (rank s <= k)%nat -> eval code_ops (pvar names cur pos true) e [] = EOk (v, c)).
      { intro Hle. rewrite <- Hev'. apply eval_ext. intros l p Hlp. apply pvar_same.
        intros n' s' -> -> Hd' Hf. apply G. intro Hc. left.
        destruct (Hrank s e Hin) as [_ Hlow]. assert ((rank s' < rank s)%nat); [|lia].
        apply Hlow; [|exact Hc]. exists n'. auto. }
      assert (Next : forall v' c', eval code_ops (pvar names cur pos true) e [] = EOk (v', c') ->
                (v' = v \/ v' = VUnknown) -> ((rank s <= k)%nat -> v' = v) ->
                exists cur', const_sweep names ns2
                  {| s_sym := set_nth (s_sym cur) s v'; s_instr := s_instr cur; s_data := s_data cur;
                     s_res := s_res cur; s_align := s_align cur; s_addr := s_addr cur |} pos = Some cur' /\ sinv cur' /\ good k ns cur').
      { intros v' c' _ Hv' Hle.
        replace pos with (cursor (ns1 ++ [NConst s e]) st 0) by (rewrite cursor_snoc; reflexivity).
        apply IH; [exact E'|apply sinv_set; [exact I|rewrite Hv; exact Hv']|].
        intros i Hp. cbn [s_sym]. destruct (Nat.eq_dec i s) as [->|Hne].
        - assert (Hs : In s (const_ids ns)) by (apply in_flat_map; exists (NConst s e); split; [exact Hin|now left]).
          rewrite Hle by (destruct (Hp Hs) as [L|[L _]]; lia). rewrite <- Hv.
          apply set_nth_target. exact (si_len _ I).
        - rewrite nth_error_set_nth_other by exact Hne. apply G. intro Hc.
          destruct (Hp Hc) as [L|[L1 L2]]; [now left|right; split; [exact L1|]].
          revert L2. unfold const_ids. rewrite flat_map_app, in_app_iff. cbn. intros [L2|[L2|[]]]; [exact L2|congruence]. }
      destruct Hcase as [Hc1|[c' Hc1]]; rewrite Hc1.
      * apply (Next v c Hc1); auto.
      * apply (Next VUnknown c' Hc1); [auto|]. intro Hle. rewrite (Hrk Hle) in Hc1. congruence.
    + apply Step; [|ids_tac]. rewrite <- Adv. reflexivity.
    + apply Step; [|ids_tac]. rewrite <- Adv. reflexivity.
    + apply Step; [|ids_tac]. rewrite <- Adv. reflexivity.
    + apply Step; [|ids_tac]. rewrite <- Adv. reflexivity.
    + apply Step; [|ids_tac]. cbn [advance]. cbv zeta.
      destruct (addr_at names defs ns st0 st HX _ _ _ _ E) as [b [c [_ [Hv Hr]]]].
      rewrite (si_addr _ I), Hv.
      destruct (bv b >=? 0); [|reflexivity].
      destruct (bv b >? usize_max) eqn:G2; [|reflexivity]. rewrite Z.gtb_ltb in G2. apply Z.ltb_lt in G2. lia.
Qed.

Lemma sweeps_ok : forall fuel k cur, sinv cur -> good k [] cur ->
  exists cur', const_sweeps fuel names ns cur = Some cur' /\ sinv cur' /\ good (k + fuel) [] cur'.
Proof.
  induction fuel as [|f IH]; intros k cur I G; cbn [const_sweeps].
  - exists cur. rewrite Nat.add_0_r. auto.
  - destruct (sweep_ok k ns [] cur eq_refl I G) as [c1 [H1 [I1 G1]]]. cbn [cursor fold_left] in H1. rewrite H1.
    destruct (IH (S k) c1 I1) as [c2 [H2 [I2 G2]]].
    + intros i Hp. apply G1. intro Hc. destruct (Hp Hc) as [L|[_ []]]. 
      destruct (Nat.eq_dec (rank i) k); [right; auto|left; lia].
    + exists c2. split; [exact H2|]. split; [exact I2|]. replace (k + S f)%nat with (S k + f)%nat by lia. exact G2.
Qed.

Lemma after_layout st1 : linv ns st1 -> sinv st1 /\ good 0 [] st1.
Proof.
  intro L. destruct (linv_final _ L) as [Hi [Hdt [Hr [Hal [Had Hs]]]]]. split.
  - constructor; try assumption; [exact (proj1 Hs)|].
    intro i. destruct (upd_rel_either _ _ _ _ i Hs) as [E|E]; [now left|].
    destruct (nth_error (s_sym st0) i) as [v|] eqn:E0.
    + right. rewrite E. f_equal. eapply Hsym0; eauto.
    + left. rewrite E. symmetry. eapply nth_error_None_len; [|exact E0]. exact (proj1 (f_sym _ _ _ HF)).
  - intros i Hp. destruct Hs as [_ Hs]. destruct (Hs i) as [H1 H2].
    destruct (in_dec Nat.eq_dec i (label_ids ns)) as [Hl|Hl]; [apply H1, Hl|].
    rewrite H2 by exact Hl. apply (proj2 (f_sym _ _ _ HF)). intro Hsym. apply sym_ids_split in Hsym.
    destruct Hsym as [Hsym|Hsym]; [contradiction|]. destruct (Hp Hsym) as [Lt|[_ []]]. lia.
Qed.

Lemma after_sweeps st2 : sinv st2 -> good (S (length ns)) [] st2 -> s_sym st2 = s_sym st.
Proof.
  intros I G. apply nth_error_ext; [exact (si_len _ I)|]. intro i. apply G. intro Hc. left.
  apply in_flat_map in Hc. destruct Hc as [n [Hn Hi]]. destruct n; try contradiction. destruct Hi as [<-|[]].
  destruct (Hrank _ _ Hn) as [Hle _]. lia.
Qed.

(* ---------- stage 3: one guessing pass computes the certified encodings ---------- *)
Record ginv (ns1 : list node) (cur : state) : Prop := {
  gi_sym : s_sym cur = s_sym st;
  gi_res : s_res cur = s_res st;
  gi_align : s_align cur = s_align st;
  gi_addr : s_addr cur = s_addr st;
  gi_instr : upd_rel (instr_ids ns1) (s_instr cur) (s_instr st0) (s_instr st);
  gi_data : upd_rel (data_ids ns1) (s_data cur) (s_data st0) (s_data st) }.

Lemma sz_agree_ginv ns1 cur : ginv ns1 cur -> sz_agree ns st cur.
Proof.
  intros I. apply (sz_agree_either names defs ns st0 st HX).
  - intro i. exact (upd_rel_either _ _ _ _ i (gi_instr _ _ I)).
  - intro i. exact (upd_rel_either _ _ _ _ i (gi_data _ _ I)).
Qed.

Lemma pvar_sym_eq cur pos g l p : s_sym cur = s_sym st -> pvar names cur pos g l p = pvar names st pos g l p.
Proof. intro H. apply pvar_same. intros. now rewrite H. Qed.

Lemma eval_guess cur pos e v c : s_sym cur = s_sym st ->
  eval code_ops (pvar names st pos false) e [] = EOk (v, c) -> eval code_ops (pvar names cur pos true) e [] = EOk (v, c).
Proof.
  intros Hs H. rewrite <- (eval_mono code_ops _ _ (pvar_mono names st pos) _ _ _ H).
  apply eval_ext. intros l p _. apply pvar_sym_eq, Hs.
Qed.

Lemma nth_set_nth_target {A} (l t : list A) s d : length l = length t -> nth s (set_nth l s (nth s t d)) d = nth s t d.
Proof. intro HL. rewrite (nth_nth_error (set_nth _ _ _)), (set_nth_target l t s d HL). now rewrite <- nth_nth_error. Qed.

Lemma data_ids_snoc ns1 w pre d e : forall i,
  In i (data_ids (ns1 ++ [NData w (pre ++ [(d, e)])])) <-> In i (data_ids (ns1 ++ [NData w pre])) \/ i = d.
Proof.
  intro i. unfold data_ids. rewrite !flat_map_app. cbn [flat_map]. rewrite !app_nil_r, map_app, !in_app_iff. cbn [map In fst].
  intuition.
Qed.

Lemma data_guess w : forall el pre ns1 cur pos acc,
  ginv (ns1 ++ [NData w pre]) cur -> data_cert names st w el pos ->
  exists st' r, data_go names false w el cur pos acc =
      EOk (st', r, fold_left (fun p (de : nat * expr) => p + size_of (nth (fst de) (s_data st) dflt)) el pos)
    /\ ginv (ns1 ++ [NData w (pre ++ el)]) st'.
Proof.
  induction el as [|[d e] r IH]; intros pre ns1 cur pos acc I Hc; cbn [data_go].
  - exists cur, acc. rewrite app_nil_r. split; [reflexivity|exact I].
  - cbn [data_cert] in Hc. destruct Hc as [[v [c [b [Ev [Ex [Hb Hn]]]]]] Hr].
    cbv zeta. cbn [negb]. rewrite (eval_guess _ _ _ _ _ (gi_sym _ _ I) Ev). rewrite Ex. cbn beta iota. cbn [negb].
    rewrite <- Hn. cbn [s_data]. change (mk 0 (Some 0%N)) with dflt.
    rewrite (nth_set_nth_target (s_data cur) (s_data st) d dflt (proj1 (gi_data _ _ I))).
    match goal with |- exists st' r0, data_go _ _ _ _ ?c ?p ?a = _ /\ _ =>
      destruct (IH (pre ++ [(d, e)]) ns1 c p a) as [st' [r' [H1 H2]]]; [|exact Hr|] end.
    + destruct I as [A B C D Ei Ed]. constructor; cbn [s_sym s_instr s_data s_res s_align s_addr]; try assumption.
      * eapply upd_rel_same; [exact Ei|]. intro i. unfold instr_ids. rewrite !flat_map_app. cbn [flat_map]. tauto.
      * eapply upd_rel_write; [exact Ed|apply data_ids_snoc|]. eapply nth_target. reflexivity.
    + exists st', r'. split; [exact H1|]. rewrite <- app_assoc in H2. exact H2.
Qed.

Ltac ginv_same I :=
  destruct I as [A B C D Ei Ed]; constructor; cbn [s_sym s_instr s_data s_res s_align s_addr]; try assumption;
  try (eapply upd_rel_same; [eassumption|ids_tac]).

Lemma node_guess ns1 n ns2 cur : ns = ns1 ++ n :: ns2 -> ginv ns1 cur ->
  exists cur' res, resolve_node names defs false n cur (cursor ns1 st 0) = EOk (cur', res, advance st n (cursor ns1 st 0))
    /\ ginv (ns1 ++ [n]) cur'.
Proof.
  intros E I. set (pos := cursor ns1 st 0).
  destruct n as [s|s e|i src|w el|k e|k e|k e]; cbn [resolve_node negb].
  - (* label *)
    destruct (label_at names defs ns st0 st HX _ _ _ E) as [Hal Hv]. fold pos in Hal, Hv.
    unfold address_at. cbn [negb]. rewrite andb_false_r. eexists _, _. split; [reflexivity|].
    ginv_same I. rewrite A. apply set_nth_id. eapply nth_target; exact Hv.
  - (* constant *)
    destruct (const_at names defs ns st0 st HX _ _ _ _ E) as [v [c [Hev Hv]]]. fold pos in Hev.
    rewrite (eval_guess _ _ _ _ _ (gi_sym _ _ I) Hev). cbn [andb]. eexists _, _. split; [reflexivity|].
    ginv_same I. rewrite A. apply set_nth_id. eapply nth_target; exact Hv.
  - (* instruction *)
    destruct (instr_size names defs ns st0 st HX _ _ _ _ E) as [d0 [d [H0 [H1 [Hm [Hsz Hre]]]]]]. fold pos in Hre.
    assert (Hdc : exists dc, nth_error (s_instr cur) i = Some dc /\ i_matches dc = i_matches d).
    { destruct (upd_rel_either _ _ _ _ i (gi_instr _ _ I)) as [Q|Q]; rewrite Q; [exists d|exists d0]; auto. }
    destruct Hdc as [dc [Hdc Hmc]]. rewrite Hdc, Hmc.
    rewrite (resolve_encoding_mono defs (pvar names st pos false) (pvar names cur pos true)) with (b := i_enc d); [|
      intros l p v Hp; rewrite (pvar_sym_eq _ _ _ _ _ (gi_sym _ _ I)); apply (pvar_mono names st pos); exact Hp | exact Hre].
    assert (Hnew : {| i_matches := i_matches d; i_enc := i_enc d |} = d) by (destruct d; reflexivity).
    rewrite Hnew. eexists _, _. split.
    + cbn [advance]. rewrite H1. reflexivity.
    + ginv_same I. eapply upd_rel_write; [exact Ei|ids_tac|]. intros y Hy. congruence.
  - (* data *)
    pose proof (data_at names defs ns st0 st HX _ _ _ _ E) as Hc. fold pos in Hc.
    assert (I0 : ginv (ns1 ++ [NData w []]) cur).
    { destruct I as [A B C D Ei Ed]. constructor; try assumption.
      - eapply upd_rel_same; [exact Ei|]. ids_tac.
      - eapply upd_rel_same; [exact Ed|]. intro j. unfold data_ids. rewrite flat_map_app, in_app_iff. cbn. tauto. }
    destruct (data_guess w el [] ns1 cur pos Resolved I0 Hc) as [st' [r [H1 H2]]].
    exists st', r. split; [exact H1|exact H2].
  - (* reserve *)
    destruct (cert_at names defs ns st0 st HX _ _ _ E) as [p' H]. fold pos in H.
    pose proof (resolve_node_advance _ _ _ _ _ _ H) as Hp. apply resolve_node_agree in H. cbn [resolve_node negb] in H.
    destruct (res_at names defs ns st0 st HX _ _ _ _ E) as [b [c [Hlit Hv]]].
    rewrite (eval_closed _ (pvar names st pos true) _ _ _ [] Hlit) in H. rewrite (eval_closed _ (pvar names cur pos true) _ _ _ [] Hlit). cbn [expect_error_or_bigint coallesce] in H |- *.
    destruct ((bv b <? 0) || (bv b >? u32_max)); [discriminate|].
    injection H as _ _ Hp'. rewrite <- Hp, <- Hp'. eexists _, _. split; [reflexivity|].
    ginv_same I. rewrite B. apply set_nth_id. eapply nth_target. exact Hv.
  - (* align *)
    destruct (cert_at names defs ns st0 st HX _ _ _ E) as [p' H]. fold pos in H.
    pose proof (resolve_node_advance _ _ _ _ _ _ H) as Hp. apply resolve_node_agree in H. cbn [resolve_node negb] in H.
    destruct (align_at names defs ns st0 st HX _ _ _ _ E) as [b [c [Hlit Hv]]].
    rewrite (eval_closed _ (pvar names st pos true) _ _ _ [] Hlit) in H. rewrite (eval_closed _ (pvar names cur pos true) _ _ _ [] Hlit).
    destruct ((bv b <? 0) || (bv b >? usize_max)); [discriminate|].
    rewrite (gi_align _ _ I). rewrite Hv in H |- *. rewrite Z.eqb_refl in H |- *. cbn [negb andb] in H |- *.
    injection H as _ Hp'. rewrite <- Hp, <- Hp'. eexists _, _. split; [reflexivity|].
    ginv_same I. rewrite <- Hv. apply set_nth_id. eapply nth_target. reflexivity.
  - (* address *)
    destruct (cert_at names defs ns st0 st HX _ _ _ E) as [p' H]. fold pos in H.
    pose proof (resolve_node_advance _ _ _ _ _ _ H) as Hp. apply resolve_node_agree in H. cbn [resolve_node negb] in H.
    destruct (addr_at names defs ns st0 st HX _ _ _ _ E) as [b [c [Hlit [Hv Hr]]]].
    rewrite (eval_closed _ (pvar names st pos true) _ _ _ [] Hlit) in H. rewrite (eval_closed _ (pvar names cur pos true) _ _ _ [] Hlit). cbn [expect_error_or_bigint coallesce] in H |- *. cbv zeta in H |- *.
    rewrite (gi_addr _ _ I). rewrite Hv in H |- *. rewrite Z.eqb_refl in H |- *. cbn [negb andb] in H |- *.
    injection H as _ Hp'. rewrite <- Hp, <- Hp'. eexists _, _. split; [reflexivity|].
    ginv_same I. rewrite <- Hv. apply set_nth_id. eapply nth_target. reflexivity.
Qed.

Lemma guess_ok : forall ns2 ns1 cur acc, ns = ns1 ++ ns2 -> ginv ns1 cur ->
  exists st3 r, pass names defs false ns2 cur (cursor ns1 st 0) acc = EOk (st3, r) /\ ginv ns st3.
Proof.
  induction ns2 as [|n ns2 IH]; intros ns1 cur acc E I; cbn [pass].
  - rewrite app_nil_r in E. subst ns1. exists cur, acc. auto.
  - destruct (node_guess _ _ _ _ E I) as [cur' [res [H1 I1]]]. rewrite H1.
    rewrite <- cursor_snoc. apply IH; [rewrite <- app_assoc; exact E|exact I1].
Qed.

Lemma ginv_final st3 : ginv ns st3 -> st3 = st.
Proof.
  intros [A B C D Ei Ed].
  assert (Hi : s_instr st3 = s_instr st) by (eapply upd_rel_done; [exact Ei|exact (f_instr _ _ _ HF)]).
  assert (Hdt : s_data st3 = s_data st) by (eapply upd_rel_done; [exact Ed|exact (f_data _ _ _ HF)]).
  destruct st3, st; cbn in *; congruence.
Qed.

(* the language definition's pipeline, run on the initial state, arrives at the certified state *)
Theorem reconstruct : exists st1 st2 r,
  layout ns st0 0 = Some st1 /\ const_sweeps (S (length ns)) names ns st1 = Some st2 /\
  pass names defs false ns st2 0 Resolved = EOk (st, r).
Proof.
  destruct (layout_ok ns [] st0 eq_refl linv_init) as [st1 [H1 L1]]. cbn [cursor fold_left] in H1.
  destruct (after_layout _ L1) as [I1 G1].
  destruct (sweeps_ok (S (length ns)) 0 st1 I1 G1) as [st2 [H2 [I2 G2]]]. cbn [Nat.add] in G2.
  pose proof (after_sweeps _ I2 G2) as Hsym.
  assert (Ig : ginv [] st2).
  { destruct I2 as [A B C D F _ _]. constructor; try assumption.
    - rewrite A. apply upd_rel_init. exact (proj1 (f_instr _ _ _ HF)).
    - rewrite B. apply upd_rel_init. exact (proj1 (f_data _ _ _ HF)). }
  destruct (guess_ok ns [] st2 Resolved eq_refl Ig) as [st3 [r [H3 I3]]]. cbn [cursor fold_left] in H3.
  rewrite (ginv_final _ I3) in H3. exists st1, st2, r. auto.
Qed.
End Complete.
