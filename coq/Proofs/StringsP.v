(* C05, family "strings": the string-literal unescaper and the string encoders of the evaluator against the
   independent printer / strict decoders of Spec/StrCodec.v, for ALL texts of Unicode scalar values.
     (a) unescape_escape, string_contents_escape : printing then reading a literal gives the text back;
         unescape_scalar, string_contents_scalar : literals of scalar values denote texts of scalar values
     (b) strlen_utf8, strlen_builtin             : `strlen` is the UTF-8 byte length
     (c) decode_encode                           : utf8 / utf16be / utf16le / utf32be / utf32le round-trip through strict decoders
     (d) ascii_spec                              : the "ascii" encoder (and any encoding number above 4)
     (e) encode_bytes_range                      : every encoder yields bytes
     strings_all bundles them; strings_nonvacuous is the non-vacuity example.
   Proofs are by list induction and interval arithmetic per length class (no sweep over code points). *)
From Coq Require Import NArith ZArith List Bool Lia ZifyBool.
From CA Require Import Model.Lexer Model.Parser Model.Literal Model.BigIntOps Model.Evaluator Spec.EvalWf Spec.StrCodec.
Import ListNotations.
Open Scope N_scope.
Ltac Zify.zify_post_hook ::= Z.div_mod_to_equations.

Lemma hex_digit_char : forall d, d < 16 -> hex_digit (hex_char d) = Some d.
Proof.
  intros d H. destruct d as [|p]; [reflexivity|].
  do 4 (destruct p as [p|p|]; try reflexivity); lia.
Qed.

Lemma hex_char_not_brace : forall d, d < 16 -> (hex_char d =? 125) = false.
Proof. intros d H. unfold hex_char. destruct (d <? 10) eqn:E; lia. Qed.


Definition unescape_bs (f : nat) (r : text) : option text :=
      match r with
      | [] => None
      | e :: r2 =>
        let simple (c : N) := match unescape f r2 with Some s => Some (c :: s) | None => None end in
        if e =? 48 then simple 0 else if e =? 116 then simple 9 else if e =? 114 then simple 13
        else if e =? 110 then simple 10 else if e =? 39 then simple 39 else if e =? 34 then simple 34
        else if e =? 92 then simple 92
        else if e =? 120 then
          match r2 with
          | h1 :: h2 :: r3 =>
            match hex_digit h1, hex_digit h2 with
            | Some a, Some b => let byte := (a * 16 + b) mod 256 in
                                if 127 <? byte then None
                                else match unescape f r3 with Some s => Some (byte :: s) | None => None end
            | _, _ => None
            end
          | _ => None
          end
        else if e =? 117 then
          match r2 with
          | [] => None
          | b :: r3 =>
            if b =? 123 then
              match unescape_u r3 7 0 with
              | Some (cp, r4) => match unescape f r4 with Some s => Some (cp :: s) | None => None end
              | None => None
              end
            else None
          end
        else None
      end.

Lemma unescape_cons : forall f c r,
  unescape (S f) (c :: r) =
  if c =? 92 then unescape_bs f r
  else match unescape f r with Some s => Some (c :: s) | None => None end.
Proof.
  intros f c r. destruct (N.eqb_spec c 92) as [->|Hne].
  - destruct r as [|e r2]; [reflexivity|].
    destruct r2 as [|b r3]; [reflexivity|].
    destruct (N.eqb_spec b 123) as [->|Hb].
    + unfold unescape_bs. rewrite N.eqb_refl. reflexivity.
    + unfold unescape_bs. apply N.eqb_neq in Hb as Hb'. rewrite Hb'.
      destruct b as [|p]; [reflexivity|].
      do 7 (destruct p as [p|p|]; try reflexivity). congruence.
  - destruct c as [|p]; [reflexivity|].
    do 7 (destruct p as [p|p|]; try reflexivity). congruence.
Qed.

Lemma unescape_nil : forall f, unescape (S f) [] = Some [].
Proof. reflexivity. Qed.

(* ---- scalar preservation ---- *)
Lemma hex_digit_lt : forall c d, hex_digit c = Some d -> d < 16.
Proof.
  unfold hex_digit, in_range. intros c d.
  repeat match goal with |- context[if ?b then _ else _] => destruct b eqn:? end; intro H; inversion H; lia.
Qed.

Lemma unescape_u_scalar : forall i t cp c r,
  scalar_text t -> unescape_u t i cp = Some (c, r) -> is_scalar c = true /\ scalar_text r.
Proof.
  induction i as [|i IH]; intros t cp c r Ht H; [destruct t; discriminate|].
  destruct t as [|x t]; [discriminate|]. cbn [unescape_u] in H.
  inversion Ht; subst.
  destruct (x =? 125).
  - destruct (is_scalar cp) eqn:E; [|discriminate]. inversion H; subst. auto.
  - destruct (hex_digit x); [|discriminate]. eapply IH; eauto.
Qed.

Lemma unescape_scalar : forall fuel t s, scalar_text t -> unescape fuel t = Some s -> scalar_text s.
Proof.
  induction fuel as [|f IH]; intros t s Ht H; [discriminate|].
  destruct t as [|c r]; [inversion H; constructor|].
  rewrite unescape_cons in H. inversion Ht as [|? ? Hc Hr]; subst.
  assert (Simple : forall k r2 s, scalar_text r2 -> is_scalar k = true ->
            match unescape f r2 with Some s => Some (k :: s) | None => None end = Some s -> scalar_text s).
  { intros k r2 s0 Hr2 Hk H0. destruct (unescape f r2) eqn:E; [|discriminate]. inversion H0; subst.
    constructor; [exact Hk|]. eapply IH; eauto. }
  destruct (c =? 92).
  - unfold unescape_bs in H. destruct r as [|e r2]; [discriminate|].
    inversion Hr as [|? ? He Hr2]; subst. cbv zeta in H.
    repeat match type of H with (if ?b then _ else _) = _ => destruct b; [eapply Simple; [exact Hr2| |exact H]; reflexivity|] end.
    destruct (e =? 120).
    + destruct r2 as [|h1 [|h2 r3]]; try discriminate.
      destruct (hex_digit h1), (hex_digit h2); try discriminate.
      destruct (127 <? (n * 16 + n0) mod 256) eqn:E; [discriminate|].
      inversion Hr2 as [|? ? ? Hr2']; subst. inversion Hr2' as [|? ? ? Hr3]; subst.
      refine (Simple _ r3 s Hr3 _ H). unfold is_scalar. lia.
    + destruct (e =? 117); [|discriminate].
      destruct r2 as [|b r3]; [discriminate|]. destruct (b =? 123); [|discriminate].
      inversion Hr2; subst.
      destruct (unescape_u r3 7 0) as [[cp r4]|] eqn:E; [|discriminate].
      apply unescape_u_scalar in E; [|assumption]. destruct E as [E1 E2].
      exact (Simple cp r4 s E2 E1 H).
  - eapply Simple; eauto.
Qed.

Lemma Forall_removelast : forall (A : Type) (P : A -> Prop) l, Forall P l -> Forall P (removelast l).
Proof.
  induction l as [|a l IH]; intros H; [constructor|].
  inversion H; subst. cbn [removelast]. destruct l; [constructor|]. constructor; auto.
Qed.

Lemma string_contents_scalar : forall raw s, scalar_text raw -> string_contents raw = Some s -> scalar_text s.
Proof.
  unfold string_contents, strip_quotes. intros raw s Hr H.
  eapply unescape_scalar; [|exact H]. apply Forall_removelast.
  destruct raw; [constructor|]. inversion Hr; assumption.
Qed.

(* ---- the printer round-trips ---- *)
Definition hexval (ds : list N) (cp : N) : N := fold_left (fun a d => a * 16 + d) ds cp.

Lemma hexval_ge : forall ds cp, cp <= hexval ds cp.
Proof.
  induction ds as [|a ds IH]; intros cp; unfold hexval; cbn [fold_left]; [lia|].
  specialize (IH (cp * 16 + a)). unfold hexval in IH. lia.
Qed.

Lemma unescape_u_digits : forall ds i cp rest,
  Forall (fun d => d < 16) ds -> hexval ds cp < 4294967296 ->
  unescape_u (map hex_char ds ++ rest) (length ds + i) cp = unescape_u rest i (hexval ds cp).
Proof.
  induction ds as [|a ds IH]; intros i cp rest Hd Hv; [reflexivity|].
  inversion Hd; subst. cbn [map app length plus unescape_u].
  rewrite hex_char_not_brace, hex_digit_char by assumption.
  unfold hexval in Hv |- *. cbn [fold_left] in Hv |- *.
  pose proof (hexval_ge ds (cp * 16 + a)) as Hge. unfold hexval in Hge.
  rewrite N.mod_small by lia. apply IH; assumption.
Qed.

Lemma hex_rev_lt : forall n c, Forall (fun d => d < 16) (hex_rev n c).
Proof.
  induction n as [|n IH]; intros c; cbn [hex_rev]; constructor.
  - apply N.mod_lt. discriminate.
  - destruct (c / 16 =? 0); [constructor|apply IH].
Qed.

Lemma hex_rev_len : forall n c, (length (hex_rev n c) <= n)%nat.
Proof.
  induction n as [|n IH]; intros c; cbn [hex_rev length]; [lia|].
  destruct (c / 16 =? 0); cbn [length]; [lia|]. specialize (IH (c / 16)). lia.
Qed.

Lemma hex_rev_val : forall n c, c < 16 ^ N.of_nat n ->
  fold_right (fun d a => a * 16 + d) 0 (hex_rev n c) = c.
Proof.
  induction n as [|n IH]; intros c H.
  - change (16 ^ N.of_nat 0) with 1 in H. cbn [hex_rev fold_right]. lia.
  - rewrite Nat2N.inj_succ, N.pow_succ_r' in H. cbn [hex_rev fold_right].
    pose proof (N.div_mod c 16 ltac:(discriminate)) as Hdm.
    destruct (N.eqb_spec (c / 16) 0) as [E|E]; cbn [fold_right].
    + lia.
    + rewrite IH; [lia|]. apply N.div_lt_upper_bound; [discriminate|lia].
Qed.

Lemma hexval_rev : forall l, hexval (rev l) 0 = fold_right (fun d a => a * 16 + d) 0 l.
Proof.
  intros l. unfold hexval. rewrite <- (rev_involutive l) at 2.
  rewrite (fold_left_rev_right (fun d a => a * 16 + d)). reflexivity.
Qed.

Lemma is_scalar_le : forall c, is_scalar c = true -> c <= 0x10FFFF.
Proof. unfold is_scalar. intros. lia. Qed.

Lemma unescape_u_hex_digits : forall c rest, is_scalar c = true ->
  unescape_u (hex_digits c ++ 125 :: rest) 7 0 = Some (c, rest).
Proof.
  intros c rest Hc. unfold hex_digits.
  pose proof (hex_rev_len 6 c) as Hlen. pose proof (hex_rev_lt 6 c) as Hlt.
  pose proof (is_scalar_le c Hc) as Hle.
  assert (Hv : hexval (rev (hex_rev 6 c)) 0 = c).
  { rewrite hexval_rev. apply hex_rev_val. change (16 ^ N.of_nat 6) with 16777216. lia. }
  set (ds := rev (hex_rev 6 c)) in *.
  assert (Hl : (length ds <= 6)%nat) by (subst ds; rewrite rev_length; exact Hlen).
  replace 7%nat with (length ds + (7 - length ds))%nat by lia.
  rewrite unescape_u_digits; [|subst ds; apply Forall_rev; exact Hlt|rewrite Hv; lia].
  rewrite Hv. destruct (7 - length ds)%nat eqn:E; [lia|].
  cbn [unescape_u]. rewrite N.eqb_refl, Hc. reflexivity.
Qed.

Lemma unescape_escape_char : forall f c rest, is_scalar c = true ->
  unescape (S f) (escape_char c ++ rest) = match unescape f rest with Some s => Some (c :: s) | None => None end.
Proof.
  intros f c rest Hc. unfold escape_char.
  repeat match goal with |- context[if ?x =? ?k then _ else _] =>
    destruct (N.eqb_spec x k) as [->|?]; [reflexivity|] end.
  destruct ((c <? 32) || (c =? 127)) eqn:E1.
  - cbn [app]. rewrite unescape_cons. change (92 =? 92) with true. cbv beta iota.
    unfold unescape_bs. cbv zeta. change (120 =? 48) with false. 
    cbn [N.eqb Pos.eqb]. cbv beta iota.
    assert (c / 16 < 16 /\ c mod 16 < 16) as [Ha Hb].
    { split; [apply N.div_lt_upper_bound; [discriminate|lia]|apply N.mod_lt; discriminate]. }
    rewrite !hex_digit_char by assumption.
    pose proof (N.div_mod c 16 ltac:(discriminate)) as Hdm.
    replace ((c / 16 * 16 + c mod 16) mod 256) with c by (rewrite N.mod_small; lia).
    replace (127 <? c) with false by lia. reflexivity.
  - destruct (c <? 128) eqn:E2.
    + cbn [app]. rewrite unescape_cons. replace (c =? 92) with false by lia. reflexivity.
    + cbn [app]. rewrite unescape_cons. change (92 =? 92) with true. cbv beta iota.
      unfold unescape_bs. cbv zeta. cbn [N.eqb Pos.eqb]. cbv beta iota.
      rewrite <- app_assoc. cbn [app]. rewrite unescape_u_hex_digits by assumption. reflexivity.
Qed.

Lemma escape_char_len : forall c, (1 <= length (escape_char c))%nat.
Proof.
  intros c. unfold escape_char.
  repeat match goal with |- context[if ?b then _ else _] => destruct b end; cbn [length]; lia.
Qed.

Theorem unescape_escape : forall s, scalar_text s -> forall fuel,
  (length (escape s) < fuel)%nat -> unescape fuel (escape s) = Some s.
Proof.
  induction s as [|c s IH]; intros Hs fuel Hf.
  - destruct fuel; [lia|]. reflexivity.
  - inversion Hs as [|? ? Hc Hs']; subst. destruct fuel as [|f]; [lia|].
    unfold escape in *. cbn [flat_map] in *. rewrite unescape_escape_char by assumption.
    rewrite app_length in Hf. pose proof (escape_char_len c).
    rewrite IH; [reflexivity|assumption|lia].
Qed.

Theorem string_contents_escape : forall s, scalar_text s -> string_contents (34 :: escape s ++ [34]) = Some s.
Proof.
  intros s Hs. unfold string_contents, strip_quotes. cbn [tl].
  rewrite removelast_last. apply unescape_escape; [assumption|lia].
Qed.

(* ================================================================== encoders *)
Open Scope Z_scope.

Lemma is_scalar_Z : forall c, is_scalar c = true ->
  (0 <= Z.of_N c < 0xD800 \/ 0xE000 <= Z.of_N c <= 0x10FFFF).
Proof. unfold is_scalar. intros. lia. Qed.

(* (b) strlen *)
Theorem strlen_utf8 : forall s, Z.of_nat (length (utf8_bytes s)) = Z.of_N (bytes_len s).
Proof.
  induction s as [|c s IH]; [reflexivity|].
  cbn [utf8_bytes bytes_len]. rewrite app_length, Nat2Z.inj_add, N2Z.inj_add, IH.
  f_equal. unfold utf8_len.
  destruct (Z.ltb_spec (Z.of_N c) 0x80); [replace (c <? 0x80)%N with true by lia; reflexivity|].
  replace (c <? 0x80)%N with false by lia.
  destruct (Z.ltb_spec (Z.of_N c) 0x800); [replace (c <? 0x800)%N with true by lia; reflexivity|].
  replace (c <? 0x800)%N with false by lia.
  destruct (Z.ltb_spec (Z.of_N c) 0x10000); [replace (c <? 0x10000)%N with true by lia; reflexivity|].
  replace (c <? 0x10000)%N with false by lia. reflexivity.
Qed.

(* (d) ascii *)
Theorem ascii_spec : forall enc s, (4 < enc)%N ->
  encode enc s = map (fun c => if (256 <=? c)%N then 0 else Z.of_N c) s.
Proof.
  intros enc s H.
  assert (E : encode enc s = map (fun c => let c := Z.of_N c in if c >=? 256 then 0 else c) s).
  { destruct enc as [|p]; [lia|]. destruct p as [[p|p|]|[p|[p|p|]|]|]; try reflexivity; lia. }
  rewrite E. apply map_ext. intros c. cbv zeta.
  destruct (Z.geb_spec (Z.of_N c) 256); destruct (N.leb_spec 256 c); lia.
Qed.

(* (e) byte ranges *)
Definition byte_range (b : Z) : Prop := 0 <= b < 256.

Lemma utf8_bytes_range : forall s, scalar_text s -> Forall byte_range (utf8_bytes s).
Proof.
  induction s as [|c s IH]; intros Hs; [constructor|].
  inversion Hs as [|? ? Hc Hs']; subst. cbn [utf8_bytes]. apply Forall_app. split; [|auto].
  apply is_scalar_Z in Hc. set (z := Z.of_N c) in *. clearbody z. unfold byte_range.
  destruct (Z.ltb_spec z 0x80); [repeat constructor; lia|].
  destruct (Z.ltb_spec z 0x800); [repeat constructor; lia|].
  destruct (Z.ltb_spec z 0x10000); repeat constructor; lia.
Qed.

Definition unit_range (u : Z) : Prop := 0 <= u < 65536.

Lemma utf16_units_range : forall s, scalar_text s -> Forall unit_range (utf16_units s).
Proof.
  induction s as [|c s IH]; intros Hs; [constructor|].
  inversion Hs as [|? ? Hc Hs']; subst. cbn [utf16_units]. apply Forall_app. split; [|auto].
  apply is_scalar_Z in Hc. set (z := Z.of_N c) in *. clearbody z. unfold unit_range.
  destruct (Z.ltb_spec z 0x10000); repeat constructor; lia.
Qed.

Lemma flat_map_range : forall (A : Type) (P : A -> Prop) (f : A -> list Z) l,
  (forall x, P x -> Forall byte_range (f x)) -> Forall P l -> Forall byte_range (flat_map f l).
Proof.
  induction l as [|a l IH]; intros Hf Hl; [constructor|].
  inversion Hl; subst. cbn [flat_map]. apply Forall_app. split; auto.
Qed.

Theorem encode_bytes_range : forall enc s, scalar_text s -> Forall (fun b => 0 <= b < 256) (encode enc s).
Proof.
  intros enc s Hs. change (Forall byte_range (encode enc s)).
  assert (A : Forall byte_range (map (fun c => let c := Z.of_N c in if c >=? 256 then 0 else c) s)).
  { apply Forall_map. apply Forall_forall. intros c _. cbv zeta. unfold byte_range.
    destruct (Z.geb_spec (Z.of_N c) 256); lia. }
  destruct enc as [|p]; [apply utf8_bytes_range; assumption|].
  destruct p as [[p|p|]|[p|[p|p|]|]|]; try exact A; unfold encode.
  - apply (flat_map_range _ (fun c => is_scalar c = true)); [|assumption].
    intros c Hc. apply is_scalar_Z in Hc. cbv zeta. set (z := Z.of_N c) in *. clearbody z.
    unfold byte_range. repeat constructor; lia.
  - apply (flat_map_range _ (fun c => is_scalar c = true)); [|assumption].
    intros c Hc. apply is_scalar_Z in Hc. cbv zeta. set (z := Z.of_N c) in *. clearbody z.
    unfold byte_range. repeat constructor; lia.
  - apply (flat_map_range _ unit_range); [|apply utf16_units_range; assumption].
    intros u Hu. unfold unit_range, byte_range in *. repeat constructor; lia.
  - apply (flat_map_range _ unit_range); [|apply utf16_units_range; assumption].
    intros u Hu. unfold unit_range, byte_range in *. repeat constructor; lia.
Qed.

(* (c) decoders *)
Ltac resolve_if :=
  match goal with |- context[if ?b then _ else _] =>
    first [ assert (b = true) as -> by (unfold cont, scalar_z, byte_ok; lia)
          | assert (b = false) as -> by (unfold cont, scalar_z, byte_ok; lia) ]
  end; cbv iota.

Lemma dec8_1 : forall b0 r, 0 <= b0 < 0x80 -> decode_utf8 (b0 :: r) = ocons b0 (decode_utf8 r).
Proof. intros. cbn [decode_utf8]. resolve_if. reflexivity. Qed.

Lemma dec8_2 : forall b0 b1 r, 0xC0 <= b0 < 0xE0 -> 0x80 <= b1 < 0xC0 ->
  0x80 <= (b0 - 0xC0) * 64 + (b1 - 0x80) ->
  decode_utf8 (b0 :: b1 :: r) = ocons ((b0 - 0xC0) * 64 + (b1 - 0x80)) (decode_utf8 r).
Proof. intros. cbn [decode_utf8]. cbv zeta. do 3 resolve_if. reflexivity. Qed.

Lemma dec8_3 : forall b0 b1 b2 r, 0xE0 <= b0 < 0xF0 -> 0x80 <= b1 < 0xC0 -> 0x80 <= b2 < 0xC0 ->
  let c := (b0 - 0xE0) * 4096 + (b1 - 0x80) * 64 + (b2 - 0x80) in
  0x800 <= c -> (c < 0xD800 \/ 0xE000 <= c) ->
  decode_utf8 (b0 :: b1 :: b2 :: r) = ocons c (decode_utf8 r).
Proof. intros. subst c. cbn [decode_utf8]. cbv zeta. do 4 resolve_if. reflexivity. Qed.

Lemma dec8_4 : forall b0 b1 b2 b3 r, 0xF0 <= b0 < 0xF8 -> 0x80 <= b1 < 0xC0 -> 0x80 <= b2 < 0xC0 -> 0x80 <= b3 < 0xC0 ->
  let c := (b0 - 0xF0) * 262144 + (b1 - 0x80) * 4096 + (b2 - 0x80) * 64 + (b3 - 0x80) in
  0x10000 <= c <= 0x10FFFF ->
  decode_utf8 (b0 :: b1 :: b2 :: b3 :: r) = ocons c (decode_utf8 r).
Proof. intros. subst c. cbn [decode_utf8]. cbv zeta. do 5 resolve_if. reflexivity. Qed.

Lemma ocons_some : forall z c s, Z.to_N z = c -> ocons z (Some s) = Some (c :: s).
Proof. intros; subst; reflexivity. Qed.

Lemma decode_utf8_encode : forall s, scalar_text s -> decode_utf8 (utf8_bytes s) = Some s.
Proof.
  induction s as [|c s IH]; intros Hs; [reflexivity|].
  inversion Hs as [|? ? Hc Hs']; subst. specialize (IH Hs'). cbn [utf8_bytes].
  apply is_scalar_Z in Hc. remember (Z.of_N c) as z eqn:Hz.
  destruct (Z.ltb_spec z 0x80); [|destruct (Z.ltb_spec z 0x800); [|destruct (Z.ltb_spec z 0x10000)]]; cbn [app].
  - rewrite dec8_1 by lia. rewrite IH. apply ocons_some. lia.
  - rewrite dec8_2 by lia. rewrite IH. apply ocons_some. lia.
  - rewrite dec8_3 by lia. rewrite IH. apply ocons_some. lia.
  - rewrite dec8_4 by lia. rewrite IH. apply ocons_some. lia.
Qed.

Lemma units_of_be : forall us, Forall unit_range us ->
  units_of true (flat_map (fun u => [u / 256; u mod 256]) us) = Some us.
Proof.
  induction us as [|u us IH]; intros H; [reflexivity|].
  inversion H as [|? ? Hu H']; subst. unfold unit_range in Hu. cbn [flat_map app units_of].
  resolve_if. rewrite IH by assumption. cbn [option_map]. f_equal. f_equal. lia.
Qed.

Lemma units_of_le : forall us, Forall unit_range us ->
  units_of false (flat_map (fun u => [u mod 256; u / 256]) us) = Some us.
Proof.
  induction us as [|u us IH]; intros H; [reflexivity|].
  inversion H as [|? ? Hu H']; subst. unfold unit_range in Hu. cbn [flat_map app units_of].
  resolve_if. rewrite IH by assumption. cbn [option_map]. f_equal. f_equal. lia.
Qed.

Lemma dec16_1 : forall u r, (0 <= u < 0xD800 \/ 0xE000 <= u < 0x10000) ->
  decode_utf16 (u :: r) = ocons u (decode_utf16 r).
Proof. intros. cbn [decode_utf16]. resolve_if. reflexivity. Qed.

Lemma dec16_2 : forall u v r, 0xD800 <= u < 0xDC00 -> 0xDC00 <= v < 0xE000 ->
  decode_utf16 (u :: v :: r) = ocons (0x10000 + (u - 0xD800) * 1024 + (v - 0xDC00)) (decode_utf16 r).
Proof. intros. cbn [decode_utf16]. do 3 resolve_if. reflexivity. Qed.

Lemma decode_utf16_encode : forall s, scalar_text s -> decode_utf16 (utf16_units s) = Some s.
Proof.
  induction s as [|c s IH]; intros Hs; [reflexivity|].
  inversion Hs as [|? ? Hc Hs']; subst. specialize (IH Hs'). cbn [utf16_units].
  apply is_scalar_Z in Hc. remember (Z.of_N c) as z eqn:Hz.
  destruct (Z.ltb_spec z 0x10000); cbn [app].
  - rewrite dec16_1 by lia. rewrite IH. apply ocons_some. lia.
  - rewrite dec16_2 by lia. rewrite IH. apply ocons_some. lia.
Qed.

Lemma decode_utf32_be : forall s, scalar_text s ->
  decode_utf32 true (flat_map (fun c => let c := Z.of_N c in
     [c / 16777216; (c / 65536) mod 256; (c / 256) mod 256; c mod 256]) s) = Some s.
Proof.
  induction s as [|c s IH]; intros Hs; [reflexivity|].
  inversion Hs as [|? ? Hc Hs']; subst. specialize (IH Hs'). cbn [flat_map]. cbv zeta.
  apply is_scalar_Z in Hc. remember (Z.of_N c) as z eqn:Hz. cbn [app decode_utf32]. cbv zeta in IH |- *.
  resolve_if. rewrite IH. apply ocons_some. lia.
Qed.

Lemma decode_utf32_le : forall s, scalar_text s ->
  decode_utf32 false (flat_map (fun c => let c := Z.of_N c in
     [c mod 256; (c / 256) mod 256; (c / 65536) mod 256; c / 16777216]) s) = Some s.
Proof.
  induction s as [|c s IH]; intros Hs; [reflexivity|].
  inversion Hs as [|? ? Hc Hs']; subst. specialize (IH Hs'). cbn [flat_map]. cbv zeta.
  apply is_scalar_Z in Hc. remember (Z.of_N c) as z eqn:Hz. cbn [app decode_utf32]. cbv zeta in IH |- *.
  resolve_if. rewrite IH. apply ocons_some. lia.
Qed.

Theorem decode_encode : forall enc s, (enc <= 4)%N -> scalar_text s -> decode enc (encode enc s) = Some s.
Proof.
  intros enc s He Hs.
  destruct enc as [|p]; [apply decode_utf8_encode; assumption|].
  destruct p as [[p|p|]|[p|[p|p|]|]|]; try lia; unfold decode, encode.
  - apply decode_utf32_be; assumption.
  - apply decode_utf32_le; assumption.
  - rewrite units_of_le by (apply utf16_units_range; assumption). apply decode_utf16_encode; assumption.
  - rewrite units_of_be by (apply utf16_units_range; assumption). apply decode_utf16_encode; assumption.
Qed.

(* the `strlen` builtin of the evaluator returns the UTF-8 byte length *)
Theorem strlen_builtin : forall O s e,
  eval_builtin O s_strlen [VStr s e] = EOk (VInt (un (Z.of_N (bytes_len s)))).
Proof. intros O s e. rewrite <- strlen_utf8. reflexivity. Qed.

(* ================================================================== bundle *)
Theorem strings_all :
  (forall s, scalar_text s -> string_contents (34 :: escape s ++ [34])%N = Some s) /\
  (forall s, Z.of_nat (length (utf8_bytes s)) = Z.of_N (bytes_len s)) /\
  (forall enc s, (enc <= 4)%N -> scalar_text s -> decode enc (encode enc s) = Some s) /\
  (forall enc s, (4 < enc)%N -> encode enc s = map (fun c => if (256 <=? c)%N then 0%Z else Z.of_N c) s) /\
  (forall enc s, scalar_text s -> Forall (fun b => (0 <= b < 256)%Z) (encode enc s)).
Proof.
  split; [exact string_contents_escape|].
  split; [exact strlen_utf8|].
  split; [exact decode_encode|].
  split; [exact ascii_spec|exact encode_bytes_range].
Qed.

(* non-vacuity: quote, backslash, newline, a control char, DEL, a 2-byte, a 3-byte and a non-BMP character *)
Example strings_nonvacuous :
  let s := [34; 92; 10; 7; 127; 65; 233; 0x20AC; 0x1F600]%N in
  scalar_text s /\
  escape s = [92;34; 92;92; 92;110; 92;120;48;55; 92;120;55;102; 65; 92;117;123;101;57;125;
              92;117;123;50;48;97;99;125; 92;117;123;49;102;54;48;48;125]%N /\
  string_contents (34 :: escape s ++ [34])%N = Some s /\
  string_contents [34; 92; 117; 123; 100; 56; 48; 48; 125; 34]%N = None /\      (* a surrogate escape is rejected *)
  length (utf8_bytes s) = 15%nat /\ bytes_len s = 15%N /\
  encode 0 [233; 0x20AC; 0x1F600]%N = [0xC3; 0xA9; 0xE2; 0x82; 0xAC; 0xF0; 0x9F; 0x98; 0x80] /\
  encode 1 [0x1F600]%N = [0xD8; 0x3D; 0xDE; 0x00] /\
  encode 2 [0x1F600]%N = [0x3D; 0xD8; 0x00; 0xDE] /\
  encode 3 [0x1F600]%N = [0x00; 0x01; 0xF6; 0x00] /\
  encode 4 [0x1F600]%N = [0x00; 0xF6; 0x01; 0x00] /\
  encode 5 [65; 233; 0x20AC]%N = [65; 233; 0] /\
  decode 0 (encode 0 s) = Some s /\ decode 1 [0xD8; 0x3D; 0xDE; 0x00] = Some [0x1F600]%N /\
  decode 2 (encode 2 s) = Some s /\ decode 3 (encode 3 s) = Some s /\ decode 4 (encode 4 s) = Some s /\
  decode 0 [0xC0; 0x80] = None /\               (* overlong *)
  decode 0 [0xED; 0xA0; 0x80] = None /\         (* encoded surrogate *)
  decode 1 [0xD8; 0x3D] = None /\               (* lone high surrogate *)
  decode 3 [0x00; 0x11; 0x00; 0x00] = None.     (* above 0x10FFFF *)
Proof.
  cbv zeta. split; [repeat constructor|]. vm_compute. repeat split; reflexivity.
Qed.
