(* resolve_iteratively with and without the static-value optimisation (C08, static half): the two loops run in lock step
   except when pass 1 reports Resolved only thanks to freshly flagged items (the F70 situation); then the optimised loop
   goes straight to the confirming pass and the unoptimised loop needs one more pass to see the same fixed point. *)
From Coq Require Import NArith ZArith List Bool Lia.
Import ListNotations.
From CA Require Import Model.Lexer Model.Parser Model.Literal Model.BigIntOps Model.Evaluator Model.Matcher Model.Resolver
  Model.StaticKnown Model.ResolverS Spec.StaticSpec Proofs.EvalSemP Proofs.EvalMonoP Proofs.ResolverFixP Proofs.ResolverMonoP
  Proofs.CertUniqueP Proofs.StaticKnownP Proofs.ResolverSSimP.
Open Scope Z_scope.

Section Loop.
Variable names : list text.
Variable defs : list ruledef.
Variable ns : list node.
Variable K : kinfo.
Hypothesis Hres : reserved_free names.
Hypothesis HKsym : forall i, nth_error (k_sym K) i = Some true -> exists e, In (NConst i e) ns /\ const_known e = true.
Hypothesis HKdata : forall w elems d e, In (NData w elems) ns -> In (d, e) elems -> flag (k_data K) d = true -> data_known e = true.
Variable opt : bool.
Hypothesis Hok : data_static_ok ns.
Hypothesis Hcan : opt = true -> NoDup (dids ns) /\ NoDup (sids ns).

Notation INV := (Inv names defs ns K opt).
Notation PS first last x := (passS names defs K opt first last ns x 0 Resolved).
Notation PF last st := (pass names defs last ns st 0 Resolved).

(* one whole pass *)
Lemma whole_pass first last x : INV x ->
  match PF last (ss x) with
  | EErr => PS first last x = EErr
  | EOk (st', rF) => exists x' rT, PS first last x = EOk (x', rT) /\ ss x' = st' /\ le_res rF rT /\
                                   (opt && first = false -> rT = rF) /\ INV x'
  end.
Proof.
  intro HI.
  pose proof (pass_sim names defs ns K Hres HKsym HKdata opt Hok Hcan first last ns (fun y Hy => Hy) x 0 Resolved Resolved HI (le_res_refl _)) as H.
  destruct (PF last (ss x)) as [[st' rF]|]; [|exact H].
  destruct H as (x' & rT & HT & Hss & Hr & Hsm & HI' & _). exists x', rT.
  split; [exact HT|]. split; [exact Hss|]. split; [exact Hr|]. split; [|exact HI'].
  intro Hof. destruct (Hsm Hof) as [_ Ha]. auto.
Qed.

Definition lockstep (F : eres (state * nat)) (T : eres (sstate * nat)) : Prop :=
  match F with
  | EErr => T = EErr
  | EOk (st, n) => exists x', T = EOk (x', n) /\ ss x' = st
  end.

Lemma confirm_lockstep x i : INV x ->
  lockstep (match PF true (ss x) with EOk (st', Resolved) => EOk (st', i) | _ => EErr end)
           (match PS false true x with EOk (x', Resolved) => EOk (x', i) | _ => EErr end).
Proof.
  intro HI. pose proof (whole_pass false true x HI) as H.
  destruct (PF true (ss x)) as [[st' rF]|]; [|rewrite H; reflexivity].
  destruct H as (x' & rT & HT & Hss & _ & Heq & _). rewrite HT. rewrite (Heq (andb_false_r _)).
  destruct rF; cbn; [eauto|reflexivity].
Qed.

(* passes after the first (or every pass when the optimisation is off) *)
Lemma loop_later : forall k i max x, INV x -> (opt = false \/ (1 <= i)%nat) ->
  lockstep (loop names defs ns k i max (ss x)) (loopS names defs K opt ns k i max x).
Proof.
  induction k as [|k IH]; intros i max x HI Hi; cbn [loop loopS].
  - apply confirm_lockstep. exact HI.
  - assert (Hof : opt && Nat.eqb (S i) 1 = false).
    { destruct Hi as [->|Hi]; [reflexivity|]. destruct i; [lia|]. apply andb_false_r. }
    pose proof (whole_pass (Nat.eqb (S i) 1) (Nat.eqb (S i) max) x HI) as H.
    destruct (PF (Nat.eqb (S i) max) (ss x)) as [[st' rF]|]; [|rewrite H; reflexivity].
    destruct H as (x' & rT & HT & Hss & _ & Heq & HI'). rewrite HT. rewrite (Heq Hof). subst st'.
    destruct rF.
    + destruct (Nat.eqb (S i) max); [cbn; eauto|]. apply confirm_lockstep. exact HI'.
    + destruct (Nat.eqb (S i) max); [reflexivity|]. apply IH; [exact HI'|]. right. lia.
Qed.

(* the whole loop: lock step, or the one-pass situation *)
Definition one_pass (b : nat) (x : sstate) (F : eres (state * nat)) (T : eres (sstate * nat)) : Prop :=
  exists x2, (1 <= b)%nat /\ INV x2 /\
    PS true (Nat.eqb 1 b) x = EOk (x2, Resolved) /\ PF (Nat.eqb 1 b) (ss x) = EOk (ss x2, Unresolved) /\
    T = (if Nat.eqb 1 b then EOk (x2, 1%nat) else match PS false true x2 with EOk (x', Resolved) => EOk (x', 1%nat) | _ => EErr end) /\
    F = (if Nat.eqb 1 b then EErr else loop names defs ns (b - 1) 1 b (ss x2)).

Lemma loop_cases b x : INV x ->
  let F := loop names defs ns b 0 b (ss x) in
  let T := loopS names defs K opt ns b 0 b x in
  lockstep F T \/ one_pass b x F T.
Proof.
  intros HI F T. subst F T. destruct b as [|k].
  - left. cbn [loop loopS]. apply confirm_lockstep. exact HI.
  - cbn [loop loopS]. change (Nat.eqb 1 1) with true.
    pose proof (whole_pass true (Nat.eqb 1 (S k)) x HI) as H.
    destruct (PF (Nat.eqb 1 (S k)) (ss x)) as [[st' rF]|] eqn:EF; [|left; rewrite H; reflexivity].
    destruct H as (x' & rT & HT & Hss & Hle & _ & HI'). subst st'.
    destruct rF.
    + left. rewrite HT. rewrite (Hle eq_refl).
      destruct (Nat.eqb 1 (S k)); [cbn; eauto|]. apply confirm_lockstep. exact HI'.
    + destruct rT.
      * right. exists x'. rewrite HT. replace (S k - 1)%nat with k by lia.
        split; [lia|]. split; [exact HI'|]. split; [reflexivity|]. split; [exact EF|]. split; reflexivity.
      * left. rewrite HT. destruct (Nat.eqb 1 (S k)); [reflexivity|]. apply loop_later; [exact HI'|]. right. lia.
Qed.

(* with the optimisation off there is only lock step *)
Lemma loop_off b x : opt = false -> INV x ->
  lockstep (loop names defs ns b 0 b (ss x)) (loopS names defs K opt ns b 0 b x).
Proof. intros Ho HI. apply loop_later; [exact HI|now left]. Qed.

(* ---------- the one-pass situation ---------- *)
Hypothesis Hdist : syms_distinct ns.

Lemma one_pass_fwd b x F T : one_pass b x F T -> labels_ok ns (ss x) -> (2 <= b)%nat ->
  forall x' n, T = EOk (x', n) -> n = 1%nat /\ F = EOk (ss x', 2%nat).
Proof.
  intros (x2 & Hb & HI2 & HT1 & HF1 & HT & HF) Hl Hb2 x' n HTok.
  assert (E1 : Nat.eqb 1 b = false) by (apply Nat.eqb_neq; lia). rewrite E1 in *.
  assert (Hl2 : labels_ok ns (ss x2)) by (eapply pass_labels_ok; [exact Hdist|exact Hl|exact HF1]).
  subst T. pose proof (whole_pass false true x2 HI2) as H.
  destruct (PS false true x2) as [[xc rc]|] eqn:EC; [|discriminate]. destruct rc; [|discriminate].
  inversion HTok; subst x' n; clear HTok.
  destruct (PF true (ss x2)) as [[stc rF]|] eqn:EFc; [|discriminate].
  destruct H as (x'' & rT & HT' & Hss & _ & Heq & _). inversion HT'; subst x'' rT; clear HT'.
  rewrite <- (Heq (andb_false_r _)) in EFc. subst stc.
  assert (ss xc = ss x2) by (eapply pass_fix; [exact Hl2|exact EFc]).
  split; [reflexivity|]. subst F. rewrite H in *.
  destruct b as [|[|k]]; try lia. replace (S (S k) - 1)%nat with (S k) by lia. cbn [loop].
  destruct k as [|k].
  - change (Nat.eqb 2 2) with true. rewrite EFc. reflexivity.
  - assert (E2 : Nat.eqb 2 (S (S (S k))) = false) by reflexivity. rewrite E2.
    rewrite (pass_agree _ _ _ _ _ _ EFc). rewrite EFc. reflexivity.
Qed.

Lemma one_pass_bwd2 x F T : one_pass 2 x F T ->
  forall st n, F = EOk (st, n) -> n = 2%nat /\ exists x', T = EOk (x', 1%nat) /\ ss x' = st.
Proof.
  intros (x2 & Hb & HI2 & HT1 & HF1 & HT & HF) st n HFok.
  change (Nat.eqb 1 2) with false in *. subst F T. change (2 - 1)%nat with 1%nat in HFok. cbn [loop] in HFok.
  change (Nat.eqb 2 2) with true in HFok.
  pose proof (whole_pass false true x2 HI2) as H.
  destruct (PF true (ss x2)) as [[stc rF]|] eqn:EFc; [|discriminate]. destruct rF; [|discriminate].
  inversion HFok; subst st n; clear HFok.
  destruct H as (x' & rT & HT' & Hss & _ & Heq & _). rewrite HT'. rewrite (Heq (andb_false_r _)).
  split; [reflexivity|]. exists x'. auto.
Qed.

Lemma one_pass_b1 x F T : one_pass 1 x F T -> F = EErr /\ exists x2, T = EOk (x2, 1%nat).
Proof.
  intros (x2 & Hb & HI2 & HT1 & HF1 & HT & HF). change (Nat.eqb 1 1) with true in *. subst. eauto.
Qed.

(* with the replay lemma (Proofs/ResolverSFrameP.v): the state after an all-Resolved optimised first pass is a fixed point
   of the unoptimised pass in the same mode *)
Lemma one_pass_ge3 b x F T : one_pass b x F T -> (3 <= b)%nat ->
  (forall x2, PS true false x = EOk (x2, Resolved) -> INV x2 -> PF false (ss x2) = EOk (ss x2, Resolved)) ->
  match F with
  | EErr => T = EErr
  | EOk (st, n) => n = 2%nat /\ exists x', T = EOk (x', 1%nat) /\ ss x' = st
  end.
Proof.
  intros (x2 & Hb & HI2 & HT1 & HF1 & HT & HF) Hb3 FL.
  assert (E1 : Nat.eqb 1 b = false) by (apply Nat.eqb_neq; lia). rewrite E1 in *.
  pose proof (FL x2 HT1 HI2) as Hfix. subst F T.
  destruct b as [|[|[|k]]]; try lia. replace (S (S (S k)) - 1)%nat with (S (S k)) by lia. cbn [loop].
  assert (E2 : Nat.eqb 2 (S (S (S k))) = false) by reflexivity. rewrite E2, Hfix.
  pose proof (whole_pass false true x2 HI2) as H.
  destruct (PF true (ss x2)) as [[stc rF]|]; [|rewrite H; reflexivity].
  destruct H as (x' & rT & HT' & Hss & _ & Heq & _). rewrite HT'. rewrite (Heq (andb_false_r _)).
  destruct rF; [|reflexivity]. split; [reflexivity|]. eauto.
Qed.

End Loop.
