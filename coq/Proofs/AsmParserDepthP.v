(* The expression nesting depth of the line/directive parser model is cumulative across asm blocks
   (src/expr/parser.rs: ExpressionParser::new starts from Walker::expr_nesting_depth, parse_asm hands its own
   recursion_depth to the sub-walker): along ANY path of an accepted AST the expression depth the code counted stays
   within PARSE_DEPTH_MAX.  Spec: Spec/AsmDepth.v.  No axioms. *)
From Coq Require Import NArith List Bool Lia PeanoNat Arith.
Import ListNotations.
From CA Require Import Model.Lexer Model.Parser Model.Literal Model.Matcher Model.AsmAst Model.AsmParser Spec.AsmDepth Proofs.AsmParserP.

Local Notation MAX := PARSE_DEPTH_MAX.

Ltac dstep :=
  match goal with
  | H : bind _ _ = POk _ _ |- _ =>
      apply bind_ok' in H; let a := fresh "a" in let w := fresh "w" in let Hm := fresh "Hm" in
      destruct H as (a & w & Hm & H); cbv beta in H
  | H : POk _ _ = POk _ _ |- _ => inversion H; subst; clear H
  | H : PErr = POk _ _ |- _ => discriminate H
  | H : PFuel = POk _ _ |- _ => discriminate H
  | H : (let _ := _ in _) = POk _ _ |- _ => cbv zeta in H
  | H : (if ?b then _ else _) = POk _ _ |- _ => destruct b eqn:?
  | H : match ?x with _ => _ end = POk _ _ |- _ => destruct x eqn:?
  | Hx : (MAX <? _)%nat = false |- _ => apply Nat.ltb_ge in Hx
  | Hx : (MAX <=? _)%nat = false |- _ => apply Nat.leb_gt in Hx
  end.

Section ExprDepth.
Context {A : Type}.
Variable hook : nat -> walker -> pres (span * A).
Variable PayD : nat -> span * A -> Prop.
Hypothesis Hhook : forall d w r w', hook d w = POk r w' -> PayD d r.

(* e was parsed by a function running at recursion depth D *)
Definition DE (D : nat) (e : gexpr A) : Prop :=
  forall j x, epath j e x -> (D + j <= MAX)%nat /\ forall p, x = Some p -> exists d, (D + j <= d)%nat /\ PayD d p.

Lemma DE_le D e : DE D e -> (D <= MAX)%nat.
Proof. intros H. destruct (H 0%nat None (ep_here e)) as [L _]. lia. Qed.

Lemma DE_mono D D' e : (D <= D')%nat -> DE D' e -> DE D e.
Proof.
  intros Hle H j x Hp. destruct (H j x Hp) as [L P]. split; [lia|].
  intros p E. destruct (P p E) as (d & Hd & Hpay). exists d. split; [lia | exact Hpay].
Qed.

Ltac here D := split; [lia | intros ? E; discriminate E].
Ltac via H k := let L := fresh in let P := fresh in destruct (H k _ ltac:(eassumption)) as [L P]; split; [lia|];
                 let p := fresh in let E := fresh in intros p E; destruct (P p E) as (?d & ? & ?); eexists; split; [|eassumption]; lia.

Lemma DE_atom D e : (D <= MAX)%nat -> (forall j x, epath j e x -> j = 0%nat /\ x = None) -> DE D e.
Proof. intros HD Hat j x Hp. destruct (Hat j x Hp) as [-> ->]. here D. Qed.
Lemma DE_num D v s : (D <= MAX)%nat -> DE D (GNum v s).
Proof. intros HD. apply DE_atom; [exact HD|]. intros j x Hp. inversion Hp; subst. split; reflexivity. Qed.
Lemma DE_bool D b : (D <= MAX)%nat -> DE D (GBool b).
Proof. intros HD. apply DE_atom; [exact HD|]. intros j x Hp. inversion Hp; subst. split; reflexivity. Qed.
Lemma DE_str D s : (D <= MAX)%nat -> DE D (GStr s).
Proof. intros HD. apply DE_atom; [exact HD|]. intros j x Hp. inversion Hp; subst. split; reflexivity. Qed.
Lemma DE_var D l p : (D <= MAX)%nat -> DE D (GVar l p).
Proof. intros HD. apply DE_atom; [exact HD|]. intros j x Hp. inversion Hp; subst. split; reflexivity. Qed.

Lemma DE_asm D sp a : (D <= MAX)%nat -> PayD D (sp, a) -> DE D (GAsm sp a).
Proof.
  intros HD HP j x Hp. inversion Hp; subst; [here D|].
  split; [lia|]. intros p E. injection E as <-. exists D. split; [lia | exact HP].
Qed.
Lemma DE_un D o e : DE (S D) e -> DE D (GUn o e).
Proof. intros H j x Hp. pose proof (DE_le _ _ H). inversion Hp; subst; [here D | via H k]. Qed.
Lemma DE_bin D o a b : DE D a -> DE D b -> DE D (GBin o a b).
Proof. intros Ha Hb j x Hp. pose proof (DE_le _ _ Ha). inversion Hp; subst; [here D | via Ha j | via Hb j]. Qed.
Lemma DE_tern D c t f : DE D c -> DE (S D) t -> DE (S D) f -> DE D (GTern c t f).
Proof. intros Hc Ht Hf j x Hp. pose proof (DE_le _ _ Hc). inversion Hp; subst; [here D | via Hc j | via Ht k | via Hf k]. Qed.
Lemma DE_slice D l r e : DE (S D) l -> DE (S D) r -> DE D e -> DE D (GSlice l r e).
Proof. intros Hl Hr He j x Hp. pose proof (DE_le _ _ He). inversion Hp; subst; [here D | via Hl k | via Hr k | via He j]. Qed.
Lemma DE_short D s e : DE D s -> DE D e -> DE D (GShort s e).
Proof. intros Hs He j x Hp. pose proof (DE_le _ _ He). inversion Hp; subst; [here D | via Hs j | via He j]. Qed.
Lemma DE_block D es : (D <= MAX)%nat -> Forall (DE (S D)) es -> DE D (GBlock es).
Proof.
  intros HD H j x Hp. inversion Hp; subst; [here D|].
  rewrite Forall_forall in H. match goal with Hi : In ?e es |- _ => pose proof (H e Hi) as He end. via He k.
Qed.
Lemma DE_call D f es : DE D f -> Forall (DE (S D)) es -> DE D (GCall f es).
Proof.
  intros Hf H j x Hp. pose proof (DE_le _ _ Hf). inversion Hp; subst; [here D | via Hf j |].
  rewrite Forall_forall in H. match goal with Hi : In ?e es |- _ => pose proof (H e Hi) as He end. via He k.
Qed.

Definition dinv (fuel : nat) : Prop :=
  (forall depth w e w', gparse_expr hook fuel depth w = POk e w' -> DE (S depth) e) /\
  (forall D w e w', (D <= MAX)%nat -> gparse_assign hook fuel D w = POk e w' -> DE D e) /\
  (forall D lv w e w', (D <= MAX)%nat -> gparse_levels hook fuel D lv w = POk e w' -> DE D e) /\
  (forall D ops inner l w e w', (D <= MAX)%nat -> DE D l -> gbinary_loop hook fuel D ops inner l w = POk e w' -> DE D e) /\
  (forall D w e w', (D <= MAX)%nat -> gparse_slice hook fuel D w = POk e w' -> DE D e) /\
  (forall D w e w', (D <= MAX)%nat -> gparse_short hook fuel D w = POk e w' -> DE D e) /\
  (forall D w e w', (D <= MAX)%nat -> gparse_unary hook fuel D w = POk e w' -> DE D e) /\
  (forall D w e w', (D <= MAX)%nat -> gparse_call hook fuel D w = POk e w' -> DE D e) /\
  (forall D w acc es w', (D <= MAX)%nat -> Forall (DE (S D)) acc -> gparse_args hook fuel D w acc = POk es w' -> Forall (DE (S D)) es) /\
  (forall D w e w', (D <= MAX)%nat -> gparse_leaf hook fuel D w = POk e w' -> DE D e) /\
  (forall D w acc es w', (D <= MAX)%nat -> Forall (DE (S D)) acc -> gparse_block hook fuel D w acc = POk es w' -> Forall (DE (S D)) es) /\
  (forall w level e w', gparse_var_dots hook fuel w level = POk e w' -> forall D, (D <= MAX)%nat -> DE D e) /\
  (forall w level acc e w', gparse_var_names hook fuel w level acc = POk e w' -> forall D, (D <= MAX)%nat -> DE D e).

Ltac dfin :=
  repeat match goal with
  | |- DE _ (GTern _ _ _) => apply DE_tern
  | |- DE _ (GBin _ _ _) => apply DE_bin
  | |- DE _ (GSlice _ _ _) => apply DE_slice
  | |- DE _ (GShort _ _) => apply DE_short
  | |- DE _ (GUn _ _) => apply DE_un
  | |- DE _ (GCall _ _) => apply DE_call
  | |- DE _ (GBlock _) => apply DE_block
  | |- DE _ (GAsm (fst ?p) (snd ?p)) => apply DE_asm; [|destruct p; cbn [fst snd]]
  | |- DE _ (GNum _ _) => apply DE_num
  | |- DE _ (GBool _) => apply DE_bool
  | |- DE _ (GStr _) => apply DE_str
  | |- DE _ (GVar _ _) => apply DE_var
  | Hall : forall D0, (D0 <= MAX)%nat -> DE D0 ?e |- DE _ ?e => apply Hall
  | |- Forall _ (rev _) => apply Forall_rev
  | |- Forall _ (_ ++ _) => apply Forall_app; split
  | |- Forall _ (_ :: _) => apply Forall_cons
  | |- Forall _ [] => apply Forall_nil
  end;
  try solve [assumption | lia | eapply DE_mono; [|eassumption]; lia
            | match goal with H : DE ?d _ |- (?d <= MAX)%nat => exact (DE_le _ _ H) end
            | match goal with H : DE (S ?d) _ |- (?d <= MAX)%nat => pose proof (DE_le _ _ H); lia end
            | match goal with IH : forall (w : walker) (level : N), _ |- DE _ _ => eapply IH; eassumption end ].

Ltac dside := solve [assumption | lia | apply DE_bin; assumption | apply Forall_nil | apply Forall_cons; assumption
                    | match goal with H : DE ?d _ |- (?d <= MAX)%nat => exact (DE_le _ _ H) end ].
Ltac use_dih :=
  match goal with
  | H : hook ?d ?w0 = POk _ _ |- _ => apply Hhook in H
  | H : _ = POk _ _, IH : forall _ : nat, _ |- _ => apply IH in H; [| dside ..]
  | H : _ = POk _ _, IH : forall _ : walker, _ |- _ => apply IH in H; [| dside ..]
  end.

Lemma dinv_all fuel : dinv fuel.
Proof.
  induction fuel as [|f IH].
  - unfold dinv; repeat split; intros; discriminate.
  - destruct IH as (I1 & I2 & I3 & I4 & I5 & I6 & I7 & I8 & I9 & I10 & I11 & I12 & I13).
    unfold dinv. repeat match goal with |- _ /\ _ => split end; intros.
    + rewrite gparse_expr_S in H. repeat (first [dstep | use_dih]); dfin.
    + rewrite gparse_assign_S in H0. repeat (first [dstep | use_dih]); dfin.
    + rewrite gparse_levels_S in H0. destruct lv; repeat (first [dstep | use_dih]); dfin.
    + rewrite gbinary_loop_S in H1. repeat (first [dstep | use_dih]); dfin.
    + rewrite gparse_slice_S in H0. repeat (first [dstep | use_dih]); dfin.
    + rewrite gparse_short_S in H0. repeat (first [dstep | use_dih]); dfin.
    + rewrite gparse_unary_S in H0. repeat (first [dstep | use_dih]); dfin.
    + rewrite gparse_call_S in H0. repeat (first [dstep | use_dih]); dfin.
    + rewrite gparse_args_S in H1. repeat (first [dstep | use_dih]); dfin.
    + rewrite gparse_leaf_S in H0. repeat (first [dstep | use_dih]); dfin.
    + rewrite gparse_block_S in H1. repeat (first [dstep | use_dih]); dfin.
    + rewrite gparse_var_dots_S in H. repeat (first [dstep | use_dih]); dfin.
    + rewrite gparse_var_names_S in H. repeat (first [dstep | use_dih]); dfin.
Qed.

Lemma gparse_expr_depth fuel depth w e w' : gparse_expr hook fuel depth w = POk e w' -> DE (S depth) e.
Proof. destruct (dinv_all fuel) as (H & _). apply H. Qed.
End ExprDepth.

(* ================================================================================================ *)
(* nodes: `node_dok ed n` = node n was parsed by a walker whose expr_nesting_depth is ed               *)

Inductive node_dok : nat -> anode -> Prop :=
| node_dok_intro ed n :
    (forall e j x, In e (exprs_of n) -> epath j e x ->
        (S ed + j <= MAX)%nat /\ forall p, x = Some p -> exists d, (S ed + j <= d)%nat /\ Forall (node_dok d) (snd p)) ->
    (forall sp c tr fl, n = NIf sp c tr fl -> Forall (node_dok ed) tr /\ forall fa, fl = Some fa -> Forall (node_dok ed) fa) ->
    node_dok ed n.

Definition PayD (d : nat) (p : span * list anode) : Prop := Forall (node_dok d) (snd p).
Definition XE (ed : nat) (e : xexpr) : Prop := DE PayD (S ed) e.

Lemma node_dok_simple ed n : (forall sp c tr fl, n <> NIf sp c tr fl) -> Forall (XE ed) (exprs_of n) -> node_dok ed n.
Proof.
  intros Hn He. constructor.
  - intros e j x Hin Hp. rewrite Forall_forall in He. exact (He e Hin j x Hp).
  - intros sp c tr fl E. exfalso. eapply Hn. exact E.
Qed.

Lemma node_dok_if ed sp c tr fl : XE ed c -> Forall (node_dok ed) tr -> (forall fa, fl = Some fa -> Forall (node_dok ed) fa) ->
  node_dok ed (NIf sp c tr fl).
Proof.
  intros Hc Ht Hf. constructor.
  - cbn [exprs_of]. intros e j x [<-|[]] Hp. exact (Hc j x Hp).
  - intros sp' c' tr' fl' E. injection E as <- <- <- <-. split; assumption.
Qed.

Definition fdok (ed : nat) (x : afield) : Prop := forall e, snd x = Some e -> XE ed e.
Definition rdok (ed : nat) (r : arule xexpr) : Prop := XE ed (ar_expr r).

Lemma extract_field_dok ed name : forall l o r, Forall (fdok ed) l -> extract_field name l = (o, r) ->
  (forall e, field_expr o = Some e -> XE ed e) /\ Forall (fdok ed) r.
Proof.
  induction l as [|x l IH]; intros o r Hl; cbn [extract_field].
  - intros H. injection H as <- <-. split; [cbn [field_expr]; discriminate | constructor].
  - inversion Hl as [|? ? Hx Hl']; subst.
    destruct (text_eqb (fst (fst x)) name).
    + intros H. injection H as <- <-. split; [|exact Hl'].
      destruct x as [[nm sp] oe]. cbn [field_expr]. intros e ->. apply Hx. reflexivity.
    + destruct (extract_field name l) as [o' r'] eqn:E. intros H. injection H as <- <-.
      destruct (IH _ _ Hl' eq_refl) as [P Q]. split; [exact P | constructor; assumption].
Qed.

Section DirDepth.
Variable hook : nat -> walker -> pres (span * list anode).
Variable f : nat.
Variable ed : nat.
Hypothesis Hhook : forall d w r w', hook d w = POk r w' -> PayD d r.

Lemma pexpr_d w e w' : pexpr hook f ed w = POk e w' -> XE ed e.
Proof. unfold pexpr, XE. apply gparse_expr_depth. exact Hhook. Qed.

Ltac use_px := match goal with H : pexpr hook f ed _ = POk _ _ |- _ => apply pexpr_d in H end.
Ltac fallx := repeat first [apply Forall_nil | apply Forall_cons]; try assumption.
Ltac simple_d := apply node_dok_simple; [intros; discriminate | cbn [exprs_of]; fallx].

Lemma parse_symbol_d w n w' : parse_symbol hook f ed w = POk n w' -> node_dok ed n.
Proof. intros H. unfold parse_symbol in H. repeat (first [use_px | dstep]); simple_d. Qed.

Lemma parse_const_d w n w' : parse_const hook f ed w = POk n w' -> node_dok ed n.
Proof. intros H. unfold parse_const in H. repeat (first [use_px | dstep]); simple_d. Qed.

Lemma data_elems_d : forall g w acc r w', Forall (XE ed) acc -> data_elems hook f ed g w acc = POk r w' -> Forall (XE ed) r.
Proof.
  induction g as [|g IH]; intros w acc r w' Ha H; [discriminate|].
  rewrite data_elems_S in H. repeat (first [use_px | dstep]).
  all: try (apply IH in H; [exact H | constructor; assumption]).
  all: repeat match goal with
       | |- Forall _ (rev _) => apply Forall_rev
       | |- Forall _ (_ ++ _) => apply Forall_app; split
       end; fallx.
Qed.

Lemma parse_fields_d : forall g w acc r w', Forall (fdok ed) acc -> parse_fields hook f ed g w acc = POk r w' -> Forall (fdok ed) r.
Proof.
  induction g as [|g IH]; intros w acc r w' Ha H; [discriminate|].
  rewrite parse_fields_S in H. repeat (first [use_px | dstep]).
  all: try (apply IH in H; [exact H | constructor; [intros ? Eoe; cbn [snd] in Eoe; first [discriminate Eoe | injection Eoe as <-; assumption] | assumption]]).
  all: repeat match goal with
       | |- Forall _ (rev _) => apply Forall_rev
       | |- Forall _ (_ ++ _) => apply Forall_app; split
       end; try assumption.
  all: constructor; [intros ? Eoe; cbn [snd] in Eoe; first [discriminate Eoe | injection Eoe as <-; assumption] | constructor].
Qed.

Lemma parse_bankdef_d header w n w' : parse_bankdef hook f ed header w = POk n w' -> node_dok ed n.
Proof.
  intros H. unfold parse_bankdef in H.
  apply bind_ok' in H. destruct H as (nm & wa & Hma & H). cbv beta in H.
  apply bind_ok' in H. destruct H as (b0 & wb & Hmb & H). cbv beta in H.
  apply bind_ok' in H. destruct H as (a1 & w1 & Hm1 & H). cbv beta in H.
  apply parse_fields_d in Hm1; [|constructor]. revert H.
  destruct (extract_field nm_bits a1) as [o1 l1] eqn:X1. destruct (extract_field_dok _ _ _ _ _ Hm1 X1) as [P1 L1].
  destruct (extract_field nm_labelalign l1) as [o2 l2] eqn:X2. destruct (extract_field_dok _ _ _ _ _ L1 X2) as [P2 L2].
  destruct (extract_field nm_addr l2) as [o3 l3] eqn:X3. destruct (extract_field_dok _ _ _ _ _ L2 X3) as [P3 L3].
  destruct (extract_field nm_addr_end l3) as [o4 l4] eqn:X4. destruct (extract_field_dok _ _ _ _ _ L3 X4) as [P4 L4].
  destruct (extract_field nm_size l4) as [o5 l5] eqn:X5. destruct (extract_field_dok _ _ _ _ _ L4 X5) as [P5 L5].
  destruct (extract_field nm_outp l5) as [o6 l6] eqn:X6. destruct (extract_field_dok _ _ _ _ _ L5 X6) as [P6 L6].
  destruct (extract_field nm_fill l6) as [o7 l7] eqn:X7.
  intros HH. destruct l7; [|discriminate]. repeat dstep.
  apply node_dok_simple; [intros; discriminate|].
  cbn [exprs_of bf_bits bf_labelalign bf_addr bf_addr_end bf_size bf_outp].
  repeat (apply Forall_app; split);
    match goal with |- Forall _ (opt_list (field_expr ?o)) => destruct (field_expr o) eqn:?; cbn [opt_list]; fallx; auto end.
Qed.

Lemma parse_fn_d header w n w' : parse_fn hook f ed header w = POk n w' -> node_dok ed n.
Proof. intros H. unfold parse_fn in H. repeat (first [use_px | dstep]); simple_d. Qed.

Lemma parse_arule_d is_sub w r w' : parse_arule hook f ed is_sub w = POk r w' -> rdok ed r.
Proof. intros H. unfold parse_arule in H. repeat (first [use_px | dstep]); unfold rdok; cbn [ar_expr]; assumption. Qed.

Lemma parse_arules_d : forall g is_sub w acc r w', Forall (rdok ed) acc -> parse_arules hook f ed g is_sub w acc = POk r w' -> Forall (rdok ed) r.
Proof.
  induction g as [|g IH]; intros is_sub w acc r w' Ha H; [discriminate|].
  rewrite parse_arules_S in H. repeat dstep.
  - apply Forall_rev. assumption.
  - apply parse_arule_d in Hm. apply IH in H; [exact H | constructor; assumption].
Qed.

Lemma parse_ruledef_d is_sub header w n w' : parse_ruledef hook f ed is_sub header w = POk n w' -> node_dok ed n.
Proof.
  intros H. unfold parse_ruledef in H. repeat dstep.
  all: match goal with Hr : parse_arules _ _ _ _ _ _ _ = POk _ _ |- _ => apply parse_arules_d in Hr; [|constructor] end.
  all: apply node_dok_simple; [intros; discriminate|]; cbn [exprs_of];
       match goal with Hr : Forall (rdok ed) ?rs |- Forall _ (map ar_expr ?rs) => clear -Hr; induction Hr; cbn [map]; constructor; assumption end.
Qed.

Lemma parse_directive_d k header w n w' : parse_directive hook f ed k header w = POk n w' -> node_dok ed n.
Proof.
  intros H. destruct k; cbn [parse_directive] in H; try discriminate.
  - repeat dstep. apply data_elems_d in Hm; [|constructor]. apply node_dok_simple; [intros; discriminate | cbn [exprs_of]; assumption].
  - unfold expr_directive in H. repeat (first [use_px | dstep]); simple_d.
  - unfold expr_directive in H. repeat (first [use_px | dstep]); simple_d.
  - repeat dstep; simple_d.
  - eapply parse_bankdef_d; eassumption.
  - eapply parse_const_d; eassumption.
  - eapply parse_fn_d; eassumption.
  - repeat dstep; simple_d.
  - repeat dstep; simple_d.
  - unfold expr_directive in H. repeat (first [use_px | dstep]); simple_d.
  - eapply parse_ruledef_d; eassumption.
  - eapply parse_ruledef_d; eassumption.
  - unfold expr_directive in H. repeat (first [use_px | dstep]); simple_d.
Qed.
End DirDepth.

Lemma parse_instruction_d ed w n w' : parse_instruction w = POk n w' -> node_dok ed n.
Proof. intros H. unfold parse_instruction in H. repeat dstep. apply node_dok_simple; [intros; discriminate | constructor]. Qed.

Definition kdinv (fuel : nat) : Prop :=
  (forall bd ed nested w acc r w', Forall (node_dok ed) acc -> parse_lines_d fuel bd ed nested w acc = POk r w' -> Forall (node_dok ed) r) /\
  (forall bd ed w r w', parse_line_d fuel bd ed w = POk r w' -> forall n, r = Some n -> node_dok ed n) /\
  (forall bd ed header w r w', parse_if_d fuel bd ed header w = POk r w' -> node_dok ed r) /\
  (forall bd ed w r w', parse_braced_d fuel bd ed w = POk r w' -> Forall (node_dok ed) r) /\
  (forall bd ed w r w', parse_else_d fuel bd ed w = POk r w' -> forall fa, r = Some fa -> Forall (node_dok ed) fa) /\
  (forall bd d w r w', asm_hook fuel bd d w = POk r w' -> PayD d r).

Lemma kdinv_all fuel : kdinv fuel.
Proof.
  induction fuel as [|f IH].
  - unfold kdinv. repeat split; intros; discriminate.
  - destruct IH as (K1 & K2 & K3 & K4 & K5 & K6).
    unfold kdinv. repeat match goal with |- _ /\ _ => split end.
    + intros bd ed nested w acc r w' Ha H. rewrite parse_lines_d_S in H. repeat dstep.
      all: try (apply Forall_rev; assumption).
      all: eapply K1; [|eassumption];
           match goal with |- Forall _ (match ?a with _ => _ end) => destruct a eqn:?; [constructor; [eapply K2; [eassumption|reflexivity] | assumption] | assumption] end.
    + intros bd ed w r w' H n E. subst r. rewrite parse_line_d_S in H.
      destruct (xnext_useful_is w THash).
      * repeat dstep.
        all: first [ eapply K3; eassumption
                   | eapply parse_directive_d; [|eassumption]; intros; eapply K6; eassumption ].
      * repeat dstep.
        -- eapply parse_symbol_d; [|eassumption]. intros; eapply K6; eassumption.
        -- eapply parse_instruction_d; eassumption.
    + intros bd ed header w r w' H. rewrite parse_if_d_S in H. repeat dstep.
      apply gparse_expr_depth with (PayD := PayD) in Hm; [|intros; eapply K6; eassumption].
      apply node_dok_if; [exact Hm | eapply K4; eassumption | intros fa E; eapply K5; eassumption].
    + intros bd ed w r w' H. rewrite parse_braced_d_S in H. repeat dstep. eapply K1; [|eassumption]. constructor.
    + intros bd ed w r w' H fa E. subst r. rewrite parse_else_d_S in H. repeat dstep.
      * eapply K4; eassumption.
      * constructor; [eapply K3; eassumption | constructor].
    + intros bd d w r w' H. rewrite asm_hook_S in H. repeat dstep.
      unfold PayD. cbn [snd]. eapply K1; [|eassumption]. constructor.
Qed.

Theorem parse_file_dok t nodes w : parse_file t = POk nodes w -> Forall (node_dok 0) nodes.
Proof.
  intros H. unfold parse_file, parse_lines in H. destruct (kdinv_all (file_fuel t)) as (K1 & _).
  eapply K1; [|eassumption]. constructor.
Qed.

Lemma xdepth_bound : forall k l, xdepth_ge k l -> forall ed, Forall (node_dok ed) l -> k = 0%nat \/ (ed + k <= MAX)%nat.
Proof.
  induction 1 as [l | j n e l Hin He Hp | j k n e asp body l Hin He Hp Hn IH | k sp c tr fl l Hin Hn IH | k sp c tr fa l Hin Hn IH]; intros ed Hl.
  - left. reflexivity.
  - right. rewrite Forall_forall in Hl. specialize (Hl _ Hin). inversion Hl as [? ? Hx _]; subst.
    destruct (Hx _ _ _ He Hp) as [L _]. lia.
  - right. rewrite Forall_forall in Hl. specialize (Hl _ Hin). inversion Hl as [? ? Hx _]; subst.
    destruct (Hx _ _ _ He Hp) as [L P]. destruct (P _ eq_refl) as (d & Hd & Hb). cbn [snd] in Hb.
    destruct (IH _ Hb) as [->|Hk]; lia.
  - rewrite Forall_forall in Hl. specialize (Hl _ Hin). inversion Hl as [? ? _ Hif]; subst.
    destruct (Hif _ _ _ _ eq_refl) as [Ht _]. exact (IH _ Ht).
  - rewrite Forall_forall in Hl. specialize (Hl _ Hin). inversion Hl as [? ? _ Hif]; subst.
    destruct (Hif _ _ _ _ eq_refl) as [_ Hf]. exact (IH _ (Hf _ eq_refl)).
Qed.

(* the expression depth the code counts is cumulative across asm blocks: along ANY path of an accepted AST - through #if
   arms, through asm blocks inside expressions, in any alternation - one level per expression entered plus one per
   unary operator / ternary branch / slice bound / block element / call argument stays within PARSE_DEPTH_MAX *)
Theorem C19_expr_depth_cumulative : forall t nodes w k, parse_file t = POk nodes w -> xdepth_ge k nodes -> (k <= MAX)%nat.
Proof.
  intros t nodes w k H Hx. apply parse_file_dok in H. destruct (xdepth_bound k nodes Hx 0%nat H) as [->|Hk]; lia.
Qed.

(* both counters together: along any path the blocks (#if arms + asm blocks) and the expression levels are each bounded
   by the limit, so the nesting the line parser can be driven into is LINEAR in the limit (before the two repairs asm
   blocks were not counted at all and every asm body restarted the expression depth: limit x limit and beyond).
   Not covered by either counter: the length of an #elif chain (AsmParserP.C19_elif_chain_unbounded_witness, F56). *)
Theorem C19_nesting_linear : forall t nodes w kb ke, parse_file t = POk nodes w -> nest_ge kb nodes -> xdepth_ge ke nodes ->
  (kb + ke <= 2 * MAX)%nat.
Proof.
  intros t nodes w kb ke H Hb He. pose proof (C19_block_depth t nodes w kb H Hb). pose proof (C19_expr_depth_cumulative t nodes w ke H He). lia.
Qed.

(* non-vacuity: `x=-asm{y=-1` / `}` : expression x (1) + unary (1) + expression y inside the asm block (1) + unary (1) *)
Definition dsample_inner : list anode := [NConst (Some (7, 8)%N) 0%N [121%N] false (GUn Neg (GNum 1%N None))].
Definition dsample_expr : xexpr := GUn Neg (GAsm (3, 13)%N dsample_inner).
Definition dsample_nodes : list anode := [NConst (Some (0, 1)%N) 0%N [120%N] false dsample_expr].
Example C19_expr_depth_cumulative_nonvacuous :
  exists w, parse_file [120;61;45;97;115;109;123;121;61;45;49;10;125;10]%N = POk dsample_nodes w /\ xdepth_ge 4 dsample_nodes /\ nest_ge 1 dsample_nodes.
Proof.
  eexists. split; [vm_compute; reflexivity|]. split.
  - apply (xd_asm 1 2 (NConst (Some (0, 1)%N) 0%N [120%N] false dsample_expr) dsample_expr (3, 13)%N dsample_inner).
    + left. reflexivity.
    + left. reflexivity.
    + apply ep_un. apply ep_asm.
    + apply (xd_leaf 1 (NConst (Some (7, 8)%N) 0%N [121%N] false (GUn Neg (GNum 1%N None))) (GUn Neg (GNum 1%N None)));
        [left; reflexivity | left; reflexivity | apply ep_un; apply ep_here].
  - apply (ng_asm_s 0 (NConst (Some (0, 1)%N) 0%N [120%N] false dsample_expr) dsample_expr (3, 13)%N dsample_inner);
      [left; reflexivity | left; reflexivity | left; reflexivity | apply ng_zero].
Qed.
