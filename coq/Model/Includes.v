(* Model of asm::parser::parse_and_resolve_includes / parse_many_and_resolve_includes
   (src/asm/parser/mod.rs) at the granularity "a file is a list of items":
     Include p  = an `#include "p"` node,   Once = a `#once` node,   Other id = any other node
   (the generator renders text; every Other node carries an id that shows up in the output).
   The file system is an ORACLE  fs : name -> option file  (None = file not found / unreadable).
   seen  = the `seen_filenames` Vec (push before the recursive call, pop after it; only `contains`
           is ever asked, so it is a list used as a set);
   once  = the `once_filenames` HashSet (only `contains` / `insert`; never iterated);
   the third result component lists the names whose content was fetched and expanded, in order
   (every successful fileserver.get_handle + get_str of the expansion).
   Executable definitions only. *)
From Coq Require Import NArith List Bool.
From CA Require Import Model.Paths.
Import ListNotations.
Open Scope N_scope.

Inductive item := Include (p : text) | Once | Other (id : N).
Definition file := list item.
Definition is_once (i : item) : bool := match i with Once => true | _ => false end.

(* nodes of the resulting AST (ids of the Other nodes), once-set, opened files *)
Definition st := (list N * list text * list text)%type.

(* the `while node_index < root_ast.nodes.len()` loop of one file; `rec` is the recursive call *)
Fixpoint expand_items (rec : text -> list text -> list text -> res st)
    (cur : text) (items : list item) (seen once : list text) : res st :=
  match items with
  | [] => ROk ([], once, [])
  | Other id :: r =>
      match expand_items rec cur r seen once with
      | ROk (ns, o, lg) => ROk (id :: ns, o, lg)
      | e => e
      end
  | Once :: r => expand_items rec cur r seen once
  | Include p :: r =>
      match navigate cur p with
      | ROk inc =>
          if mem inc seen then RErr   (* "recursive file inclusion" *)
          else
            match rec inc (inc :: seen) once with
            | ROk (ns1, o1, lg1) =>
                match expand_items rec cur r seen o1 with
                | ROk (ns2, o2, lg2) => ROk (ns1 ++ ns2, o2, lg1 ++ lg2)
                | e => e
                end
            | e => e
            end
      | RErr => RErr
      | RPanic => RPanic
      | RFuel => RFuel
      end
  end.

Section Expand.
Variable fs : text -> option file.

Fixpoint expand (fuel : nat) (name : text) (seen once : list text) : res st :=
  match fuel with
  | O => RFuel
  | S f =>
      if mem name once then ROk ([], once, [])
      else
        match fs name with
        | None => RErr
        | Some items =>
            let once1 := if existsb is_once items then name :: once else once in
            match expand_items (expand f) name items seen once1 with
            | ROk (ns, o, lg) => ROk (ns, o, name :: lg)
            | e => e
            end
        end
  end.

(* parse_many_and_resolve_includes: a fresh seen-stack per root file, one shared once-set *)
Fixpoint expand_roots (fuel : nat) (roots : list text) (once : list text) : res st :=
  match roots with
  | [] => ROk ([], once, [])
  | r :: rest =>
      match expand fuel r [] once with
      | ROk (ns1, o1, lg1) =>
          match expand_roots fuel rest o1 with
          | ROk (ns2, o2, lg2) => ROk (ns1 ++ ns2, o2, lg1 ++ lg2)
          | e => e
          end
      | e => e
      end
  end.

Definition expand_root (fuel : nat) (root : text) : res st := expand fuel root [] [].
End Expand.

(* FileServerReal::get_handle + get_bytes: the handle table of embedded files first; a name under `<std>/`
   that is not embedded is "file not found" without looking at the disk; any other name is read from disk *)
Fixpoint assoc {A : Type} (k : text) (l : list (text * A)) : option A :=
  match l with [] => None | (k', v) :: r => if text_eqb k k' then Some v else assoc k r end.
Definition real_lookup {A : Type} (std : list (text * A)) (disk : text -> option A) (name : text) : option A :=
  match assoc name std with
  | Some c => Some c
  | None => if is_std_path name then None else disk name
  end.
