(* Model of util::SymbolManager<T> (src/util/symbol_manager.rs), of the declaration walk of
   src/asm/decls/symbol.rs (`collect`) and of the context tracking of ResolveIterator::next /
   next_simple (src/asm/resolver/iter.rs: `self.symbol_ctx = &decl.ctx` at every symbol node).
   The same walk exists a third time in asm::matcher::match_all (src/asm/matcher/mod.rs: `symbol_ctx =
   &decls.symbols.get(item_ref).ctx` at every symbol node, label or constant), where it gives the static-value
   analysis of an instruction its context: `node_ctxs` is the model of all three, and C15_lookup / C15_forward
   speak about every lookup made with `node_ctxs[i]` at node i.  A walk that updates the context at labels only
   hands the analysis a context that is not `node_ctxs[i]` (tools/props/c15.py, stream `instr`, both static
   settings, decides this on the implementation).

   ItemRef<T>            = nat (index into `decls`); `self.decls[i]` out of range = RPanic.
   HashMap<String, Ref>  = association list `amap`; `get` = first match, `insert` = replace-or-add
                           (lookups are order-independent); where the code ITERATES a map
                           (symbol_format.rs::format_recursive) the model takes `ord`, an arbitrary
                           re-ordering of the entries, and then sorts by item index as the code does.
   SymbolContext         = list text (the `hierarchy` vector).
   hierarchy_level       = nat (number of leading dots).
   get_parent conflates "no parent: the global scope" and "a component was not found": both are None,
   exactly as in the code (Option<ItemRef>); Proofs/SymbolsP.v shows the second case cannot arise for the
   contexts the assembler builds.
   Text is `list N` of Unicode scalar values.  Executable definitions only. *)
From Coq Require Import ZArith NArith List Bool Arith.
From CA Require Import Model.Paths.
Import ListNotations.
Open Scope nat_scope.

Inductive skind := KConstant | KLabel | KFunction | KOther.

(* ------------------------------------------------------------------ HashMap<String, ItemRef> *)
Definition amap := list (text * nat).

Fixpoint aget (k : text) (m : amap) : option nat :=
  match m with
  | [] => None
  | (k', v) :: r => if text_eqb k k' then Some v else aget k r
  end.

Fixpoint ainsert (k : text) (v : nat) (m : amap) : amap :=
  match m with
  | [] => [(k, v)]
  | (k', v') :: r => if text_eqb k k' then (k, v) :: r else (k', v') :: ainsert k v r
  end.

(* ------------------------------------------------------------------ SymbolDecl / SymbolManager *)
Record sdecl := mkDecl {
  sd_name : text;            (* full dotted name *)
  sd_kind : skind;
  sd_depth : nat;
  sd_ctx : list text;        (* the context that holds right after this declaration *)
  sd_children : amap }.

Record mgr := mkMgr { m_decls : list sdecl; m_globals : amap }.

Definition mgr_new : mgr := mkMgr [] [].
Definition ctx_global : list text := [].

(* get_children *)
Definition get_children (m : mgr) (parent : option nat) : res amap :=
  match parent with
  | None => ROk (m_globals m)
  | Some p => match nth_error (m_decls m) p with Some d => ROk (sd_children d) | None => RPanic end
  end.

(* get_parent: walk the context names down from parent_ref *)
Fixpoint get_parent (m : mgr) (parent : option nat) (h : list text) : res (option nat) :=
  match h with
  | [] => ROk parent
  | n :: r =>
      match get_children m parent with
      | ROk ch => match aget n ch with
                  | None => ROk None
                  | Some c => get_parent m (Some c) r
                  end
      | RErr => RErr | RPanic => RPanic | RFuel => RFuel
      end
  end.

(* traverse: descend a dotted path *)
Fixpoint traverse (m : mgr) (parent : option nat) (h : list text) : res (option nat) :=
  match h with
  | [] => ROk None
  | n :: r =>
      match get_children m parent with
      | ROk ch => match aget n ch with
                  | None => ROk None
                  | Some c => match r with [] => ROk (Some c) | _ :: _ => traverse m (Some c) r end
                  end
      | RErr => RErr | RPanic => RPanic | RFuel => RFuel
      end
  end.

Definition try_get_by_name (m : mgr) (ctx : list text) (level : nat) (h : list text) : res (option nat) :=
  if length ctx <? level then ROk None
  else
    match get_parent m None (firstn level ctx) with
    | ROk parent => traverse m parent h
    | RErr => RErr | RPanic => RPanic | RFuel => RFuel
    end.

(* get_by_name: "unknown symbol" *)
Definition get_by_name (m : mgr) (ctx : list text) (level : nat) (h : list text) : res nat :=
  match try_get_by_name m ctx level h with
  | ROk (Some r) => ROk r
  | ROk None => RErr
  | RErr => RErr | RPanic => RPanic | RFuel => RFuel
  end.

Fixpoint set_nth {A : Type} (i : nat) (x : A) (l : list A) : list A :=
  match l, i with
  | [], _ => []
  | _ :: r, O => x :: r
  | y :: r, S j => y :: set_nth j x r
  end.

(* children.insert(name, item_ref) on the parent's map *)
Definition insert_child (m : mgr) (parent : option nat) (name : text) (idx : nat) : res mgr :=
  match parent with
  | None => ROk (mkMgr (m_decls m) (ainsert name idx (m_globals m)))
  | Some p =>
      match nth_error (m_decls m) p with
      | None => RPanic
      | Some d =>
          let d' := mkDecl (sd_name d) (sd_kind d) (sd_depth d) (sd_ctx d) (ainsert name idx (sd_children d)) in
          ROk (mkMgr (set_nth p d' (m_decls m)) (m_globals m))
      end
  end.

(* declare: RErr = "symbol declaration skips a nesting level" | "duplicate symbol" *)
Definition declare (m : mgr) (ctx : list text) (name : text) (level : nat) (kind : skind) : res (mgr * nat) :=
  if length ctx <? level then RErr
  else
    match get_parent m None (firstn level ctx) with
    | ROk parent =>
        match get_children m parent with
        | ROk ch =>
            match aget name ch with
            | Some dup => match nth_error (m_decls m) dup with Some _ => RErr | None => RPanic end
            | None =>
                let idx := length (m_decls m) in
                match insert_child m parent name idx with
                | ROk m1 =>
                    let full :=
                      match parent with
                      | Some p => match nth_error (m_decls m1) p with
                                  | Some d => Some (sd_name d ++ [c_dot] ++ name)
                                  | None => None
                                  end
                      | None => Some name
                      end in
                    match full with
                    | None => RPanic
                    | Some fn =>
                        let d := mkDecl fn kind level (firstn level ctx ++ [name]) [] in
                        ROk (mkMgr (m_decls m1 ++ [d]) (m_globals m1), idx)
                    end
                | RErr => RErr | RPanic => RPanic | RFuel => RFuel
                end
            end
        | RErr => RErr | RPanic => RPanic | RFuel => RFuel
        end
    | RErr => RErr | RPanic => RPanic | RFuel => RFuel
    end.

(* ------------------------------------------------------------------ asm/decls/symbol.rs::collect *)
(* the AST as far as symbols are concerned: a symbol node (dots, name, kind, item_ref) or anything else *)
Inductive anode := ASym (level : nat) (name : text) (k : skind) (iref : option nat) | AOther.

Fixpoint collect_loop (m : mgr) (ctx : list text) (nodes : list anode) : res (mgr * list anode) :=
  match nodes with
  | [] => ROk (m, [])
  | AOther :: r =>
      match collect_loop m ctx r with
      | ROk (m', r') => ROk (m', AOther :: r')
      | RErr => RErr | RPanic => RPanic | RFuel => RFuel
      end
  | ASym l n k ir :: r =>
      match (match ir with Some i => ROk (m, i) | None => declare m ctx n l k end) with
      | ROk (m1, i) =>
          match nth_error (m_decls m1) i with
          | None => RPanic
          | Some d =>
              match collect_loop m1 (sd_ctx d) r with
              | ROk (m2, r') => ROk (m2, ASym l n k (Some i) :: r')
              | RErr => RErr | RPanic => RPanic | RFuel => RFuel
              end
          end
      | RErr => RErr | RPanic => RPanic | RFuel => RFuel
      end
  end.

Definition collect (m : mgr) (nodes : list anode) : res (mgr * list anode) := collect_loop m ctx_global nodes.

(* ResolveIterator: the SymbolContext every node is resolved in (a symbol node: its own decl.ctx) *)
Fixpoint node_ctxs (m : mgr) (ctx : list text) (nodes : list anode) : res (list (list text)) :=
  match nodes with
  | [] => ROk []
  | AOther :: r =>
      match node_ctxs m ctx r with
      | ROk cs => ROk (ctx :: cs)
      | RErr => RErr | RPanic => RPanic | RFuel => RFuel
      end
  | ASym _ _ _ ir :: r =>
      match ir with
      | None => RPanic                                   (* item_ref.unwrap() *)
      | Some i =>
          match nth_error (m_decls m) i with
          | None => RPanic
          | Some d =>
              match node_ctxs m (sd_ctx d) r with
              | ROk cs => ROk (sd_ctx d :: cs)
              | RErr => RErr | RPanic => RPanic | RFuel => RFuel
              end
          end
      end
  end.

(* ------------------------------------------------------------------ symbol_format.rs::format_recursive *)
Fixpoint insert_by_ref (x : text * nat) (l : amap) : amap :=
  match l with
  | [] => [x]
  | y :: r => if snd x <? snd y then x :: l else y :: insert_by_ref x r
  end.
Definition sort_by_ref (l : amap) : amap := fold_right insert_by_ref [] l.

Fixpoint join_dot (h : list text) : text :=
  match h with
  | [] => []
  | [x] => x
  | x :: r => x ++ [c_dot] ++ join_dot r
  end.

(* vals r = Some v  when the symbol's value is an integer and it is not `no_emit` *)
Fixpoint format_rec (fuel : nat) (ord : amap -> amap) (m : mgr) (vals : nat -> option Z)
    (children : amap) (hier : list text) : res (list (text * Z)) :=
  match fuel with
  | O => RFuel
  | S f =>
      fold_left (fun acc (c : text * nat) =>
        match acc with
        | ROk out =>
            match nth_error (m_decls m) (snd c) with
            | None => RPanic
            | Some d =>
                let h' := hier ++ [fst c] in
                let line := match vals (snd c) with Some v => [(join_dot h', v)] | None => [] end in
                match format_rec f ord m vals (sd_children d) h' with
                | ROk sub => ROk (out ++ line ++ sub)
                | RErr => RErr | RPanic => RPanic | RFuel => RFuel
                end
            end
        | e => e
        end) (sort_by_ref (ord children)) (ROk [])
  end.

Definition format_symbols (ord : amap -> amap) (m : mgr) (vals : nat -> option Z) : res (list (text * Z)) :=
  format_rec (S (length (m_decls m))) ord m vals (m_globals m) [].
