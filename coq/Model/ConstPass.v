(* Model of the constant pre-pass: the `loop` of asm::assemble (src/asm/mod.rs) restricted to programs
   without `#if` (resolve_ifs returns 0; decls::collect / defs::define_symbols are idempotent after the
   first round) and without command-line defines (C16 owns both), together with
   resolver::resolve_constants_simple / resolve_constant_simple (src/asm/resolver/constant.rs),
   resolver::eval_simple / eval_variable_simple / eval_certain / eval_variable_certain
   (src/asm/resolver/eval.rs) and defs::symbol::define (src/asm/defs/symbol.rs), over an abstract
   expression language sufficient for constants: decimal literals (unsized), references (dots, path),
   + - * (BigInt::checked_add/sub/mul of Model/BigIntOps.v).

   Points worth knowing (all read off the code):
   * eval_variable_simple looks names up in the GLOBAL context whatever the constant's own context is, so a
     reference with leading dots is never resolved by the pre-pass (hierarchy_level > 0 = length of the
     empty context -> None -> Unknown); undeclared names and labels are Unknown as well, never an error.
   * the expression evaluator (expr/eval.rs) answers a bare name that is an expression built-in (`le`,
     `sizeof`, ...) BEFORE asking the provider: the value is a function (VOther here); `pc`/`$` as first
     path component at level 0 is Unknown in the pre-pass.  These names are parameters (`names`).
   * `propagate!`: an Unknown operand returns Unknown at once; the right operand is not evaluated.
   * a constant counts as resolved in a round when its value is not Unknown; `symbol.resolved` is only set
     for statically known expressions (no reference) under optimize_statically_known, others are
     re-evaluated every round.  The loop stops when the count equals the previous round's count.
   Executable definitions only. *)
From Coq Require Import ZArith NArith List Bool Arith.
From CA Require Import Model.Paths Model.BigIntOps Model.Symbols.
Import ListNotations.
Open Scope nat_scope.

Inductive cexpr :=
| CLit (z : Z)
| CRef (lvl : nat) (path : list text)
| CAdd (a b : cexpr)
| CSub (a b : cexpr)
| CMul (a b : cexpr).

(* expr::Value as far as needed: Unknown, Integer (unsized), anything else definite (a built-in function) *)
Inductive cval := VUnknown | VInt (z : Z) | VOther.

Record names := mkNames {
  is_pc : text -> bool;            (* "$" | "pc" *)
  expr_builtin : text -> bool;     (* expr::resolve_builtin_fn(name).is_some() *)
  asm_builtin : text -> bool }.    (* asm::resolver::resolve_builtin_fn(name).is_some() *)

(* asm::Symbol *)
Record sym := mkSym { sv : cval; sresolved : bool; sstatic : bool }.

Inductive aop := OAdd | OSub | OMul.

Definition arith (op : aop) (a b : cval) : res cval :=
  match a, b with
  | VInt x, VInt y =>
      match (match op with OAdd => checked_add x y | OSub => checked_sub x y | OMul => checked_mul x y end) with
      | EOk r => ROk (VInt (bv r))
      | EErr => RErr                               (* "value is out of supported range" *)
      end
  | _, _ => RErr                                   (* "invalid argument types to operator" *)
  end.

(* the strict binary operators with `propagate!` on both operands *)
Definition binop (op : aop) (ea : res cval) (eb : unit -> res cval) : res cval :=
  match ea with
  | ROk VUnknown => ROk VUnknown
  | ROk va =>
      match eb tt with
      | ROk VUnknown => ROk VUnknown
      | ROk vb => arith op va vb
      | e => e
      end
  | e => e
  end.

(* the bare-name shortcut of Expr::eval_with_ctx *)
Definition expr_level_builtin (nm : names) (lvl : nat) (path : list text) : bool :=
  match lvl, path with
  | O, [n] => expr_builtin nm n
  | _, _ => false
  end.

Section Eval.
Variable nm : names.
Variable m : mgr.
Variable defs : list sym.

(* eval_variable_simple *)
Definition eval_variable_simple (lvl : nat) (path : list text) : res cval :=
  let lookup :=
    match try_get_by_name m ctx_global lvl path with
    | ROk (Some r) => match nth_error defs r with Some s => ROk (sv s) | None => ROk VUnknown end
    | ROk None => ROk VUnknown
    | RErr => RErr | RPanic => RPanic | RFuel => RFuel
    end in
  match lvl with
  | O => match path with
         | [] => RPanic                              (* query.hierarchy[0] *)
         | n :: _ => if is_pc nm n then ROk VUnknown else lookup
         end
  | S _ => lookup
  end.

Fixpoint eval_simple (e : cexpr) : res cval :=
  match e with
  | CLit z => ROk (VInt z)
  | CRef lvl path => if expr_level_builtin nm lvl path then ROk VOther else eval_variable_simple lvl path
  | CAdd a b => binop OAdd (eval_simple a) (fun _ => eval_simple b)
  | CSub a b => binop OSub (eval_simple a) (fun _ => eval_simple b)
  | CMul a b => binop OMul (eval_simple a) (fun _ => eval_simple b)
  end.

(* eval_variable_certain *)
Definition eval_variable_certain (lvl : nat) (path : list text) : res cval :=
  let lookup :=
    match get_by_name m ctx_global lvl path with
    | ROk r => match nth_error defs r with
               | Some s => match sv s with VUnknown => RErr | v => ROk v end   (* "unresolved symbol" *)
               | None => RErr
               end
    | RErr => RErr | RPanic => RPanic | RFuel => RFuel
    end in
  match lvl with
  | O => match path with
         | [] => RPanic
         | n :: _ => if is_pc nm n then RErr else lookup   (* "cannot get address in this context" *)
         end
  | S _ => lookup
  end.

Fixpoint eval_certain_rec (e : cexpr) : res cval :=
  match e with
  | CLit z => ROk (VInt z)
  | CRef lvl path => if expr_level_builtin nm lvl path then ROk VOther else eval_variable_certain lvl path
  | CAdd a b => binop OAdd (eval_certain_rec a) (fun _ => eval_certain_rec b)
  | CSub a b => binop OSub (eval_certain_rec a) (fun _ => eval_certain_rec b)
  | CMul a b => binop OMul (eval_certain_rec a) (fun _ => eval_certain_rec b)
  end.

(* eval_certain(...).expect_bigint(): an integer or an error *)
Definition eval_certain_int (e : cexpr) : res Z :=
  match eval_certain_rec e with
  | ROk (VInt z) => ROk z
  | ROk _ => RErr
  | RErr => RErr | RPanic => RPanic | RFuel => RFuel
  end.
End Eval.

(* Expr::is_value_statically_known with the default provider: literals and operators over them *)
Fixpoint static_known (e : cexpr) : bool :=
  match e with
  | CLit _ => true
  | CRef _ _ => false
  | CAdd a b | CSub a b | CMul a b => static_known a && static_known b
  end.

(* defs::symbol::define: one slot per declared symbol, in item order; `exprs r` = the expression when
   symbol r is a constant *)
Definition define_symbols (n : nat) (exprs : nat -> option cexpr) : list sym :=
  map (fun r => mkSym VUnknown false (match exprs r with Some e => static_known e | None => false end)) (seq 0 n).

(* resolve_constant_simple: new defs and "ResolutionState::Resolved?" *)
Definition resolve_constant_simple (nm : names) (opt : bool) (m : mgr) (defs : list sym) (c : nat * cexpr)
  : res (list sym * bool) :=
  let '(r, e) := c in
  match nth_error defs r with
  | None => RPanic
  | Some s =>
      if sresolved s then ROk (defs, true)
      else
        match eval_simple nm m defs e with
        | ROk v =>
            match v with
            | VUnknown => ROk (set_nth r (mkSym v (sresolved s) (sstatic s)) defs, false)
            | _ =>
                if opt && sstatic s then ROk (set_nth r (mkSym v true (sstatic s)) defs, true)
                else ROk (set_nth r (mkSym v (sresolved s) (sstatic s)) defs, true)
            end
        | RErr => RErr | RPanic => RPanic | RFuel => RFuel
        end
  end.

(* resolve_constants_simple: the constants of the AST in order; returns the resolved count *)
Fixpoint resolve_constants_simple (nm : names) (opt : bool) (m : mgr) (defs : list sym) (cs : list (nat * cexpr))
  : res (list sym * nat) :=
  match cs with
  | [] => ROk (defs, O)
  | c :: rest =>
      match resolve_constant_simple nm opt m defs c with
      | ROk (defs1, b) =>
          match resolve_constants_simple nm opt m defs1 rest with
          | ROk (defs2, k) => ROk (defs2, if b then S k else k)
          | e => e
          end
      | RErr => RErr | RPanic => RPanic | RFuel => RFuel
      end
  end.

(* the `loop` of asm::assemble: until the resolved count stops changing *)
Fixpoint prepass_loop (fuel : nat) (nm : names) (opt : bool) (m : mgr) (cs : list (nat * cexpr))
    (prev : nat) (defs : list sym) : res (list sym) :=
  match fuel with
  | O => RFuel
  | S f =>
      match resolve_constants_simple nm opt m defs cs with
      | ROk (defs1, k) => if k =? prev then ROk defs1 else prepass_loop f nm opt m cs k defs1
      | RErr => RErr | RPanic => RPanic | RFuel => RFuel
      end
  end.

Definition prepass (nm : names) (opt : bool) (m : mgr) (cs : list (nat * cexpr)) (defs : list sym) : res (list sym) :=
  prepass_loop (S (length cs)) nm opt m cs 0 defs.
