(* Model of src/syntax/walker.rs (cursor/limit walker), the number-literal reader of src/syntax/excerpt.rs and the
   precedence-climbing expression parser of src/expr/parser.rs.  Executable definitions only. *)
From Coq Require Import NArith ZArith List Bool.
Import ListNotations.
From CA Require Import Model.Lexer.
Open Scope N_scope.

(* ---------- walker ---------- *)
Record walker := { tail : text;   (* characters from the cursor to the end of the source *)
                   cur  : N;      (* byte offset of the cursor *)
                   lim  : N }.    (* byte limit: characters at or after it are invisible *)

Definition visible (w : walker) : text := take_bytes (lim w - cur w) (tail w).

Fixpoint drop_bytes (n : N) (t : text) : text :=
  match t with
  | c :: r => if n =? 0 then t else drop_bytes (n - utf8_len c) r
  | [] => []
  end.

Definition advance (w : walker) (n : N) : walker :=
  {| tail := drop_bytes n (tail w); cur := cur w + n; lim := lim w |}.

Definition is_ignorable (k : tkind) : bool :=
  match k with TWhitespace | TComment | TLineBreak => true | _ => false end.

Definition tkind_eqb (a b : tkind) : bool :=
  match a, b with
  | TError, TError | TWhitespace, TWhitespace | TComment, TComment | TLineBreak, TLineBreak | TIdentifier, TIdentifier
  | TNumber, TNumber | TString, TString | TKeywordAsm, TKeywordAsm | TKeywordTrue, TKeywordTrue | TKeywordFalse, TKeywordFalse
  | TParenOpen, TParenOpen | TParenClose, TParenClose | TBracketOpen, TBracketOpen | TBracketClose, TBracketClose
  | TBraceOpen, TBraceOpen | TBraceClose, TBraceClose | TDot, TDot | TComma, TComma | TColon, TColon | TColonColon, TColonColon
  | TArrowRight, TArrowRight | TArrowLeft, TArrowLeft | THeavyArrowRight, THeavyArrowRight | THash, THash | TEqual, TEqual
  | TPlus, TPlus | TMinus, TMinus | TAsterisk, TAsterisk | TSlash, TSlash | TPercent, TPercent | TQuestion, TQuestion
  | TExclamation, TExclamation | TAmpersand, TAmpersand | TVerticalBar, TVerticalBar | TCircumflex, TCircumflex | TTilde, TTilde
  | TGrave, TGrave | TAt, TAt | TDoubleAmpersand, TDoubleAmpersand | TDoubleVerticalBar, TDoubleVerticalBar
  | TDoubleEqual, TDoubleEqual | TExclamationEqual, TExclamationEqual | TLessThan, TLessThan | TDoubleLessThan, TDoubleLessThan
  | TLessThanEqual, TLessThanEqual | TGreaterThan, TGreaterThan | TDoubleGreaterThan, TDoubleGreaterThan
  | TTripleGreaterThan, TTripleGreaterThan | TGreaterThanEqual, TGreaterThanEqual => true
  | _, _ => false
  end.

(* token_at the cursor: (kind, byte length); at/after the limit: a zero-length LineBreak *)
Definition token_here (w : walker) : tkind * N :=
  if lim w <=? cur w then (TLineBreak, 0) else decide_next_token (visible w).

(* next useful token: skip ignorable ones; returns the walker positioned AT that token *)
Fixpoint next_useful (fuel : nat) (w : walker) : walker * (tkind * N) :=
  match fuel with
  | O => (w, token_here w)
  | S f =>
    let '(k, n) := token_here w in
    if lim w <=? cur w then (w, (k, n))
    else if is_ignorable k then next_useful f (advance w n) else (w, (k, n))
  end.

Definition fuel_of (w : walker) : nat := S (length (tail w)).

(* next_linebreak: Some walker-after-linebreak if only blanks/comments precede a line break (or the end) *)
Fixpoint next_linebreak (fuel : nat) (w : walker) : option walker :=
  match fuel with
  | O => None
  | S f =>
    let '(k, n) := token_here w in
    if tkind_eqb k TLineBreak then Some (advance w n)
    else if is_ignorable k then next_linebreak f (advance w n) else None
  end.
Definition at_linebreak (w : walker) : bool := match next_linebreak (fuel_of w) w with Some _ => true | None => false end.

(* maybe_expect: if the next useful token has this kind, consume it; returns its text too *)
Definition maybe_expect (w : walker) (k : tkind) : option (walker * text) :=
  let '(w', (k', n)) := next_useful (fuel_of w) w in
  if tkind_eqb k k' then Some (advance w' n, take_bytes n (visible w')) else None.
Definition next_useful_is (w : walker) (k : tkind) : bool :=
  let '(_, (k', _)) := next_useful (fuel_of w) w in tkind_eqb k k'.

(* ---------- literals ---------- *)
Definition digit_val (c : N) : option N :=
  if in_range c 48 57 then Some (c - 48)
  else if in_range c 97 122 then Some (c - 97 + 10)
  else if in_range c 65 90 then Some (c - 65 + 10) else None.

Fixpoint digits (radix : N) (t : text) (acc : N) (cnt : N) : option (N * N) :=
  match t with
  | [] => Some (acc, cnt)
  | c :: r => if c =? 95 then digits radix r acc cnt
              else match digit_val c with
                   | Some d => if d <? radix then digits radix r (acc * radix + d) (cnt + 1) else None
                   | None => None
                   end
  end.

(* excerpt_as_bigint: value and optional size *)
Definition number_literal (t : text) : option (N * option N) :=
  let '(radix, rest) :=
    match t with
    | 48 :: 98 :: r => (2, r)      (* 0b *)
    | 48 :: 111 :: r => (8, r)     (* 0o *)
    | 48 :: 120 :: r => (16, r)    (* 0x *)
    | 37 :: r => (2, r)            (* %  *)
    | 36 :: r => (16, r)           (* $  *)
    | _ => (10, t)
    end in
  match digits radix rest 0 0 with
  | Some (v, cnt) =>
    if cnt =? 0 then None
    else Some (v, if radix =? 2 then Some cnt else if radix =? 8 then Some (3 * cnt) else if radix =? 16 then Some (4 * cnt) else None)
  | None => None
  end.

(* ---------- AST (no spans in this spike) ---------- *)
Inductive unop := Neg | Not.
Inductive binop := Assign | Add | Sub | Mul | Div | Mod | Shl | Shr | And | Or | Xor | Eq | Ne | Lt | Le | Gt | Ge | LazyAnd | LazyOr | Concat.
Inductive expr :=
| ENum (v : N) (sz : option N)
| EBool (b : bool)
| EStr (raw : text)
| EVar (level : N) (path : list text)
| EUn (o : unop) (e : expr)
| EBin (o : binop) (a b : expr)
| ETern (c t f : expr)
| ESlice (l r e : expr)
| EShort (s e : expr)
| EBlock (es : list expr)
| ECall (f : expr) (args : list expr).

Inductive pres (A : Type) := POk (a : A) (w : walker) | PErr | PFuel.
Arguments POk {A}. Arguments PErr {A}. Arguments PFuel {A}.
Definition bind {A B} (m : pres A) (f : A -> walker -> pres B) : pres B :=
  match m with POk a w => f a w | PErr => PErr | PFuel => PFuel end.
Notation "'do' ( x , w ) <- m ; k" := (bind m (fun x w => k)) (at level 200, x name, w name, m at level 100, k at level 200).

Definition expect (w : walker) (k : tkind) : pres text :=
  match maybe_expect w k with Some (w', t) => POk t w' | None => PErr end.

Definition level_ops : list (list (tkind * binop)) :=        (* outermost first: concat .. multiplication *)
  [ [(TAt, Concat)]; [(TDoubleVerticalBar, LazyOr)]; [(TDoubleAmpersand, LazyAnd)];
    [(TDoubleEqual, Eq); (TExclamationEqual, Ne); (TLessThan, Lt); (TLessThanEqual, Le); (TGreaterThan, Gt); (TGreaterThanEqual, Ge)];
    [(TVerticalBar, Or)]; [(TCircumflex, Xor)]; [(TAmpersand, And)];
    [(TDoubleLessThan, Shl); (TDoubleGreaterThan, Shr)]; [(TPlus, Add); (TMinus, Sub)];
    [(TAsterisk, Mul); (TSlash, Div); (TPercent, Mod)] ].

Fixpoint find_op (w : walker) (ops : list (tkind * binop)) : option (walker * binop) :=
  match ops with
  | [] => None
  | (k, o) :: rest => match maybe_expect w k with Some (w', _) => Some (w', o) | None => find_op w rest end
  end.

Definition PARSE_DEPTH_MAX : nat := 50.

(* fuel: one unit per recursive call; depth: the code's recursion_depth counter *)
Fixpoint parse_expr (fuel : nat) (depth : nat) (w : walker) {struct fuel} : pres expr :=
  match fuel with
  | O => PFuel
  | S f =>
    let depth := S depth in
    if Nat.ltb PARSE_DEPTH_MAX depth then PErr else
    (* ternary *)
    do (c, w) <- parse_assign f depth w;
    match maybe_expect w TQuestion with
    | Some (w, _) =>
      do (t, w) <- parse_expr f depth w;
      match maybe_expect w TColon with
      | Some (w, _) => do (e, w) <- parse_expr f depth w; POk (ETern c t e) w
      | None => POk (ETern c t (EBlock [])) w
      end
    | None => POk c w
    end
  end
with parse_assign (fuel : nat) (depth : nat) (w : walker) {struct fuel} : pres expr :=
  match fuel with
  | O => PFuel
  | S f =>
    do (l, w) <- parse_levels f depth level_ops w;
    match maybe_expect w TEqual with
    | Some (w, _) => do (r, w) <- parse_expr f depth w; POk (EBin Assign l r) w
    | None => POk l w
    end
  end
with parse_levels (fuel : nat) (depth : nat) (lv : list (list (tkind * binop))) (w : walker) {struct fuel} : pres expr :=
  match fuel with
  | O => PFuel
  | S f =>
    match lv with
    | [] => parse_slice f depth w
    | ops :: inner =>
      do (l, w) <- parse_levels f depth inner w;
      binary_loop f depth ops inner l w
    end
  end
with binary_loop (fuel : nat) (depth : nat) (ops : list (tkind * binop)) (inner : list (list (tkind * binop))) (l : expr) (w : walker) {struct fuel} : pres expr :=
  match fuel with
  | O => PFuel
  | S f =>
    if at_linebreak w then POk l w else
    match find_op w ops with
    | Some (w, o) => do (r, w) <- parse_levels f depth inner w; binary_loop f depth ops inner (EBin o l r) w
    | None => POk l w
    end
  end
with parse_slice (fuel : nat) (depth : nat) (w : walker) {struct fuel} : pres expr :=
  match fuel with
  | O => PFuel
  | S f =>
    do (e, w) <- parse_short f depth w;
    if at_linebreak w then POk e w else
    match maybe_expect w TBracketOpen with
    | Some (w, _) =>
      do (l, w) <- parse_expr f depth w;
      do (_x, w) <- expect w TColon;
      do (r, w) <- parse_expr f depth w;
      do (_y, w) <- expect w TBracketClose;
      POk (ESlice l r e) w
    | None => POk e w
    end
  end
with parse_short (fuel : nat) (depth : nat) (w : walker) {struct fuel} : pres expr :=
  match fuel with
  | O => PFuel
  | S f =>
    do (e, w) <- parse_unary f depth w;
    if at_linebreak w then POk e w else
    match maybe_expect w TGrave with
    | Some (w, _) => do (s, w) <- parse_leaf f depth w; POk (EShort s e) w
    | None => POk e w
    end
  end
with parse_unary (fuel : nat) (depth : nat) (w : walker) {struct fuel} : pres expr :=
  match fuel with
  | O => PFuel
  | S f =>
    match maybe_expect w TExclamation with
    | Some (w, _) => if Nat.ltb PARSE_DEPTH_MAX (S depth) then PErr else do (e, w) <- parse_unary f (S depth) w; POk (EUn Not e) w
    | None =>
      match maybe_expect w TMinus with
      | Some (w, _) => if Nat.ltb PARSE_DEPTH_MAX (S depth) then PErr else do (e, w) <- parse_unary f (S depth) w; POk (EUn Neg e) w
      | None => parse_call f depth w
      end
    end
  end
with parse_call (fuel : nat) (depth : nat) (w : walker) {struct fuel} : pres expr :=
  match fuel with
  | O => PFuel
  | S f =>
    do (l, w) <- parse_leaf f depth w;
    if at_linebreak w then POk l w else
    match maybe_expect w TParenOpen with
    | None => POk l w
    | Some (w, _) =>
      do (args, w) <- parse_args f depth w [];
      do (_x, w) <- expect w TParenClose;
      POk (ECall l args) w
    end
  end
with parse_args (fuel : nat) (depth : nat) (w : walker) (acc : list expr) {struct fuel} : pres (list expr) :=
  match fuel with
  | O => PFuel
  | S f =>
    if next_useful_is w TParenClose then POk (rev acc) w else
    do (e, w) <- parse_expr f depth w;
    if next_useful_is w TParenClose then POk (rev (e :: acc)) w else
    do (_x, w) <- expect w TComma;
    parse_args f depth w (e :: acc)
  end
with parse_leaf (fuel : nat) (depth : nat) (w : walker) {struct fuel} : pres expr :=
  match fuel with
  | O => PFuel
  | S f =>
    if next_useful_is w TBraceOpen then
      do (_x, w) <- expect w TBraceOpen;
      do (es, w) <- parse_block f depth w [];
      do (_y, w) <- expect w TBraceClose;
      POk (EBlock es) w
    else if next_useful_is w TParenOpen then
      do (_x, w) <- expect w TParenOpen;
      do (e, w) <- parse_expr f depth w;
      do (_y, w) <- expect w TParenClose;
      POk e w
    else if next_useful_is w TIdentifier || next_useful_is w TDot then
      parse_var_dots f w 0
    else if next_useful_is w TNumber then
      do (t, w) <- expect w TNumber;
      match number_literal t with Some (v, sz) => POk (ENum v sz) w | None => PErr end
    else if next_useful_is w TString then
      do (t, w) <- expect w TString; POk (EStr t) w
    else if next_useful_is w TKeywordTrue then do (_x, w) <- expect w TKeywordTrue; POk (EBool true) w
    else if next_useful_is w TKeywordFalse then do (_x, w) <- expect w TKeywordFalse; POk (EBool false) w
    else PErr
  end
with parse_block (fuel : nat) (depth : nat) (w : walker) (acc : list expr) {struct fuel} : pres (list expr) :=
  match fuel with
  | O => PFuel
  | S f =>
    if next_useful_is w TBraceClose then POk (rev acc) w else
    do (e, w) <- parse_expr f depth w;
    match next_linebreak (fuel_of w) w with
    | Some w' => parse_block f depth w' (e :: acc)
    | None =>
      if next_useful_is w TBraceClose then POk (rev (e :: acc)) w else
      do (_x, w) <- expect w TComma;
      parse_block f depth w (e :: acc)
    end
  end
with parse_var_dots (fuel : nat) (w : walker) (level : N) {struct fuel} : pres expr :=
  match fuel with
  | O => PFuel
  | S f =>
    if at_linebreak w then parse_var_names f w level [] else
    match maybe_expect w TDot with
    | Some (w, _) => parse_var_dots f w (level + 1)
    | None => parse_var_names f w level []
    end
  end
with parse_var_names (fuel : nat) (w : walker) (level : N) (acc : list text) {struct fuel} : pres expr :=
  match fuel with
  | O => PFuel
  | S f =>
    do (name, w) <- expect w TIdentifier;
    if at_linebreak w then POk (EVar level (rev (name :: acc))) w else
    match maybe_expect w TDot with
    | Some (w, _) => parse_var_names f w level (name :: acc)
    | None => POk (EVar level (rev (name :: acc))) w
    end
  end.

Definition parse_text (t : text) : pres expr :=
  let w := {| tail := t; cur := 0; lim := bytes_len t |} in
  parse_expr (200 * (S (length t))) 0 w.

(* the binary-operator table of this model rendered with the Rust names, for the table obligation *)
From Coq Require Import String.
Definition binop_name (o : binop) : string :=
  match o with
  | Assign => "Assign" | Add => "Add" | Sub => "Sub" | Mul => "Mul" | Div => "Div" | Mod => "Mod" | Shl => "Shl" | Shr => "Shr"
  | And => "And" | Or => "Or" | Xor => "Xor" | Eq => "Eq" | Ne => "Ne" | Lt => "Lt" | Le => "Le" | Gt => "Gt" | Ge => "Ge"
  | LazyAnd => "LazyAnd" | LazyOr => "LazyOr" | Concat => "Concat"
  end%string.
Definition level_ops_as_strings : list (list (string * string)) :=
  map (map (fun ko => (tkind_name (fst ko), binop_name (snd ko)))) level_ops.
