(* Model of util::filename_navigate and helpers (src/util/file_navigation.rs) as in the
   repaired tree (F17: `..` rejected inside `<std>/` paths; F18: empty components of the
   current path dropped except a leading one).  Text is `list N` of Unicode scalar values.
   Executable definitions only.

   Platform note: filename_validate_relative rejects std::path::Component::Prefix, which only
   exists on Windows; on Unix it accepts everything, so it is the identity here. *)
From Coq Require Import NArith List Bool.
Import ListNotations.
Open Scope N_scope.

Definition text := list N.

(* Result<_,()> plus Rust panics as a value; RFuel = the model's own recursion fuel ran out *)
Inductive res (A : Type) : Type := ROk (a : A) | RErr | RPanic | RFuel.
Arguments ROk {A} a.
Arguments RErr {A}.
Arguments RPanic {A}.
Arguments RFuel {A}.

Definition c_slash : N := 47.
Definition c_bslash : N := 92.
Definition c_dot : N := 46.

Fixpoint text_eqb (a b : text) : bool :=
  match a, b with
  | [], [] => true
  | x :: a', y :: b' => (x =? y) && text_eqb a' b'
  | _, _ => false
  end.

Fixpoint mem (x : text) (l : list text) : bool :=
  match l with [] => false | y :: r => text_eqb x y || mem x r end.

(* str::starts_with *)
Fixpoint starts_with (p s : text) : bool :=
  match p, s with
  | [], _ => true
  | x :: p', y :: s' => (x =? y) && starts_with p' s'
  | _ :: _, [] => false
  end.

(* "<std>/" *)
Definition std_prefix : text := [60; 115; 116; 100; 62; 47].
Definition is_std_path (path : text) : bool := starts_with std_prefix path.

(* str::split(pred): first piece and the remaining pieces (there is always a first piece) *)
Fixpoint split1 (f : N -> bool) (s : text) : text * list text :=
  match s with
  | [] => ([], [])
  | c :: r => let (h, t) := split1 f r in if f c then ([], h :: t) else (c :: h, t)
  end.
Definition split_on (f : N -> bool) (s : text) : list text := let (h, t) := split1 f s in h :: t.

Definition is_sep (c : N) : bool := (c =? c_slash) || (c =? c_bslash).
Definition is_slash (c : N) : bool := c =? c_slash.

Definition dot : text := [c_dot].
Definition dotdot : text := [c_dot; c_dot].
Definition is_empty (s : text) : bool := match s with [] => true | _ => false end.
Definition is_nil {A : Type} (l : list A) : bool := match l with [] => true | _ => false end.

(* str::replace("\\", "/") *)
Definition replace_bslash (s : text) : text := map (fun c => if c =? c_bslash then c_slash else c) s.

(* Vec::remove(len - 1): panics on the empty vector (len - 1 underflows) *)
Fixpoint remove_last {A : Type} (l : list A) : option (list A) :=
  match l with
  | [] => None
  | [_] => Some []
  | x :: r => match remove_last r with Some r' => Some (x :: r') | None => None end
  end.

(* retain: the first component always stays, later ones only when non-empty *)
Definition retain_components (l : list text) : list text :=
  match l with [] => [] | h :: t => h :: filter (fun s => negb (is_empty s)) t end.

(* the `..` loop; `acc` is new_path_components in reverse; None = "cannot navigate out" *)
Fixpoint collapse (acc : list text) (l : list text) : option (list text) :=
  match l with
  | [] => Some (rev acc)
  | c :: r =>
      if text_eqb c dotdot
      then match acc with [] => None | _ :: acc' => collapse acc' r end
      else collapse (c :: acc) r
  end.

Fixpoint join (l : list text) : text :=
  match l with
  | [] => []
  | [x] => x
  | x :: r => x ++ c_slash :: join r
  end.

Definition navigate (current relative : text) : res text :=
  if is_std_path relative then
    if existsb (fun s => text_eqb s dotdot) (split_on is_sep relative) then RErr
    else ROk relative
  else
    let current := replace_bslash current in
    let nav := replace_bslash relative in
    match remove_last (split_on is_slash current) with
    | None => RPanic
    | Some comps =>
        let comps := retain_components comps in
        let comps := if starts_with [c_slash] nav then [] else comps in
        let rel := filter (fun s => negb (is_empty s) && negb (text_eqb s dot)) (split_on is_slash nav) in
        if is_nil rel then RErr
        else
          match collapse [] (comps ++ rel) with
          | None => RErr
          | Some out =>
              let name := join out in
              if is_nil out || text_eqb name [] || text_eqb name dot || text_eqb name [c_slash]
              then RErr else ROk name
          end
    end.
