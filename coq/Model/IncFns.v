(* Model of the range logic of the builtin inclusion functions incbin / incbinstr / inchexstr
   (src/asm/resolver/eval_fn.rs: eval_builtin_incbin, eval_builtin_incstr) as in the repaired tree
   (F5: start + size saturates; F6/F23: the empty-file shortcut only without an explicit range;
   start*bits / end*bits compared with saturating multiplication).
   The file content is given (the file lookup goes through Paths.navigate and the file-system oracle).
   usize arithmetic is checked: an overflow or a bad slice is RPanic.  Executable definitions only. *)
From Coq Require Import ZArith NArith List Bool.
From CA Require Import Model.Paths.
Import ListNotations.
Open Scope Z_scope.

Definition usize_max : Z := 18446744073709551615.

(* Value::expect_usize on an integer value (BigInt::checked_into::<usize>) *)
Definition expect_usize (v : Z) : option Z :=
  if (0 <=? v) && (v <=? usize_max) then Some v else None.

Definition sat_add (a b : Z) : Z := if a + b <=? usize_max then a + b else usize_max.
Definition sat_mul (a b : Z) : Z := if a * b <=? usize_max then a * b else usize_max.
Definition checked_mul (a b : Z) : option Z := if a * b <=? usize_max then Some (a * b) else None.
Definition checked_sub (a b : Z) : option Z := if b <=? a then Some (a - b) else None.

(* the arguments after the file name *)
Inductive inc_args := A1 | A2 (start : Z) | A3 (start size : Z).
Definition is_A1 (a : inc_args) : bool := match a with A1 => true | _ => false end.

Definition arg_start (a : inc_args) : option Z :=
  match a with A1 => Some 0 | A2 s => expect_usize s | A3 s _ => expect_usize s end.
(* `end`: start.saturating_add(size) or the default *)
Definition arg_end (a : inc_args) (start dflt : Z) : option Z :=
  match a with
  | A3 _ sz => match expect_usize sz with Some sz => Some (sat_add start sz) | None => None end
  | _ => Some dflt
  end.

(* &v[s..e]: panics unless s <= e <= len *)
Definition slice_range {A : Type} (l : list A) (s e : Z) : option (list A) :=
  if (0 <=? s) && (s <=? e) && (e <=? Z.of_nat (length l))
  then Some (firstn (Z.to_nat (e - s)) (skipn (Z.to_nat s) l)) else None.

(* incbin: the bytes of the result (value = from_bytes_be, size = 8 * length) *)
Definition incbin (bytes : list N) (a : inc_args) : res (list N) :=
  let len := Z.of_nat (length bytes) in
  match arg_start a with
  | None => RErr
  | Some start =>
      match arg_end a start len with
      | None => RErr
      | Some e =>
          if (len =? 0) && is_A1 a then ROk []
          else if start >=? len then RErr
          else if e >? len then RErr
          else match slice_range bytes start e with Some b => ROk b | None => RPanic end
      end
  end.

(* skipped characters: syntax::is_whitespace (space, tab, CR), '_', CR, LF *)
Definition is_blank (c : N) : bool :=
  ((c =? 32) || (c =? 9) || (c =? 13) || (c =? 95) || (c =? 10))%N.

(* char::to_digit(radix), radix <= 36 *)
Definition to_digit (radix : N) (c : N) : option N :=
  let d := (if (48 <=? c) && (c <=? 57) then Some (c - 48)
            else if (97 <=? c) && (c <=? 122) then Some (c - 97 + 10)
            else if (65 <=? c) && (c <=? 90) then Some (c - 65 + 10)
            else None)%N in
  match d with Some d => if (d <? radix)%N then Some d else None | None => None end.

(* the bits written for one digit: (digit & (1 << (bpc - 1 - i))) != 0 for i = 0 .. bpc-1 *)
Fixpoint digit_bits (k : nat) (d : N) : list bool :=
  match k with O => [] | S k' => N.testbit d (N.of_nat k') :: digit_bits k' d end.

(* the digit values of the file, blanks skipped; None = "invalid character in file contents" *)
Fixpoint read_digits (bpc : nat) (chars : list N) : option (list N) :=
  match chars with
  | [] => Some []
  | c :: r =>
      if is_blank c then read_digits bpc r
      else match to_digit (2 ^ N.of_nat bpc) c with
           | None => None
           | Some d => match read_digits bpc r with Some ds => Some (d :: ds) | None => None end
           end
  end.

Definition digits_bits (bpc : nat) (ds : list N) : list bool := flat_map (digit_bits bpc) ds.

(* BigInt::slice(left, right) on a non-negative value whose `size` bits, most significant first, are
   `bits`: the result is bits left-1 .. right (bit i sits at position size-1-i).
   Rust panics when left < right; left <= size always holds at the call site (checked here). *)
Definition bit_slice (bits : list bool) (left right : Z) : option (list bool) :=
  let size := Z.of_nat (length bits) in
  if (0 <=? right) && (right <=? left) && (left <=? size)
  then Some (firstn (Z.to_nat (left - right)) (skipn (Z.to_nat (size - left)) bits)) else None.

(* incbinstr (bpc = 1) / inchexstr (bpc = 4): the bits of the result (size = their number) *)
Definition incstr (bpc : nat) (chars : list N) (a : inc_args) : res (list bool) :=
  match read_digits bpc chars with
  | None => RErr
  | Some ds =>
      let bits := digits_bits bpc ds in
      let size := Z.of_nat (length bits) in
      let b := Z.of_nat bpc in
      if size >? usize_max then RPanic     (* BitVec::len is a usize *)
      else if b =? 0 then RPanic           (* bigint_size / bits_per_char *)
      else
      match arg_start a with
      | None => RErr
      | Some start =>
          match arg_end a start (size / b) with
          | None => RErr
          | Some e =>
              if (size =? 0) && is_A1 a then ROk []
              else if sat_mul start b >=? size then RErr
              else if sat_mul e b >? size then RErr
              else
                match checked_mul start b, checked_mul e b with
                | Some sb, Some eb =>
                    match checked_sub size sb, checked_sub size eb with
                    | Some l, Some r =>
                        match bit_slice bits l r with Some x => ROk x | None => RPanic end
                    | _, _ => RPanic
                    end
                | _, _ => RPanic
                end
          end
      end
  end.

Definition incbinstr := incstr 1.
Definition inchexstr := incstr 4.
