(* Executable model of src/util/char_counter.rs (as in the repaired tree: byte-based line/column and line
   range) and of the location arithmetic of src/diagn/report.rs (get_line_info / print_msg_src).
   Definitions only; the lemmas are in Proofs/CharCounterP.v, the property statements in Props/C13.v.

   Text is a list of Unicode scalar values ([list N]); byte offsets are offsets into its UTF-8 encoding.
   [str::get(a..b).unwrap()] is modelled by [get_excerpt], which is [Panic] when a > b, b > len or either
   end is not on a character boundary.

   usize counters: every counter below (line, column, byte position) is bounded by the byte length of the
   text (Proofs/CharCounterP.v: [linecol_bounded], [line_range_total], [length_lines_nl]), and a Rust [str] is
   at most isize::MAX bytes long, so none of the [+= 1] (nor the [+ 3] of get_line_info) can overflow; they
   are therefore modelled by plain [N] addition.

   The PINNED algorithms (chars: Vec<char> indexed by what is really a byte index; defects F2/F3) are modelled
   too, with the suffix [_pinned]; Props/C13.v refutes the property for them. *)
From Coq Require Import NArith List Bool.
Import ListNotations.
Open Scope N_scope.

Definition text := list N.
Definition NL : N := 10.

(* ---------------------------------------------------------------- UTF-8 *)
Definition utf8_len (c : N) : N :=
  if c <? 128 then 1 else if c <? 2048 then 2 else if c <? 65536 then 3 else 4.

Definition utf8_bytes (c : N) : list N :=
  if c <? 128 then [c]
  else if c <? 2048 then [192 + c / 64; 128 + c mod 64]
  else if c <? 65536 then [224 + c / 4096; 128 + (c / 64) mod 64; 128 + c mod 64]
  else [240 + c / 262144; 128 + (c / 4096) mod 64; 128 + (c / 64) mod 64; 128 + c mod 64].

Fixpoint byte_len (t : text) : N :=
  match t with [] => 0 | c :: r => utf8_len c + byte_len r end.

(* src.as_bytes() *)
Fixpoint encode (t : text) : list N :=
  match t with [] => [] | c :: r => utf8_bytes c ++ encode r end.

(* ---------------------------------------------------------------- panics are values *)
Inductive cres (A : Type) : Type := Ok (a : A) | Panic.
Arguments Ok {A} a.
Arguments Panic {A}.

(* ---------------------------------------------------------------- str::get(start..end) *)
(* [split_at t i] = (chars before byte offset i, chars from it); None when i is inside a character or past the end *)
Fixpoint split_at (t : text) (i : N) : option (text * text) :=
  if i =? 0 then Some ([], t)
  else match t with
       | [] => None
       | c :: r =>
         if i <? utf8_len c then None
         else match split_at r (i - utf8_len c) with
              | Some (a, b) => Some (c :: a, b)
              | None => None
              end
       end.

Definition is_char_boundary (t : text) (i : N) : bool :=
  match split_at t i with Some _ => true | None => false end.

(* CharCounter::get_excerpt : self.src.get(start..end).unwrap() *)
Definition get_excerpt (t : text) (start end_ : N) : cres text :=
  if end_ <? start then Panic
  else match split_at t start with
       | None => Panic
       | Some (_, rest) =>
         match split_at rest (end_ - start) with
         | None => Panic
         | Some (x, _) => Ok x
         end
       end.

(* ---------------------------------------------------------------- get_line_count *)
Fixpoint count_nl (t : text) : N :=
  match t with [] => 0 | c :: r => if c =? NL then 1 + count_nl r else count_nl r end.

Definition get_line_count (t : text) : N := 1 + count_nl t.

(* ---------------------------------------------------------------- get_line_column_at_index (repaired)
   for (i, c) in self.src.char_indices() { if i >= index { break; }
       if c == '\n' { line += 1; column = 0; } else { column += 1; } } *)
Fixpoint lc_loop (index off : N) (t : text) (line col : N) : N * N :=
  match t with
  | [] => (line, col)
  | c :: r =>
    if index <=? off then (line, col)
    else if c =? NL then lc_loop index (off + utf8_len c) r (line + 1) 0
    else lc_loop index (off + utf8_len c) r line (col + 1)
  end.

Definition get_line_column_at_index (t : text) (index : N) : N * N :=
  lc_loop index 0 t 0 0.

(* PINNED: let mut i = 0; while i < index && i < self.chars.len() { if self.chars[i] == '\n' ...; i += 1; }
   (i counts characters, index is a byte offset) *)
Fixpoint lc_loop_pinned (index i : N) (chars : text) (line col : N) : N * N :=
  match chars with
  | [] => (line, col)
  | c :: r =>
    if index <=? i then (line, col)
    else if c =? NL then lc_loop_pinned index (i + 1) r (line + 1) 0
    else lc_loop_pinned index (i + 1) r line (col + 1)
  end.

Definition get_line_column_at_index_pinned (t : text) (index : N) : N * N :=
  lc_loop_pinned index 0 t 0 0.

(* ---------------------------------------------------------------- get_index_range_of_line (repaired)
   let bytes = self.src.as_bytes();
   while line_count < line && line_begin < bytes.len() { line_begin += 1; if bytes[line_begin-1] == b'\n' { line_count += 1; } }
   let mut line_end = line_begin;
   while line_end < bytes.len() { line_end += 1; if bytes[line_end-1] == b'\n' { break; } }
   The loops walk a slice; the model walks the remaining elements ([bs] = bytes[pos..]). The same two loops
   serve the pinned code, which runs them over self.chars instead of the bytes. *)
Fixpoint find_line_begin (line line_count pos : N) (bs : list N) : N * list N :=
  if line <=? line_count then (pos, bs)
  else match bs with
       | [] => (pos, [])
       | b :: r => find_line_begin line (if b =? NL then line_count + 1 else line_count) (pos + 1) r
       end.

Fixpoint find_line_end (pos : N) (bs : list N) : N :=
  match bs with
  | [] => pos
  | b :: r => if b =? NL then pos + 1 else find_line_end (pos + 1) r
  end.

Definition range_of_line_in (units : list N) (line : N) : N * N :=
  let '(b, rest) := find_line_begin line 0 0 units in (b, find_line_end b rest).

Definition get_index_range_of_line (t : text) (line : N) : N * N :=
  range_of_line_in (encode t) line.

(* PINNED: the same loops over self.chars (so the result is a pair of CHARACTER indices, later used as bytes) *)
Definition get_index_range_of_line_pinned (t : text) (line : N) : N * N :=
  range_of_line_in t line.

(* ---------------------------------------------------------------- report.rs: get_line_info / print_msg_src *)
Record line_info := mk_line_info {
  li_line1 : N; li_col1 : N; li_line2 : N; li_col2 : N; li_excerpt_line1 : N; li_excerpt_line2 : N }.

Definition get_line_info_with (lc : text -> N -> N * N) (t : text) (start end_ : N) (short_excerpt : bool) : line_info :=
  let '(line1, col1) := lc t start in
  let '(line2, col2) := lc t end_ in
  let lines_before := if short_excerpt then 0 else 2 in
  let lines_after := if short_excerpt then 1 else 3 in
  let excerpt_line1 := if line1 <? lines_before then 0 else line1 - lines_before in
  let excerpt_line2 := if get_line_count t <=? line2 + lines_after then get_line_count t else line2 + lines_after in
  mk_line_info line1 col1 line2 col2 excerpt_line1 excerpt_line2.

Fixpoint nrange (from : N) (n : nat) : list N :=
  match n with O => [] | S k => from :: nrange (from + 1) k end.

(* for line in excerpt_line1..excerpt_line2 { let line_pos = counter.get_index_range_of_line(line);
       let excerpt = counter.get_excerpt(line_pos.0, line_pos.1) ... }      (the rest is formatting, no failing op) *)
Fixpoint excerpts_with (rg : text -> N -> N * N) (t : text) (lines : list N) : cres (list (N * text)) :=
  match lines with
  | [] => Ok []
  | l :: r =>
    let '(b, e) := rg t l in
    match get_excerpt t b e with
    | Panic => Panic
    | Ok x => match excerpts_with rg t r with Panic => Panic | Ok xs => Ok ((l + 1, x) :: xs) end
    end
  end.

(* what print_msg_src shows for a located span: the printed line and column ("file:line:col:") and the excerpt
   lines (printed line number, characters of the line) *)
Definition print_msg_src_with (lc : text -> N -> N * N) (rg : text -> N -> N * N)
    (t : text) (start end_ : N) (short_excerpt : bool) : cres (N * N * list (N * text)) :=
  let li := get_line_info_with lc t start end_ short_excerpt in
  match excerpts_with rg t (nrange (li_excerpt_line1 li) (N.to_nat (li_excerpt_line2 li - li_excerpt_line1 li))) with
  | Panic => Panic
  | Ok xs => Ok (li_line1 li + 1, li_col1 li + 1, xs)
  end.

Definition get_line_info := get_line_info_with get_line_column_at_index.
Definition print_msg_src := print_msg_src_with get_line_column_at_index get_index_range_of_line.
Definition print_msg_src_pinned := print_msg_src_with get_line_column_at_index_pinned get_index_range_of_line_pinned.
