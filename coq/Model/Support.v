(* forces the numeric datatypes into every extracted module so that ocaml/common.ml type-checks against it *)
From Coq Require Import ZArith NArith.
Definition support_types (a : nat) (b : N) (c : Z) (d : positive) : nat * N * Z * positive := (a, b, c, d).
