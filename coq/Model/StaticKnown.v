(* Model of the static-value analysis behind --debug-no-optimize-static (C08, static half):
     src/expr/inspect.rs        Expr::is_value_statically_known, StaticallyKnownProvider (locals, query_variable, query_function)
     src/expr/builtin_fn.rs     get_statically_known_value_builtin_fn
     src/asm/resolver/eval_fn.rs get_statically_known_builtin_fn
     src/asm/defs/symbol.rs     Symbol::value_statically_known        (constants; labels are never known)
     src/asm/defs/data_block.rs DataElement::encoding_statically_known
     src/asm/matcher/mod.rs     get_match_statically_known, instr.encoding_statically_known = all matches
   on the language fragment of Model/Resolver.v.  Executable definitions only. *)
From Coq Require Import NArith ZArith List Bool.
Import ListNotations.
From CA Require Import Model.Lexer Model.Parser Model.Literal Model.BigIntOps Model.Evaluator Model.Matcher Model.Resolver.

Definition s_incbin : text := ([105;110;99;98;105;110])%N.
Definition s_incbinstr : text := ([105;110;99;98;105;110;115;116;114])%N.
Definition s_inchexstr : text := ([105;110;99;104;101;120;115;116;114])%N.

(* expr::get_statically_known_value_builtin_fn: every expression built-in except `assert` *)
Definition known_value_builtin (n : text) : bool :=
  if text_eqb n s_assert then false
  else text_eqb n s_sizeof || text_eqb n s_le || text_eqb n s_ascii || text_eqb n s_utf8 || text_eqb n s_utf16be
       || text_eqb n s_utf16le || text_eqb n s_utf32be || text_eqb n s_utf32le || text_eqb n s_strlen.

(* asm::resolver::get_statically_known_builtin_fn (the provider's query_function everywhere it is installed) *)
Definition known_asm_builtin (n : text) : bool :=
  text_eqb n s_incbin || text_eqb n s_incbinstr || text_eqb n s_inchexstr.

(* provider.locals: a map name -> value_known; later insertions win, so the most recent binding is kept in front *)
Fixpoint lookupb (l : list (text * bool)) (n : text) : option bool :=
  match l with [] => None | (k, v) :: r => if text_eqb k n then Some v else lookupb r n end.

Section Known.
Variable L : list (text * bool).           (* provider.locals *)
Variable G : N -> list text -> bool.       (* provider.query_variable *)

(* Expr::is_value_statically_known *)
Fixpoint expr_known (e : expr) {struct e} : bool :=
  match e with
  | EVar level path =>
    match level, path with
    | 0%N, [n] => match lookupb L n with Some b => b | None => G level path end
    | _, _ => G level path
    end
  | ENum _ _ | EBool _ | EStr _ => true
  | EUn _ _ => false
  | EBin _ a b => expr_known a && expr_known b
  | ESlice l r a => expr_known l && expr_known r && expr_known a
  | EShort s a => expr_known s && expr_known a
  | ETern c t f => expr_known c && expr_known t && expr_known f
  | EBlock es => (fix all (es : list expr) : bool := match es with [] => true | x :: r => expr_known x && all r end) es
  | ECall f args =>
    match f with
    | EVar 0%N names =>
      if (fix all (es : list expr) : bool := match es with [] => true | x :: r => expr_known x && all r end) args
      then match names with
           | [n] => known_value_builtin n || known_asm_builtin n
           | _ => false
           end
      else false
    | _ => false
    end
  end.
End Known.

(* a provider that knows no variable (StaticallyKnownProvider::new) *)
Definition no_globals (_ : N) (_ : list text) : bool := false.

(* constants (symbol.rs) and data elements (data_block.rs): no locals, no variable query, query_function installed *)
Definition const_known (e : expr) : bool := expr_known [] no_globals e.
Definition data_known (e : expr) : bool := expr_known [] no_globals e.

(* Symbol::value_statically_known for every symbol index: constants by their expression, labels false *)
Definition sym_known_table (nsyms : nat) (ns : list node) : list bool :=
  fold_left (fun tbl n => match n with NConst s e => set_nth tbl s (const_known e) | _ => tbl end) ns (repeat false nsyms).

(* the matcher's query_variable (as of the repair of F73): the current address `$` / `pc` is never known, whatever the
   symbol table says; otherwise decls.symbols.try_get_by_name in the global context, then symbol.value_statically_known.
   In this fragment only level-0 single names denote symbols.  `pccheck` = true is the code; false is the definition
   before the repair (kept only to show why the test is needed: Props C08_static_pccheck_needed). *)
Definition global_known (pccheck : bool) (names : list text) (ksym : list bool) (level : N) (path : list text) : bool :=
  match level, path with
  | 0%N, first :: rest =>
    if pccheck && (text_eqb first s_dollar || text_eqb first s_pc) then false else
    match rest with
    | [] => match find_sym names first 0 with
            | Some i => match nth_error ksym i with Some b => b | None => false end
            | None => false
            end
    | _ => false
    end
  | _, _ => false
  end.

(* matcher::get_match_statically_known (as of the repair of F72: all_args_known && body).  Arguments are judged in the
   instruction's scope (no locals); the rule body with one local per parameter.  The matcher builds one argument per
   parameter, of the matching kind.  `argcheck` = true is the code; false is the definition before the repair (kept
   only to show why the condition is needed: Props C08_static_argcheck_needed). *)
Fixpoint match_known (argcheck : bool) (defs : list ruledef) (G : N -> list text -> bool) (m : imatch) {struct m} : bool :=
  match m with
  | IMatch rd ru args _ =>
    match get_rule defs rd ru with
    | None => false
    | Some r =>
      let '(L, all_args_known) :=
        (fix go (args : list iarg) (params : list (text * pty)) (acc : list (text * bool)) (all : bool) : list (text * bool) * bool :=
           match args, params with
           | a :: ar, (pn, pt) :: pr =>
             match pt, a with
             | TyRule _, ANested nm _ _ _ => let k := match_known argcheck defs G nm in go ar pr ((pn, k) :: acc) (all && k)
             | TyRule _, AExpr _ _ _ _ => go ar pr acc all
             | _, AExpr e _ _ _ => let k := expr_known [] G e in go ar pr ((pn, k) :: acc) (all && k)
             | _, ANested _ _ _ _ => go ar pr acc all
             end
           | _, _ => (acc, all)
           end) args (rparams r) [] true in
      (negb argcheck || all_args_known) && expr_known L G (rexpr r)
    end
  end.

(* instr.encoding_statically_known *)
Definition instr_known (argcheck : bool) (defs : list ruledef) (G : N -> list text -> bool) (ms : list imatch) : bool :=
  forallb (match_known argcheck defs G) ms.

(* the three tables of flags of a program *)
Record kinfo := { k_sym : list bool; k_instr : list bool; k_data : list bool }.

Definition known_info (argcheck pccheck : bool) (defs : list ruledef) (names : list text) (ns : list node) (st0 : state) : kinfo :=
  let ksym := sym_known_table (length names) ns in
  {| k_sym := ksym;
     k_instr := map (fun d => instr_known argcheck defs (global_known pccheck names ksym) (i_matches d)) (s_instr st0);
     k_data := flat_map (fun n => match n with NData _ elems => map (fun de => data_known (snd de)) elems | _ => [] end) ns |}.
