(* Model of src/util/overlap_checker.rs (OverlapChecker: a Vec of (position, size) entries kept
   sorted by position, searched with slice::binary_search_by) -- as in the repaired tree
   (zero-sized requests return Ok without being inserted, F19) and, next to it, the PINNED
   algorithm (zero-sized requests are inserted like any other).
   Executable definitions only.

   usize arithmetic is checked: `position + size` and `prev.position + prev.size` are plain `+`
   in the Rust code, so an overflow is a debug panic (a silent wrap in release); the model returns
   Panic there.  Vec indexing / Vec::insert out of range are Panic too.

   The binary search is a PARAMETER of the algorithm (`search`): the theorems quantify over every
   search function that meets the contract of slice::binary_search_by on a sorted slice
   (Spec/OverlapSpec.v: `Found i` with an equal key at i -- ANY such i -- or `Missing i` with i the
   insertion point).  `lsearch` is one such function (it returns the LAST equal index, which is what
   the std implementation of the pinned toolchain does on a sorted slice); it is the one extracted. *)
From Coq Require Import NArith List Bool.
Import ListNotations.
Open Scope N_scope.

Inductive res (A : Type) : Type := Ok (a : A) | Err | Panic.
Arguments Ok {A} a.
Arguments Err {A}.
Arguments Panic {A}.

Definition usize_max : N := 18446744073709551615.
(* `a + b` on usize: None = overflow *)
Definition checked_add (a b : N) : option N := if a + b <=? usize_max then Some (a + b) else None.

Definition entry := (N * N)%type.   (* (position, size) *)

(* Result<usize, usize> of binary_search_by *)
Inductive sres := Found (i : nat) | Missing (i : nat).

(* fn check_overlap: returns (index, maybe overlapping entry) *)
Definition check_overlap_at (es : list entry) (p s : N) (r : sres) : res (nat * option entry) :=
  match r with
  | Found i =>
      match nth_error es i with
      | None => Panic
      | Some e => if (0 <? snd e) && (0 <? s) then Ok (S i, Some e) else Ok (S i, None)
      end
  | Missing i =>
      match (if Nat.ltb i (length es) then
               match nth_error es i with
               | None => Panic
               | Some nx =>
                   match checked_add p s with
                   | None => Panic
                   | Some e => Ok (if fst nx <? e then Some nx else None)
                   end
               end
             else Ok None) with
      | Panic => Panic
      | Err => Err
      | Ok (Some nx) => Ok (i, Some nx)
      | Ok None =>
          if Nat.ltb 0 i && Nat.ltb (i - 1) (length es) then
            match nth_error es (i - 1) with
            | None => Panic
            | Some pv =>
                match checked_add (fst pv) (snd pv) with
                | None => Panic
                | Some e => if p <? e then Ok ((i - 1)%nat, Some pv) else Ok (i, None)
                end
            end
          else Ok (i, None)
      end
  end.

(* Vec::insert(index, x): panics if index > len *)
Definition insert_at (idx : nat) (e : entry) (es : list entry) : res (list entry) :=
  if Nat.leb idx (length es) then Ok (firstn idx es ++ e :: skipn idx es) else Panic.

(* the PINNED check_and_insert: every request is searched and, if not rejected, inserted *)
Definition check_and_insert_pinned_with (search : list entry -> N -> sres)
    (es : list entry) (p s : N) : res (list entry) :=
  match check_overlap_at es p s (search es p) with
  | Panic => Panic
  | Err => Err
  | Ok (_, Some _) => Err
  | Ok (idx, None) => insert_at idx (p, s) es
  end.

(* the REPAIRED check_and_insert *)
Definition check_and_insert_with (search : list entry -> N -> sres)
    (es : list entry) (p s : N) : res (list entry) :=
  if s =? 0 then Ok es else check_and_insert_pinned_with search es p s.

(* a sequence of requests on a fresh checker *)
Definition run_with (step : list entry -> N -> N -> res (list entry)) (ops : list entry)
    (es : list entry) : res (list entry) :=
  fold_left (fun acc op => match acc with Ok l => step l (fst op) (snd op) | Err => Err | Panic => Panic end)
            ops (Ok es).

(* a concrete search meeting the contract: last index with an equal key, else the insertion point *)
Fixpoint lsearch_from (es : list entry) (p : N) (k : nat) : sres :=
  match es with
  | [] => Missing k
  | e :: rest =>
      if fst e <? p then lsearch_from rest p (S k)
      else if fst e =? p then
        match lsearch_from rest p (S k) with Found j => Found j | Missing _ => Found k end
      else Missing k
  end.
Definition lsearch (es : list entry) (p : N) : sres := lsearch_from es p 0.

(* slice::binary_search_by of the pinned toolchain (core 1.82+), transcribed: `size` halves each round,
   `base` moves to `mid` unless the probed key is Greater than the target.  fuel = len suffices. *)
Fixpoint bsearch_loop (fuel : nat) (es : list entry) (p : N) (base size : nat) : option nat :=
  if Nat.leb size 1 then Some base else
  match fuel with
  | O => None
  | S fuel' =>
      let half := Nat.div2 size in
      let mid := (base + half)%nat in
      match nth_error es mid with
      | None => None
      | Some e => bsearch_loop fuel' es p (if p <? fst e then base else mid) (size - half)
      end
  end.
Definition bsearch (es : list entry) (p : N) : sres :=
  match es with
  | [] => Missing 0
  | _ =>
      match bsearch_loop (length es) es p 0 (length es) with
      | None => Missing 0      (* unreachable: see Proofs/OverlapP.v bsearch_loop_some *)
      | Some base =>
          match nth_error es base with
          | None => Missing 0  (* unreachable *)
          | Some e => if fst e =? p then Found base
                      else if fst e <? p then Missing (S base) else Missing base
          end
      end
  end.

Definition check_and_insert := check_and_insert_with bsearch.
Definition check_and_insert_pinned := check_and_insert_pinned_with bsearch.
Definition run (ops : list entry) : res (list entry) := run_with check_and_insert ops [].
Definition run_pinned (ops : list entry) : res (list entry) := run_with check_and_insert_pinned ops [].

(* the accept/reject trace of a sequence (what the harness prints): one flag per request until the
   first Panic; the checker keeps its entries after a rejected request, as the Rust object does *)
Inductive outcome := Accepted | Rejected | Panicked.
Fixpoint trace_with (step : list entry -> N -> N -> res (list entry)) (ops : list entry)
    (es : list entry) : list outcome :=
  match ops with
  | [] => []
  | (p, s) :: rest =>
      match step es p s with
      | Ok es' => Accepted :: trace_with step rest es'
      | Err => Rejected :: trace_with step rest es
      | Panic => [Panicked]
      end
  end.
Definition trace (ops : list entry) : list outcome := trace_with check_and_insert ops [].
Definition trace_pinned (ops : list entry) : list outcome := trace_with check_and_insert_pinned ops [].
