(* Model of src/driver.rs (as repaired: leftover parameters in the order given, group <= 65535, empty define
   value is an error): parse_output_format, derive_output_filename, parse_define_arg (with
   syntax::excerpt_as_bigint), parse_command starting from the per-group options delivered by getopts (an
   oracle), and the decisions of assemble_with_command.  Executable definitions only.
   The tables (match arms, validators, extensions, defaults, radix prefixes) are parameters, instantiated at
   the bottom with the ones regenerated from the source (Model/CliTables.v). *)
From Coq Require Import ZArith NArith List Bool String Ascii.
From CA Require Import Model.CliTables.
Import ListNotations.
Open Scope N_scope.
Open Scope list_scope.

Definition text := list N.                                   (* Unicode scalar values *)
(* string literals are only ever used under `Eval vm_compute in`, so that no Coq `string` reaches the extraction *)
Definition txt (s : string) : text := map N_of_ascii (list_ascii_of_string s).

Fixpoint text_eqb (a b : text) : bool :=
  match a, b with
  | [], [] => true
  | x :: a', y :: b' => (x =? y) && text_eqb a' b'
  | _, _ => false
  end.

Definition usize_max : N := 18446744073709551615.

(* what the driver can answer; the error carries what the diagnostic names (never its wording) *)
Inductive cerr :=
| EThreePart (fid param : text)              (* "invalid format argument `fid,param`"  (a:b:c) *)
| EUnknownFormat (fid : text)
| EInvalidValue (fid pid value : text)       (* not a usize, or refused by the validator *)
| EUnknownParam (fid pid : text)             (* leftover parameter *)
| EDefine (raw : text)                       (* more than one '=' *)
| EDefineValue (name : text)
| EColor | EIters
| EDerive (input : text).                    (* "cannot derive safe output filename" *)

Inductive cres (A : Type) := COk (a : A) | CErr (e : cerr) | CPanic.
Arguments COk {A} a. Arguments CErr {A} e. Arguments CPanic {A}.

Definition cbind {A B} (r : cres A) (f : A -> cres B) : cres B :=
  match r with COk a => f a | CErr e => CErr e | CPanic => CPanic end.

(* ------------------------------------------------------------------ str::split *)
(* Rust `s.split(c)`: always at least one piece *)
Fixpoint split_on (c : N) (s : text) : list text :=
  match s with
  | [] => [[]]
  | x :: r =>
    if x =? c then [] :: split_on c r
    else match split_on c r with
         | p :: ps => (x :: p) :: ps
         | [] => [[x]]                      (* never taken: split_on is non-empty (Proofs/DriverP.split_on_nonempty) *)
         end
  end.

(* ------------------------------------------------------------------ HashMap<String,String> as used here *)
Definition pmap := list (text * text).
Definition map_remove (k : text) (m : pmap) : pmap := filter (fun kv => negb (text_eqb (fst kv) k)) m.
Definition map_insert (k v : text) (m : pmap) : pmap := (k, v) :: map_remove k m.
Fixpoint map_get (k : text) (m : pmap) : option text :=
  match m with [] => None | (k', v) :: r => if text_eqb k' k then Some v else map_get k r end.
Definition map_has (k : text) (m : pmap) : bool := match map_get k m with Some _ => true | None => false end.

(* ------------------------------------------------------------------ str::parse::<usize> *)
Definition dec_digit (c : N) : option N := if (48 <=? c) && (c <=? 57) then Some (c - 48) else None.
Fixpoint dec_digits (acc : N) (s : text) : option N :=
  match s with
  | [] => Some acc
  | c :: r => match dec_digit c with None => None | Some d => dec_digits (acc * 10 + d) r end
  end.
Definition parse_usize (s : text) : option N :=
  let body := match s with 43 :: r => r | _ => s end in          (* one optional leading '+' *)
  match body with
  | [] => None
  | _ => match dec_digits 0 body with
         | Some v => if v <=? usize_max then Some v else None
         | None => None
         end
  end.

(* ------------------------------------------------------------------ parse_output_format *)
Record fmt := { f_ctor : text; f_fields : list N }.

Definition validate (v : cli_validator) (n : N) : bool :=
  match v with
  | CliRange lo hi => (lo <=? n) && (n <=? hi)
  | CliSet l => existsb (N.eqb n) l
  end.

Fixpoint lookup {A} (k : text) (l : list (text * A)) : option A :=
  match l with [] => None | (k', a) :: r => if text_eqb k' k then Some a else lookup k r end.

Definition arm := (text * text * list cli_field)%type.
Fixpoint find_arm (arms : list arm) (fid : text) : option arm :=
  match arms with
  | [] => None
  | a :: r => if text_eqb (fst (fst a)) fid then Some a else find_arm r fid
  end.

(* the first loop: one entry per parameter, later spellings of the same id replace earlier ones *)
Fixpoint build_params (fid : text) (ps : list text) (m : pmap) : cres pmap :=
  match ps with
  | [] => COk m
  | p :: r =>
    match split_on 58 p with
    | [] => CPanic
    | [id] => build_params fid r (map_insert id [] m)
    | [id; v] => build_params fid r (map_insert id v m)
    | _ => CErr (EThreePart fid p)
    end
  end.

(* get_arg_usize, field by field in the order of the arm *)
Fixpoint eval_fields (vals : list (text * cli_validator)) (fid : text) (fs : list cli_field) (m : pmap)
  : cres (list N * pmap) :=
  match fs with
  | [] => COk ([], m)
  | CliConst n :: r => cbind (eval_fields vals fid r m) (fun lm => COk (n :: fst lm, snd lm))
  | CliArg p def vn :: r =>
    match map_get p m with
    | None => cbind (eval_fields vals fid r m) (fun lm => COk (def :: fst lm, snd lm))
    | Some value =>
      match lookup vn vals with
      | None => CPanic
      | Some vd =>
        match parse_usize value with
        | Some v =>
          if validate vd v
          then cbind (eval_fields vals fid r (map_remove p m)) (fun lm => COk (v :: fst lm, snd lm))
          else CErr (EInvalidValue fid p value)
        | None => CErr (EInvalidValue fid p value)
        end
      end
    end
  end.

Definition param_id (p : text) : cres text :=
  match split_on 58 p with [] => CPanic | id :: _ => COk id end.

(* the last loop: parameters in the order given; the first one still in the map is reported *)
Fixpoint leftover (fid : text) (ps : list text) (m : pmap) : cres unit :=
  match ps with
  | [] => COk tt
  | p :: r => cbind (param_id p) (fun id => if map_has id m then CErr (EUnknownParam fid id) else leftover fid r m)
  end.

Definition parse_output_format_with (arms : list arm) (vals : list (text * cli_validator)) (s : text) : cres fmt :=
  match split_on 44 s with
  | [] => CPanic
  | fid :: ps =>
    cbind (build_params fid ps []) (fun m =>
    match find_arm arms fid with
    | None => CErr (EUnknownFormat fid)
    | Some a =>
      cbind (eval_fields vals fid (snd a) m) (fun lm =>
      cbind (leftover fid ps (snd lm)) (fun _ =>
      COk {| f_ctor := snd (fst a); f_fields := fst lm |}))
    end)
  end.

(* ------------------------------------------------------------------ derive_output_filename *)
(* std::path (Unix): the last Normal component of a path, found from the back: empty pieces and "." pieces are
   skipped, ".." is not a file name, and a leading "/" or a leading "." component are not part of the body.
   Result: the text before that component (kept verbatim) and the component. *)
Definition is_dot (p : text) : bool := text_eqb p [46].
Definition is_dotdot (p : text) : bool := text_eqb p [46; 46].

Fixpoint join_with (c : N) (ps : list text) : text :=
  match ps with [] => [] | [p] => p | p :: r => p ++ c :: join_with c r end.

(* pieces from the back (the list is reversed): returns the pieces in front (still reversed) and the component *)
Fixpoint last_normal_rev (rev_pieces : list text) : option (list text * text) :=
  match rev_pieces with
  | [] => None
  | p :: r =>
    match p with
    | [] => last_normal_rev r
    | _ => if is_dot p then last_normal_rev r
           else if is_dotdot p then None
           else Some (r, p)
    end
  end.

(* length of the part before the body: a physical root "/" or a leading "." component *)
Definition before_body (path : text) : text * text :=
  match path with
  | 47 :: r => ([47], r)
  | [46] => ([46], [])
  | 46 :: 47 :: r => ([46], 47 :: r)
  | _ => ([], path)
  end.

Definition file_name_split (path : text) : option (text * text) :=   (* (everything before the component, component) *)
  let (pre, body) := before_body path in
  match body with
  | [] => None
  | _ =>
    match last_normal_rev (rev (split_on 47 body)) with
    | None => None
    | Some (front_rev, comp) =>
      Some (pre ++ (match front_rev with [] => [] | _ => join_with 47 (rev front_rev) ++ [47] end), comp)
    end
  end.

(* rsplit_file_at_dot + file_stem: the part before the last '.', unless that part is empty or there is no '.' *)
Fixpoint last_index (c : N) (s : text) (i : nat) (found : option nat) : option nat :=
  match s with [] => found | x :: r => last_index c r (S i) (if x =? c then Some i else found) end.
Definition file_stem (name : text) : text :=
  if is_dotdot name then name
  else match last_index 46 name 0%nat None with
       | None => name
       | Some O => name                     (* ".asm": the name begins with its only dot *)
       | Some i => firstn i name
       end.

Definition replace_backslash (s : text) : text := map (fun c => if c =? 92 then 47 else c) s.

Definition extension_of (exts : list (text * text)) (dflt : text) (f : fmt) : text :=
  match lookup (f_ctor f) exts with Some e => e | None => dflt end.

(* PathBuf::set_extension with a non-empty extension *)
Definition set_extension (path ext : text) : text :=
  match file_name_split path with
  | None => path                                    (* no file name: unchanged *)
  | Some (front, comp) => front ++ file_stem comp ++ (match ext with [] => [] | _ => 46 :: ext end)
  end.

Definition derive_output_filename_with (exts : list (text * text)) (dflt : text) (f : fmt) (input : text) : cres text :=
  let out := replace_backslash (set_extension input (extension_of exts dflt f)) in
  if text_eqb out input then CErr (EDerive input) else COk out.

(* ------------------------------------------------------------------ parse_define_arg *)
Inductive dvalue := DBool (b : bool) | DInt (v : Z) (size : option N).

Fixpoint assocN (k : N) (l : list (N * N)) : option N :=
  match l with [] => None | (k', v) :: r => if k' =? k then Some v else assocN k r end.

(* syntax::parse_radix(chars, 0): (radix, characters after the prefix) *)
Definition parse_radix (p2 p1 : list (N * N)) (cs : text) : cres (N * text) :=
  match cs with
  | [] => CPanic                                              (* chars[0] *)
  | c0 :: r =>
    match (if c0 =? 48 then r else []) with
    | c1 :: r' => match assocN c1 p2 with Some rad => COk (rad, r') | None => COk (10, cs) end
    | [] => match assocN c0 p1 with Some rad => COk (rad, r) | None => COk (10, cs) end
    end
  end.

(* char::to_digit(radix) for radix <= 36 *)
Definition to_digit (radix c : N) : option N :=
  let d := if (48 <=? c) && (c <=? 57) then Some (c - 48)
           else if (97 <=? c) && (c <=? 122) then Some (c - 97 + 10)
           else if (65 <=? c) && (c <=? 90) then Some (c - 65 + 10)
           else None in
  match d with Some d => if d <? radix then Some d else None | None => None end.

Fixpoint lit_digits (radix : N) (cs : text) (value : N) (n : N) : option (N * N) :=
  match cs with
  | [] => Some (value, n)
  | c :: r =>
    if c =? 95 then lit_digits radix r value n
    else match to_digit radix c with
         | None => None
         | Some d => lit_digits radix r (value * radix + d) (n + 1)
         end
  end.

Definition radix_bits (radix : N) : option N :=
  if radix =? 2 then Some 1 else if radix =? 8 then Some 3 else if radix =? 16 then Some 4 else None.

(* syntax::excerpt_as_bigint: value and definite size; None = Err(()) *)
Definition excerpt_as_bigint (p2 p1 : list (N * N)) (empty_is_error : bool) (cs : text) : cres (option (N * option N)) :=
  match cs with
  | [] => if empty_is_error then COk None else CPanic       (* assert!(chars.len() >= 1) before the repair (F30) *)
  | _ =>
    cbind (parse_radix p2 p1 cs) (fun rr =>
    match lit_digits (fst rr) (snd rr) 0 0 with
    | None => COk None
    | Some (v, n) =>
      if n =? 0 then COk None
      else match radix_bits (fst rr) with
           | None => COk (Some (v, None))
           | Some b => if b * n <=? usize_max then COk (Some (v, Some (b * n))) else CPanic
           end
    end)
  end.

Definition t_true : text := Eval vm_compute in txt "true".
Definition t_false : text := Eval vm_compute in txt "false".

Definition parse_define_with (p2 p1 : list (N * N)) (empty_is_error : bool) (raw : text) : cres (text * dvalue) :=
  match split_on 61 raw with
  | [] => CPanic
  | [name] => COk (name, DBool true)
  | [name; value] =>
    if text_eqb value t_true then COk (name, DBool true)
    else if text_eqb value t_false then COk (name, DBool false)
    else
      let neg := match value with 45 :: _ => true | _ => false end in
      let body := match value with 45 :: r => r | _ => value end in
      cbind (excerpt_as_bigint p2 p1 empty_is_error body) (fun o =>
      match o with
      | None => CErr (EDefineValue name)
      | Some (v, sz) => COk (name, if neg then DInt (- Z.of_N v) None else DInt (Z.of_N v) sz)
      end)
  | _ => CErr (EDefine raw)
  end.

(* ------------------------------------------------------------------ parse_command, after getopts *)
(* what getopts hands over for one group (between two "--") *)
Record pgroup := {
  pg_format : option text;            (* opt_str("f") *)
  pg_output : option text;            (* opt_str("o") *)
  pg_print : bool;
  pg_quiet : bool; pg_version : bool; pg_help : bool;
  pg_defines : list text;             (* opt_strs("d") in order *)
  pg_debug_iters : bool; pg_no_static : bool; pg_no_matcher : bool;
  pg_color : option (option text);    (* opt_present("color"), opt_str("color") *)
  pg_iters : option text;             (* opt_str("t") *)
  pg_free : list text                 (* input file names *)
}.

Record cgroup := { cg_format : option fmt; cg_print : bool; cg_output : option text }.

Record command := {
  c_inputs : list text;
  c_groups : list cgroup;
  c_quiet : bool; c_colors : bool; c_version : bool; c_help : bool;
  c_iters : N;
  c_defines : list (text * dvalue);
  c_debug_iters : bool; c_opt_static : bool; c_opt_matcher : bool
}.

Record tables := {
  t_arms : list arm;
  t_vals : list (text * cli_validator);
  t_exts : list (text * text);
  t_ext_default : text;
  t_default_print : text * list N;
  t_default_file : text * list N;
  t_p2 : list (N * N); t_p1 : list (N * N);
  t_empty_is_error : bool;
  t_iters : N; t_colors : bool; t_quiet : bool
}.

Fixpoint parse_defines (T : tables) (ds : list text) : cres (list (text * dvalue)) :=
  match ds with
  | [] => COk []
  | d :: r => cbind (parse_define_with (t_p2 T) (t_p1 T) (t_empty_is_error T) d) (fun x =>
              cbind (parse_defines T r) (fun xs => COk (x :: xs)))
  end.

Definition t_on : text := Eval vm_compute in txt "on".
Definition t_off : text := Eval vm_compute in txt "off".

(* the body of the `for arg_group` loop *)
Definition step (T : tables) (c : command) (g : pgroup) : cres command :=
  cbind (match pg_format g with
         | None => COk None
         | Some s => cbind (parse_output_format_with (t_arms T) (t_vals T) s) (fun f => COk (Some f))
         end) (fun f =>
  cbind (parse_defines T (pg_defines g)) (fun ds =>
  cbind (match pg_color g with
         | None => COk (c_colors c)
         | Some (Some v) => if text_eqb v t_on then COk true else if text_eqb v t_off then COk false else CErr EColor
         | Some None => CErr EColor
         end) (fun colors =>
  cbind (match pg_iters g with
         | None => COk (c_iters c)
         | Some t => match parse_usize t with
                     | Some n => if n =? 0 then CErr EIters else COk n
                     | None => CErr EIters
                     end
         end) (fun iters =>
  COk {| c_inputs := c_inputs c ++ pg_free g;
         c_groups := c_groups c ++ [{| cg_format := f; cg_print := pg_print g; cg_output := pg_output g |}];
         c_quiet := c_quiet c || pg_quiet g;
         c_colors := colors;
         c_version := c_version c || pg_version g;
         c_help := c_help c || pg_help g;
         c_iters := iters;
         c_defines := c_defines c ++ ds;
         c_debug_iters := c_debug_iters c || pg_debug_iters g;
         c_opt_static := c_opt_static c && negb (pg_no_static g);
         c_opt_matcher := c_opt_matcher c && negb (pg_no_matcher g) |})))).

Fixpoint steps (T : tables) (c : command) (gs : list pgroup) : cres command :=
  match gs with [] => COk c | g :: r => cbind (step T c g) (fun c' => steps T c' r) end.

Definition mkfmt (p : text * list N) : fmt := {| f_ctor := fst p; f_fields := snd p |}.

(* the second loop of parse_command, for one group: default format, derived file name *)
Definition finish_group (T : tables) (first : option text) (g : cgroup) : cres cgroup :=
  let f := match cg_format g with
           | Some f => f
           | None => if cg_print g then mkfmt (t_default_print T) else mkfmt (t_default_file T)
           end in
  match cg_print g, cg_output g, first with
  | false, None, Some input =>
    cbind (derive_output_filename_with (t_exts T) (t_ext_default T) f input) (fun name =>
    COk {| cg_format := Some f; cg_print := false; cg_output := Some name |})
  | _, _, _ => COk {| cg_format := Some f; cg_print := cg_print g; cg_output := cg_output g |}
  end.

Fixpoint finish_groups (T : tables) (first : option text) (gs : list cgroup) : cres (list cgroup) :=
  match gs with
  | [] => COk []
  | g :: r => cbind (finish_group T first g) (fun g' => cbind (finish_groups T first r) (fun r' => COk (g' :: r')))
  end.

Definition initial_command (T : tables) : command :=
  {| c_inputs := []; c_groups := []; c_quiet := t_quiet T; c_colors := t_colors T; c_version := false; c_help := false;
     c_iters := t_iters T; c_defines := []; c_debug_iters := false; c_opt_static := true; c_opt_matcher := true |}.

Definition parse_command_with (T : tables) (gs : list pgroup) : cres command :=
  cbind (steps T (initial_command T) gs) (fun c =>
  cbind (finish_groups T (hd_error (c_inputs c)) (c_groups c)) (fun gs' =>
  COk {| c_inputs := c_inputs c; c_groups := gs'; c_quiet := c_quiet c; c_colors := c_colors c;
         c_version := c_version c; c_help := c_help c; c_iters := c_iters c; c_defines := c_defines c;
         c_debug_iters := c_debug_iters c; c_opt_static := c_opt_static c; c_opt_matcher := c_opt_matcher c |})).

(* ------------------------------------------------------------------ assemble_with_command *)
Inductive action := APrint (f : fmt) | AWrite (name : text) (f : fmt) | ASkip.

Definition action_of (g : cgroup) : action :=
  match cg_format g with
  | None => ASkip
  | Some f => if cg_print g then APrint f
              else match cg_output g with Some name => AWrite name f | None => ASkip end
  end.

Inductive outcome :=
| OHelp | OVersion | ONoInput
| OAsmFailed                                   (* no output: nothing is written or printed *)
| ODone (acts : list action)                   (* every group acted, in order *)
| OWriteFailed (acts : list action).           (* the actions performed before a write failed *)

(* the group loop over a write oracle *)
Fixpoint perform (wr : text -> bool) (gs : list cgroup) (done : list action) : outcome :=
  match gs with
  | [] => ODone (rev done)
  | g :: r =>
    match action_of g with
    | AWrite name f => if wr name then perform wr r (AWrite name f :: done) else OWriteFailed (rev done)
    | a => perform wr r (a :: done)
    end
  end.

(* asm_ok: does asm::assemble produce an output for these inputs, budget and defines (an oracle here) *)
Definition run_command (c : command) (asm_ok : bool) (wr : text -> bool) : outcome :=
  if c_help c then OHelp
  else if c_version c then OVersion
  else match c_inputs c with
       | [] => ONoInput
       | _ => if asm_ok then perform wr (c_groups c) [] else OAsmFailed
       end.

(* ------------------------------------------------------------------ instantiation with the regenerated tables *)
Definition gen_tables : tables :=
  {| t_arms := cli_arms; t_vals := cli_validators; t_exts := cli_extensions; t_ext_default := cli_default_extension;
     t_default_print := cli_default_print; t_default_file := cli_default_file;
     t_p2 := cli_radix_prefix2; t_p1 := cli_radix_prefix1; t_empty_is_error := cli_empty_literal_is_error;
     t_iters := cli_iters_default; t_colors := cli_colors_default; t_quiet := cli_quiet_default |}.

Definition parse_output_format (s : text) : cres fmt := parse_output_format_with cli_arms cli_validators s.
Definition derive_output_filename (f : fmt) (input : text) : cres text :=
  derive_output_filename_with cli_extensions cli_default_extension f input.
Definition parse_define (raw : text) : cres (text * dvalue) :=
  parse_define_with cli_radix_prefix2 cli_radix_prefix1 cli_empty_literal_is_error raw.
Definition parse_command (gs : list pgroup) : cres command := parse_command_with gen_tables gs.
