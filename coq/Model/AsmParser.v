(* Model of the line/directive parser of assembly text: src/asm/parser/mod.rs (parse, parse_nested_toplevel, parse_line),
   directive.rs and every directive_*.rs, fields.rs, symbol.rs, instruction.rs, the `asm { }` leaf of src/expr/parser.rs,
   Walker::advance_until_linebreak / advance_until_closing_brace / next_nth_useful_token of src/syntax/walker.rs.
   Executable definitions only.  Text -> AST (Model/AsmAst.v) with byte spans; errors are PErr, fuel exhaustion PFuel.

   Walkers are Parser.v's {tail; cur; lim} with ABSOLUTE byte offsets: a Rust sub-walker `slice(start, end)` (own src,
   span_offset = start) is the walker {tail at start; cur := start; lim := end}; a token span is (cur, cur + length).
   `block_nesting_depth` (a field of the Rust Walker, copied into slices, +1/-1 around a braced #if arm and +1 for the
   sub-walker of an asm block: both share the limit) is the explicit parameter `bd`; `expr_nesting_depth` (the
   recursion depth of the expression that encloses the text of a sub-walker; every ExpressionParser starts from it,
   so the expression depth is cumulative across asm blocks) is the explicit parameter `ed`.

   Expressions: the generic parser `gparse_expr hook` is Parser.parse_expr verbatim (same functions, same order of tests,
   same depth counter) plus the two things the code does and Parser.v leaves to its driver: string literals are unescaped
   while parsing (bad escape = error) and the KeywordAsm leaf, delegated to `hook` (instantiated with `asm_hook` below,
   which runs the LINE parser on the braced text - this is what makes the cursor agree with the code after `asm { .. }`). *)
From Coq Require Import NArith List Bool.
Import ListNotations.
From CA Require Import Model.Lexer Model.Parser Model.Literal Model.Matcher Model.AsmAst.
Open Scope N_scope.

(* directive / field / attribute names as code points *)
Definition nm_addr : text := [97; 100; 100; 114].   (* addr *)
Definition nm_addr_end : text := [97; 100; 100; 114; 95; 101; 110; 100].   (* addr_end *)
Definition nm_align : text := [97; 108; 105; 103; 110].   (* align *)
Definition nm_assert : text := [97; 115; 115; 101; 114; 116].   (* assert *)
Definition nm_bank : text := [98; 97; 110; 107].   (* bank *)
Definition nm_bankdef : text := [98; 97; 110; 107; 100; 101; 102].   (* bankdef *)
Definition nm_bits : text := [98; 105; 116; 115].   (* bits *)
Definition nm_const : text := [99; 111; 110; 115; 116].   (* const *)
Definition nm_elif : text := [101; 108; 105; 102].   (* elif *)
Definition nm_else : text := [101; 108; 115; 101].   (* else *)
Definition nm_fill : text := [102; 105; 108; 108].   (* fill *)
Definition nm_fn : text := [102; 110].   (* fn *)
Definition nm_if : text := [105; 102].   (* if *)
Definition nm_include : text := [105; 110; 99; 108; 117; 100; 101].   (* include *)
Definition nm_labelalign : text := [108; 97; 98; 101; 108; 97; 108; 105; 103; 110].   (* labelalign *)
Definition nm_noemit : text := [110; 111; 101; 109; 105; 116].   (* noemit *)
Definition nm_once : text := [111; 110; 99; 101].   (* once *)
Definition nm_outp : text := [111; 117; 116; 112].   (* outp *)
Definition nm_res : text := [114; 101; 115].   (* res *)
Definition nm_ruledef : text := [114; 117; 108; 101; 100; 101; 102].   (* ruledef *)
Definition nm_size : text := [115; 105; 122; 101].   (* size *)
Definition nm_subruledef : text := [115; 117; 98; 114; 117; 108; 101; 100; 101; 102].   (* subruledef *)

Definition BIGINT_MAX_BITS : N := 800000000.
Definition USIZE_MAX : N := 18446744073709551615.

(* ---------- walker primitives ----------
   The walkers of this file are EXACT: `tail w` is precisely the text the Rust walker can see, src[cursor..limit]
   (so `Parser.visible w = tail w`, lemma in Proofs/AsmParserP.v, and `lim w = cur w + bytes_len (tail w)`); a slice
   truncates the tail once.  The primitives below are Parser.v's token_here / next_useful / next_linebreak /
   maybe_expect re-stated on exact walkers as STRUCTURAL recursions over the tail with a skip counter (no fuel, and no
   re-slicing of the visible text at every token, which made whole files quadratic). *)
Definition join_s (a b : span) : span := (N.min (fst a) (fst b), N.max (snd a) (snd b)).   (* Span::join of two real spans *)

Definition xover (w : walker) : bool := match tail w with [] => true | _ => false end.           (* is_over *)
Definition xtoken (w : walker) : tkind * N :=                                                     (* token_at(cursor) *)
  match tail w with [] => (TLineBreak, 0) | _ => decide_next_token (tail w) end.

(* walk to the first non-ignorable token: (tail, cursor) there; `skip` = bytes of the current token still to pass *)
Fixpoint skip_ign (t : text) (c : N) (skip : N) : text * N :=
  match t with
  | [] => ([], c)
  | ch :: r =>
    if skip =? 0 then
      let '(k, n) := decide_next_token t in
      if is_ignorable k then skip_ign r (c + utf8_len ch) (n - utf8_len ch) else (t, c)
    else skip_ign r (c + utf8_len ch) (skip - utf8_len ch)
  end.
Definition xskip (w : walker) : walker :=                                                         (* skip_ignorable *)
  let '(t, c) := skip_ign (tail w) (cur w) 0 in {| tail := t; cur := c; lim := lim w |}.
Definition xnext_useful (w : walker) : walker * (tkind * N) := let w' := xskip w in (w', xtoken w').
Definition xnext_useful_is (w : walker) (k : tkind) : bool := tkind_eqb k (fst (xtoken (xskip w))).

(* next_linebreak + advance past it: only blanks and comments before a line break (or the limit) *)
Fixpoint skip_to_lb (t : text) (c : N) (skip : N) : option (text * N) :=
  match t with
  | [] => Some ([], c)
  | ch :: r =>
    if skip =? 0 then
      let '(k, n) := decide_next_token t in
      if tkind_eqb k TLineBreak then Some (drop_bytes n t, c + n)
      else if is_ignorable k then skip_to_lb r (c + utf8_len ch) (n - utf8_len ch) else None
    else skip_to_lb r (c + utf8_len ch) (skip - utf8_len ch)
  end.
Definition xnext_linebreak (w : walker) : option walker :=
  match skip_to_lb (tail w) (cur w) 0 with Some (t, c) => Some {| tail := t; cur := c; lim := lim w |} | None => None end.
Definition xat_linebreak (w : walker) : bool := match xnext_linebreak w with Some _ => true | None => false end.

Definition xmaybe_expect_sp (w : walker) (k : tkind) : option (walker * span * text) :=
  let '(w', (k', n)) := xnext_useful w in
  if tkind_eqb k k' then Some (advance w' n, (cur w', cur w' + n), take_bytes n (tail w')) else None.
Definition xmaybe_expect (w : walker) (k : tkind) : option (walker * text) :=
  match xmaybe_expect_sp w k with Some (w', _, t) => Some (w', t) | None => None end.
Definition xexpect_sp (w : walker) (k : tkind) : pres (span * text) :=
  match xmaybe_expect_sp w k with Some (w', sp, t) => POk (sp, t) w' | None => PErr end.
Definition xexpect (w : walker) (k : tkind) : pres text :=
  match xmaybe_expect w k with Some (w', t) => POk t w' | None => PErr end.
Definition xexpect_linebreak (w : walker) : pres unit :=
  match xnext_linebreak w with Some w' => POk tt w' | None => PErr end.
Fixpoint xfind_op (w : walker) (ops : list (tkind * binop)) : option (walker * binop) :=
  match ops with
  | [] => None
  | (k, o) :: rest => match xmaybe_expect w k with Some (w', _) => Some (w', o) | None => xfind_op w rest end
  end.

(* next_nth_useful_token(1): the useful token after the next useful one (a zero-length LineBreak at the limit) *)
Definition xnext_useful1 (w : walker) : walker * (tkind * N) :=
  let '(w', (_, n)) := xnext_useful w in xnext_useful (advance w' n).
Definition xnext_useful_is1 (w : walker) (k : tkind) : bool := tkind_eqb k (fst (snd (xnext_useful1 w))).
Definition xnext_useful1_text (w : walker) : text := let '(w', (_, n)) := xnext_useful1 w in take_bytes n (tail w').

(* advance_until_closing_brace: a CHARACTER scan (braces inside strings and comments count) *)
Fixpoint closing_brace_len (t : text) (nest : nat) : N :=
  match t with
  | [] => 0
  | c :: r =>
    if c =? 123 then utf8_len c + closing_brace_len r (S nest)
    else if c =? 125 then match nest with O => 0 | S m => utf8_len c + closing_brace_len r m end
    else utf8_len c + closing_brace_len r nest
  end.

(* advance_until_linebreak: a TOKEN scan; (end of the last non-ignorable token, tail and cursor where the scan stopped) *)
Fixpoint until_lb (t : text) (c : N) (skip : N) (e : N) (nest : nat) : N * text * N :=
  match t with
  | [] => (e, [], c)
  | ch :: r =>
    if skip =? 0 then
      let '(k, n) := decide_next_token t in
      if tkind_eqb k TLineBreak && Nat.eqb nest 0 then (e, t, c) else
      match (if tkind_eqb k TBraceOpen then Some (S nest)
             else if tkind_eqb k TBraceClose then match nest with O => None | S m => Some m end
             else Some nest) with
      | None => (e, t, c)
      | Some nest' => until_lb r (c + utf8_len ch) (n - utf8_len ch) (if is_ignorable k then e else c + n) nest'
      end
    else until_lb r (c + utf8_len ch) (skip - utf8_len ch) e nest
  end.

(* ---------- the expression parser, generic in the asm-block hook ---------- *)
Section GExpr.
Context {A : Type}.
Variable hook : nat -> walker -> pres (span * A).   (* parse_asm: called with self.recursion_depth, the next useful token being KeywordAsm *)

Fixpoint gparse_expr (fuel : nat) (depth : nat) (w : walker) {struct fuel} : pres (gexpr A) :=
  match fuel with
  | O => PFuel
  | S f =>
    let depth := S depth in
    if Nat.ltb PARSE_DEPTH_MAX depth then PErr else
    do (c, w) <- gparse_assign f depth w;
    match xmaybe_expect w TQuestion with
    | Some (w, _) =>
      do (t, w) <- gparse_expr f depth w;
      match xmaybe_expect w TColon with
      | Some (w, _) => do (e, w) <- gparse_expr f depth w; POk (GTern c t e) w
      | None => POk (GTern c t (GBlock [])) w
      end
    | None => POk c w
    end
  end
with gparse_assign (fuel : nat) (depth : nat) (w : walker) {struct fuel} : pres (gexpr A) :=
  match fuel with
  | O => PFuel
  | S f =>
    do (l, w) <- gparse_levels f depth level_ops w;
    match xmaybe_expect w TEqual with
    | Some (w, _) => do (r, w) <- gparse_expr f depth w; POk (GBin Assign l r) w
    | None => POk l w
    end
  end
with gparse_levels (fuel : nat) (depth : nat) (lv : list (list (tkind * binop))) (w : walker) {struct fuel} : pres (gexpr A) :=
  match fuel with
  | O => PFuel
  | S f =>
    match lv with
    | [] => gparse_slice f depth w
    | ops :: inner =>
      do (l, w) <- gparse_levels f depth inner w;
      gbinary_loop f depth ops inner l w
    end
  end
with gbinary_loop (fuel : nat) (depth : nat) (ops : list (tkind * binop)) (inner : list (list (tkind * binop))) (l : gexpr A) (w : walker) {struct fuel} : pres (gexpr A) :=
  match fuel with
  | O => PFuel
  | S f =>
    if xat_linebreak w then POk l w else
    match xfind_op w ops with
    | Some (w, o) => do (r, w) <- gparse_levels f depth inner w; gbinary_loop f depth ops inner (GBin o l r) w
    | None => POk l w
    end
  end
with gparse_slice (fuel : nat) (depth : nat) (w : walker) {struct fuel} : pres (gexpr A) :=
  match fuel with
  | O => PFuel
  | S f =>
    do (e, w) <- gparse_short f depth w;
    if xat_linebreak w then POk e w else
    match xmaybe_expect w TBracketOpen with
    | Some (w, _) =>
      do (l, w) <- gparse_expr f depth w;
      do (_x, w) <- xexpect w TColon;
      do (r, w) <- gparse_expr f depth w;
      do (_y, w) <- xexpect w TBracketClose;
      POk (GSlice l r e) w
    | None => POk e w
    end
  end
with gparse_short (fuel : nat) (depth : nat) (w : walker) {struct fuel} : pres (gexpr A) :=
  match fuel with
  | O => PFuel
  | S f =>
    do (e, w) <- gparse_unary f depth w;
    if xat_linebreak w then POk e w else
    match xmaybe_expect w TGrave with
    | Some (w, _) => do (s, w) <- gparse_leaf f depth w; POk (GShort s e) w
    | None => POk e w
    end
  end
with gparse_unary (fuel : nat) (depth : nat) (w : walker) {struct fuel} : pres (gexpr A) :=
  match fuel with
  | O => PFuel
  | S f =>
    match xmaybe_expect w TExclamation with
    | Some (w, _) => if Nat.ltb PARSE_DEPTH_MAX (S depth) then PErr else do (e, w) <- gparse_unary f (S depth) w; POk (GUn Not e) w
    | None =>
      match xmaybe_expect w TMinus with
      | Some (w, _) => if Nat.ltb PARSE_DEPTH_MAX (S depth) then PErr else do (e, w) <- gparse_unary f (S depth) w; POk (GUn Neg e) w
      | None => gparse_call f depth w
      end
    end
  end
with gparse_call (fuel : nat) (depth : nat) (w : walker) {struct fuel} : pres (gexpr A) :=
  match fuel with
  | O => PFuel
  | S f =>
    do (l, w) <- gparse_leaf f depth w;
    if xat_linebreak w then POk l w else
    match xmaybe_expect w TParenOpen with
    | None => POk l w
    | Some (w, _) =>
      do (args, w) <- gparse_args f depth w [];
      do (_x, w) <- xexpect w TParenClose;
      POk (GCall l args) w
    end
  end
with gparse_args (fuel : nat) (depth : nat) (w : walker) (acc : list (gexpr A)) {struct fuel} : pres (list (gexpr A)) :=
  match fuel with
  | O => PFuel
  | S f =>
    if xnext_useful_is w TParenClose then POk (rev acc) w else
    do (e, w) <- gparse_expr f depth w;
    if xnext_useful_is w TParenClose then POk (rev (e :: acc)) w else
    do (_x, w) <- xexpect w TComma;
    gparse_args f depth w (e :: acc)
  end
with gparse_leaf (fuel : nat) (depth : nat) (w : walker) {struct fuel} : pres (gexpr A) :=
  match fuel with
  | O => PFuel
  | S f =>
    if xnext_useful_is w TBraceOpen then
      do (_x, w) <- xexpect w TBraceOpen;
      do (es, w) <- gparse_block f depth w [];
      do (_y, w) <- xexpect w TBraceClose;
      POk (GBlock es) w
    else if xnext_useful_is w TParenOpen then
      do (_x, w) <- xexpect w TParenOpen;
      do (e, w) <- gparse_expr f depth w;
      do (_y, w) <- xexpect w TParenClose;
      POk e w
    else if xnext_useful_is w TIdentifier || xnext_useful_is w TDot then
      gparse_var_dots f w 0
    else if xnext_useful_is w TNumber then
      do (t, w) <- xexpect w TNumber;
      match number_literal t with Some (v, sz) => POk (GNum v sz) w | None => PErr end
    else if xnext_useful_is w TString then
      do (t, w) <- xexpect w TString;
      match string_contents t with Some _ => POk (GStr t) w | None => PErr end
    else if xnext_useful_is w TKeywordAsm then
      do (p, w) <- hook depth w; POk (GAsm (fst p) (snd p)) w
    else if xnext_useful_is w TKeywordTrue then do (_x, w) <- xexpect w TKeywordTrue; POk (GBool true) w
    else if xnext_useful_is w TKeywordFalse then do (_x, w) <- xexpect w TKeywordFalse; POk (GBool false) w
    else PErr
  end
with gparse_block (fuel : nat) (depth : nat) (w : walker) (acc : list (gexpr A)) {struct fuel} : pres (list (gexpr A)) :=
  match fuel with
  | O => PFuel
  | S f =>
    if xnext_useful_is w TBraceClose then POk (rev acc) w else
    do (e, w) <- gparse_expr f depth w;
    match xnext_linebreak w with
    | Some w' => gparse_block f depth w' (e :: acc)
    | None =>
      if xnext_useful_is w TBraceClose then POk (rev (e :: acc)) w else
      do (_x, w) <- xexpect w TComma;
      gparse_block f depth w (e :: acc)
    end
  end
with gparse_var_dots (fuel : nat) (w : walker) (level : N) {struct fuel} : pres (gexpr A) :=
  match fuel with
  | O => PFuel
  | S f =>
    if xat_linebreak w then gparse_var_names f w level [] else
    match xmaybe_expect w TDot with
    | Some (w, _) => gparse_var_dots f w (level + 1)
    | None => gparse_var_names f w level []
    end
  end
with gparse_var_names (fuel : nat) (w : walker) (level : N) (acc : list text) {struct fuel} : pres (gexpr A) :=
  match fuel with
  | O => PFuel
  | S f =>
    do (name, w) <- xexpect w TIdentifier;
    if xat_linebreak w then POk (GVar level (rev (name :: acc))) w else
    match xmaybe_expect w TDot with
    | Some (w, _) => gparse_var_names f w level (name :: acc)
    | None => POk (GVar level (rev (name :: acc))) w
    end
  end.
End GExpr.

(* ---------- pieces without expressions ---------- *)
(* instruction.rs *)
Definition parse_instruction (w : walker) : pres anode :=
  let w := xskip w in
  let '(e, t', c') := until_lb (tail w) (cur w) 0 (cur w) 0 in
  match xnext_linebreak {| tail := t'; cur := c'; lim := lim w |} with
  | Some w'' => POk (NInstr (cur w, e) (take_bytes (e - cur w) (tail w))) w''
  | None => PErr
  end.

(* the `while let Some(tk_dot) = xmaybe_expect(Dot)` loop of symbol.rs / directive_const.rs *)
Fixpoint parse_dots (fuel : nat) (w : walker) (level : N) (sp : ospan) : pres (N * ospan) :=
  match fuel with
  | O => PFuel
  | S f =>
    match xmaybe_expect_sp w TDot with
    | Some (w', s, _) => parse_dots f w' (level + 1) (join sp (Some s))
    | None => POk (level, sp) w
    end
  end.

(* directive_fn.rs parameter loop *)
Fixpoint fn_params (fuel : nat) (w : walker) (acc : list text) : pres (list text) :=
  match fuel with
  | O => PFuel
  | S f =>
    if xover w || xnext_useful_is w TParenClose then POk (rev acc) w else
    do (p, w) <- xexpect w TIdentifier;
    let w := match xmaybe_expect w TComma with Some (w', _) => w' | None => w end in
    fn_params f w (p :: acc)
  end.

(* directive_ruledef.rs: parse_rule_parameter *)
Definition aparam (w : walker) : pres apart :=
  do (nm, w) <- xexpect_sp w TIdentifier;
  match xmaybe_expect w TColon with
  | Some (w, _) =>
    do (tn, w) <- xexpect_sp w TIdentifier;
    let ty := interpret_typename (snd tn) in
    if (match ty with TyU n | TyS n | TyI n => BIGINT_MAX_BITS <? n | _ => false end) then PErr
    else POk (AParam (fst nm) (Some (fst tn)) (snd nm) ty) w
  | None => POk (AParam (fst nm) None (snd nm) TyNone) w
  end.

Fixpoint lower_aglued (t : text) : list apart := match t with [] => [] | c :: r => AGlued (to_lower c) :: lower_aglued r end.
Definition lower_aexacts (t : text) : list apart := match t with [] => [] | c :: r => AExact (to_lower c) :: lower_aglued r end.

(* the pattern loop of parse_rule: (pattern_span, parts, has_used_empty_specifier) *)
Fixpoint apattern (fuel : nat) (is_sub : bool) (w : walker) (sp : ospan) (pat : list apart) : pres (ospan * list apart * bool) :=
  match fuel with
  | O => PFuel
  | S f =>
    if xover w || xnext_useful_is w THeavyArrowRight then POk (sp, rev pat, false) w else
    let '(k, n) := xtoken w in
    let txt := take_bytes n (tail w) in
    let sp := join sp (Some (cur w, cur w + n)) in
    let w := advance w n in
    if tkind_eqb k TBraceOpen then
      match (match pat with [] => is_sub | _ => false end), xmaybe_expect w TBraceClose with
      | true, Some (w', _) => POk (sp, rev pat, true) w'
      | _, _ =>
        do (par, w) <- aparam w;
        do (c, w) <- xexpect_sp w TBraceClose;
        apattern f is_sub w (join sp (Some (fst c))) (par :: pat)
      end
    else if is_allowed_pattern_token k then apattern f is_sub w sp (rev (lower_aexacts txt) ++ pat)
    else if tkind_eqb k TWhitespace then apattern f is_sub w sp (AWs :: pat)
    else PErr
  end.

(* directive.rs: the dispatcher on the lower-cased directive name *)
Inductive dkind := DData (wd : option N) | DRange | DAddr | DAlign | DBank | DBankdef | DBits | DConst | DFn | DIf | DInclude
                 | DLabelAlign | DNoEmit | DOnce | DRes | DRuledef | DSubruledef | DAssert | DUnknown.

Definition by_name (name : text) : dkind :=
  if text_eqb name nm_addr then DAddr else if text_eqb name nm_align then DAlign
  else if text_eqb name nm_bank then DBank else if text_eqb name nm_bankdef then DBankdef
  else if text_eqb name nm_bits then DBits else if text_eqb name nm_const then DConst
  else if text_eqb name nm_fn then DFn else if text_eqb name nm_if then DIf
  else if text_eqb name nm_include then DInclude else if text_eqb name nm_labelalign then DLabelAlign
  else if text_eqb name nm_noemit then DNoEmit else if text_eqb name nm_once then DOnce
  else if text_eqb name nm_res then DRes else if text_eqb name nm_ruledef then DRuledef
  else if text_eqb name nm_subruledef then DSubruledef else if text_eqb name nm_assert then DAssert
  else DUnknown.

(* usize::from_str_radix(s, 10) on identifier characters: all digits, non-empty, fits usize *)
Definition usize_dec (s : text) : option N :=
  match s with
  | [] => None
  | _ => if all_digits s && (dec_value s 0 <=? USIZE_MAX) then Some (dec_value s 0) else None
  end.

Definition classify (name : text) : dkind :=
  match name with
  | 100 :: rest =>                                          (* 'd' *)
    match rest with
    | [] => DData None
    | _ => match usize_dec rest with
           | Some v => if BIGINT_MAX_BITS <? v then DRange else DData (Some v)
           | None => by_name name
           end
    end
  | _ => by_name name
  end.

(* AstFields::extract_optional *)
Definition afield := (text * span * option xexpr)%type.
Fixpoint extract_field (name : text) (l : list afield) : option afield * list afield :=
  match l with
  | [] => (None, [])
  | x :: r => if text_eqb (fst (fst x)) name then (Some x, r)
              else let '(o, r') := extract_field name r in (o, x :: r')
  end.
Definition field_expr (o : option afield) : option xexpr := match o with Some (_, _, e) => e | None => None end.
Definition field_present (o : option afield) : bool := match o with Some _ => true | None => false end.

(* ---------- directives that contain expressions, parametric in the asm hook; `f` is the ambient fuel, `ed` the
   expression depth the walker carries ---------- *)
Section Directives.
Variable hook : nat -> walker -> pres (span * list anode).
Variable f : nat.
Variable ed : nat.                                  (* Walker::expr_nesting_depth: where ExpressionParser::new starts *)

Definition pexpr (w : walker) : pres xexpr := gparse_expr hook f ed w.

(* symbol.rs *)
Definition parse_symbol (w : walker) : pres anode :=
  do (ls, w) <- parse_dots f w 0 None;
  do (nm, w) <- xexpect_sp w TIdentifier;
  let sp := join (snd ls) (Some (fst nm)) in
  match xmaybe_expect w TEqual with
  | Some (w, _) =>
    do (e, w) <- pexpr w;
    do (_u, w) <- xexpect_linebreak w;
    POk (NConst sp (fst ls) (snd nm) false e) w
  | None =>
    do (c, w) <- xexpect_sp w TColon;
    POk (NLabel (join sp (Some (fst c))) (fst ls) (snd nm)) w
  end.

(* directive_const.rs *)
Definition parse_const (w : walker) : pres anode :=
  do (ne, w) <- match xmaybe_expect w TParenOpen with
                | Some (w, _) =>
                  do (a, w) <- xexpect w TIdentifier;
                  if text_eqb a nm_noemit then do (_p, w) <- xexpect w TParenClose; POk true w else PErr
                | None => POk false w
                end;
  do (ls, w) <- parse_dots f w 0 None;
  do (nm, w) <- xexpect_sp w TIdentifier;
  do (_q, w) <- xexpect w TEqual;
  do (e, w) <- pexpr w;
  do (_u, w) <- xexpect_linebreak w;
  POk (NConst (join (snd ls) (Some (fst nm))) (fst ls) (snd nm) ne e) w.

(* directive_data.rs *)
Fixpoint data_elems (fuel : nat) (w : walker) (acc : list xexpr) : pres (list xexpr) :=
  match fuel with
  | O => PFuel
  | S g =>
    do (e, w) <- pexpr w;
    match xmaybe_expect w TComma with
    | None => POk (rev (e :: acc)) w
    | Some (w, _) => if xat_linebreak w then POk (rev (e :: acc)) w else data_elems g w (e :: acc)
    end
  end.

(* fields.rs: parse *)
Fixpoint parse_fields (fuel : nat) (w : walker) (acc : list afield) : pres (list afield) :=
  match fuel with
  | O => PFuel
  | S g =>
    if xnext_useful_is w TBraceClose then POk (rev acc) w else
    let '(w, hash) := match xmaybe_expect w THash with Some (w', _) => (w', true) | None => (w, false) end in
    do (nm, w) <- xexpect_sp w TIdentifier;
    if existsb (fun fl : afield => text_eqb (fst (fst fl)) (snd nm)) acc then PErr else
    let cont (oe : option xexpr) (w : walker) : pres (list afield) :=
      let acc' := (snd nm, fst nm, oe) :: acc in
      match xmaybe_expect w TComma with
      | Some (w, _) => parse_fields g w acc'
      | None => match xnext_linebreak w with
                | Some w => parse_fields g w acc'
                | None => POk (rev acc') w
                end
      end in
    if hash && negb (xat_linebreak w) then do (e, w) <- pexpr w; cont (Some e) w
    else match xmaybe_expect w TEqual with
         | Some (w, _) => do (e, w) <- pexpr w; cont (Some e) w
         | None => cont None w
         end
  end.

(* directive_bankdef.rs *)
Definition parse_bankdef (header : span) (w : walker) : pres anode :=
  do (nm, w) <- xexpect_sp w TIdentifier;
  do (_b, w) <- xexpect w TBraceOpen;
  do (fl, w) <- parse_fields f w [];
  let '(o_bits, fl) := extract_field nm_bits fl in
  let '(o_la, fl) := extract_field nm_labelalign fl in
  let '(o_addr, fl) := extract_field nm_addr fl in
  let '(o_end, fl) := extract_field nm_addr_end fl in
  let '(o_size, fl) := extract_field nm_size fl in
  let '(o_outp, fl) := extract_field nm_outp fl in
  let '(o_fill, fl) := extract_field nm_fill fl in
  match fl with
  | _ :: _ => PErr
  | [] =>
    do (_c, w) <- xexpect w TBraceClose;
    do (_u, w) <- xexpect_linebreak w;
    POk (NBankdef header (fst nm) (snd nm)
           {| bf_bits := field_expr o_bits; bf_labelalign := field_expr o_la; bf_addr := field_expr o_addr;
              bf_addr_end := field_expr o_end; bf_size := field_expr o_size; bf_outp := field_expr o_outp;
              bf_fill := field_present o_fill |}) w
  end.

(* directive_fn.rs *)
Definition parse_fn (header : span) (w : walker) : pres anode :=
  do (nm, w) <- xexpect_sp w TIdentifier;
  do (_p, w) <- xexpect w TParenOpen;
  do (ps, w) <- fn_params f w [];
  do (_q, w) <- xexpect w TParenClose;
  do (_a, w) <- xexpect w THeavyArrowRight;
  do (b, w) <- pexpr w;
  POk (NFn header (fst nm) (snd nm) ps b) w.

(* directive_ruledef.rs: parse_rule *)
Definition parse_arule (is_sub : bool) (w : walker) : pres (arule xexpr) :=
  let w := xskip w in
  do (p, w) <- apattern f is_sub w None [];
  let '(sp, parts, empty_spec) := p in
  do (_a, w) <- xexpect w THeavyArrowRight;
  match parts, empty_spec with
  | [], false => PErr
  | _, _ => do (e, w) <- pexpr w; POk {| ar_span := sp; ar_parts := parts; ar_expr := e |} w
  end.

Fixpoint parse_arules (fuel : nat) (is_sub : bool) (w : walker) (acc : list (arule xexpr)) : pres (list (arule xexpr)) :=
  match fuel with
  | O => PFuel
  | S g =>
    if xnext_useful_is w TBraceClose then POk (rev acc) w else
    do (r, w) <- parse_arule is_sub w;
    do (_u, w) <- xexpect_linebreak w;
    parse_arules g is_sub w (r :: acc)
  end.

Definition parse_ruledef (is_sub : bool) (header : span) (w : walker) : pres anode :=
  let '(w, name, name_sp) := match xmaybe_expect_sp w TIdentifier with
                             | Some (w', s, t) => (w', Some t, s)
                             | None => (w, None, header)
                             end in
  do (_b, w) <- xexpect w TBraceOpen;
  do (rs, w) <- parse_arules f is_sub w [];
  do (_c, w) <- xexpect w TBraceClose;
  do (_u, w) <- xexpect_linebreak w;
  POk (NRuledef header name_sp is_sub name rs) w.

Definition expr_directive (mk : xexpr -> anode) (w : walker) : pres anode :=
  do (e, w) <- pexpr w;
  do (_u, w) <- xexpect_linebreak w;
  POk (mk e) w.

(* every directive except #if (which needs the line parser) *)
Definition parse_directive (k : dkind) (header : span) (w : walker) : pres anode :=
  match k with
  | DData wd => do (es, w) <- data_elems f w []; do (_u, w) <- xexpect_linebreak w; POk (NData header wd es) w
  | DRange => PErr                                           (* "value is out of supported range" *)
  | DAddr => expr_directive (NAddr header) w
  | DAlign => expr_directive (NAlign header) w
  | DRes => expr_directive (NRes header) w
  | DAssert => expr_directive (NAssert header) w
  | DBank => do (nm, w) <- xexpect_sp w TIdentifier; do (_u, w) <- xexpect_linebreak w; POk (NBank header (fst nm) (snd nm)) w
  | DBankdef => parse_bankdef header w
  | DBits | DLabelAlign | DNoEmit => PErr                    (* deprecated: always an error *)
  | DConst => parse_const w
  | DFn => parse_fn header w
  | DIf => PErr                                              (* not reached: handled by parse_line *)
  | DInclude =>
    do (fn, w) <- xexpect_sp w TString;
    match string_contents (snd fn) with
    | None => PErr
    | Some _ => do (_u, w) <- xexpect_linebreak w; POk (NInclude (join_s header (fst fn)) (fst fn) (snd fn)) w
    end
  | DOnce => do (_u, w) <- xexpect_linebreak w; POk (NOnce header) w
  | DRuledef => parse_ruledef false header w
  | DSubruledef => parse_ruledef true header w
  | DUnknown => PErr
  end.
End Directives.

(* ---------- the recursive knot: lines, #if blocks, asm blocks ---------- *)
Fixpoint parse_lines_d (fuel : nat) (bd : nat) (ed : nat) (nested : bool) (w : walker) (acc : list anode) {struct fuel} : pres (list anode) :=
  match fuel with
  | O => PFuel
  | S f =>
    if xover w then POk (rev acc) w
    else if nested && xnext_useful_is w TBraceClose then POk (rev acc) w
    else
      do (on, w) <- parse_line_d f bd ed w;
      parse_lines_d f bd ed nested w (match on with Some n => n :: acc | None => acc end)
  end
with parse_line_d (fuel : nat) (bd : nat) (ed : nat) (w : walker) {struct fuel} : pres (option anode) :=
  match fuel with
  | O => PFuel
  | S f =>
    if xnext_useful_is w THash then
      do (h, w) <- xexpect_sp w THash;
      do (nm, w) <- xexpect_sp w TIdentifier;
      let header := join_s (fst h) (fst nm) in
      match classify (map to_lower (snd nm)) with
      | DIf => do (n, w) <- parse_if_d f bd ed header w; POk (Some n) w
      | k => do (n, w) <- parse_directive (asm_hook f bd) f ed k header w; POk (Some n) w
      end
    else if (xnext_useful_is w TIdentifier && (xnext_useful_is1 w TColon || xnext_useful_is1 w TEqual)) || xnext_useful_is w TDot then
      do (n, w) <- parse_symbol (asm_hook f bd) f ed w; POk (Some n) w
    else
      match xnext_linebreak w with
      | Some w' => POk None w'
      | None => do (n, w) <- parse_instruction w; POk (Some n) w
      end
  end
with parse_if_d (fuel : nat) (bd : nat) (ed : nat) (header : span) (w : walker) {struct fuel} : pres anode :=
  match fuel with
  | O => PFuel
  | S f =>
    do (c, w) <- gparse_expr (asm_hook f bd) f ed w;
    do (t, w) <- parse_braced_d f bd ed w;
    do (e, w) <- parse_else_d f bd ed w;
    POk (NIf header c t e) w
  end
with parse_braced_d (fuel : nat) (bd : nat) (ed : nat) (w : walker) {struct fuel} : pres (list anode) :=
  match fuel with
  | O => PFuel
  | S f =>
    do (_b, w) <- xexpect w TBraceOpen;
    if Nat.leb PARSE_DEPTH_MAX bd then PErr else           (* "block nesting depth limit reached" *)
    do (ns, w) <- parse_lines_d f (S bd) ed true w [];
    do (_c, w) <- xexpect w TBraceClose;
    POk ns w
  end
with parse_else_d (fuel : nat) (bd : nat) (ed : nat) (w : walker) {struct fuel} : pres (option (list anode)) :=
  match fuel with
  | O => PFuel
  | S f =>
    if negb (xnext_useful_is w THash) || negb (xnext_useful_is1 w TIdentifier) then POk None w else
    let name := xnext_useful1_text w in
    if text_eqb name nm_else then
      do (_h, w) <- xexpect w THash;
      do (_n, w) <- xexpect w TIdentifier;
      do (b, w) <- parse_braced_d f bd ed w;
      POk (Some b) w
    else if text_eqb name nm_elif then
      do (h, w) <- xexpect_sp w THash;
      do (nm, w) <- xexpect_sp w TIdentifier;
      do (n, w) <- parse_if_d f bd ed (join_s (fst h) (fst nm)) w;
      POk (Some [n]) w
    else POk None w
  end
with asm_hook (fuel : nat) (bd : nat) (depth : nat) (w : walker) {struct fuel} : pres (span * list anode) :=
  match fuel with
  | O => PFuel
  | S f =>
    do (a, w) <- xexpect_sp w TKeywordAsm;
    do (_b, w) <- xexpect w TBraceOpen;
    let n := closing_brace_len (tail w) 0 in
    let inner := {| tail := take_bytes n (tail w); cur := cur w; lim := cur w + n |} in
    if Nat.leb PARSE_DEPTH_MAX bd then PErr else           (* "block nesting depth limit reached": shared with #if *)
    match parse_lines_d f (S bd) depth true inner [] with  (* inner.expr_nesting_depth = self.recursion_depth *)
    | POk ns _ =>
      let w := advance w n in
      do (c, w) <- xexpect_sp w TBraceClose;
      POk (join_s (fst a) (fst c), ns) w
    | PErr => PErr
    | PFuel => PFuel
    end
  end.

(* the entry points at expression depth 0 (a walker made by Walker::new) *)
Definition parse_lines (fuel bd : nat) (nested : bool) (w : walker) (acc : list anode) : pres (list anode) := parse_lines_d fuel bd 0 nested w acc.
Definition parse_braced (fuel bd : nat) (w : walker) : pres (list anode) := parse_braced_d fuel bd 0 w.

Definition FUEL_K : nat := 64.
Definition file_fuel (t : text) : nat := FUEL_K * (List.length t + 16).
Definition start_walker (t : text) : walker := {| tail := t; cur := 0; lim := bytes_len t |}.

(* asm::parser::parse on Walker::new(src, handle, 0) *)
Definition parse_file (t : text) : pres (list anode) := parse_lines (file_fuel t) 0 false (start_walker t) [].
