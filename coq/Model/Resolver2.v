(* Resolver2: the resolver of Model/Resolver.v for a LARGER fragment of the language (src/asm/resolver/*.rs,
   src/asm/defs/bankdef.rs, src/asm/decls/{bankdef,bank,symbol}.rs, src/asm/mod.rs::assemble):

     #bankdef name { bits, labelalign, addr, size | addr_end, outp, fill }      (fields evaluated by eval_certain
                                                                                  after the constants pre-pass)
     #bank name                                                                  (bank switch)
     labels and constants declared with a dot level (`.local:`, `..deeper = e`), references by
       (dot level, dotted path) resolved through util::SymbolManager (Model/Symbols.v) in the
       SymbolContext the ResolveIterator holds at the node
     per-bank cursors exactly as ResolveIterator keeps them (Model/Cursor.v: advance = advance_address,
       enter = bank switch / `labelalign`, positions in bits with the code's checked usize arithmetic)
     label value = ResolverContext::eval_address (addr_start + position / unit, misaligned = error in the last pass)
     `$` / `pc`; #res in address units x bank bits; #align; #addr with the last-pass range checks
     instructions (Model/Matcher + Resolver.resolve_encoding), typed arguments, data elements, constants
       pre-pass, resolve_iteratively, static size guesses: the definitions of Model/Resolver.v, reused
     output through Model/Output.v (check_bank_overlap, fill, build_output over banks, overlap checker).

   Every element of a data directive is its own resolver node (ResolverNode::DataElement(ast, index)): the
   iterator visits the elements one by one, advancing the cursor in between.
   Static-value optimisation is off (the streams run the implementation with both settings).
   Result type: Overlap.res (Ok / Err / Panic).  Executable definitions only. *)
From Coq Require Import NArith ZArith List Bool.
From CA Require Import Model.Lexer Model.Parser Model.Literal Model.BigIntOps Model.Evaluator Model.Matcher Model.Resolver.
From CA Require Model.Paths Model.Overlap Model.Cursor Model.LastPass Model.Output Model.Symbols.
Import ListNotations.
Open Scope Z_scope.

Notation ores := Overlap.res.
Notation Ok := Overlap.Ok.
Notation Err := Overlap.Err.
Notation Panic := Overlap.Panic.

(* ------------------------------------------------------------------ resolver nodes *)
(* symbol / instruction / data / directive indices are the ItemRefs of the code (indices into the tables of
   the state); `depth0` = (decl.depth == 0), the condition under which `labelalign` applies *)
Inductive xnode :=
| XLabel (s : nat) (depth0 : bool)
| XConst (s : nat) (depth0 : bool) (e : expr)
| XInstr (i : nat) (src : text)
| XData (width : option N) (d : nat) (e : expr)
| XRes (r : nat) (e : expr)
| XAlign (a : nat) (e : expr)
| XAddr (a : nat) (e : expr)
| XBank (b : nat)                    (* #bankdef (its own bank) or #bank: bank_ref := b *)
| XAssert (e : expr).                (* #assert condition (resolver/assert.rs); does not move the cursor *)

(* a node with the SymbolContext the iterator holds at it *)
Definition cnode := (xnode * list text)%type.

(* BigInt bits, most significant first, as BitVec::write_bigint reads them (get_bit(size - 1 - i)) *)
Definition enc_bits (b : bigint) : list bool :=
  match bsz b with
  | Some n => map (fun k => get_bit (bv b) (n - 1 - N.of_nat k)%N) (seq 0 (N.to_nat n))
  | None => []
  end.

(* what the iterator (advance_address / next) reads of a node: kind, and the sizes recorded in the state *)
Definition shape (n : xnode) : Cursor.node :=
  match n with
  | XLabel _ d0 => Cursor.NSymbol true d0 0
  | XConst _ d0 _ => Cursor.NSymbol false d0 0
  | XBank b => Cursor.NBank b
  | _ => Cursor.NOther
  end.

Definition view (st : state) (n : xnode) : Cursor.node :=
  match n with
  | XLabel s d0 => Cursor.NSymbol true d0 (match nth s (s_sym st) VUnknown with VInt b => bv b | _ => 0 end)
  | XConst _ d0 _ => Cursor.NSymbol false d0 0
  | XInstr i _ => Cursor.NEmit (match nth_error (s_instr st) i with Some d => enc_bits (i_enc d) | None => [] end)
  | XData _ d _ => Cursor.NEmit (enc_bits (nth d (s_data st) (mk 0 (Some 0%N))))
  | XRes r _ => Cursor.NRes (Z.to_N (nth r (s_res st) 0))
  | XAlign a _ => Cursor.NAlign (Z.to_N (nth a (s_align st) 0))
  | XAddr a _ => Cursor.NAddr (nth a (s_addr st) 0)
  | XBank b => Cursor.NBank b
  | XAssert _ => Cursor.NOther
  end.

(* ------------------------------------------------------------------ variables *)
Definition is_pc (n : text) : bool := text_eqb n s_dollar || text_eqb n s_pc.

(* resolver::eval_variable in SymbolContext ctx; addr = ctx.eval_address(.., can_guess) *)
Definition pvar2 (m : Symbols.mgr) (st : state) (ctx : list text) (addr : ores Z) (can_guess : bool)
    (level : N) (path : list text) : eres value :=
  let lookup :=
    match Symbols.get_by_name m ctx (N.to_nat level) path with
    | Paths.ROk r =>
      match nth_error (s_sym st) r with
      | Some VUnknown => if can_guess then EOk VUnknown else EErr      (* "unresolved symbol" *)
      | Some v => EOk v
      | None => EErr
      end
    | _ => EErr                                                        (* "unknown symbol" *)
    end in
  match level, path with
  | 0%N, first :: _ =>
    if is_pc first then match addr with Ok a => EOk (VInt (un a)) | _ => EErr end else lookup
  | _, _ => lookup
  end.

(* resolver::eval_variable_simple: global context, no addresses *)
Definition pvar_simple2 (m : Symbols.mgr) (st : state) (level : N) (path : list text) : eres value :=
  let lookup :=
    match Symbols.try_get_by_name m Symbols.ctx_global (N.to_nat level) path with
    | Paths.ROk (Some r) => EOk (nth r (s_sym st) VUnknown)
    | Paths.ROk None => EOk VUnknown
    | _ => EErr
    end in
  match level, path with
  | 0%N, first :: _ => if is_pc first then EOk VUnknown else lookup
  | _, _ => lookup
  end.

(* resolver::eval_variable_certain / eval_certain: global context, everything must be known *)
Definition pvar_certain (m : Symbols.mgr) (st : state) (level : N) (path : list text) : eres value :=
  let lookup :=
    match Symbols.get_by_name m Symbols.ctx_global (N.to_nat level) path with
    | Paths.ROk r => match nth_error (s_sym st) r with
                     | Some VUnknown | None => EErr
                     | Some v => EOk v end
    | _ => EErr
    end in
  match level, path with
  | 0%N, first :: _ => if is_pc first then EErr else lookup
  | _, _ => lookup
  end.

Definition eval_certain (m : Symbols.mgr) (st : state) (e : expr) : eres value :=
  match eval code_ops (pvar_certain m st) e [] with
  | EOk (VUnknown, _) | EOk (VFailed, _) => EErr
  | EOk (v, _) => EOk v
  | EErr => EErr
  end.

(* ------------------------------------------------------------------ bank definitions (defs/bankdef.rs) *)
Record bankfields := mkFields {
  bf_bits : option expr; bf_labelalign : option expr; bf_addr : option expr; bf_size : option expr;
  bf_addr_end : option expr; bf_outp : option expr; bf_fill : bool }.

Definition to_usize_z (z : Z) : option N := if (z <? 0) || (z >? usize_max) then None else Some (Z.to_N z).

(* Value::expect_usize *)
Definition field_usize (m : Symbols.mgr) (st : state) (oe : option expr) : eres (option N) :=
  match oe with
  | None => EOk None
  | Some e => match eval_certain m st e with
              | EOk (VInt b) => match to_usize_z (bv b) with Some n => EOk (Some n) | None => EErr end
              | _ => EErr end
  end.
(* Value::expect_bigint *)
Definition field_bigint (m : Symbols.mgr) (st : state) (oe : option expr) : eres (option Z) :=
  match oe with
  | None => EOk None
  | Some e => match eval_certain m st e with EOk (VInt b) => EOk (Some (bv b)) | _ => EErr end
  end.

Definition define_bank (m : Symbols.mgr) (st : state) (f : bankfields) : eres Cursor.bank :=
  match field_usize m st (bf_bits f) with
  | EErr => EErr
  | EOk obits =>
    match (match obits with None => EOk 8%N | Some 0%N => EErr | Some u => EOk u end) with   (* expect_nonzero_usize *)
    | EErr => EErr
    | EOk unit =>
      match field_usize m st (bf_labelalign f), field_bigint m st (bf_addr f), field_usize m st (bf_size f),
            field_bigint m st (bf_addr_end f), field_usize m st (bf_outp f) with
      | EOk la, EOk oaddr, EOk osize, EOk oend, EOk outp =>
        let addr_start := match oaddr with Some a => a | None => 0 end in
        let addr_size : eres (option N) :=
          match osize, oend with
          | None, None => EOk None
          | Some s, None => EOk (Some s)
          | None, Some e => match checked_sub e addr_start with
                            | EOk d => match to_usize_z (bv d) with Some n => EOk (Some n) | None => EErr end
                            | EErr => EErr end
          | Some _, Some _ => EErr                                      (* both `addr_end` and `size` defined *)
          end in
        match addr_size with
        | EErr => EErr
        | EOk None => EOk (Cursor.mkBank addr_start unit la None outp (bf_fill f))
        | EOk (Some s) =>
          match Cursor.checked_mul s unit with                          (* s.checked_mul(addr_unit) *)
          | Some size => EOk (Cursor.mkBank addr_start unit la (Some size) outp (bf_fill f))
          | None => EErr
          end
        end
      | _, _, _, _, _ => EErr
      end
    end
  end.

(* ------------------------------------------------------------------ one pass (resolve_once) *)
Section Pass.
Variable m : Symbols.mgr.
Variable banks : list Cursor.bank.
Variable defs : list ruledef.
Variable mb : Z.                       (* BIGINT_MAX_BITS *)
Variable last : bool.
Let can_guess := negb last.

(* one node, visited in bank b at position pos (bits); the cursor is moved by the caller *)
Definition resolve_node2 (n : xnode) (ctx : list text) (st : state) (b : Cursor.bank) (pos : N) : ores (state * resolution) :=
  let addr := Cursor.eval_address mb b pos can_guess in
  let pv := pvar2 m st ctx addr can_guess in
  match n with
  | XLabel s _ =>
    match addr with
    | Err => Err | Panic => Panic
    | Ok a =>
      let nv := VInt (un a) in
      let prev := nth s (s_sym st) VUnknown in
      let st' := {| s_sym := set_nth (s_sym st) s nv; s_instr := s_instr st; s_data := s_data st; s_res := s_res st; s_align := s_align st; s_addr := s_addr st |} in
      Ok (st', if value_eqv nv prev then Resolved else Unresolved)
    end
  | XConst s _ e =>
    match eval code_ops pv e [] with
    | EErr => Err
    | EOk (v, _) =>
      (* on the final pass a failed constraint is an error, as it is in the pre-pass of address-free constants *)
      if last && (match v with VFailed => true | _ => false end) then Err else
      let prev := nth s (s_sym st) VUnknown in
      let st' := {| s_sym := set_nth (s_sym st) s v; s_instr := s_instr st; s_data := s_data st; s_res := s_res st; s_align := s_align st; s_addr := s_addr st |} in
      Ok (st', if value_identical v prev then Resolved else Unresolved)
    end
  | XInstr i _ =>
    match nth_error (s_instr st) i with
    | None => Panic                                                     (* defs.instructions.get *)
    | Some d =>
      match resolve_encoding defs pv can_guess (i_matches d) with
      | EErr => Err
      | EOk chosen =>
        let stable := match chosen with Some b => bigint_identical (i_enc d) b | None => false end in
        let d' := match chosen with Some b => {| i_matches := i_matches d; i_enc := b |} | None => d end in
        let st' := {| s_sym := s_sym st; s_instr := set_nth (s_instr st) i d'; s_data := s_data st; s_res := s_res st; s_align := s_align st; s_addr := s_addr st |} in
        Ok (st', if stable then Resolved else Unresolved)
      end
    end
  | XData width d e =>
    match eval code_ops pv e [] with
    | EErr => Err
    | EOk (v, _) =>
      match expect_error_or_bigint v with
      | EErr => Err
      | EOk v =>
        let enc : eres (option bigint) :=
          match v with
          | VInt b => EOk (Some b)
          | _ => if last then EErr else EOk None
          end in
        match enc with
        | EErr => Err
        | EOk menc =>
          let checked : bool :=
            if last then
              match menc with
              | Some b => match width with
                          | Some w => negb (size_or_min b >? Z.of_N w)
                          | None => match bsz b with Some _ => true | None => false end
                          end
              | None => false
              end
            else true in
          if negb checked then Err else
          let menc := match menc with
                      | Some b => Some (match width with Some w => slice_to b (Z.of_N w) | None => slice_to b (size_or_min b) end)
                      | None => None end in
          let prev := nth d (s_data st) (mk 0 (Some 0%N)) in
          let st' := match menc with
                     | Some b => {| s_sym := s_sym st; s_instr := s_instr st; s_data := set_nth (s_data st) d b; s_res := s_res st; s_align := s_align st; s_addr := s_addr st |}
                     | None => st end in
          let stable := match menc with Some b => bigint_identical prev b | None => false end in
          Ok (st', if stable then Resolved else Unresolved)
        end
      end
    end
  | XRes r e =>
    match eval code_ops pv e [] with
    | EErr => Err
    | EOk (v, _) =>
      match expect_error_or_bigint v with
      | EErr => Err
      | EOk v =>
        let val : eres Z := match v with VInt b => if (bv b <? 0) || (bv b >? u32_max) then EErr else EOk (bv b) | _ => EOk 0 end in
        match val with
        | EErr => Err
        | EOk z =>
          let nv := z * Z.of_N (Cursor.bk_unit b) in                    (* checked_mul(bank.addr_unit) *)
          if nv >? usize_max then Err else
          let prev := nth r (s_res st) 0 in
          let st' := {| s_sym := s_sym st; s_instr := s_instr st; s_data := s_data st; s_res := set_nth (s_res st) r nv; s_align := s_align st; s_addr := s_addr st |} in
          Ok (st', if nv =? prev then Resolved else Unresolved)
        end
      end
    end
  | XAlign a e =>
    match eval code_ops pv e [] with
    | EErr => Err
    | EOk (v, _) =>
      let val : eres Z := match v with
                          | VUnknown | VFailed => EOk 0
                          | VInt b => if (bv b <? 0) || (bv b >? usize_max) then EErr else EOk (bv b)
                          | _ => EErr end in
      match val with
      | EErr => Err
      | EOk z =>
        let prev := nth a (s_align st) 0 in
        let st' := {| s_sym := s_sym st; s_instr := s_instr st; s_data := s_data st; s_res := s_res st; s_align := set_nth (s_align st) a z; s_addr := s_addr st |} in
        if negb (z =? prev) then Ok (st', Unresolved)
        else if last && (z =? 0) then Err                               (* "invalid alignment size" *)
        else Ok (st', Resolved)
      end
    end
  | XAddr a e =>
    match eval code_ops pv e [] with
    | EErr => Err
    | EOk (v, _) =>
      match expect_error_or_bigint v with
      | EErr => Err
      | EOk v =>
        let z := match v with VInt b => bv b | _ => 0 end in
        let prev := nth a (s_addr st) 0 in
        let st' := {| s_sym := s_sym st; s_instr := s_instr st; s_data := s_data st; s_res := s_res st; s_align := s_align st; s_addr := set_nth (s_addr st) a z |} in
        if negb (z =? prev) then Ok (st', Unresolved)
        else if last then
          (* "address is out of bank range" and the checked arithmetic of resolver/addr.rs *)
          match LastPass.check_node mb b pos (Cursor.NAddr z) with
          | Ok _ => Ok (st', Resolved) | Err => Err | Panic => Panic
          end
        else Ok (st', Resolved)
      end
    end
  | XBank _ => Ok (st, Resolved)                                        (* ResolverNode::None *)
  | XAssert e =>
    (* resolver/assert.rs: before the last pass the condition is NOT evaluated and the node reports Unresolved, so a
       program with an #assert always runs to its last allowed pass; on the last pass: evaluation error -> Err,
       a value that is not a boolean (expect_bool: "expected boolean") -> Err, false -> "assertion failed".
       The code REPORTS "assertion failed", lets the pass go on and returns Resolved; the error then fails the assembly
       at `report.stop_at_errors()` right after resolve_iteratively, before any output is built.  The resolver models
       carry no report, so the reported error is the result Err here (as for every other report-and-continue site);
       nothing a later node of the same pass does can turn that failure into a success. *)
    if negb last then Ok (st, Unresolved) else
    match eval code_ops pv e [] with
    | EErr => Err
    | EOk (VBool true, _) => Ok (st, Resolved)
    | EOk (VBool false, _) => Err                                       (* "assertion failed" *)
    | EOk (_, _) => Err                                                 (* "expected boolean" *)
    end
  end.

(* one round of `while let Some(ctx) = iter.next(..)?`: advance past the previous node, enter this one
   (bank switch, labelalign), resolve it at the current bank's position *)
Definition step2 (nc : cnode) (st : state) (c : Cursor.cursor) (prev : option Cursor.node)
    : ores (state * resolution * Cursor.cursor * option Cursor.node) :=
  match Cursor.advance mb banks c prev with
  | Err => Err | Panic => Panic
  | Ok c1 =>
    match Cursor.enter mb banks c1 (shape (fst nc)) with
    | Err => Err | Panic => Panic
    | Ok c2 =>
      match Cursor.cur_bank banks c2 with
      | Err => Err | Panic => Panic
      | Ok (b, pos) =>
        match resolve_node2 (fst nc) (snd nc) st b pos with
        | Err => Err | Panic => Panic
        | Ok (st', r) => Ok (st', r, c2, Some (view st' (fst nc)))
        end
      end
    end
  end.

Fixpoint pass2 (ns : list cnode) (st : state) (c : Cursor.cursor) (prev : option Cursor.node) (acc : resolution)
    : ores (state * resolution) :=
  match ns with
  | [] =>
    (* the call of next() that returns None still advances past the final node *)
    match Cursor.advance mb banks c prev with
    | Err => Err | Panic => Panic
    | Ok _ => Ok (st, acc)
    end
  | n :: r =>
    match step2 n st c prev with
    | Err => Err | Panic => Panic
    | Ok (st', res, c', prev') => pass2 r st' c' prev' (merge acc res)
    end
  end.

Definition run_pass (ns : list cnode) (st : state) : ores (state * resolution) :=
  pass2 ns st (Cursor.init_cursor banks) None Resolved.
End Pass.

(* ------------------------------------------------------------------ resolve_iteratively *)
Fixpoint loop2 (m : Symbols.mgr) (banks : list Cursor.bank) (defs : list ruledef) (mb : Z) (ns : list cnode)
    (k i max : nat) (st : state) : ores (state * nat) :=
  let confirm i st := match run_pass m banks defs mb true ns st with
                      | Ok (st', Resolved) => Ok (st', i)
                      | Ok (_, Unresolved) => Err
                      | Err => Err | Panic => Panic end in
  match k with
  | O => confirm i st
  | S k' =>
    let i' := S i in
    let last := Nat.eqb i' max in
    match run_pass m banks defs mb last ns st with
    | Err => Err | Panic => Panic
    | Ok (st', Resolved) => if last then Ok (st', i') else confirm i' st'
    | Ok (st', Unresolved) => if last then Err else loop2 m banks defs mb ns k' i' max st'
    end
  end.

(* ------------------------------------------------------------------ pre-pass of constants *)
Definition simple_round2 (m : Symbols.mgr) (ns : list cnode) (st : state) : eres (state * nat) :=
  (fix go (ns : list cnode) (st : state) (cnt : nat) : eres (state * nat) :=
     match ns with
     | [] => EOk (st, cnt)
     | (XConst s _ e, _) :: r =>
       match eval code_ops (pvar_simple2 m st) e [] with
       | EErr => EErr
       | EOk (VFailed, _) => EErr
       | EOk (v, _) =>
         let st' := {| s_sym := set_nth (s_sym st) s v; s_instr := s_instr st; s_data := s_data st; s_res := s_res st; s_align := s_align st; s_addr := s_addr st |} in
         go r st' (match v with VUnknown => cnt | _ => S cnt end)
       end
     | _ :: r => go r st cnt
     end) ns st O.

Fixpoint simple_loop2 (fuel : nat) (m : Symbols.mgr) (ns : list cnode) (st : state) (prev : nat) : eres state :=
  match fuel with
  | O => EOk st
  | S f => match simple_round2 m ns st with
           | EErr => EErr
           | EOk (st', cnt) => if Nat.eqb cnt prev then EOk st' else simple_loop2 f m ns st' cnt
           end
  end.

(* ------------------------------------------------------------------ the source program *)
Inductive pnode :=
| PLabel (level : nat) (name : text)
| PConst (level : nat) (name : text) (e : expr)
| PInstr (src : text)
| PData (width : option N) (elems : list expr)
| PRes (e : expr)
| PAlign (e : expr)
| PAddr (e : expr)
| PBankdef (name : text) (f : bankfields)
| PBank (name : text)
| PAssert (e : expr).

Definition anode_of (p : pnode) : Symbols.anode :=
  match p with
  | PLabel l n => Symbols.ASym l n Symbols.KLabel None
  | PConst l n _ => Symbols.ASym l n Symbols.KConstant None
  | _ => Symbols.AOther
  end.

Definition bank_names (ps : list pnode) : list text :=
  flat_map (fun p => match p with PBankdef n _ => [n] | _ => [] end) ps.
Definition bank_fields (ps : list pnode) : list bankfields :=
  flat_map (fun p => match p with PBankdef _ f => [f] | _ => [] end) ps.

(* decls.bankdefs.declare: "duplicate bank" *)
Fixpoint no_dup_names (l : list text) : bool :=
  match l with
  | [] => true
  | n :: r => negb (existsb (text_eqb n) r) && no_dup_names r
  end.

(* item-ref counters: instructions, data elements, #res, #align, #addr, #bankdef *)
Record counters := mkCnt { k_i : nat; k_d : nat; k_r : nat; k_a : nat; k_ad : nat; k_b : nat }.

Fixpoint data_nodes (w : option N) (es : list expr) (d : nat) (ctx : list text) : list cnode :=
  match es with
  | [] => []
  | e :: r => (XData w d e, ctx) :: data_nodes w r (S d) ctx
  end.

(* pair the program with the collected AST (item refs) and the iterator contexts *)
Fixpoint build_nodes (bn : list text) (ps : list pnode) (ast : list Symbols.anode) (ctxs : list (list text)) (k : counters)
    : option (list cnode) :=
  match ps, ast, ctxs with
  | [], [], [] => Some []
  | p :: ps', a :: ast', c :: cs' =>
    let one : option (list cnode * counters) :=
      match p, a with
      | PLabel l _, Symbols.ASym _ _ _ (Some r) => Some ([(XLabel r (Nat.eqb l 0), c)], k)
      | PConst l _ e, Symbols.ASym _ _ _ (Some r) => Some ([(XConst r (Nat.eqb l 0) e, c)], k)
      | PInstr src, Symbols.AOther => Some ([(XInstr (k_i k) src, c)], mkCnt (S (k_i k)) (k_d k) (k_r k) (k_a k) (k_ad k) (k_b k))
      | PData w es, Symbols.AOther => Some (data_nodes w es (k_d k) c, mkCnt (k_i k) (k_d k + length es)%nat (k_r k) (k_a k) (k_ad k) (k_b k))
      | PRes e, Symbols.AOther => Some ([(XRes (k_r k) e, c)], mkCnt (k_i k) (k_d k) (S (k_r k)) (k_a k) (k_ad k) (k_b k))
      | PAlign e, Symbols.AOther => Some ([(XAlign (k_a k) e, c)], mkCnt (k_i k) (k_d k) (k_r k) (S (k_a k)) (k_ad k) (k_b k))
      | PAddr e, Symbols.AOther => Some ([(XAddr (k_ad k) e, c)], mkCnt (k_i k) (k_d k) (k_r k) (k_a k) (S (k_ad k)) (k_b k))
      | PBankdef _ _, Symbols.AOther => Some ([(XBank (S (k_b k)), c)], mkCnt (k_i k) (k_d k) (k_r k) (k_a k) (k_ad k) (S (k_b k)))
      | PBank n, Symbols.AOther =>
        match find_sym bn n 0 with                                      (* get_by_name_global: "unknown bank" *)
        | Some i => Some ([(XBank (S i), c)], k)
        | None => None end
      | PAssert e, Symbols.AOther => Some ([(XAssert e, c)], k)
      | _, _ => None
      end in
    match one with
    | None => None
    | Some (l, k') => match build_nodes bn ps' ast' cs' k' with Some rest => Some (l ++ rest) | None => None end
    end
  | _, _, _ => None
  end.

(* decls::collect + iterator contexts *)
Definition prepare (ps : list pnode) : option (Symbols.mgr * list cnode) :=
  if negb (no_dup_names (bank_names ps)) then None else
  match Symbols.collect Symbols.mgr_new (map anode_of ps) with
  | Paths.ROk (m, ast) =>
    match Symbols.node_ctxs m Symbols.ctx_global ast with
    | Paths.ROk ctxs =>
      match build_nodes (bank_names ps) ps ast ctxs (mkCnt 0 0 0 0 0 0) with
      | Some ns => Some (m, ns)
      | None => None
      end
    | _ => None
    end
  | _ => None
  end.

(* defs: initial encodings (static size guesses), matches, zeroed directive values *)
Definition init_state2 (indexed : bool) (defs : list ruledef) (nsyms : nat) (ns : list cnode) : option state :=
  let instrs := flat_map (fun n => match fst n with XInstr _ src => [src] | _ => [] end) ns in
  let idefs := map (fun src =>
                      let ms := match_instr indexed defs src in
                      let sz := fold_left (fun a m => Z.max a (match match_static_size defs m with Some s => s | None => 0 end)) ms 0 in
                      {| i_matches := ms; i_enc := mk 0 (Some (Z.to_N sz)) |}) instrs in
  if existsb (fun d => match i_matches d with [] => true | _ => false end) idefs then None else
  let datas := flat_map (fun n => match fst n with
                                  | XData w _ e => [match w with
                                                    | Some w => mk 0 (Some w)
                                                    | None => mk 0 (Some (Z.to_N (match static_size [] e with Some s => s | None => 0 end))) end]
                                  | _ => [] end) ns in
  let count p := length (filter p ns) in
  Some {| s_sym := repeat VUnknown nsyms; s_instr := idefs; s_data := datas;
          s_res := repeat 0 (count (fun n => match fst n with XRes _ _ => true | _ => false end));
          s_align := repeat 0 (count (fun n => match fst n with XAlign _ _ => true | _ => false end));
          s_addr := repeat 0 (count (fun n => match fst n with XAddr _ _ => true | _ => false end)) |}.

Fixpoint define_banks (m : Symbols.mgr) (st : state) (fs : list bankfields) : eres (list Cursor.bank) :=
  match fs with
  | [] => EOk []
  | f :: r => match define_bank m st f with
              | EErr => EErr
              | EOk b => match define_banks m st r with EOk l => EOk (b :: l) | EErr => EErr end
              end
  end.

(* ------------------------------------------------------------------ output *)
(* build_output reads `encoding.size.unwrap()` and `symbol.value.unwrap_bigint()` *)
Definition out_node (st : state) (n : xnode) : ores Cursor.node :=
  match n with
  | XLabel s _ => match nth_error (s_sym st) s with Some (VInt _) => Ok (view st n) | _ => Panic end
  | XInstr i _ => match nth_error (s_instr st) i with
                  | Some d => match bsz (i_enc d) with Some _ => Ok (view st n) | None => Panic end
                  | None => Panic end
  | XData _ d _ => match nth_error (s_data st) d with
                   | Some b => match bsz b with Some _ => Ok (view st n) | None => Panic end
                   | None => Panic end
  | _ => Ok (view st n)
  end.

Fixpoint out_nodes (st : state) (ns : list cnode) : ores (list Cursor.node) :=
  match ns with
  | [] => Ok []
  | n :: r => match out_node st (fst n) with
              | Ok v => match out_nodes st r with Ok l => Ok (v :: l) | Err => Err | Panic => Panic end
              | Err => Err | Panic => Panic
              end
  end.

(* the symbol table as printed: full dotted name and value of every declared symbol *)
Definition symbol_values (m : Symbols.mgr) (st : state) : list (text * value) :=
  combine (map Symbols.sd_name (Symbols.m_decls m)) (s_sym st).

(* r_nodes: the resolved nodes as build_output sees them (sizes, encodings, label values of the final state) *)
Record result := mkResult {
  r_bits : list bool; r_items : list Output.item; r_banks : list Cursor.bank;
  r_syms : list (text * value); r_iters : nat; r_nodes : list Cursor.node }.

(* everything up to (not including) resolve_iteratively *)
Definition setup (indexed : bool) (defs : list ruledef) (ps : list pnode)
    : option (Symbols.mgr * list cnode * list Cursor.bank * state) :=
  match prepare ps with
  | None => None
  | Some (m, ns) =>
    match init_state2 indexed defs (length (Symbols.m_decls m)) ns with
    | None => None
    | Some st0 =>
      match simple_loop2 (S (length ns)) m ns st0 0 with
      | EErr => None
      | EOk st1 =>
        match define_banks m st1 (bank_fields ps) with
        | EErr => None
        | EOk bs => Some (m, ns, Cursor.default_bank :: bs, st1)
        end
      end
    end
  end.

Definition max_bits : Z := BIGINT_MAX_BITS.

Definition assemble2 (indexed : bool) (defs : list ruledef) (ps : list pnode) (budget : nat) : ores result :=
  match setup indexed defs ps with
  | None => Err
  | Some (m, ns, banks, st1) =>
    match loop2 m banks defs max_bits ns budget 0 budget st1 with
    | Err => Err | Panic => Panic
    | Ok (st, n) =>
      match out_nodes st ns with
      | Err => Err | Panic => Panic
      | Ok vs =>
        match Output.output_stage (Z.to_N max_bits) banks vs with
        | Err => Err | Panic => Panic
        | Ok (bits, items) => Ok (mkResult bits items banks (symbol_values m st) n vs)
        end
      end
    end
  end.
