(* Model of the first loop of asm::assemble (src/asm/mod.rs):
     loop { decls::collect ; defs::define_symbols ; resolver::resolve_constants_simple ; resolver::resolve_ifs ;
            break when the resolved-constant count equals the previous one and no #if was resolved }
     resolver::check_leftover_ifs ; ... ; check_unused_defines
   with src/asm/decls/symbol.rs (collect), src/util/symbol_manager.rs (declare / try_get_by_name),
   src/asm/resolver/constant.rs (resolve_constant_simple, the command-line override), src/asm/resolver/directive_if.rs
   (resolve_ifs, check_leftover_ifs), src/asm/resolver/eval.rs (eval_simple / eval_variable_simple) and the strict /
   lazy propagation rules of src/expr/eval.rs for the operators of the condition language below.
   Executable definitions only.

   Representation choices (each mirrors the code, none totalises):
   * `#elif` is what the parser makes of it: an else-arm holding a single nested `#if` (parser/directive_if.rs).
   * the tree of HashMaps of the SymbolManager is a finite map from full paths (prefix-closed) to declarations; it is
     kept as an association list in declaration order (= ItemRef order); `decls` and `defs` are one table because
     define_symbols follows collect immediately and gives every new symbol the value Unknown.
   * `item_ref : Option<ItemRef>` of an AstSymbol is the `decl : option path` of a top-level `item`; nodes inside
     arms (type `node`) have none until the arm is spliced into the top-level list.
   * labels, instructions, data, other directives do not take part in this loop: `NOther id` (and `SLabel`). *)
From Coq Require Import ZArith NArith List Bool.
From CA Require Model.BigIntOps.
From CA Require Import Model.Driver.
Import ListNotations.
Open Scope list_scope.
Open Scope nat_scope.

Definition path := list text.

Fixpoint path_eqb (a b : path) : bool :=
  match a, b with
  | [], [] => true
  | x :: a', y :: b' => text_eqb x y && path_eqb a' b'
  | _, _ => false
  end.

(* ------------------------------------------------------------------ the condition / constant language *)
Inductive cop := OAdd | OSub | OEq | ONe | OLt | OLe | OGt | OGe | OLazyAnd | OLazyOr.
Inductive cexpr :=
| CBool (b : bool)
| CInt (v : Z)
| CVar (lvl : nat) (p : path)
| CNot (e : cexpr)
| CNeg (e : cexpr)
| CBin (o : cop) (a b : cexpr).

Inductive cval := VUnknown | VBool (b : bool) | VInt (v : Z).

Inductive ecls := EEval | EDup | ESkip | ELeftover | EUnused.
Inductive er (A : Type) := ROk (a : A) | RErr (c : ecls) | RPanic | RFuel.
Arguments ROk {A} a. Arguments RErr {A} c. Arguments RPanic {A}. Arguments RFuel {A}.

Definition lift_big (r : BigIntOps.eres BigIntOps.bigint) : er cval :=
  match r with BigIntOps.EOk b => ROk (VInt (BigIntOps.bv b)) | BigIntOps.EErr => RErr EEval end.

(* both operands definite (expr/eval.rs, the non-lazy branch of BinaryOp) *)
Definition binop (o : cop) (x y : cval) : er cval :=
  match x, y with
  | VBool a, VBool b =>
    match o with
    | OEq => ROk (VBool (Bool.eqb a b)) | ONe => ROk (VBool (negb (Bool.eqb a b)))
    | _ => RErr EEval
    end
  | VInt a, VInt b =>
    match o with
    | OAdd => lift_big (BigIntOps.checked_add a b) | OSub => lift_big (BigIntOps.checked_sub a b)
    | OEq => ROk (VBool (a =? b)%Z) | ONe => ROk (VBool (negb (a =? b)%Z))
    | OLt => ROk (VBool (a <? b)%Z) | OLe => ROk (VBool (a <=? b)%Z)
    | OGt => ROk (VBool (a >? b)%Z) | OGe => ROk (VBool (a >=? b)%Z)
    | _ => RErr EEval
    end
  | _, _ => RErr EEval
  end.

Definition is_lazy (o : cop) : bool := match o with OLazyAnd | OLazyOr => true | _ => false end.
Definition is_or (o : cop) : bool := match o with OLazyOr => true | _ => false end.

Section Eval.
Variable lk : nat -> path -> cval.            (* the EvalQuery::Variable provider *)

Fixpoint eval (e : cexpr) : er cval :=
  match e with
  | CBool b => ROk (VBool b)
  | CInt v => ROk (VInt v)
  | CVar l p => ROk (lk l p)
  | CNot a =>
    match eval a with
    | ROk VUnknown => ROk VUnknown                                   (* propagate! *)
    | ROk (VBool b) => ROk (VBool (negb b))
    | ROk (VInt v) => ROk (VInt (BigIntOps.not_bytes v))
    | r => r
    end
  | CNeg a =>
    match eval a with
    | ROk VUnknown => ROk VUnknown
    | ROk (VInt v) => ROk (VInt (- v))
    | ROk (VBool _) => RErr EEval
    | r => r
    end
  | CBin o a b =>
    if is_lazy o then
      match eval a with
      | ROk VUnknown => ROk VUnknown
      | ROk (VBool x) =>
        if Bool.eqb x (is_or o) then ROk (VBool x)                   (* decided by the left operand alone *)
        else match eval b with
             | ROk VUnknown => ROk VUnknown
             | ROk (VBool y) => ROk (VBool y)
             | ROk (VInt _) => RErr EEval
             | r => r
             end
      | ROk (VInt _) => RErr EEval
      | r => r
      end
    else
      match eval a with
      | ROk VUnknown => ROk VUnknown                                 (* the right operand is not evaluated *)
      | ROk x =>
        match eval b with
        | ROk VUnknown => ROk VUnknown
        | ROk y => binop o x y
        | r => r
        end
      | r => r
      end
  end.
End Eval.

(* expr/inspect.rs is_value_statically_known with the default provider: literals, and binary operations of them *)
Fixpoint static_known (e : cexpr) : bool :=
  match e with
  | CBool _ | CInt _ => true
  | CVar _ _ => false
  | CNot _ | CNeg _ => false
  | CBin _ a b => static_known a && static_known b
  end.

(* ------------------------------------------------------------------ programs *)
Inductive sym := SLabel | SConst (e : cexpr).

Inductive node :=
| NSym (lvl : nat) (nm : text) (s : sym)
| NIf (c : cexpr) (t : list node) (f : option (list node))
| NOther (id : N).

(* an element of ast.nodes (the flat top-level list) *)
Inductive item :=
| ISym (lvl : nat) (nm : text) (s : sym) (decl : option path)
| IIf (c : cexpr) (t : list node) (f : option (list node))
| IOther (id : N).

Definition inject (n : node) : item :=
  match n with NSym l nm s => ISym l nm s None | NIf c t f => IIf c t f | NOther i => IOther i end.
Definition forget (it : item) : node :=
  match it with ISym l nm s _ => NSym l nm s | IIf c t f => NIf c t f | IOther i => NOther i end.

(* ------------------------------------------------------------------ symbol table (decls.symbols + defs.symbols) *)
Inductive skind := KLabel | KConst.
Record entry := { e_path : path; e_kind : skind; e_value : cval; e_resolved : bool }.
Definition table := list entry.

Fixpoint find_entry (p : path) (t : table) : option entry :=
  match t with
  | [] => None
  | en :: r => if path_eqb (e_path en) p then Some en else find_entry p r
  end.

Fixpoint set_entry (p : path) (v : cval) (res : bool) (t : table) : table :=
  match t with
  | [] => []
  | en :: r =>
    if path_eqb (e_path en) p then {| e_path := e_path en; e_kind := e_kind en; e_value := v; e_resolved := res |} :: r
    else en :: set_entry p v res r
  end.

Definition t_dollar : text := [36%N].
Definition t_pc : text := [112%N; 99%N].

(* eval_variable_simple: `$`/`pc` are unknown; the name is looked up from the GLOBAL context, so a relative
   reference (level > 0) finds nothing; an undeclared name is unknown, not an error *)
Definition lookup (t : table) (lvl : nat) (p : path) : cval :=
  match lvl with
  | S _ => VUnknown
  | O =>
    match p with
    | [] => VUnknown
    | h :: _ =>
      if text_eqb h t_dollar || text_eqb h t_pc then VUnknown
      else match find_entry p t with Some en => e_value en | None => VUnknown end
    end
  end.

Definition kind_of (s : sym) : skind := match s with SLabel => KLabel | SConst _ => KConst end.

(* decls::symbol::collect + SymbolManager::declare + defs::symbol::define; ctx = hierarchy of the SymbolContext *)
Fixpoint collect (ctx : path) (t : table) (its : list item) : er (list item * table) :=
  match its with
  | [] => ROk ([], t)
  | ISym lvl nm s None :: r =>
    if Nat.ltb (length ctx) lvl then RErr ESkip
    else
      let p := firstn lvl ctx ++ [nm] in
      match find_entry p t with
      | Some _ => RErr EDup
      | None =>
        match collect p (t ++ [{| e_path := p; e_kind := kind_of s; e_value := VUnknown; e_resolved := false |}]) r with
        | ROk (r', t') => ROk (ISym lvl nm s (Some p) :: r', t')
        | RErr c => RErr c | RPanic => RPanic | RFuel => RFuel
        end
      end
  | ISym lvl nm s (Some p) :: r =>
    match collect p t r with
    | ROk (r', t') => ROk (ISym lvl nm s (Some p) :: r', t')
    | RErr c => RErr c | RPanic => RPanic | RFuel => RFuel
    end
  | it :: r =>
    match collect ctx t r with
    | ROk (r', t') => ROk (it :: r', t')
    | RErr c => RErr c | RPanic => RPanic | RFuel => RFuel
    end
  end.

(* ------------------------------------------------------------------ command-line defines *)
Definition defines := list (text * cval).

Definition dval (d : dvalue) : cval := match d with DBool b => VBool b | DInt v _ => VInt v end.

Fixpoint find_define (name : text) (ds : defines) : option cval :=
  match ds with
  | [] => None
  | (n, v) :: r => if text_eqb n name then Some v else find_define name r
  end.

(* SymbolDecl.name: parent's full name + "." + name *)
Fixpoint join_dot (p : path) : text :=
  match p with
  | [] => []
  | [x] => x
  | x :: r => x ++ 46%N :: join_dot r
  end.

(* resolve_constants_simple / resolve_constant_simple.  The count is the number of constants of the flat list
   whose state is Resolved after this visit *)
Fixpoint resolve_consts (optst : bool) (ds : defines) (t : table) (its : list item) : er (table * nat) :=
  match its with
  | [] => ROk (t, O)
  | ISym _ _ (SConst e) d :: r =>
    match d with
    | None => RPanic                                                 (* item_ref.unwrap() *)
    | Some p =>
      match find_entry p t with
      | None => RPanic                                               (* defs.symbols.get *)
      | Some en =>
        let bump x := match x with ROk (t', n) => ROk (t', S n) | o => o end in
        if e_resolved en then bump (resolve_consts optst ds t r)
        else
          match find_define (join_dot p) ds with
          | Some v => bump (resolve_consts optst ds (set_entry p v true t) r)
          | None =>
            match eval (lookup t) e with
            | ROk VUnknown => resolve_consts optst ds (set_entry p VUnknown false t) r
            | ROk v => bump (resolve_consts optst ds (set_entry p v (optst && static_known e) t) r)
            | RErr c => RErr c | RPanic => RPanic | RFuel => RFuel
            end
          end
      end
    end
  | _ :: r => resolve_consts optst ds t r
  end.

(* resolve_ifs: from the last node to the first; spliced nodes are not revisited in this call *)
Definition arm_items (b : bool) (t : list node) (f : option (list node)) : list item :=
  if b then map inject t else match f with Some l => map inject l | None => [] end.

Fixpoint resolve_ifs (t : table) (its : list item) : er (list item * nat) :=
  match its with
  | [] => ROk ([], O)
  | it :: r =>
    match resolve_ifs t r with
    | ROk (r', n) =>
      match it with
      | IIf c ta fa =>
        match eval (lookup t) c with
        | ROk (VBool b) => ROk (arm_items b ta fa ++ r', S n)
        | ROk _ => ROk (it :: r', n)                                 (* not a Bool: `continue` *)
        | RErr e => RErr e | RPanic => RPanic | RFuel => RFuel
        end
      | _ => ROk (it :: r', n)
      end
    | RErr c => RErr c | RPanic => RPanic | RFuel => RFuel
    end
  end.

Definition is_if (it : item) : bool := match it with IIf _ _ _ => true | _ => false end.

(* one turn of the loop; the boolean says whether the loop goes on *)
Definition round (optst : bool) (ds : defines) (t : table) (its : list item) (prev : nat)
  : er (list item * table * nat * bool) :=
  match collect [] t its with
  | ROk (its1, t1) =>
    match resolve_consts optst ds t1 its1 with
    | ROk (t2, cnt) =>
      match resolve_ifs t2 its1 with
      | ROk (its2, nifs) => ROk (its2, t2, cnt, negb (Nat.eqb cnt prev && Nat.eqb nifs O))
      | RErr c => RErr c | RPanic => RPanic | RFuel => RFuel
      end
    | RErr c => RErr c | RPanic => RPanic | RFuel => RFuel
    end
  | RErr c => RErr c | RPanic => RPanic | RFuel => RFuel
  end.

Fixpoint loop (fuel : nat) (optst : bool) (ds : defines) (t : table) (its : list item) (prev : nat)
  : er (list item * table) :=
  match fuel with
  | O => RFuel
  | S k =>
    match round optst ds t its prev with
    | ROk (its', t', cnt, true) => loop k optst ds t' its' cnt
    | ROk (its', t', _, false) => ROk (its', t')
    | RErr c => RErr c | RPanic => RPanic | RFuel => RFuel
    end
  end.

(* check_unused_defines: the name is split at '.', looked up from the global context, and must be a constant *)
Fixpoint check_unused (ds : defines) (t : table) : bool :=
  match ds with
  | [] => true
  | (n, _) :: r =>
    match find_entry (split_on 46%N n) t with
    | Some en => match e_kind en with KConst => check_unused r t | KLabel => false end
    | None => false
    end
  end.

(* sizes for the fuel *)
Fixpoint node_size (n : node) : nat :=
  match n with
  | NIf _ t f => S (fold_right (fun x a => node_size x + a) O t
                    + match f with Some l => fold_right (fun x a => node_size x + a) O l | None => O end)
  | _ => 1
  end.
Definition nodes_size (l : list node) : nat := fold_right (fun x a => node_size x + a) O l.

Fixpoint node_consts (n : node) : nat :=
  match n with
  | NSym _ _ (SConst _) => 1
  | NIf _ t f => fold_right (fun x a => node_consts x + a) O t
                 + match f with Some l => fold_right (fun x a => node_consts x + a) O l | None => O end
  | _ => O
  end.
Definition nodes_consts (l : list node) : nat := fold_right (fun x a => node_consts x + a) O l.

(* the number of #if nodes (nested ones included) and the bound on the number of rounds of the loop
   (Proofs/CondTotalP.v: every round but the last splices an #if or makes a constant known) *)
Fixpoint node_ifs (n : node) : nat :=
  match n with
  | NIf _ t f => S (fold_right (fun x a => node_ifs x + a) O t
                    + match f with Some l => fold_right (fun x a => node_ifs x + a) O l | None => O end)
  | _ => O
  end.
Definition nodes_ifs (l : list node) : nat := fold_right (fun x a => node_ifs x + a) O l.
Definition round_bound (tree : list node) : nat := nodes_ifs tree + nodes_consts tree + 1.

Definition fuel_for (tree : list node) : nat := nodes_size tree + nodes_consts tree + 2.

(* the loop, check_leftover_ifs, check_unused_defines (the phases in between do not touch the node list or the
   set of declarations) *)
Definition run_fuel (fuel : nat) (optst : bool) (ds : defines) (tree : list node) : er (list item * table) :=
  match loop fuel optst ds [] (map inject tree) O with
  | ROk (its, t) =>
    if existsb is_if its then RErr ELeftover
    else if check_unused ds t then ROk (its, t) else RErr EUnused
  | o => o
  end.

Definition run (optst : bool) (ds : defines) (tree : list node) : er (list item * table) :=
  run_fuel (fuel_for tree) optst ds tree.
