(* Model of the three LISTING formatters of src/util/bitvec_format.rs:
     format_annotated (base, digits_per_group), format_tcgame (base, digits_per_group), format_addrspan,
   as they are in /repo after the repair of finding F53 (a digit reads only the bits INSIDE its item:
   `bit_in_span < span.size && read_bit(offset + bit_in_span)`); the pinned behaviour (the digit is filled up
   with the bits that follow the item) is kept behind the flag [fixed := false] of the generic functions.
   Executable definitions only (lemmas: Proofs/ListingP*.v; statements: Props/C12.v).

   Input: the output bit vector (list bool, index 0 = first bit; read_bit past the end is false, as BigInt::get_bit
   of a non-negative number), BitVec::spans in the order they were recorded, and the file server as a list
   indexed by file handle of (file name, contents).  Each formatter is   layout (one record per row)   then
   render (characters).  Text is [list N] of code points.

   Parameters: [base] and [group] are those accepted by driver::parse_output_format
   (base in {2,4,8,16,32,64,128}, 1 <= group <= 65535: [listing_params_ok]); the harness only feeds such values.
   Divisions by `bits_per_group` / `bits_per_digit` are checked operations here (Panic when zero), but other
   effects of out-of-domain parameters (u8 overflow of a digit wider than 7 bits, usize overflow of
   digits_per_group * bits_per_digit) are not modelled.  usize additions `offset + digit_index * bits_per_digit +
   bit_index` stay below offset + size + 7, and offset + size is at most the vector length, which
   asm/output/mod.rs bounds by BIGINT_MAX_BITS (F37), so they are plain additions. *)
From Coq Require Import Ascii String ZArith NArith List Bool.
From CA Require Import Model.Formats Model.CharCounter.
Import ListNotations.
Open Scope N_scope.

(* ---------------------------------------------------------------- input *)
(* BitVecSpan: offset (None = item outside every bank's output), size, logical address, source span
   (file handle, location = None for Span::new_dummy) *)
Record lspan := mk_lspan {
  ls_offset : option N; ls_size : N; ls_addr : Z; ls_file : N; ls_loc : option (N * N) }.

(* file server: handle -> (name, contents) *)
Definition fileset := list (list N * list N).
Definition file_at (fs : fileset) (h : N) : option (list N * list N) := nth_error fs (N.to_nat h).

(* self.data.get_bit(index) *)
Definition read_bit (bs : bits) (i : N) : bool :=
  match nth_error bs (N.to_nat i) with Some b => b | None => false end.

(* sorted_spans.sort_by(|a, b| a.offset.cmp(&b.offset)): stable, None first *)
Fixpoint insert_by {A} (key : A -> option N) (s : A) (l : list A) : list A :=
  match l with
  | [] => [s]
  | h :: t => if offset_leb (key h) (key s) then h :: insert_by key s t else s :: l
  end.
Definition sort_by {A} (key : A -> option N) (l : list A) : list A :=
  fold_left (fun acc s => insert_by key s acc) l [].
Definition sort_lspans := sort_by ls_offset.

(* the switch of finding F53: true = the code as it is now in /repo *)
Definition overshoot_fixed : bool := true.

(* ---------------------------------------------------------------- parameters *)
(* (base - 1).count_ones() *)
Fixpoint pos_ones (p : positive) : N :=
  match p with xH => 1 | xO q => pos_ones q | xI q => 1 + pos_ones q end.
Definition count_ones (n : N) : N := match n with N0 => 0 | Npos p => pos_ones p end.
Definition bits_per_digit (base : N) : N := count_ones (base - 1).

(* check_valid_base / check_nonzero of driver.rs *)
Definition valid_base (base : N) : bool :=
  existsb (N.eqb base) [2; 4; 8; 16; 32; 64; 128].
Definition valid_group (g : N) : bool := (0 <? g) && (g <=? 65535).
Definition listing_params_ok (base g : N) : bool := valid_base base && valid_group g.

(* ---------------------------------------------------------------- layout of one row *)
(* span.size / bits_per_digit + if span.size % bits_per_digit == 0 { 0 } else { 1 } *)
Definition digit_num (k size : N) : N := size / k + (if size mod k =? 0 then 0 else 1).

Fixpoint nseq (from : N) (n : nat) : list N :=
  match n with O => [] | S m => from :: nseq (from + 1) m end.

(* the bit the inner loop reads at distance j from the start of the item *)
Definition span_bit (fixed : bool) (bs : bits) (off size j : N) : bool :=
  if fixed then (j <? size) && read_bit bs (off + j) else read_bit bs (off + j).

(* for bit_index in 0..bits_per_digit { digit <<= 1; digit |= bit } *)
Definition digit_val (fixed : bool) (bs : bits) (off size k digit_index : N) : N :=
  fold_left (fun d bit_index => 2 * d + b2n (span_bit fixed bs off size (digit_index * k + bit_index)))
            (nseq 0 (N.to_nat k)) 0.

(* for digit_index in 0..digit_num *)
Definition span_digits (fixed : bool) (bs : bits) (off size k : N) : list N :=
  map (digit_val fixed bs off size k) (nseq 0 (N.to_nat (digit_num k size))).

(* a row before rendering *)
Record row := mk_row {
  r_pos : option (N * N);        (* offset / bits_per_group, offset % bits_per_group *)
  r_addr : Z;
  r_digits : list N;             (* digit values, in order *)
  r_src : list N                 (* get_excerpt of the span *)
}.

(* fileserver.get_str_unwrap(handle); span.location().unwrap(); char_counter.get_excerpt(start, end) *)
Definition span_excerpt (fs : fileset) (s : lspan) : cres (list N) :=
  match file_at fs (ls_file s) with
  | None => Panic
  | Some (_, chars) =>
    match ls_loc s with
    | None => Panic
    | Some (a, b) => get_excerpt chars a b
    end
  end.

Definition layout_row (fixed : bool) (fs : fileset) (k g : N) (bs : bits) (s : lspan) : cres row :=
  if k =? 0 then Panic                                   (* span.size / bits_per_digit *)
  else
    match span_excerpt fs s with
    | Panic => Panic
    | Ok src =>
      match ls_offset s with
      | Some off =>
        if g * k =? 0 then Panic                           (* offset / bits_per_group *)
        else Ok (mk_row (Some (off / (g * k), off mod (g * k))) (ls_addr s)
                        (span_digits fixed bs off (ls_size s) k) src)
      | None =>
        if digit_num k (ls_size s) =? 0 then Ok (mk_row None (ls_addr s) [] src)
        else Panic                                         (* span.offset.unwrap() *)
      end
    end.

Fixpoint map_cres {A B} (f : A -> cres B) (l : list A) : cres (list B) :=
  match l with
  | [] => Ok []
  | x :: r =>
    match f x with
    | Panic => Panic
    | Ok y => match map_cres f r with Panic => Panic | Ok ys => Ok (y :: ys) end
    end
  end.

Definition layout_rows (fixed : bool) (fs : fileset) (k g : N) (bs : bits) (spans : list lspan) : cres (list row) :=
  map_cres (layout_row fixed fs k g bs) (sort_lspans spans).

(* ---------------------------------------------------------------- numbers as text *)
(* {:x} of num_bigint::BigInt: sign, then the magnitude *)
Definition hexz (z : Z) : list N :=
  match z with
  | Zneg p => 45 :: hex_lower (Npos p)
  | _ => hex_lower (Z.to_N z)
  end.

(* {:w$} of a string: left-aligned, padded with blanks (width counts characters) *)
Definition pad_right (w : nat) (t : list N) : list N := t ++ repeat 32 (w - length t).

(* ---------------------------------------------------------------- column widths (first loop) *)
Record widths := mk_widths { w_outp : nat; w_bit : nat; w_addr : nat; w_content : nat }.

Definition widths_step (k g : N) (w : widths) (s : lspan) : widths :=
  match ls_offset s with
  | None => w
  | Some off =>
    let data_digits := digit_num k (ls_size s) in
    let this_content_width := data_digits + data_digits / g in
    mk_widths (Nat.max (w_outp w) (length (hex_lower (off / (g * k)))))
              (Nat.max (w_bit w) (length (hex_lower (off mod (g * k)))))
              (Nat.max (w_addr w) (length (hexz (ls_addr s))))
              (if (1 <? this_content_width) && (this_content_width <=? (g + 1) * 5)
               then Nat.max (w_content w) (N.to_nat (this_content_width - 1)) else w_content w)
  end.

Definition widths_of (k g : N) (sorted : list lspan) : widths :=
  fold_left (widths_step k g) sorted (mk_widths 2 1 4 (N.to_nat ((g + 1) * 1 - 1))).

(* ---------------------------------------------------------------- render: annotated *)
Definition render_pos (w : widths) (p : option (N * N)) : list N :=
  match p with
  | Some (a, b) => [32] ++ pad_left 32 (w_outp w) (hex_lower a) ++ [58] ++ pad_left 32 (w_bit w) (hex_lower b) ++ lit " | "
  | None => [32] ++ pad_left 32 (w_outp w) (lit "--") ++ [58] ++ pad_left 32 (w_bit w) (lit "-") ++ lit " | "
  end.

(* contents_str of format_annotated: a blank before every group but the first *)
Fixpoint render_digits_from (g : N) (digit_index : N) (ds : list N) : list N :=
  match ds with
  | [] => []
  | d :: r =>
    (if (0 <? digit_index) && (digit_index mod g =? 0) then [32] else [])
    ++ [digit_char false d] ++ render_digits_from g (digit_index + 1) r
  end.

Definition header (prefix : list N) (base : N) (w : widths) : list N :=
  prefix ++ [32] ++ pad_left 32 (w_outp w + w_bit w + 1) (lit "outp") ++ lit " |"
  ++ [32] ++ pad_left 32 (w_addr w) (lit "addr") ++ lit " |"
  ++ lit " data (base " ++ dec base ++ lit ")" ++ [10; 10].

Definition content_w (w : widths) : nat := N.to_nat (N.min (N.of_nat (w_content w)) 65535).  (* content_width.min(u16::MAX) *)

Definition render_row_annotated (g : N) (w : widths) (r : row) : list N :=
  render_pos w (r_pos r)
  ++ pad_left 32 (w_addr w) (hexz (r_addr r)) ++ lit " | "
  ++ pad_right (content_w w) (render_digits_from g 0 (r_digits r))
  ++ lit " ; " ++ r_src r ++ [10].

Definition format_annotated_gen (fixed : bool) (fs : fileset) (base g : N) (bs : bits) (spans : list lspan) : cres (list N) :=
  let k := bits_per_digit base in
  match layout_rows fixed fs k g bs spans with
  | Panic => Panic
  | Ok rows =>
    let w := widths_of k g (sort_lspans spans) in
    Ok (header [] base w ++ concat (map (render_row_annotated g w) rows))
  end.

Definition format_annotated := format_annotated_gen overshoot_fixed.

(* ---------------------------------------------------------------- render: tcgame *)
(* contents_str of format_tcgame: every group starts with the prefix, a blank before every group but the first *)
Fixpoint render_digits_tc (prefix : list N) (g : N) (digit_index : N) (ds : list N) : list N :=
  match ds with
  | [] => []
  | d :: r =>
    (if digit_index mod g =? 0 then (if 0 <? digit_index then [32] else []) ++ prefix else [])
    ++ [digit_char false d] ++ render_digits_tc prefix g (digit_index + 1) r
  end.

Definition tc_prefix (base : N) : list N := if base =? 2 then lit "0b" else lit "0x".

Definition render_row_tcgame (base g : N) (w : widths) (r : row) : list N :=
  lit "# " ++ render_pos w (r_pos r)
  ++ pad_left 32 (w_addr w) (hexz (r_addr r)) ++ [32; 10]
  ++ lit "# " ++ r_src r ++ [10]
  ++ pad_right (content_w w) (render_digits_tc (tc_prefix base) g 0 (r_digits r)) ++ [10].

Definition format_tcgame_gen (fixed : bool) (fs : fileset) (base g : N) (bs : bits) (spans : list lspan) : cres (list N) :=
  if negb ((base =? 2) || (base =? 16)) then Panic           (* assert!(base == 2 || base == 16) *)
  else
    let k := bits_per_digit base in
    match layout_rows fixed fs k g bs spans with
    | Panic => Panic
    | Ok rows =>
      let w := widths_of k g (sort_lspans spans) in
      Ok (header (lit "#") base w ++ concat (map (render_row_tcgame base g w) rows))
    end.

Definition format_tcgame := format_tcgame_gen overshoot_fixed.

(* ---------------------------------------------------------------- addrspan *)
Record arow := mk_arow {
  a_pos : option (N * N);                   (* offset / 8, offset % 8 *)
  a_addr : Z;
  a_file : list N;                          (* file name, or the handle in decimal for a span without location *)
  a_lc : option (N * N * N * N)             (* line start, column start, line end, column end (0-based) *)
}.

Definition layout_arow (fs : fileset) (s : lspan) : cres arow :=
  match file_at fs (ls_file s) with
  | None => Panic                           (* fileserver.get_str(..).unwrap() *)
  | Some (name, chars) =>
    let pos := match ls_offset s with Some off => Some (off / 8, off mod 8) | None => None end in
    match ls_loc s with
    | Some (a, b) =>
      let '(l1, c1) := get_line_column_at_index chars a in
      let '(l2, c2) := get_line_column_at_index chars b in
      Ok (mk_arow pos (ls_addr s) name (Some (l1, c1, l2, c2)))
    | None => Ok (mk_arow pos (ls_addr s) (dec (ls_file s)) None)
    end
  end.

Definition layout_addrspan (fs : fileset) (spans : list lspan) : cres (list arow) :=
  map_cres (layout_arow fs) (sort_lspans spans).

Definition render_arow (r : arow) : list N :=
  (match a_pos r with
   | Some (a, b) => hex_lower a ++ [58] ++ hex_lower b ++ lit " | "
   | None => lit "-:- | "
   end)
  ++ hexz (a_addr r) ++ lit " | "
  ++ a_file r
  ++ (match a_lc r with
      | Some (l1, c1, l2, c2) => [58] ++ dec l1 ++ [58] ++ dec c1 ++ [58] ++ dec l2 ++ [58] ++ dec c2
      | None => lit ":-:-:-:-"
      end)
  ++ [10].

Definition addrspan_header : list N :=
  lit "; physical address : bit offset | logical address | file : line start : column start : line end : column end" ++ [10].

Definition format_addrspan (fs : fileset) (spans : list lspan) : cres (list N) :=
  match layout_addrspan fs spans with
  | Panic => Panic
  | Ok rows => Ok (addrspan_header ++ concat (map render_arow rows))
  end.
