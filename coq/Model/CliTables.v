(* The single place that names the generated command-line tables: tools/translate.py emits them into
   Gen/Generated.v on every run (tools/translate_cli.py reads usage_help.md and driver.rs). *)
From CA Require Export Gen.Generated.
