(* The single place that names the generated command-line tables.  Until tools/translate.py emits them into
   Gen/Generated.v they live in Gen/GeneratedCli.v (written by tools/props/c18.py from tools/translate_cli.py
   at the start of every run); to switch, change this one line. *)
From CA Require Export Gen.GeneratedCli.
