(* Model of excerpt_as_string_contents (src/syntax/excerpt.rs): string escapes; and the string encoders
   of src/expr/builtin_fn.rs.  Executable definitions only. *)
From Coq Require Import NArith ZArith List Bool.
From CA Require Import Model.Lexer Model.Parser.
Import ListNotations.
Open Scope N_scope.

Definition hex_digit (c : N) : option N :=
  if in_range c 48 57 then Some (c - 48)
  else if in_range c 97 102 then Some (c - 97 + 10)
  else if in_range c 65 70 then Some (c - 65 + 10) else None.

Definition is_scalar (c : N) : bool := (c <? 0xD800) || ((0xE000 <=? c) && (c <=? 0x10FFFF)).

(* \u{...}: i counts loop rounds; more than 7 rounds (six digits and the closing brace) is an error: the code checks `i > 6` before reading *)
Fixpoint unescape_u (t : text) (i : nat) (cp : N) : option (N * text) :=
  match i with
  | O => None
  | S i' =>
    match t with
    | [] => None
    | c :: r => if c =? 125 then (if is_scalar cp then Some (cp, r) else None)
                else match hex_digit c with
                     | Some d => unescape_u r i' ((cp * 16 + d) mod 4294967296)
                     | None => None
                     end
    end
  end.

(* contents between the quotes -> unescaped text; None = "invalid escape sequence" *)
Fixpoint unescape (fuel : nat) (t : text) : option text :=
  match fuel with
  | O => None
  | S f =>
    match t with
    | [] => Some []
    | 92 :: r =>                                   (* backslash *)
      match r with
      | [] => None
      | e :: r2 =>
        let simple (c : N) := match unescape f r2 with Some s => Some (c :: s) | None => None end in
        if e =? 48 then simple 0 else if e =? 116 then simple 9 else if e =? 114 then simple 13
        else if e =? 110 then simple 10 else if e =? 39 then simple 39 else if e =? 34 then simple 34
        else if e =? 92 then simple 92
        else if e =? 120 then                      (* \xHH, at most 0x7f *)
          match r2 with
          | h1 :: h2 :: r3 =>
            match hex_digit h1, hex_digit h2 with
            | Some a, Some b => let byte := (a * 16 + b) mod 256 in
                                if 127 <? byte then None
                                else match unescape f r3 with Some s => Some (byte :: s) | None => None end
            | _, _ => None
            end
          | _ => None
          end
        else if e =? 117 then                      (* \u{...} *)
          match r2 with
          | 123 :: r3 =>
            match unescape_u r3 7 0 with
            | Some (cp, r4) => match unescape f r4 with Some s => Some (cp :: s) | None => None end
            | None => None
            end
          | _ => None
          end
        else None
      end
    | c :: r => match unescape f r with Some s => Some (c :: s) | None => None end
    end
  end.

Definition strip_quotes (t : text) : text := removelast (tl t).
Definition string_contents (raw : text) : option text :=
  let inner := strip_quotes raw in unescape (S (length inner)) inner.

(* ---- encoders ---- *)
Open Scope Z_scope.
Fixpoint utf8_bytes (t : text) : list Z :=
  match t with
  | [] => []
  | c :: r =>
    let c := Z.of_N c in
    (if c <? 0x80 then [c]
     else if c <? 0x800 then [0xC0 + c / 64; 0x80 + c mod 64]
     else if c <? 0x10000 then [0xE0 + c / 4096; 0x80 + (c / 64) mod 64; 0x80 + c mod 64]
     else [0xF0 + c / 262144; 0x80 + (c / 4096) mod 64; 0x80 + (c / 64) mod 64; 0x80 + c mod 64]) ++ utf8_bytes r
  end.
Fixpoint utf16_units (t : text) : list Z :=
  match t with
  | [] => []
  | c :: r => let c := Z.of_N c in
    (if c <? 0x10000 then [c] else [0xD800 + (c - 0x10000) / 1024; 0xDC00 + (c - 0x10000) mod 1024]) ++ utf16_units r
  end.
(* encodings: 0 utf8, 1 utf16be, 2 utf16le, 3 utf32be, 4 utf32le, 5 ascii *)
Definition encode (enc : N) (t : text) : list Z :=
  match enc with
  | 0%N => utf8_bytes t
  | 1%N => flat_map (fun u => [u / 256; u mod 256]) (utf16_units t)
  | 2%N => flat_map (fun u => [u mod 256; u / 256]) (utf16_units t)
  | 3%N => flat_map (fun c => let c := Z.of_N c in [c / 16777216; (c / 65536) mod 256; (c / 256) mod 256; c mod 256]) t
  | 4%N => flat_map (fun c => let c := Z.of_N c in [c mod 256; (c / 256) mod 256; (c / 65536) mod 256; c / 16777216]) t
  | _ => map (fun c => let c := Z.of_N c in if c >=? 256 then 0 else c) t
  end.
