(* The stages after matching, for a program whose sizes are all resolved: last resolver pass (labels,
   #addr / #align checks), check_bank_overlap, build_output (asm/mod.rs), instantiated with the
   BIGINT_MAX_BITS constant read from the source tree on every run (Gen/Generated.v).
   Executable definitions only. *)
From Coq Require Import ZArith NArith List.
From CA Require Import Gen.Generated Model.Overlap Model.Cursor Model.LastPass Model.Output.
Definition max_bits : N := Z.to_N BIGINT_MAX_BITS.
Definition assemble_layout (mb : N) (banks : list bank) (nodes : list node) : res (list bool * list item) :=
  match last_pass (Z.of_N mb) banks nodes with
  | Err => Err | Panic => Panic
  | Ok nodes' => output_stage mb banks nodes'
  end.
Definition output_stage_top (banks : list bank) (nodes : list node) : res (list bool * list item) :=
  assemble_layout max_bits banks nodes.
(* label resolution on the last pass: ctx.eval_address(.., can_guess = false) *)
Definition label_address_top (b : bank) (pos : N) : res Z := eval_address BIGINT_MAX_BITS b pos false.
