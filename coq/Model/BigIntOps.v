(* Model of the algorithmic parts of src/util/bigint.rs (BigInt wrapper over num-bigint):
   slice / concat as per-bit loops, `!` as byte complement, `le` as byte reversal, string import.
   num-bigint's own arithmetic is identified with Z (trusted base).  Executable definitions only. *)
From Coq Require Import ZArith NArith List Bool.
Import ListNotations.
Open Scope Z_scope.

Record bigint := { bv : Z; bsz : option N }.
Definition mk (v : Z) (s : option N) : bigint := {| bv := v; bsz := s |}.
Definition un (v : Z) : bigint := mk v None.

Definition BIGINT_MAX_BITS : Z := 800000000.
Definition usize_max : Z := 18446744073709551615.
Definition u32_max : Z := 4294967295.

(* num-bigint bits(): bits of the magnitude *)
Definition bits (v : Z) : Z := if Z.abs v =? 0 then 0 else Z.log2 (Z.abs v) + 1.

Definition get_bit (x : Z) (i : N) : bool := Z.testbit x (Z.of_N i).
Definition set_bit (x : Z) (i : N) (b : bool) : Z :=
  if b then Z.setbit x (Z.of_N i) else Z.clearbit x (Z.of_N i).

(* BigInt::slice:  for i in (0..(left-right)).rev() { result.set_bit(i, self.get_bit(right + i)) } *)
Fixpoint slice_loop (x : Z) (right : N) (k : nat) (acc : Z) : Z :=
  match k with
  | O => acc
  | S k' => slice_loop x right k' (set_bit acc (N.of_nat k') (get_bit x (right + N.of_nat k')))
  end.
Definition slice_bits (x : Z) (left right : N) : Z :=
  slice_loop x right (N.to_nat (left - right)) 0.
(* with the early return `sign != Minus && left == size && right == 0 => self.clone()` *)
Definition slice (x : bigint) (left right : N) : bigint :=
  match bsz x with
  | Some size => if (0 <=? bv x) && (left =? size)%N && (right =? 0)%N then x
                 else mk (slice_bits (bv x) left right) (Some (left - right)%N)
  | None => mk (slice_bits (bv x) left right) (Some (left - right)%N)
  end.

(* BigInt::concat: two copy loops into a zero result *)
Fixpoint copy_loop (src : Z) (src_off dst_off : N) (k : nat) (acc : Z) : Z :=
  match k with
  | O => acc
  | S k' => copy_loop src src_off dst_off k' (set_bit acc (dst_off + N.of_nat k') (get_bit src (src_off + N.of_nat k')))
  end.
Definition concat_bits (a : Z) (asz : N) (b : Z) (bsz : N) : Z :=
  copy_loop b 0 0 (N.to_nat bsz) (copy_loop a 0 bsz (N.to_nat asz) 0).
Definition concat (a : bigint) (asz : N) (b : bigint) (bsz : N) : bigint :=
  mk (concat_bits (bv a) asz (bv b) bsz) (Some (asz + bsz)%N).

(* little-endian bytes of a non-negative number, exactly n of them *)
Fixpoint bytes_le (v : Z) (n : nat) : list Z :=
  match n with O => [] | S k => v mod 256 :: bytes_le (v / 256) k end.
Definition from_bytes_be (bs : list Z) : Z := fold_left (fun acc b => acc * 256 + b) bs 0.
Definition from_bytes_le (bs : list Z) : Z := from_bytes_be (rev bs).

(* number of bytes of num-bigint's to_signed_bytes_le: minimal two's-complement length *)
Definition signed_width (v : Z) : Z :=
  if v =? 0 then 1 else if v <? 0 then bits (- (v + 1)) + 1 else bits v + 1.
Definition signed_len (v : Z) : nat := Z.to_nat ((signed_width v + 7) / 8).
Definition to_signed_bytes_le (v : Z) : list Z :=
  let n := signed_len v in bytes_le (v mod 2 ^ (8 * Z.of_nat n)) n.
Definition from_signed_bytes_le (bs : list Z) : Z :=
  let u := from_bytes_le bs in
  match rev bs with
  | top :: _ => if top >=? 128 then u - 2 ^ (8 * Z.of_nat (length bs)) else u
  | [] => 0
  end.

(* impl Not for &BigInt *)
Definition not_bytes (v : Z) : Z :=
  let bs := to_signed_bytes_le v in
  let bs := if 0 <=? v then bs ++ [0] else bs in
  from_signed_bytes_le (map (fun b => 255 - b) bs).

(* to_bytes_le of the magnitude: minimal length, [0] for zero *)
Definition magnitude_len (v : Z) : nat := if v =? 0 then 1%nat else Z.to_nat ((bits v + 7) / 8).

(* BigInt::convert_le (size is known to be Some) *)
Definition convert_le (x : bigint) (size : N) : bigint :=
  let v := bv (slice x size 0) in
  let n := Nat.max (magnitude_len v) (N.to_nat (size / 8)) in   (* padded with zero bytes up to size/8 *)
  mk (from_bytes_be (bytes_le v n)) (Some size).

(* BigInt::from_bytes_be (unsigned import of string bytes) *)
Definition import_bytes (bs : list Z) : bigint :=
  mk (from_bytes_be bs) (Some (N.of_nat (8 * length bs))).

(* checked arithmetic (results unsized) *)
Inductive eres (A : Type) := EOk (a : A) | EErr.
Arguments EOk {A}. Arguments EErr {A}.
Definition checked_add a b := if Z.max (bits a) (bits b) >=? BIGINT_MAX_BITS - 1 then EErr else EOk (un (a + b)).
Definition checked_sub a b := if Z.max (bits a) (bits b) >=? BIGINT_MAX_BITS - 2 then EErr else EOk (un (a - b)).
Definition checked_mul a b := if Z.max (bits a) (bits b) >=? BIGINT_MAX_BITS / 2 then EErr else EOk (un (a * b)).
Definition checked_div a b := if b =? 0 then EErr else EOk (un (Z.quot a b)).
Definition checked_mod a b := if b =? 0 then EErr else EOk (un (Z.rem a b)).
Definition checked_shl a b :=
  if (b <? 0) || (b >? u32_max) then EErr
  else if bits a + b >=? BIGINT_MAX_BITS then EErr else EOk (un (Z.shiftl a b)).
Definition checked_shr a b := if (b <? 0) || (b >? usize_max) then EErr else EOk (un (Z.shiftr a b)).
