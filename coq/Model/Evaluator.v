(* Model of src/expr/eval.rs (Expr::eval_with_ctx) and src/expr/builtin_fn.rs.
   The evaluator is parametric in the record `ops` of big-integer primitives, instantiated once with the
   code's algorithms (Model.BigIntOps) and once with their closed mathematical forms (Spec.Sem).
   Executable definitions only. *)
From Coq Require Import NArith ZArith List Bool.
From CA Require Import Model.Lexer Model.Parser Model.Literal Model.BigIntOps.
Import ListNotations.
Open Scope Z_scope.

Inductive value :=
| VUnknown | VFailed | VVoid | VInt (b : bigint) | VStr (s : text) (enc : N) | VBool (b : bool) | VBuiltin (name : text).

Record ops := {
  op_slice : bigint -> N -> N -> bigint;
  op_concat : bigint -> N -> bigint -> N -> bigint;
  op_not : Z -> Z;
  op_le : bigint -> N -> bigint }.

Definition code_ops : ops :=
  {| op_slice := slice; op_concat := concat; op_not := not_bytes; op_le := convert_le |}.

Definition str_bigint (s : text) (enc : N) : bigint := import_bytes (encode enc s).

Definition get_bigint (v : value) : option bigint :=
  match v with VInt b => Some b | VStr s e => Some (str_bigint s e) | _ => None end.

Definition expect_usize (v : value) : eres Z :=
  match v with VInt b => if (bv b <? 0) || (bv b >? usize_max) then EErr else EOk (bv b) | _ => EErr end.

Section WithOps.
Variable O : ops.

Definition checked_slice (x : bigint) (left right : Z) : eres bigint :=
  if left <? right then EErr
  else if left - right >? BIGINT_MAX_BITS then EErr
  else EOk (op_slice O x (Z.to_N left) (Z.to_N right)).

(* ---- names ---- *)
Definition s_assert : text := ([97;115;115;101;114;116])%N.
Definition s_sizeof : text := ([115;105;122;101;111;102])%N.
Definition s_le : text := ([108;101])%N.
Definition s_ascii : text := ([97;115;99;105;105])%N.
Definition s_utf8 : text := ([117;116;102;56])%N.
Definition s_utf16be : text := ([117;116;102;49;54;98;101])%N.
Definition s_utf16le : text := ([117;116;102;49;54;108;101])%N.
Definition s_utf32be : text := ([117;116;102;51;50;98;101])%N.
Definition s_utf32le : text := ([117;116;102;51;50;108;101])%N.
Definition s_strlen : text := ([115;116;114;108;101;110])%N.
Definition builtins := [s_assert; s_sizeof; s_le; s_ascii; s_utf8; s_utf16be; s_utf16le; s_utf32be; s_utf32le; s_strlen].
Definition is_builtin (n : text) := existsb (text_eqb n) builtins.

Definition locals := list (text * value).
Fixpoint lookup (l : locals) (n : text) : option value :=
  match l with [] => None | (k, v) :: r => if text_eqb k n then Some v else lookup r n end.

Definition should_propagate (v : value) := match v with VUnknown | VFailed => true | _ => false end.

Definition eval_builtin (name : text) (args : list value) : eres value :=
  if text_eqb name s_assert then
    match args with
    | [VBool c] => EOk (if c then VVoid else VFailed)
    | [VBool c; m] => if c then EOk VVoid else match m with VStr _ _ => EOk VFailed | _ => EErr end
    | _ => EErr
    end
  else if text_eqb name s_sizeof then
    match args with
    | [v] => match get_bigint v with Some b => match bsz b with Some s => EOk (VInt (un (Z.of_N s))) | None => EErr end | None => EErr end
    | _ => EErr
    end
  else if text_eqb name s_le then
    match args with
    | [VInt b] => match bsz b with
                  | Some s => if (s mod 8 =? 0)%N then EOk (VInt (op_le O b s)) else EErr
                  | None => EErr end
    | _ => EErr
    end
  else if text_eqb name s_strlen then
    match args with [VStr s _] => EOk (VInt (un (Z.of_nat (length (utf8_bytes s))))) | _ => EErr end
  else
    let enc := if text_eqb name s_utf8 then Some 0%N else if text_eqb name s_utf16be then Some 1%N else if text_eqb name s_utf16le then Some 2%N
               else if text_eqb name s_utf32be then Some 3%N else if text_eqb name s_utf32le then Some 4%N else if text_eqb name s_ascii then Some 5%N else None in
    match enc, args with
    | Some e, [VStr s _] => EOk (VStr s e)
    | _, _ => EErr
    end.

Definition int_binop (o : binop) (a b : bigint) : eres value :=
  let x := bv a in let y := bv b in
  let lift r := match r with EOk v => EOk (VInt v) | EErr => EErr end in
  match o with
  | Add => lift (checked_add x y) | Sub => lift (checked_sub x y) | Mul => lift (checked_mul x y)
  | Div => lift (checked_div x y) | Mod => lift (checked_mod x y)
  | Shl => lift (checked_shl x y) | Shr => lift (checked_shr x y)
  | And => EOk (VInt (un (Z.land x y))) | Or => EOk (VInt (un (Z.lor x y))) | Xor => EOk (VInt (un (Z.lxor x y)))
  | Eq => EOk (VBool (x =? y)) | Ne => EOk (VBool (negb (x =? y)))
  | Lt => EOk (VBool (x <? y)) | Le => EOk (VBool (x <=? y)) | Gt => EOk (VBool (x >? y)) | Ge => EOk (VBool (x >=? y))
  | Concat => match bsz a, bsz b with Some sa, Some sb => EOk (VInt (op_concat O a sa b sb)) | _, _ => EErr end
  | _ => EErr
  end.

Variable pvar : N -> list text -> eres value.
Fixpoint eval (e : expr) (ctx : locals) {struct e} : eres (value * locals) :=
  let ret v := EOk (v, ctx) in
  match e with
  | ENum v sz => ret (VInt (mk (Z.of_N v) sz))
  | EBool b => ret (VBool b)
  | EStr raw => match string_contents raw with Some s => ret (VStr s 0%N) | None => EErr end
  | EVar level path =>
    match level, path with
    | 0%N, [n] => if is_builtin n then ret (VBuiltin n) else match lookup ctx n with Some v => ret v | None => match pvar level path with EOk v => ret v | EErr => EErr end end
    | _, _ => match pvar level path with EOk v => ret v | EErr => EErr end
    end
  | EUn o a =>
    match eval a ctx with
    | EErr => EErr
    | EOk (v, ctx) =>
      if should_propagate v then EOk (v, ctx) else
      match v, o with
      | VInt b, Neg => EOk (VInt (un (- bv b)), ctx)
      | VInt b, Not => EOk (VInt (un (op_not O (bv b))), ctx)
      | VBool b, Not => EOk (VBool (negb b), ctx)
      | _, _ => EErr
      end
    end
  | EBin Assign l r =>
    match l with
    | EVar 0%N [n] =>
      match eval r ctx with
      | EErr => EErr
      | EOk (v, ctx) => if should_propagate v then EOk (v, ctx) else EOk (VVoid, (n, v) :: ctx)
      end
    | _ => EErr
    end
  | EBin LazyOr l r | EBin LazyAnd l r =>
    let is_or := match e with EBin LazyOr _ _ => true | _ => false end in
    match eval l ctx with
    | EErr => EErr
    | EOk (v, ctx) =>
      if should_propagate v then EOk (v, ctx) else
      match v with
      | VBool b =>
        if Bool.eqb b is_or then EOk (v, ctx) else
        match eval r ctx with
        | EErr => EErr
        | EOk (v2, ctx) => if should_propagate v2 then EOk (v2, ctx) else match v2 with VBool _ => EOk (v2, ctx) | _ => EErr end
        end
      | _ => EErr
      end
    end
  | EBin o l r =>
    match eval l ctx with
    | EErr => EErr
    | EOk (a, ctx) =>
      if should_propagate a then EOk (a, ctx) else
      match eval r ctx with
      | EErr => EErr
      | EOk (b, ctx) =>
        if should_propagate b then EOk (b, ctx) else
        match a, b with
        | VBool x, VBool y =>
          match o with
          | And => EOk (VBool (x && y), ctx) | Or => EOk (VBool (x || y), ctx) | Xor => EOk (VBool (xorb x y), ctx)
          | Eq => EOk (VBool (Bool.eqb x y), ctx) | Ne => EOk (VBool (negb (Bool.eqb x y)), ctx)
          | _ => EErr
          end
        | _, _ =>
          match get_bigint a, get_bigint b with
          | Some x, Some y => match int_binop o x y with EOk v => EOk (v, ctx) | EErr => EErr end
          | _, _ => EErr
          end
        end
      end
    end
  | ETern c t f =>
    match eval c ctx with
    | EErr => EErr
    | EOk (v, ctx) =>
      if should_propagate v then EOk (v, ctx) else
      match v with
      | VBool true => eval t ctx
      | VBool false => eval f ctx
      | _ => EErr
      end
    end
  | ESlice l r a =>
    match eval a ctx with
    | EErr => EErr
    | EOk (v, ctx) =>
      if should_propagate v then EOk (v, ctx) else
      match get_bigint v with
      | None => EErr
      | Some x =>
        match eval l ctx with
        | EErr => EErr
        | EOk (lv, ctx) => if should_propagate lv then EOk (lv, ctx) else
          match eval r ctx with
          | EErr => EErr
          | EOk (rv, ctx) => if should_propagate rv then EOk (rv, ctx) else
            match expect_usize lv, expect_usize rv with
            | EOk lz, EOk rz => if lz + 1 >? usize_max then EErr else
                                match checked_slice x (lz + 1) rz with EOk b => EOk (VInt b, ctx) | EErr => EErr end
            | _, _ => EErr
            end
          end
        end
      end
    end
  | EShort s a =>
    match eval a ctx with
    | EErr => EErr
    | EOk (v, ctx) =>
      if should_propagate v then EOk (v, ctx) else
      match get_bigint v with
      | None => EErr
      | Some x =>
        match eval s ctx with
        | EErr => EErr
        | EOk (sv, ctx) => if should_propagate sv then EOk (sv, ctx) else
          match expect_usize sv with
          | EOk sz => match checked_slice x sz 0 with EOk b => EOk (VInt b, ctx) | EErr => EErr end
          | EErr => EErr
          end
        end
      end
    end
  | EBlock es =>
    (fix go (es : list expr) (last : value) (ctx : locals) : eres (value * locals) :=
       match es with
       | [] => EOk (last, ctx)
       | x :: r => match eval x ctx with
                   | EErr => EErr
                   | EOk (v, ctx) => if should_propagate v then EOk (v, ctx) else go r v ctx
                   end
       end) es VVoid ctx
  | ECall f args =>
    match eval f ctx with
    | EErr => EErr
    | EOk (fv, ctx) =>
      if should_propagate fv then EOk (fv, ctx) else
      (fix go (args : list expr) (acc : list value) (ctx : locals) : eres (value * locals) :=
         match args with
         | [] => match fv with
                 | VBuiltin n => match eval_builtin n (rev acc) with EOk v => EOk (v, ctx) | EErr => EErr end
                 | _ => EErr
                 end
         | x :: r => match eval x ctx with
                     | EErr => EErr
                     | EOk (v, ctx) => if should_propagate v then EOk (v, ctx) else go r (v :: acc) ctx
                     end
         end) args [] ctx
    end
  end.

End WithOps.
Definition dummy_var (_ : N) (_ : list text) : eres value := EErr.
(* parse, then evaluate with the given primitives; also returns the tree and the final cursor *)
Definition run (O : ops) (t : text) : pres (expr * eres value) :=
  match parse_text t with
  | POk e w => POk (e, match eval O dummy_var e [] with EOk (v, _) => EOk v | EErr => EErr end) w
  | PErr => PErr
  | PFuel => PFuel
  end.
