(* The single place that names the generated C10 inventory (c10_uses, c10_ambient, c10_excluded, c10_file_count):
   tools/translate.py appends tools/translate_c10.generate() to Gen/Generated.v on every run. *)
From CA Require Export Gen.Generated.
