(* The single place that names the generated C10 inventory (c10_uses, c10_ambient, c10_excluded, c10_file_count).
   Until tools/translate.py appends tools/translate_c10.generate() to Gen/Generated.v, tools/props/c10.py writes
   Gen/GeneratedC10.v itself at the start of every run; afterwards change the line below to `Gen.Generated`. *)
From CA Require Export Gen.GeneratedC10.
