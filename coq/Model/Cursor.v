(* Model of the address/position arithmetic of src/asm/resolver/iter.rs (repaired tree):
   ResolveIterator's per-bank cursor (`bank_ref`, `bank_data[..].cur_position`, all in BITS),
   advance_address, the `labelalign` handling of next(), bits_until_alignment, checked_position,
   ResolverContext::get_output_position / get_address / eval_address.
   Executable definitions only.

   usize arithmetic: `checked_*` calls of the code are Err ("value is out of supported range") on
   overflow; plain `+ - *` are Panic on overflow (debug build) -- see Model/Overlap.checked_add.
   BigInt arithmetic carries the BIGINT_MAX_BITS guards of util/bigint.rs (parameter `mb`). *)
From Coq Require Import ZArith NArith List Bool.
From CA Require Import Model.Overlap.
Import ListNotations.
Open Scope N_scope.

(* defs/bankdef.rs Bankdef; size and output_offset are in bits, addr_unit = bits per address *)
Record bank := mkBank {
  bk_addr : Z;                 (* addr_start *)
  bk_unit : N;                 (* addr_unit, non-zero by construction (expect_nonzero_usize) *)
  bk_labelalign : option N;
  bk_size : option N;          (* size in bits = addr_size * addr_unit *)
  bk_outp : option N;          (* output_offset in bits *)
  bk_fill : bool }.

(* the bank that exists before any #bankdef *)
Definition default_bank : bank := mkBank 0 8 None None (Some 0) false.

Definition checked_mul (a b : N) : option N := if a * b <=? usize_max then Some (a * b) else None.

(* num_bigint bits(): bit length of the magnitude *)
Definition zbits (v : Z) : Z := if (v =? 0)%Z then 0%Z else (Z.log2 (Z.abs v) + 1)%Z.
Definition big_add (mb : Z) (a b : Z) : res Z :=
  if (Z.max (zbits a) (zbits b) >=? mb - 1)%Z then Err else Ok (a + b)%Z.
Definition big_sub (mb : Z) (a b : Z) : res Z :=
  if (Z.max (zbits a) (zbits b) >=? mb - 2)%Z then Err else Ok (a - b)%Z.
Definition big_mul (mb : Z) (a b : Z) : res Z :=
  if (Z.max (zbits a) (zbits b) >=? mb / 2)%Z then Err else Ok (a * b)%Z.
(* checked_mod: num_bigint `%` truncates toward zero (sign of the dividend) *)
Definition big_mod (a b : Z) : res Z := if (b =? 0)%Z then Err else Ok (Z.rem a b).
(* maybe_into::<usize>() *)
Definition to_usize (v : Z) : option N :=
  if ((0 <=? v) && (v <=? Z.of_N usize_max))%Z then Some (Z.to_N v) else None.

(* checked_position: None -> error "value is out of supported range" *)
Definition checked_position (m : option N) : res N := match m with Some p => Ok p | None => Err end.

(* fn bits_until_alignment(cur_address_in_bits, alignment) *)
Definition bits_until_alignment (cur_address_in_bits : Z) (alignment : N) : res N :=
  if alignment =? 0 then Ok 0 else
  match big_mod cur_address_in_bits (Z.of_N alignment) with
  | Err => Err | Panic => Panic
  | Ok excess_big =>
      match to_usize excess_big with
      | None => Err                      (* checked_into::<usize> *)
      | Some excess =>
          if negb (excess =? 0) then
            (if excess <=? alignment then Ok (alignment - excess) else Panic)   (* `alignment - excess_bits` *)
          else Ok 0
      end
  end.

(* bank.addr_start * bank.addr_unit + cur_position, as BigInt *)
Definition cur_address_in_bits (mb : Z) (b : bank) (pos : N) : res Z :=
  match big_mul mb (bk_addr b) (Z.of_N (bk_unit b)) with
  | Err => Err | Panic => Panic
  | Ok m => big_add mb m (Z.of_N pos)
  end.

(* position after aligning to `alignment` bits (labelalign, #align) *)
Definition align_position (mb : Z) (b : bank) (pos : N) (alignment : N) : res N :=
  match cur_address_in_bits mb b pos with
  | Err => Err | Panic => Panic
  | Ok a =>
      match bits_until_alignment a alignment with
      | Err => Err | Panic => Panic
      | Ok pad => checked_position (checked_add pos pad)
      end
  end.

(* position selected by `#addr a` (advance_address, DirectiveAddr arm) *)
Definition addr_position (mb : Z) (b : bank) (a : Z) : res N :=
  if (bk_addr b <=? a)%Z then
    match big_sub mb a (bk_addr b) with
    | Err => Err | Panic => Panic
    | Ok d =>
        let delta := match to_usize d with Some x => x | None => 0 end in   (* maybe_into().unwrap_or(0) *)
        checked_position (checked_mul delta (bk_unit b))
    end
  else Ok 0.

(* ResolverContext::get_output_position: `bank.output_offset?.checked_add(cur_position)` (/repo 6fb2301, F61):
   a position past the representable range is no output position (None), never a panic *)
Definition get_output_position (b : bank) (pos : N) : res (option N) :=
  match bk_outp b with
  | None => Ok None
  | Some o => Ok (checked_add o pos)
  end.

(* ResolverContext::get_address *)
Definition get_address (mb : Z) (b : bank) (pos : N) (can_guess : bool) : res (option Z) :=
  if bk_unit b =? 0 then Panic else                       (* `%` by zero *)
  let excess := pos mod bk_unit b in
  if negb (excess =? 0) && negb can_guess then Ok None else
  match big_add mb (Z.of_N (pos / bk_unit b)) (bk_addr b) with
  | Ok a => Ok (Some a) | Err => Err | Panic => Panic
  end.

(* ResolverContext::eval_address: a misaligned position is an error unless guessing is allowed *)
Definition eval_address (mb : Z) (b : bank) (pos : N) (can_guess : bool) : res Z :=
  if bk_unit b =? 0 then Panic else
  let excess := pos mod bk_unit b in
  if negb (excess =? 0) && negb can_guess then Err else
  big_add mb (Z.of_N (pos / bk_unit b)) (bk_addr b).

(* ------------------------------------------------------------------ the iterator *)
(* a resolved top-level node, as build_output sees it *)
Inductive node :=
| NBank (i : nat)                                   (* #bank x / #bankdef x {..}: selects bank i *)
| NSymbol (is_label : bool) (depth0 : bool) (value : Z)   (* label or constant; depth0 = top-level name *)
| NEmit (enc : list bool)                           (* instruction or one data element, resolved encoding, MSB first *)
| NRes (bits : N)                                   (* #res: reserve_size (already multiplied by addr_unit) *)
| NAlign (a : N)                                    (* #align: align_size in bits *)
| NAddr (a : Z)                                     (* #addr: resolved address *)
| NOther.                                           (* #assert, #bits, #fn, #ruledef, ... *)

Record cursor := mkCursor { c_bank : nat; c_pos : list N }.

Definition init_cursor (banks : list bank) : cursor := mkCursor 0 (map (fun _ => 0) banks).

Fixpoint set_nth {A} (l : list A) (i : nat) (v : A) : option (list A) :=
  match l, i with
  | [], _ => None
  | _ :: r, O => Some (v :: r)
  | x :: r, S i' => match set_nth r i' v with Some r' => Some (x :: r') | None => None end
  end.

(* current bank definition and position; indexing out of range = Panic *)
Definition cur_bank (banks : list bank) (c : cursor) : res (bank * N) :=
  match nth_error banks (c_bank c), nth_error (c_pos c) (c_bank c) with
  | Some b, Some p => Ok (b, p)
  | _, _ => Panic
  end.

Definition set_pos (c : cursor) (p : N) : res cursor :=
  match set_nth (c_pos c) (c_bank c) p with
  | Some l => Ok (mkCursor (c_bank c) l)
  | None => Panic
  end.

(* fn advance_address: accounts for the node visited on the PREVIOUS call of next() *)
Definition advance (mb : Z) (banks : list bank) (c : cursor) (prev : option node) : res cursor :=
  match prev with
  | None => Ok c
  | Some (NBank _) | Some (NSymbol _ _ _) | Some NOther => Ok c
  | Some n =>
      match cur_bank banks c with
      | Err => Err | Panic => Panic
      | Ok (b, p) =>
          match (match n with
                 | NEmit enc => checked_position (checked_add p (N.of_nat (length enc)))
                 | NRes k => checked_position (checked_add p k)
                 | NAlign a => align_position mb b p a
                 | NAddr a => addr_position mb b a
                 | _ => Ok p
                 end) with
          | Err => Err | Panic => Panic
          | Ok p' => set_pos c p'
          end
      end
  end.

(* the `match ast_any` of next(): bank switches and `labelalign` *)
Definition enter (mb : Z) (banks : list bank) (c : cursor) (n : node) : res cursor :=
  match n with
  | NBank i => Ok (mkCursor i (c_pos c))
  | NSymbol _ depth0 _ =>
      match cur_bank banks c with
      | Err => Err | Panic => Panic
      | Ok (b, p) =>
          match bk_labelalign b with
          | Some la =>
              if depth0 then
                match align_position mb b p la with
                | Err => Err | Panic => Panic
                | Ok p' => set_pos c p'
                end
              else Ok c
          | None => Ok c
          end
      end
  | _ => Ok c
  end.
