(* AST of assembly text as produced by src/asm/parser/*.rs (asm::AstAny), WITH byte spans.
   Executable definitions only.

   Expressions: src/expr/parser.rs can re-enter the line parser (`asm { ... }` blocks are parsed with
   parse_nested_toplevel at PARSE time), so Parser.v's closed `expr` type (no such constructor) cannot carry the result.
   `gexpr A` is Parser.expr plus one constructor `GAsm span payload`; it is PARAMETRIC in the payload so that
   (1) the expression parser is written once, generically over a hook that parses the block,
   (2) `anode` below nests through it (payload = list anode) without a mutual inductive definition,
   (3) `to_plain` maps an asm-free `gexpr A` back to Parser.expr.
   String literals keep the RAW token text (quotes and escapes), exactly like Parser.EStr; the parser has already
   checked that Literal.string_contents succeeds on it (the code unescapes while parsing and rejects bad escapes). *)
From Coq Require Import NArith List Bool.
Import ListNotations.
From CA Require Import Model.Lexer Model.Parser Model.Matcher.
Open Scope N_scope.

Definition span := (N * N)%type.                 (* absolute byte offsets (start, end) into the file text *)
Definition ospan := option span.                 (* None = diagn::Span::new_dummy() *)

(* Span::join *)
Definition join (a b : ospan) : ospan :=
  match a, b with
  | _, None => a
  | None, _ => b
  | Some (s1, e1), Some (s2, e2) => Some (N.min s1 s2, N.max e1 e2)
  end.

Inductive gexpr (A : Type) : Type :=
| GNum (v : N) (sz : option N)
| GBool (b : bool)
| GStr (raw : text)
| GVar (level : N) (path : list text)
| GUn (o : unop) (e : gexpr A)
| GBin (o : binop) (a b : gexpr A)
| GTern (c t f : gexpr A)
| GSlice (l r e : gexpr A)
| GShort (s e : gexpr A)
| GBlock (es : list (gexpr A))
| GCall (f : gexpr A) (args : list (gexpr A))
| GAsm (sp : span) (body : A).
Arguments GNum {A}. Arguments GBool {A}. Arguments GStr {A}. Arguments GVar {A}. Arguments GUn {A}. Arguments GBin {A}.
Arguments GTern {A}. Arguments GSlice {A}. Arguments GShort {A}. Arguments GBlock {A}. Arguments GCall {A}. Arguments GAsm {A}.

(* every asm block of an expression, outermost occurrences in source order *)
Fixpoint gexpr_payloads {A} (e : gexpr A) : list (span * A) :=
  match e with
  | GNum _ _ | GBool _ | GStr _ | GVar _ _ => []
  | GUn _ e => gexpr_payloads e
  | GBin _ a b => gexpr_payloads a ++ gexpr_payloads b
  | GTern a b c | GSlice a b c => gexpr_payloads a ++ gexpr_payloads b ++ gexpr_payloads c
  | GShort a b => gexpr_payloads a ++ gexpr_payloads b
  | GBlock es => (fix go (l : list (gexpr A)) := match l with [] => [] | x :: r => gexpr_payloads x ++ go r end) es
  | GCall f args => gexpr_payloads f ++ (fix go (l : list (gexpr A)) := match l with [] => [] | x :: r => gexpr_payloads x ++ go r end) args
  | GAsm sp b => [(sp, b)]
  end.

(* back to Parser.expr when there is no asm block *)
Fixpoint to_plain {A} (e : gexpr A) : option expr :=
  let fix all (l : list (gexpr A)) : option (list expr) :=
    match l with
    | [] => Some []
    | x :: r => match to_plain x, all r with Some x', Some r' => Some (x' :: r') | _, _ => None end
    end in
  match e with
  | GNum v s => Some (ENum v s)
  | GBool b => Some (EBool b)
  | GStr t => Some (EStr t)
  | GVar l p => Some (EVar l p)
  | GUn o e => match to_plain e with Some e' => Some (EUn o e') | None => None end
  | GBin o a b => match to_plain a, to_plain b with Some a', Some b' => Some (EBin o a' b') | _, _ => None end
  | GTern a b c => match to_plain a, to_plain b, to_plain c with Some a', Some b', Some c' => Some (ETern a' b' c') | _, _, _ => None end
  | GSlice a b c => match to_plain a, to_plain b, to_plain c with Some a', Some b', Some c' => Some (ESlice a' b' c') | _, _, _ => None end
  | GShort a b => match to_plain a, to_plain b with Some a', Some b' => Some (EShort a' b') | _, _ => None end
  | GBlock es => match all es with Some l => Some (EBlock l) | None => None end
  | GCall f args => match to_plain f, all args with Some f', Some l => Some (ECall f' l) | _, _ => None end
  | GAsm _ _ => None
  end.

(* rule patterns (AstRulePatternPart / AstRuleParameter) with their spans; the types come from Matcher.v *)
Inductive apart :=
| AWs
| AExact (c : N)
| AGlued (c : N)
| AParam (name_sp : span) (type_sp : ospan) (name : text) (ty : pty).

Record arule (X : Type) := { ar_span : ospan; ar_parts : list apart; ar_expr : X }.
Arguments ar_span {X}. Arguments ar_parts {X}. Arguments ar_expr {X}.

(* #bankdef fields after AstFields::extract_* *)
Record bankdef_fields (X : Type) := {
  bf_bits : option X; bf_labelalign : option X; bf_addr : option X; bf_addr_end : option X;
  bf_size : option X; bf_outp : option X; bf_fill : bool }.
Arguments bf_bits {X}. Arguments bf_labelalign {X}. Arguments bf_addr {X}. Arguments bf_addr_end {X}.
Arguments bf_size {X}. Arguments bf_outp {X}. Arguments bf_fill {X}.

(* asm::AstAny.  `sp` is what AstAny::span() returns (header_span / decl_span / span).
   Standalone #bits, #labelalign, #noemit never produce a node: the code answers them with an error. *)
Inductive anode :=
| NLabel (sp : ospan) (level : N) (name : text)
| NConst (sp : ospan) (level : N) (name : text) (noemit : bool) (e : gexpr (list anode))
| NInstr (sp : span) (src : text)
| NData (sp : span) (width : option N) (es : list (gexpr (list anode)))
| NRes (sp : span) (e : gexpr (list anode))
| NAlign (sp : span) (e : gexpr (list anode))
| NAddr (sp : span) (e : gexpr (list anode))
| NAssert (sp : span) (e : gexpr (list anode))
| NBank (sp : span) (name_sp : span) (name : text)
| NBankdef (sp : span) (name_sp : span) (name : text) (fields : bankdef_fields (gexpr (list anode)))
| NOnce (sp : span)
| NInclude (sp : span) (file_sp : span) (raw : text)                 (* raw string token; contents = string_contents raw *)
| NFn (sp : span) (name_sp : span) (name : text) (params : list text) (body : gexpr (list anode))
| NIf (sp : span) (cond : gexpr (list anode)) (tarm : list anode) (farm : option (list anode))
| NRuledef (sp : span) (name_sp : span) (is_sub : bool) (name : option text) (rules : list (arule (gexpr (list anode)))).

Definition xexpr := gexpr (list anode).

Definition opt_list {X} (o : option X) : list X := match o with Some x => [x] | None => [] end.

(* the expressions stored directly in a node *)
Definition exprs_of (n : anode) : list xexpr :=
  match n with
  | NConst _ _ _ _ e | NRes _ e | NAlign _ e | NAddr _ e | NAssert _ e => [e]
  | NData _ _ es => es
  | NBankdef _ _ _ f => opt_list (bf_bits f) ++ opt_list (bf_labelalign f) ++ opt_list (bf_addr f) ++ opt_list (bf_addr_end f)
                        ++ opt_list (bf_size f) ++ opt_list (bf_outp f)
  | NFn _ _ _ _ b => [b]
  | NIf _ c _ _ => [c]
  | NRuledef _ _ _ _ rs => map ar_expr rs
  | _ => []
  end.

Definition ospan_list (o : ospan) : list span := opt_list o.

Definition part_spans (p : apart) : list span :=
  match p with AParam ns ts _ _ => ns :: ospan_list ts | _ => [] end.

(* every span stored directly in a node (dummy spans are absent) *)
Definition node_spans (n : anode) : list span :=
  match n with
  | NLabel sp _ _ | NConst sp _ _ _ _ => ospan_list sp
  | NInstr sp _ | NData sp _ _ | NRes sp _ | NAlign sp _ | NAddr sp _ | NAssert sp _ | NOnce sp | NIf sp _ _ _ => [sp]
  | NBank sp ns _ | NBankdef sp ns _ _ | NInclude sp ns _ | NFn sp ns _ _ _ => [sp; ns]
  | NRuledef sp ns _ _ rs => sp :: ns :: flat_map (fun r => ospan_list (ar_span r) ++ flat_map part_spans (ar_parts r)) rs
  end.

(* AstAny::span() *)
Definition node_span (n : anode) : ospan :=
  match n with
  | NLabel sp _ _ | NConst sp _ _ _ _ => sp
  | NInstr sp _ | NData sp _ _ | NRes sp _ | NAlign sp _ | NAddr sp _ | NAssert sp _ | NOnce sp | NIf sp _ _ _
  | NBank sp _ _ | NBankdef sp _ _ _ | NInclude sp _ _ | NFn sp _ _ _ _ | NRuledef sp _ _ _ _ => Some sp
  end.

(* sub m n: node m occurs in n at any nesting depth (through #if arms and through asm blocks inside expressions) *)
Inductive sub : anode -> anode -> Prop :=
| sub_refl n : sub n n
| sub_true m n sp c t f : In n t -> sub m n -> sub m (NIf sp c t f)
| sub_false m n sp c t f : In n f -> sub m n -> sub m (NIf sp c t (Some f))
| sub_asm m n p e asp body : In e (exprs_of p) -> In (asp, body) (gexpr_payloads e) -> In n body -> sub m n -> sub m p.

(* nest_ge k nodes: the node list contains a chain of k nested blocks that the code counts in block_nesting_depth:
   #if TRUE arms (ng_true) and asm blocks inside expressions (ng_asm_s); false arms are traversed without counting (an
   `#else { }` block also counts in the code's counter, `#elif` does not, and the AST cannot tell them apart: a lower
   bound), and ng_asm lets a chain pass an asm block without counting it (so every shorter chain is a chain too) *)
Inductive nest_ge : nat -> list anode -> Prop :=
| ng_zero l : nest_ge 0 l
| ng_true k sp c tr fl l : In (NIf sp c tr fl) l -> nest_ge k tr -> nest_ge (S k) l
| ng_false k sp c tr fa l : In (NIf sp c tr (Some fa)) l -> nest_ge k fa -> nest_ge k l
| ng_asm k n e asp body l : In n l -> In e (exprs_of n) -> In (asp, body) (gexpr_payloads e) -> nest_ge k body -> nest_ge k l
| ng_asm_s k n e asp body l : In n l -> In e (exprs_of n) -> In (asp, body) (gexpr_payloads e) -> nest_ge k body -> nest_ge (S k) l.
