(* ResolverS2: the resolver of Model/Resolver2.v (banks with per-bank cursors, nested symbols looked up by dot level and
   path in symbol contexts, #assert) with the static-value optimisation (opts.optimize_statically_known) and the `resolved`
   flags it sets -- what Model/ResolverS.v is to Model/Resolver.v.  The expression analysis is Model/StaticKnown.v; new here:
     * the matcher's query_variable is scoped: decls.symbols.try_get_by_name(symbol_ctx, level, hierarchy) with the
       symbol_ctx that asm::matcher::match_all tracks by ITS OWN walk over the AST (`symbol_ctx = &decls.symbols.get(
       item_ref).ctx` at every symbol node, label or constant): `matcher_ctxs`, transcribed as the code has it;
       Proofs/ResolverS2P.v proves it equal to the iterator's contexts (Symbols.node_ctxs) at every non-symbol node;
     * every data element is its own node; items are skipped / flagged node by node; the cursor advances over a skipped
       item by its stored encoding (Resolver2.view).
   Labels, #res, #align, #addr, #bank, #assert and the evaluation of constants are Resolver2.resolve_node2 itself.
   Executable definitions only. *)
From Coq Require Import NArith ZArith List Bool.
From CA Require Import Model.Lexer Model.Parser Model.Literal Model.BigIntOps Model.Evaluator Model.Matcher Model.Resolver
  Model.Resolver2 Model.StaticKnown Model.ResolverS.
From CA Require Model.Paths Model.Overlap Model.Cursor Model.LastPass Model.Output Model.Symbols.
Import ListNotations.
Open Scope Z_scope.

(* ------------------------------------------------------------------ the matcher's scope walk (match_all) *)
(* the context held when each AST node is visited; a symbol node updates it AFTER it has been visited *)
Fixpoint matcher_ctxs (m : Symbols.mgr) (ctx : list text) (nodes : list Symbols.anode) : Paths.res (list (list text)) :=
  match nodes with
  | [] => Paths.ROk []
  | Symbols.AOther :: r =>
    match matcher_ctxs m ctx r with
    | Paths.ROk cs => Paths.ROk (ctx :: cs)
    | Paths.RErr => Paths.RErr | Paths.RPanic => Paths.RPanic | Paths.RFuel => Paths.RFuel
    end
  | Symbols.ASym _ _ _ ir :: r =>
    match ir with
    | None => Paths.RPanic                                  (* item_ref.unwrap() *)
    | Some i =>
      match nth_error (Symbols.m_decls m) i with
      | None => Paths.RPanic
      | Some d =>
        match matcher_ctxs m (Symbols.sd_ctx d) r with
        | Paths.ROk cs => Paths.ROk (ctx :: cs)
        | Paths.RErr => Paths.RErr | Paths.RPanic => Paths.RPanic | Paths.RFuel => Paths.RFuel
        end
      end
    end
  end.

(* the contexts of the instructions, in item-ref order *)
Definition instr_ctxs (ps : list pnode) (cs : list (list text)) : list (list text) :=
  flat_map (fun pc : pnode * list text => match fst pc with PInstr _ => [snd pc] | _ => [] end) (combine ps cs).

(* get_match_statically_known's query_variable in symbol context ctx (as of the repairs of F72 / F73) *)
Definition global_known2 (pccheck : bool) (m : Symbols.mgr) (ctx : list text) (ksym : list bool) (level : N) (path : list text) : bool :=
  let lookup :=
    match Symbols.try_get_by_name m ctx (N.to_nat level) path with
    | Paths.ROk (Some r) => match nth_error ksym r with Some b => b | None => false end
    | _ => false
    end in
  match level, path with
  | 0%N, first :: _ => if pccheck && is_pc first then false else lookup
  | _, _ => lookup
  end.

(* Symbol::value_statically_known by item ref *)
Definition sym_known_table2 (nsyms : nat) (ns : list cnode) : list bool :=
  fold_left (fun tbl n => match fst n with XConst s _ e => set_nth tbl s (const_known e) | _ => tbl end) ns (repeat false nsyms).

Definition known_info2 (argcheck pccheck : bool) (defs : list ruledef) (m : Symbols.mgr) (ictx : list (list text))
    (ns : list cnode) (st0 : state) : kinfo :=
  let ksym := sym_known_table2 (length (Symbols.m_decls m)) ns in
  {| k_sym := ksym;
     k_instr := map (fun dc : instr_def * list text =>
                       instr_known argcheck defs (global_known2 pccheck m (snd dc) ksym) (i_matches (fst dc)))
                    (combine (s_instr st0) ictx);
     k_data := flat_map (fun n => match fst n with XData _ _ e => [data_known e] | _ => [] end) ns |}.

(* ------------------------------------------------------------------ one pass *)
Section Pass.
Variable m : Symbols.mgr.
Variable banks : list Cursor.bank.
Variable defs : list ruledef.
Variable mb : Z.
Variable K : kinfo.
Variable opt : bool.
Variable first : bool.
Variable last : bool.
Let can_guess := negb last.

Definition resolve_nodeS2 (n : xnode) (ctx : list text) (x : sstate) (b : Cursor.bank) (pos : N) : ores (sstate * resolution) :=
  let st := ss x in
  let addr := Cursor.eval_address mb b pos can_guess in
  let pv := pvar2 m st ctx addr can_guess in
  match n with
  | XConst s _ e =>
    if flag (fz_sym x) s then Ok (x, Resolved) else
    match resolve_node2 m defs mb last n ctx st b pos with
    | Err => Err | Panic => Panic
    | Ok (st', res) =>
      if opt && first && flag (k_sym K) s
      then Ok ({| ss := st'; fz_sym := set_nth (fz_sym x) s true; fz_instr := fz_instr x; fz_data := fz_data x |}, Resolved)
      else Ok (with_state x st', res)
    end
  | XInstr i _ =>
    match nth_error (s_instr st) i with
    | None => Panic
    | Some d =>
      if flag (fz_instr x) i then Ok (x, Resolved) else
      match smallest_encodings defs pv can_guess (i_matches d) with
      | EErr => Err
      | EOk encs =>
        let chosen := match encs with Some c => hd_error c | None => None end in
        let has_single := match encs with Some c => Nat.eqb (length c) 1 | None => false end in
        let stable := match chosen with Some b => bigint_identical (i_enc d) b | None => false end in
        let d' := match chosen with Some b => {| i_matches := i_matches d; i_enc := b |} | None => d end in
        let st' := {| s_sym := s_sym st; s_instr := set_nth (s_instr st) i d'; s_data := s_data st; s_res := s_res st; s_align := s_align st; s_addr := s_addr st |} in
        let freeze := match chosen with Some _ => opt && first && flag (k_instr K) i && has_single | None => false end in
        if freeze then Ok ({| ss := st'; fz_sym := fz_sym x; fz_instr := set_nth (fz_instr x) i true; fz_data := fz_data x |}, Resolved)
        else Ok (with_state x st', if stable then Resolved else Unresolved)
      end
    end
  | XData width d e =>
    if flag (fz_data x) d then Ok (x, Resolved) else
    let known := flag (k_data K) d in
    let strict := last || known in
    match eval code_ops pv e [] with
    | EErr => Err
    | EOk (v, _) =>
      match expect_error_or_bigint v with
      | EErr => Err
      | EOk v =>
        let enc : eres (option bigint) :=
          match v with
          | VInt b => EOk (Some b)
          | _ => if strict then EErr else EOk None
          end in
        match enc with
        | EErr => Err
        | EOk menc =>
          let checked : bool :=
            if strict then
              match menc with
              | Some b => match width with
                          | Some w => negb (size_or_min b >? Z.of_N w)
                          | None => match bsz b with Some _ => true | None => false end
                          end
              | None => false
              end
            else true in
          if negb checked then Err else
          let menc := match menc with
                      | Some b => Some (match width with Some w => slice_to b (Z.of_N w) | None => slice_to b (size_or_min b) end)
                      | None => None end in
          let prev := nth d (s_data st) (mk 0 (Some 0%N)) in
          let st' := match menc with
                     | Some b => {| s_sym := s_sym st; s_instr := s_instr st; s_data := set_nth (s_data st) d b; s_res := s_res st; s_align := s_align st; s_addr := s_addr st |}
                     | None => st end in
          let freeze := match menc with
                        | Some b => opt && first && known && (match bsz b with Some _ => true | None => false end)
                        | None => false end in
          if freeze then Ok ({| ss := st'; fz_sym := fz_sym x; fz_instr := fz_instr x; fz_data := set_nth (fz_data x) d true |}, Resolved)
          else
            let stable := match menc with Some b => bigint_identical prev b | None => false end in
            Ok (with_state x st', if stable then Resolved else Unresolved)
        end
      end
    end
  | XLabel _ _ | XRes _ _ | XAlign _ _ | XAddr _ _ | XBank _ | XAssert _ =>
    match resolve_node2 m defs mb last n ctx st b pos with
    | Err => Err | Panic => Panic
    | Ok (st', res) => Ok (with_state x st', res)
    end
  end.

Definition step2S (nc : cnode) (x : sstate) (c : Cursor.cursor) (prev : option Cursor.node)
    : ores (sstate * resolution * Cursor.cursor * option Cursor.node) :=
  match Cursor.advance mb banks c prev with
  | Err => Err | Panic => Panic
  | Ok c1 =>
    match Cursor.enter mb banks c1 (shape (fst nc)) with
    | Err => Err | Panic => Panic
    | Ok c2 =>
      match Cursor.cur_bank banks c2 with
      | Err => Err | Panic => Panic
      | Ok (b, pos) =>
        match resolve_nodeS2 (fst nc) (snd nc) x b pos with
        | Err => Err | Panic => Panic
        | Ok (x', r) => Ok (x', r, c2, Some (view (ss x') (fst nc)))
        end
      end
    end
  end.

Fixpoint pass2S (ns : list cnode) (x : sstate) (c : Cursor.cursor) (prev : option Cursor.node) (acc : resolution)
    : ores (sstate * resolution) :=
  match ns with
  | [] =>
    match Cursor.advance mb banks c prev with
    | Err => Err | Panic => Panic
    | Ok _ => Ok (x, acc)
    end
  | n :: r =>
    match step2S n x c prev with
    | Err => Err | Panic => Panic
    | Ok (x', res, c', prev') => pass2S r x' c' prev' (merge acc res)
    end
  end.

Definition run_passS (ns : list cnode) (x : sstate) : ores (sstate * resolution) :=
  pass2S ns x (Cursor.init_cursor banks) None Resolved.
End Pass.

Fixpoint loop2S (m : Symbols.mgr) (banks : list Cursor.bank) (defs : list ruledef) (mb : Z) (K : kinfo) (opt : bool) (ns : list cnode)
    (k i max : nat) (x : sstate) : ores (sstate * nat) :=
  let confirm i x := match run_passS m banks defs mb K opt false true ns x with
                     | Ok (x', Resolved) => Ok (x', i)
                     | Ok (_, Unresolved) => Err
                     | Err => Err | Panic => Panic end in
  match k with
  | O => confirm i x
  | S k' =>
    let i' := S i in
    let last := Nat.eqb i' max in
    let first := Nat.eqb i' 1 in
    match run_passS m banks defs mb K opt first last ns x with
    | Err => Err | Panic => Panic
    | Ok (x', Resolved) => if last then Ok (x', i') else confirm i' x'
    | Ok (x', Unresolved) => if last then Err else loop2S m banks defs mb K opt ns k' i' max x'
    end
  end.

(* resolve_constants_simple with the flags *)
Definition simple_round2S (m : Symbols.mgr) (K : kinfo) (opt : bool) (ns : list cnode) (x : sstate) : eres (sstate * nat) :=
  (fix go (ns : list cnode) (x : sstate) (cnt : nat) : eres (sstate * nat) :=
     match ns with
     | [] => EOk (x, cnt)
     | (XConst s _ e, _) :: r =>
       if flag (fz_sym x) s then go r x (S cnt) else
       let st := ss x in
       match eval code_ops (pvar_simple2 m st) e [] with
       | EErr => EErr
       | EOk (VFailed, _) => EErr
       | EOk (v, _) =>
         let st' := {| s_sym := set_nth (s_sym st) s v; s_instr := s_instr st; s_data := s_data st; s_res := s_res st; s_align := s_align st; s_addr := s_addr st |} in
         match v with
         | VUnknown => go r (with_state x st') cnt
         | _ => if opt && flag (k_sym K) s
                then go r {| ss := st'; fz_sym := set_nth (fz_sym x) s true; fz_instr := fz_instr x; fz_data := fz_data x |} (S cnt)
                else go r (with_state x st') (S cnt)
         end
       end
     | _ :: r => go r x cnt
     end) ns x O.

Fixpoint simple_loop2S (fuel : nat) (m : Symbols.mgr) (K : kinfo) (opt : bool) (ns : list cnode) (x : sstate) (prev : nat) : eres sstate :=
  match fuel with
  | O => EOk x
  | S f => match simple_round2S m K opt ns x with
           | EErr => EErr
           | EOk (x', cnt) => if Nat.eqb cnt prev then EOk x' else simple_loop2S f m K opt ns x' cnt
           end
  end.

(* the contexts match_all holds at the instructions of the program (collect is deterministic: the same manager and AST
   as Resolver2.prepare) *)
Definition matcher_instr_ctxs (ps : list pnode) : option (list (list text)) :=
  match Symbols.collect Symbols.mgr_new (map anode_of ps) with
  | Paths.ROk (m, ast) =>
    match matcher_ctxs m Symbols.ctx_global ast with
    | Paths.ROk cs => Some (instr_ctxs ps cs)
    | _ => None
    end
  | _ => None
  end.

Definition assembleS2 (argcheck pccheck opt : bool) (indexed : bool) (defs : list ruledef) (ps : list pnode) (budget : nat) : ores result :=
  match prepare ps, matcher_instr_ctxs ps with
  | Some (m, ns), Some ictx =>
    match init_state2 indexed defs (length (Symbols.m_decls m)) ns with
    | None => Err
    | Some st0 =>
      let K := known_info2 argcheck pccheck defs m ictx ns st0 in
      match simple_loop2S (S (length ns)) m K opt ns (init_sstate st0) 0 with
      | EErr => Err
      | EOk x1 =>
        match define_banks m (ss x1) (bank_fields ps) with
        | EErr => Err
        | EOk bs =>
          let banks := Cursor.default_bank :: bs in
          match loop2S m banks defs max_bits K opt ns budget 0 budget x1 with
          | Err => Err | Panic => Panic
          | Ok (x, n) =>
            match out_nodes (ss x) ns with
            | Err => Err | Panic => Panic
            | Ok vs =>
              match Output.output_stage (Z.to_N max_bits) banks vs with
              | Err => Err | Panic => Panic
              | Ok (bits, items) => Ok (mkResult bits items banks (symbol_values m (ss x)) n vs)
              end
            end
          end
        end
      end
    end
  | _, _ => Err
  end.
