(* Where the C03 tables regenerated from the source live.  Until tools/translate_c03.generate() is appended to
   Gen/Generated.v by tools/translate.py they are written to Gen/GeneratedC03.v at the start of every run of
   ./check C03 (tools/props/c03.py: setup); after the merge this file becomes `From CA Require Export Gen.Generated.` *)
From CA Require Export Gen.GeneratedC03.
