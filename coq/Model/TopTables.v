(* Where the C03 tables regenerated from the source live: tools/translate.py appends tools/translate_c03.generate()
   to Gen/Generated.v on every run. *)
From CA Require Export Gen.Generated.
