(* The resolver of Model/Resolver.v with the static-value optimisation (opts.optimize_statically_known, switched off by
   --debug-no-optimize-static) and the `resolved` flags it sets:
     src/asm/resolver/constant.rs   resolve_constants_simple / resolve_constant_simple / resolve_constant
     src/asm/resolver/instruction.rs resolve_instruction (first-iteration shortcut, has_single_match)
     src/asm/resolver/data_block.rs  resolve_data_element (first-iteration shortcut; the checks of the last iteration are
                                     applied in EVERY iteration to a statically known element -- not gated by the option)
     src/asm/resolver/mod.rs         resolve_iteratively (is_first_iteration = pass 1 only, false in the confirming pass)
   Same language fragment and same state as Model/Resolver.v; labels, #res, #align, #addr have no flag and are resolved
   by Resolver.resolve_node itself.  Executable definitions only; Proofs/ResolverSOffP.v shows that with
   static_opt = false this is Resolver.assemble. *)
From Coq Require Import NArith ZArith List Bool.
Import ListNotations.
From CA Require Import Model.Lexer Model.Parser Model.Literal Model.BigIntOps Model.Evaluator Model.Matcher Model.Resolver
  Model.StaticKnown.
Open Scope Z_scope.

(* resolver state + the `resolved` flags of symbols, instructions and data elements *)
Record sstate := { ss : state; fz_sym : list bool; fz_instr : list bool; fz_data : list bool }.

Definition flag (l : list bool) (i : nat) : bool := match nth_error l i with Some b => b | None => false end.

Definition with_state (x : sstate) (st : state) : sstate :=
  {| ss := st; fz_sym := fz_sym x; fz_instr := fz_instr x; fz_data := fz_data x |}.

(* resolve_encoding, keeping the whole list of smallest encodings (the code's Option<Vec<..>>) *)
Definition smallest_encodings (defs : list ruledef) (pv : N -> list text -> eres value) (can_guess : bool) (ms : list imatch)
  : eres (option (list bigint)) :=
  match resolve_matches defs pv ms with
  | EErr => EErr
  | EOk rs =>
    let resolved := flat_map (fun r => match r with MResolved b => [b] | _ => [] end) rs in
    match resolved with
    | [] => EOk None
    | b0 :: _ =>
      let smallest := fold_left (fun a b => Z.min a (size_of b)) resolved (size_of b0) in
      let cands := filter (fun b => size_of b =? smallest) resolved in
      if negb can_guess && Nat.ltb 1 (length cands) then EOk None
      else EOk (Some cands)
    end
  end.

Section Pass.
Variable names : list text.
Variable defs : list ruledef.
Variable K : kinfo.
Variable opt : bool.          (* opts.optimize_statically_known *)
Variable first : bool.        (* ctx.is_first_iteration *)
Variable last : bool.         (* ctx.is_last_iteration *)
Let can_guess := negb last.

(* resolve_data_element over the elements of one directive *)
Fixpoint data_goS (width : option N) (elems : list (nat * expr)) (x : sstate) (pos : Z) (acc : resolution) {struct elems}
  : eres (sstate * resolution * Z) :=
  match elems with
  | [] => EOk (x, acc, pos)
  | (d, e) :: r =>
    let st := ss x in
    if flag (fz_data x) d then
      data_goS width r x (pos + size_of (nth d (s_data st) (mk 0 (Some 0%N)))) (merge acc Resolved)
    else
    let known := flag (k_data K) d in
    let strict := last || known in
    let pv := pvar names st pos can_guess in
    match eval code_ops pv e [] with
    | EErr => EErr
    | EOk (v, _) =>
      match expect_error_or_bigint v with
      | EErr => EErr
      | EOk v =>
        let enc : eres (option bigint) :=
          match v with
          | VInt b => EOk (Some b)
          | _ => if strict then EErr else EOk None
          end in
        match enc with
        | EErr => EErr
        | EOk menc =>
          let checked : bool :=
            if strict then
              match menc with
              | Some b => match width with
                          | Some w => negb (size_or_min b >? Z.of_N w)
                          | None => match bsz b with Some _ => true | None => false end
                          end
              | None => false
              end
            else true in
          if negb checked then EErr else
          let menc := match menc with
                      | Some b => Some (match width with Some w => slice_to b (Z.of_N w) | None => slice_to b (size_or_min b) end)
                      | None => None end in
          let prev := nth d (s_data st) (mk 0 (Some 0%N)) in
          let st' := match menc with
                     | Some b => {| s_sym := s_sym st; s_instr := s_instr st; s_data := set_nth (s_data st) d b; s_res := s_res st; s_align := s_align st; s_addr := s_addr st |}
                     | None => st end in
          let cur := nth d (s_data st') (mk 0 (Some 0%N)) in
          let freeze := match menc with
                        | Some b => opt && first && known && (match bsz b with Some _ => true | None => false end)
                        | None => false end in
          if freeze then
            data_goS width r {| ss := st'; fz_sym := fz_sym x; fz_instr := fz_instr x; fz_data := set_nth (fz_data x) d true |}
                     (pos + size_of cur) (merge acc Resolved)
          else
            let stable := match menc with Some b => bigint_identical prev b | None => false end in
            data_goS width r (with_state x st') (pos + size_of cur) (merge acc (if stable then Resolved else Unresolved))
        end
      end
    end
  end.

Definition resolve_nodeS (n : node) (x : sstate) (pos : Z) : eres (sstate * resolution * Z) :=
  let st := ss x in
  let pv := pvar names st pos can_guess in
  match n with
  | NConst s e =>
    (* resolve_constant *)
    if flag (fz_sym x) s then EOk (x, Resolved, pos) else
    match resolve_node names defs last n st pos with
    | EErr => EErr
    | EOk (st', res, pos') =>
      if opt && first && flag (k_sym K) s
      then EOk ({| ss := st'; fz_sym := set_nth (fz_sym x) s true; fz_instr := fz_instr x; fz_data := fz_data x |}, Resolved, pos')
      else EOk (with_state x st', res, pos')
    end
  | NInstr i _ =>
    (* resolve_instruction *)
    match nth_error (s_instr st) i with
    | None => EErr
    | Some d =>
      if flag (fz_instr x) i then EOk (x, Resolved, pos + size_of (i_enc d)) else
      match smallest_encodings defs pv can_guess (i_matches d) with
      | EErr => EErr
      | EOk encs =>
        let chosen := match encs with Some c => hd_error c | None => None end in
        let has_single := match encs with Some c => Nat.eqb (length c) 1 | None => false end in
        let stable := match chosen with Some b => bigint_identical (i_enc d) b | None => false end in
        let d' := match chosen with Some b => {| i_matches := i_matches d; i_enc := b |} | None => d end in
        let st' := {| s_sym := s_sym st; s_instr := set_nth (s_instr st) i d'; s_data := s_data st; s_res := s_res st; s_align := s_align st; s_addr := s_addr st |} in
        let freeze := match chosen with Some _ => opt && first && flag (k_instr K) i && has_single | None => false end in
        if freeze then
          EOk ({| ss := st'; fz_sym := fz_sym x; fz_instr := set_nth (fz_instr x) i true; fz_data := fz_data x |}, Resolved, pos + size_of (i_enc d'))
        else EOk (with_state x st', if stable then Resolved else Unresolved, pos + size_of (i_enc d'))
      end
    end
  | NData width elems => data_goS width elems x pos Resolved
  | NLabel _ | NRes _ _ | NAlign _ _ | NAddr _ _ =>
    match resolve_node names defs last n st pos with
    | EErr => EErr
    | EOk (st', res, pos') => EOk (with_state x st', res, pos')
    end
  end.

Fixpoint passS (ns : list node) (x : sstate) (pos : Z) (acc : resolution) : eres (sstate * resolution) :=
  match ns with
  | [] => EOk (x, acc)
  | n :: r =>
    match resolve_nodeS n x pos with
    | EErr => EErr
    | EOk (x', res, pos') => passS r x' pos' (merge acc res)
    end
  end.
End Pass.

(* resolve_iteratively: is_first_iteration holds in pass 1 only; the confirming pass is (first, last) = (false, true) *)
Fixpoint loopS (names : list text) (defs : list ruledef) (K : kinfo) (opt : bool) (ns : list node) (k i max : nat) (x : sstate)
  : eres (sstate * nat) :=
  let confirm i x := match passS names defs K opt false true ns x 0 Resolved with
                     | EOk (x', Resolved) => EOk (x', i) | _ => EErr end in
  match k with
  | O => confirm i x
  | S k' =>
    let i' := S i in
    let last := Nat.eqb i' max in
    let first := Nat.eqb i' 1 in
    match passS names defs K opt first last ns x 0 Resolved with
    | EErr => EErr
    | EOk (x', Resolved) => if last then EOk (x', i') else confirm i' x'
    | EOk (x', Unresolved) => if last then EErr else loopS names defs K opt ns k' i' max x'
    end
  end.

(* resolve_constants_simple / resolve_constant_simple: one round, counting the Resolved answers *)
Definition simple_roundS (names : list text) (K : kinfo) (opt : bool) (ns : list node) (x : sstate) : eres (sstate * nat) :=
  (fix go (ns : list node) (x : sstate) (cnt : nat) : eres (sstate * nat) :=
     match ns with
     | [] => EOk (x, cnt)
     | NConst s e :: r =>
       if flag (fz_sym x) s then go r x (S cnt) else
       let st := ss x in
       match eval code_ops (pvar_simple names st) e [] with
       | EErr => EErr
       | EOk (VFailed, _) => EErr
       | EOk (v, _) =>
         let st' := {| s_sym := set_nth (s_sym st) s v; s_instr := s_instr st; s_data := s_data st; s_res := s_res st; s_align := s_align st; s_addr := s_addr st |} in
         match v with
         | VUnknown => go r (with_state x st') cnt
         | _ => if opt && flag (k_sym K) s
                then go r {| ss := st'; fz_sym := set_nth (fz_sym x) s true; fz_instr := fz_instr x; fz_data := fz_data x |} (S cnt)
                else go r (with_state x st') (S cnt)
         end
       end
     | _ :: r => go r x cnt
     end) ns x O.

Fixpoint simple_loopS (fuel : nat) (names : list text) (K : kinfo) (opt : bool) (ns : list node) (x : sstate) (prev : nat) : eres sstate :=
  match fuel with
  | O => EOk x
  | S f => match simple_roundS names K opt ns x with
           | EErr => EErr
           | EOk (x', cnt) => if Nat.eqb cnt prev then EOk x' else simple_loopS f names K opt ns x' cnt
           end
  end.

Definition init_sstate (st0 : state) : sstate :=
  {| ss := st0; fz_sym := repeat false (length (s_sym st0)); fz_instr := repeat false (length (s_instr st0));
     fz_data := repeat false (length (s_data st0)) |}.

(* argcheck / pccheck = true: the analysis of the code as it is (after the repairs of F72 / F73);  false: before that repair *)
Definition assembleS (argcheck pccheck opt : bool) (indexed : bool) (defs : list ruledef) (names : list text) (ns : list node) (budget : nat)
  : option (Z * Z * list value * nat) :=
  match init_state indexed defs (length names) ns with
  | None => None
  | Some st0 =>
    let K := known_info argcheck pccheck defs names ns st0 in
    match simple_loopS (S (length ns)) names K opt ns (init_sstate st0) 0 with
    | EErr => None
    | EOk x1 =>
      match loopS names defs K opt ns budget 0 budget x1 with
      | EErr => None
      | EOk (x, n) => Some (build_output ns (ss x), s_sym (ss x), n)
      end
    end
  end.

(* what the analysis says about a program (for the correspondence driver): per instruction (known as the code judges,
   known by the definition before the repairs of F72 and F73), per data element, per symbol *)
Definition static_report (indexed : bool) (defs : list ruledef) (names : list text) (ns : list node)
  : option (list bool * list bool * list bool * list bool) :=
  match init_state indexed defs (length names) ns with
  | None => None
  | Some st0 =>
    let K0 := known_info true true defs names ns st0 in
    let K1 := known_info false false defs names ns st0 in
    Some (k_instr K0, k_instr K1, k_data K0, k_sym K0)
  end.
