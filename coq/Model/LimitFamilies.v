(* C19 -- the directed magnitude families of tools/c19_families.py as compositions of the guards of Model/Limits.v,
   in the order in which the assembler reaches them.  `m` is the magnitude written into the program text.
   Result: Ok (work, value of the label `x` if the program declares one) | Err (diagnosed) | Panic (usize overflow).
   Executable definitions only (extracted by Extract/ExLimits.v; compared with the crate by tools/props/c19.py). *)
From Coq Require Import ZArith NArith List Bool.
From CA Require Import Model.Overlap Model.Cursor Model.Limits.
From CA Require Model.IncFns Gen.Generated.
Import ListNotations.
Open Scope N_scope.

Definition MB : Z := Generated.BIGINT_MAX_BITS.
Definition out := (N * option Z)%type.
Definition work (r : res N) : res out := let* w := r in Ok (w, None).
(* a label at position pos of bank b: check_bank_output(0, false), get_output_position, value = eval_address *)
Definition label_at (b : bank) (pos : N) : res Z :=
  let* _w := place_item MB b pos 0 false in
  eval_address MB b pos false.
Definition with_label (b : bank) (pos : N) (w : N) : res out :=
  let* x := label_at b pos in Ok (w, Some x).
(* one written item (instruction / data element) of `size` bits at pos; returns the position after it *)
Definition write_at (b : bank) (pos size : N) : res (N * N) :=
  let* p' := advance_by pos size in              (* the resolver passes run before build_output *)
  let* w := place_item MB b pos size true in
  Ok (w, p').
(* a #res of value v at pos *)
Definition res_at (b : bank) (pos : N) (v : Z) : res N :=
  let* s := guard_res (bk_unit b) v in
  let* p' := advance_by pos s in
  let* _w := place_item MB b pos s false in
  Ok p'.
Definition bank_of (bits labelalign addr size addr_end outp : option Z) (fill : bool) : res bank :=
  let* b := guard_bankdef MB (mkSrc bits labelalign addr size addr_end outp fill) in
  let* _f := guard_fill MB b in
  Ok b.
Definition db := default_bank.

(* ---- expression positions:  x = <expr> *)
Definition f_shl_amount (m : Z) : res out := work (guard_shl_bits MB 1 m).
Definition f_shl_amount_zero (m : Z) : res out := work (guard_shl_bits MB 0 m).
Definition f_shr_amount (m : Z) : res out := work (guard_shr 1 m).
Definition f_slice_left (m : Z) : res out := work (guard_slice MB m 0).
Definition f_slice_right (m : Z) : res out := work (guard_slice MB m m).
Definition f_slice_both (m : Z) : res out := work (guard_slice MB (m + 8) m).
Definition f_slice_short (m : Z) : res out := work (guard_slice_short MB m).
(* (1 << m) op ...: bits(1 << m) = m + 1 *)
Definition f_mul_operand (m : Z) : res out := let* _s := guard_shl_bits MB 1 m in work (guard_mul_bits MB (m + 1) (m + 1)).
Definition f_add_operand (m : Z) : res out := let* _s := guard_shl_bits MB 1 m in work (guard_add_bits MB (m + 1) 1).
Definition f_sub_operand (m : Z) : res out := let* _s := guard_shl_bits MB 1 m in work (guard_sub_bits MB (m + 1) 1).
Definition f_neg_operand (m : Z) : res out := work (guard_shl_bits MB 1 m).
Definition f_concat_width (m : Z) : res out :=
  let* a := guard_slice_short MB m in let* b := guard_slice_short MB m in work (guard_concat a b).
Definition f_neg_slice (m : Z) : res out := work (guard_slice MB m 0).
Definition f_neg_pow_slice (m : Z) : res out := let* _s := guard_shl_bits MB 1 m in work (guard_slice MB m 0).

(* ---- #d<m> 1   and   ld {a: u<m>} => ... / ld 0 *)
Definition f_data_width (m : Z) : res out :=
  let* w := guard_width_suffix MB m in
  if w =? 0 then Err else                         (* the value 1 does not fit width 0 *)
  let* r := write_at db 0 w in Ok (fst r, None).
Definition f_typed_width (m : Z) : res out :=               (* production 0x11: 8 bits are written *)
  let* w := guard_width_suffix MB m in
  if w =? 0 then Err else                         (* width-0 types reject every value *)
  let* r := write_at db 0 8 in Ok (fst r, None).
Definition f_typed_width_emit (m : Z) : res out :=          (* production `a`: m bits are written *)
  let* w := guard_width_suffix MB m in
  if w =? 0 then Err else
  let* r := write_at db 0 w in Ok (fst r, None).

(* ---- #res / #align / #addr in the default bank *)
Definition f_res (m : Z) : res out := let* p := res_at db 0 m in with_label db p 0.
Definition f_res_then_data (m : Z) : res out := let* p := res_at db 0 m in let* r := write_at db p 8 in Ok (fst r, None).
Definition f_align (m : Z) : res out :=
  let* r := write_at db 0 8 in
  let* p := guard_align_position MB db (snd r) m in with_label db p (fst r).
Definition f_align_then_data (m : Z) : res out :=
  let* r := write_at db 0 8 in
  let* p := guard_align_position MB db (snd r) m in
  let* r2 := write_at db p 8 in Ok (fst r2, None).
Definition f_addr (m : Z) : res out := let* p := guard_addr_position MB db m in with_label db p 0.
Definition f_addr_then_data (m : Z) : res out :=
  let* p := guard_addr_position MB db m in let* r := write_at db p 8 in Ok (fst r, None).

(* ---- #bankdef fields *)
Definition z0 := Some 0%Z.
Definition f_bank_bits (m : Z) : res out :=
  let* b := bank_of (Some m) None z0 None None z0 false in
  let* p := res_at b 0 1 in with_label b p 0.
Definition f_bank_bits_data (m : Z) : res out :=
  let* b := bank_of (Some m) None z0 None None z0 false in
  let* r := write_at b 0 8 in with_label b (snd r) (fst r).
Definition f_bank_bits_res (m : Z) : res out :=
  let* b := bank_of (Some m) None z0 None None z0 false in
  let* p := res_at b 0 16 in with_label b p 0.
Definition f_bank_bits_res_max (m : Z) : res out :=
  let* b := bank_of (Some m) None z0 None None z0 false in
  let* p1 := res_at b 0 4294967295 in
  let* p2 := res_at b p1 4294967295 in
  let* p3 := res_at b p2 4 in with_label b p3 0.
Definition f_bank_bits_addr (m : Z) : res out :=
  let* b := bank_of (Some m) None z0 None None z0 false in
  let* p := guard_addr_position MB b 6 in with_label b p 0.
Definition f_bank_bits_size (m : Z) : res out :=
  let* b := bank_of (Some m) None z0 (Some 16%Z) None z0 false in with_label b 0 0.
Definition f_bank_addr (m : Z) : res out :=
  let* b := bank_of None None (Some m) None None z0 false in
  let* r := write_at b 0 8 in with_label b (snd r) (fst r).
Definition f_bank_addr_align (m : Z) : res out :=
  let* b := bank_of None None (Some m) None None z0 false in
  let* r := write_at b 0 8 in
  let* p := guard_align_position MB b (snd r) 16 in with_label b p (fst r).
(* a top-level label in a bank with labelalign: the position is aligned first (iter.rs next()) *)
Definition aligned_label (b : bank) (pos : N) (w : N) : res (out * N) :=
  let* p := match bk_labelalign b with Some la => align_position MB b pos la | None => Ok pos end in
  let* o := with_label b p w in Ok (o, p).
Definition f_bank_addr_labelalign (m : Z) : res out :=
  let* b := bank_of None (Some 16%Z) (Some m) None None z0 false in
  let* r := write_at b 0 8 in
  let* o := aligned_label b (snd r) (fst r) in Ok (fst o).
Definition f_bank_size (m : Z) : res out :=
  let* b := bank_of None None z0 (Some m) None z0 false in
  let* r := write_at b 0 8 in Ok (fst r, None).
Definition f_bank_size_fill (m : Z) : res out :=
  let* b := guard_bankdef MB (mkSrc None None z0 (Some m) None z0 true) in
  work (guard_fill MB b).
Definition f_bank_size_fill_data (m : Z) : res out :=
  let* b := guard_bankdef MB (mkSrc None None z0 (Some m) None z0 true) in
  let* w := guard_fill MB b in
  let* r := write_at b 0 8 in Ok (N.max w (fst r), None).
Definition f_bank_addr_end (m : Z) : res out :=
  let* b := bank_of None None z0 None (Some m) z0 false in
  let* r := write_at b 0 8 in Ok (fst r, None).
Definition f_bank_outp (m : Z) : res out :=
  let* b := bank_of None None z0 None None (Some m) false in with_label b 0 0.
Definition f_bank_outp_data (m : Z) : res out :=
  let* b := bank_of None None z0 None None (Some m) false in
  let* r := write_at b 0 8 in Ok (fst r, None).
Definition f_bank_outp_label (m : Z) : res out :=
  let* b := bank_of None None z0 None None (Some m) false in
  let* p := res_at b 0 1 in with_label b p 0.
Definition f_bank_outp_res (m : Z) : res out :=
  let* b := bank_of None None z0 None None (Some m) false in
  let* p := res_at b 0 1 in let* _p := res_at b p 1 in Ok (0, None).
Definition f_bank_outp_fill (m : Z) : res out :=
  let* b := guard_bankdef MB (mkSrc None None z0 (Some 1%Z) None (Some m) true) in
  work (guard_fill MB b).
Definition f_bank_outp_two (m : Z) : res out :=
  let* a := bank_of None None z0 (Some 1%Z) None (Some m) false in
  let* b := bank_of None None z0 (Some 1%Z) None z0 false in
  let* o := guard_bank_overlap a b in
  if o then Err else Ok (0, None).
Definition f_bank_labelalign (m : Z) : res out :=
  let* b := bank_of None (Some m) z0 None None z0 false in
  let* r := write_at b 0 8 in
  let* o := aligned_label b (snd r) (fst r) in Ok (fst o).
Definition f_bank_labelalign_data (m : Z) : res out :=
  let* b := bank_of None (Some m) z0 None None z0 false in
  let* r := write_at b 0 8 in
  let* o := aligned_label b (snd r) (fst r) in
  let* r2 := write_at b (snd o) 8 in Ok (fst r2, snd (fst o)).
(* #addr m / `two` (=> asm { nop / nop }, 16 bits) / x: *)
Definition f_asm_block_position (m : Z) : res out :=
  let* p := guard_addr_position MB db m in
  let* _e := asm_block_positions p [8; 8] in
  let* r := write_at db p 16 in with_label db (snd r) (fst r).

(* ---- #bankdef field combinations (tools/c19_families.bank_combo_program):
   bank a { #addr 0, [#size m + 16], #outp (0 | m), [#fill] } / #d8 1 / [#addr m | #res m | #align m] / #d8 2 / x: *)
Definition f_bank_combo (sized far_outp fill : bool) (place : nat) (m : Z) : res out :=
  let* b := guard_bankdef MB (mkSrc None None z0 (if sized then Some (m + 16)%Z else None) None
                                    (Some (if far_outp then m else 0%Z)) fill) in
  let* wf := guard_fill MB b in
  let* r1 := write_at b 0 8 in
  let* p := match place with
            | 0%nat => Ok (snd r1)
            | 1%nat => guard_addr_position MB b m
            | 2%nat => res_at b (snd r1) m
            | _ => guard_align_position MB b (snd r1) m
            end in
  let* r2 := write_at b p 8 in
  with_label b (snd r2) (N.max wf (N.max (fst r1) (fst r2))).

(* ---- every position-advancing path next to the top of the machine word (tools/c19_families.near_top_program):
   bank a { #bits 1, #addr 0, #outp 0 [, #labelalign n] } / #addr (2^64 - k) / <path> / x:
   path 0: the label itself, padded to #labelalign n (iter.rs next());  1: #align n;  2: #res n;  3: #d8 (8 bits);
   4: an 8-bit instruction;  5: an instruction whose production is asm { nop / nop } (16 bits);  6: #addr again;
   7: #bank b / #res 1 / #bank a / #res n  (positions are per bank) *)
Definition f_near_top (path : nat) (n k : Z) : res out :=
  let* b := bank_of (Some 1%Z) (match path with 0%nat => Some n | _ => None end) z0 None None z0 false in
  let top := (18446744073709551616 - k)%Z in
  let* p0 := guard_addr_position MB b top in
  match path with
  | 0%nat => let* o := aligned_label b p0 0 in Ok (fst o)
  | 1%nat => let* p := guard_align_position MB b p0 n in with_label b p 0
  | 2%nat | 7%nat => let* p := res_at b p0 n in with_label b p 0
  | 3%nat | 4%nat => let* r := write_at b p0 8 in with_label b (snd r) (fst r)
  | 5%nat => let* _e := asm_block_positions p0 [8; 8] in let* r := write_at b p0 16 in with_label b (snd r) (fst r)
  | _ => let* p := guard_addr_position MB b (top + n) in with_label b p 0
  end.

(* ---- inclusion ranges: f.bin = 16 bytes, f.txt = 16 binary digits, h.txt = 16 hex digits *)
Definition inc_bytes : list N := repeat 0 16.
Definition inc_chars : list N := repeat 49 16.     (* '1' *)
Definition f_incbin_start (m : Z) : res out := work (guard_incbin inc_bytes (IncFns.A2 m)).
Definition f_incbin_start_size (m : Z) : res out := work (guard_incbin inc_bytes (IncFns.A3 m 1)).
Definition f_incbin_size (m : Z) : res out := work (guard_incbin inc_bytes (IncFns.A3 1 m)).
Definition f_incstr_start (bpc : nat) (m : Z) : res out := work (guard_incstr bpc inc_chars (IncFns.A2 m)).
Definition f_incstr_start_size (bpc : nat) (m : Z) : res out := work (guard_incstr bpc inc_chars (IncFns.A3 m 1)).
Definition f_incstr_size (bpc : nat) (m : Z) : res out := work (guard_incstr bpc inc_chars (IncFns.A3 1 m)).

(* ---- command line *)
Definition f_group (m : Z) : res out := work (guard_group 1 65535 m).

(* ---- depth families: what the counters say for the nesting families at depth n *)
Definition PLIMIT : Z := Generated.PARSE_RECURSION_DEPTH_MAX.
Definition ELIMIT : Z := Generated.EVAL_RECURSION_DEPTH_MAX.
Definition d_paren (n : nat) := parse_top PLIMIT (nest_paren n).
Definition d_unary (n : nat) := parse_top PLIMIT (nest_unary n).
Definition d_chain (n : nat) := parse_top PLIMIT (SChain (leaves (S n))).
Definition d_chain_eval (n : nat) : Z := eval_recursion_depth (SChain (leaves (S n))).
Definition d_asm_nest (n : nat) := parse_lines PLIMIT [nest_asm n].
(* alternating nesting: the cycle of construct codes (see Limits.build) repeated `rounds` times, as the lines of a file *)
Definition d_mixed (cycle : list nat) (rounds : nat) := parse_lines PLIMIT [build (cycle_codes cycle rounds)].
Definition d_if (n : nat) := parse_file_line PLIMIT (nest_if n).
Definition d_elif (n : nat) := parse_file_line PLIMIT (elif_chain n).
(* `#d8 f(f(..f(1)))` has no deep evaluation; `#d8 f0(n)` with f(x) => x == 0 ? 0 : f(x - 1) makes n + 1 nested calls *)
Definition d_fn_calls (n : nat) := eval_directive ELIMIT (call_chain n).
(* j0 => asm { j1 }, ..., j(n-1) => asm { jn }, jn => 0x11, line `j0`: n nested asm blocks under an instruction *)
Definition d_asm_calls (n : nat) := eval_instruction ELIMIT (asm_chain n).
(* jk => gk(), #fn gk() => asm { j(k+1) }: rule -> function call -> asm block -> rule ..., n rounds *)
Fixpoint mix_calls (n : nat) : ev := match n with O => VLeaf | S k => VCall (VAsm [mix_calls k]) end.
Definition d_mixed_calls (n : nat) := eval_instruction ELIMIT (mix_calls n).
