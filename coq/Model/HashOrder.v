(* C10 — executable models of every place where /repo/src ITERATES a hash container (inventory: tools/translate_c10.py,
   Gen c10_uses), each taking the iteration order `ord` as an explicit argument: `ord` is the list of the container's
   entries in the order std's HashMap happens to yield them (an arbitrary permutation; keys pairwise distinct).
   Definitions only; the order-independence theorems are in Proofs/HashOrderP.v.

   A HashMap<String, V> is a finite map.  It is modelled by an association list with distinct keys; point operations
   (get / insert / remove / contains_key) are the usual ones and what the code can observe of a map through them is its
   `lookup` function.  Text = list of Unicode scalar values. *)
From Coq Require Import NArith ZArith List Bool.
Import ListNotations.
Open Scope N_scope.

Definition text := list N.

Fixpoint text_eqb (a b : text) : bool :=
  match a, b with
  | [], [] => true
  | x :: a', y :: b' => N.eqb x y && text_eqb a' b'
  | _, _ => false
  end.

(* str::starts_with *)
Fixpoint starts_with (p s : text) : bool :=
  match p, s with
  | [], _ => true
  | x :: p', y :: s' => N.eqb x y && starts_with p' s'
  | _ :: _, [] => false
  end.

(* ---- finite maps with String keys ------------------------------------------------------------------------------- *)
Section Maps.
  Context {V : Type}.
  Definition amap := list (text * V).

  Fixpoint lookup (k : text) (m : amap) : option V :=
    match m with
    | [] => None
    | kv :: r => if text_eqb k (fst kv) then Some (snd kv) else lookup k r
    end.
  Definition keys (m : amap) : list text := map fst m.
  Definition remove (k : text) (m : amap) : amap := filter (fun kv => negb (text_eqb k (fst kv))) m.
  (* HashMap::insert: replaces the value of an existing key *)
  Definition insert (k : text) (v : V) (m : amap) : amap := (k, v) :: remove k m.
  Definition contains_key (k : text) (m : amap) : bool := match lookup k m with Some _ => true | None => false end.
  (* what the code can see of two maps through point operations *)
  Definition map_equiv (m m' : amap) : Prop := forall k, lookup k m = lookup k m'.
End Maps.
Arguments amap V : clear implicits.

(* ---- site: src/expr/eval.rs  hygienize_locals_for_asm_subst  (two loops: `for entry in &self.locals`,
        `for entry in &self.token_substs`) -------------------------------------------------------------------------
   static ASM_HYGIENIZE_PREFIX = "__";  hygienize_name_for_asm_subst(name) = format!("{}{}", PREFIX, name) *)
Definition ASM_HYGIENIZE_PREFIX : text := [95; 95].
Definition hygienize_name_for_asm_subst (name : text) : text := ASM_HYGIENIZE_PREFIX ++ name.

(* one loop: entries whose key already starts with the prefix are skipped, the others are inserted under the new name
   into a fresh map (new_ctx.locals / new_ctx.token_substs) *)
Definition hygienize_step {V} (m : amap V) (entry : text * V) : amap V :=
  if starts_with ASM_HYGIENIZE_PREFIX (fst entry) then m
  else insert (hygienize_name_for_asm_subst (fst entry)) (snd entry) m.
Definition hygienize_map {V} (ord : list (text * V)) : amap V := fold_left hygienize_step ord [].

Record eval_ctx (Val : Type) := { ec_locals : amap Val; ec_token_substs : amap text; ec_depth : N }.
Arguments ec_locals {Val}. Arguments ec_token_substs {Val}. Arguments ec_depth {Val}.

(* the whole function: `ord_locals` / `ord_substs` are the iteration orders of self.locals / self.token_substs *)
Definition hygienize_locals_for_asm_subst {Val} (depth : N) (ord_locals : list (text * Val)) (ord_substs : list (text * text))
  : eval_ctx Val :=
  {| ec_locals := hygienize_map ord_locals; ec_token_substs := hygienize_map ord_substs; ec_depth := depth + 1 |}.

(* ---- site: src/asm/resolver/eval_asm.rs  resolve_once  `for (label_name, label_value) in labels.iter()
        { new_eval_ctx.set_local(label_name, label_value.clone()); }`   (set_local = self.locals.insert) ------------- *)
Definition set_labels {V} (ord_labels : list (text * V)) (locals : amap V) : amap V :=
  fold_left (fun m kv => insert (fst kv) (snd kv) m) ord_labels locals.

(* the evaluation context an instruction of an asm block is resolved in: hygienised outer locals, then the block's labels *)
Definition asm_instruction_ctx {Val} (depth : N) (ord_locals : list (text * Val)) (ord_substs : list (text * text))
  (ord_labels : list (text * Val)) : eval_ctx Val :=
  let c := hygienize_locals_for_asm_subst depth ord_locals ord_substs in
  {| ec_locals := set_labels ord_labels (ec_locals c); ec_token_substs := ec_token_substs c; ec_depth := ec_depth c |}.

(* EvalContext::get_local / get_token_subst on such a context (what resolve_encoding can observe of it) *)
Definition get_local {Val} (c : eval_ctx Val) (name : text) : option Val := lookup name (ec_locals c).
Definition get_token_subst {Val} (c : eval_ctx Val) (name : text) : option text :=
  match lookup name (ec_token_substs c) with
  | Some t => Some t
  | None => match lookup name (ec_locals c) with Some _ => Some (hygienize_name_for_asm_subst name) | None => None end
  end.

(* ---- site: src/util/symbol_format.rs  format_recursive  `children.iter().collect::<Vec<_>>()` +
        `sorted_children.sort_by_key(|c| c.1.0)` --------------------------------------------------------------------
   sort_by_key is a stable sort: insertion sort, an element going in front of the first element whose key is not smaller *)
Section Sort.
  Context {A : Type} (key : A -> N).
  Fixpoint insert_sorted (x : A) (l : list A) : list A :=
    match l with
    | [] => [x]
    | y :: r => if key x <=? key y then x :: l else y :: insert_sorted x r
    end.
  Definition sort_by_key (l : list A) : list A := fold_right insert_sorted [] l.
End Sort.

(* the first three statements of format_recursive: entries of `children` (name, ItemRef index) in iteration order -> the vector
   that the rest of the function walks *)
Definition sorted_children (ord : list (text * N)) : list (text * N) := sort_by_key snd ord.

(* the whole recursion.  A declaration owns the map of its children; ItemRef indices are unfolded into a tree (an index
   is handed out once, by SymbolManager::declare, so the links form a forest).  value = Some v when the symbol is an
   emitted integer (`!symbol.no_emit` and `Value::Integer`), None otherwise.  children in ITERATION order. *)
Inductive sdecl := SDecl (index : N) (value : option Z) (children : list (text * sdecl)).
Definition sd_index (d : sdecl) : N := match d with SDecl i _ _ => i end.
Definition sd_children (d : sdecl) : list (text * sdecl) := match d with SDecl _ _ k => k end.
Definition sd_value (d : sdecl) : option Z := match d with SDecl _ v _ => v end.

Fixpoint join_dots (hierarchy : list text) : text :=
  match hierarchy with
  | [] => []
  | [x] => x
  | x :: r => x ++ 46 :: join_dots r
  end.

(* the formatter callback is applied to (full dotted name, value) in this order; the text is its concatenation.
   Each child is formatted (independently of its siblings: `hierarchy` is pushed and popped around it and `result` is only
   appended to), the blocks are then put in the order of the sorted vector: sorting (index, block) pairs by index is the
   same as sorting the children by index and formatting them in that order. *)
Fixpoint format_decl (hierarchy : list text) (name : text) (d : sdecl) {struct d} : list (text * Z) :=
  match d with
  | SDecl _ value children =>
      let h := hierarchy ++ [name] in
      (match value with Some v => [(join_dots h, v)] | None => [] end)
      ++ concat (map snd (sort_by_key fst (map (fun c => (sd_index (snd c), format_decl h (fst c) (snd c))) children)))
  end.
Definition format_symbols (globals : list (text * sdecl)) : list (text * Z) :=
  concat (map snd (sort_by_key fst (map (fun c => (sd_index (snd c), format_decl [] (fst c) (snd c))) globals))).

(* the same written the way the code runs (sort the children, then walk them), on fuel = depth of the tree; used to state
   that the definition above is the code's order *)
Fixpoint format_decl_walk (fuel : nat) (hierarchy : list text) (name : text) (d : sdecl) : list (text * Z) :=
  match fuel with
  | O => []
  | S f =>
      let h := hierarchy ++ [name] in
      (match sd_value d with Some v => [(join_dots h, v)] | None => [] end)
      ++ flat_map (fun c => format_decl_walk f h (fst c) (snd c)) (sort_by_key (fun c => sd_index (snd c)) (sd_children d))
  end.

(* SymbolManager::declare: the new declaration gets index = decls.len() and is inserted into its parent's children map *)
Definition declare_child (decls_len : N) (children : list (text * N)) (name : text) : N * list (text * N) :=
  (decls_len + 1, insert name decls_len children).

(* ---- driver.rs parse_output_format: the leftover ("unknown") format parameter that is reported ----------------------
   pinned code (before fix 3d8d817, F16): `for entry in params { error(entry.0); return Err }` = the FIRST entry in
   iteration order.  Current code: the first parameter, in the order GIVEN on the command line, that is still in the map
   (`params.contains_key`): no iteration of the map at all. *)
Definition leftover_pinned {V} (ord : list (text * V)) : option text :=
  match ord with [] => None | kv :: _ => Some (fst kv) end.
Definition leftover_fixed {V} (given : list text) (params : amap V) : option text :=
  find (fun p => contains_key p params) given.
