(* Model of the resolver (src/asm/resolver/*.rs): one resolver per node kind, the bank cursor walk of the default bank
   (address unit 8 bits), resolve_iteratively, the pre-pass of constants, static size guesses (src/expr/inspect.rs,
   matcher::get_match_static_size) and output building -- for the language fragment: global labels and constants,
   instructions over rule sets with sub-rules, data directives, #res / #align / #addr; static-value optimisation off.
   Executable definitions only. *)
From Coq Require Import NArith ZArith List Bool.
Import ListNotations.
From CA Require Import Model.Lexer Model.Parser Model.Literal Model.BigIntOps Model.Evaluator Model.Matcher.
Open Scope Z_scope.

Inductive node :=
| NLabel (sym : nat)
| NConst (sym : nat) (e : expr)
| NInstr (i : nat) (src : text)
| NData (width : option N) (elems : list (nat * expr))
| NRes (r : nat) (e : expr)
| NAlign (a : nat) (e : expr)
| NAddr (a : nat) (e : expr).

Record instr_def := { i_matches : list imatch; i_enc : bigint }.
Record state := { s_sym : list value; s_instr : list instr_def; s_data : list bigint;
                  s_res : list Z; s_align : list Z; s_addr : list Z }.

Fixpoint set_nth {A} (l : list A) (i : nat) (x : A) : list A :=
  match l, i with
  | _ :: r, O => x :: r
  | a :: r, S k => a :: set_nth r k x
  | [], _ => []
  end.

Definition s_dollar : text := ([36])%N.
Definition s_pc : text := ([112;99])%N.

Fixpoint find_sym (names : list text) (n : text) (i : nat) : option nat :=
  match names with [] => None | k :: r => if text_eqb k n then Some i else find_sym r n (S i) end.

Definition address_at (pos : Z) (can_guess : bool) : eres Z :=
  if negb (pos mod 8 =? 0) && negb can_guess then EErr else EOk (pos / 8).

Definition pvar (names : list text) (st : state) (pos : Z) (can_guess : bool) (level : N) (path : list text) : eres value :=
  match level, path with
  | 0%N, first :: rest =>
    if text_eqb first s_dollar || text_eqb first s_pc then
      match address_at pos can_guess with EOk a => EOk (VInt (un a)) | EErr => EErr end
    else match rest with
         | [] => match find_sym names first 0 with
                 | None => EErr
                 | Some i => match nth_error (s_sym st) i with
                             | Some VUnknown => if can_guess then EOk VUnknown else EErr
                             | Some v => EOk v
                             | None => EErr end
                 end
         | _ => EErr
         end
  | _, _ => EErr
  end.

(* ---- typed arguments ---- *)
Definition min_size (v : Z) : Z := if v =? 0 then 1 else if v <? 0 then bits (- (v + 1)) + 1 else bits v.
Definition sign (v : Z) : Z := if v =? 0 then 0 else if v <? 0 then -1 else 1.
Definition coallesce (v : value) : value := match v with VStr s e => VInt (str_bigint s e) | _ => v end.

Definition constrain (v : value) (t : pty) : eres value :=
  match coallesce v with
  | VInt b =>
    let x := bv b in
    let typed (n : N) (fails : bool) := if fails then EOk VFailed else EOk (VInt (mk x (Some n))) in
    match t with
    | TyNone => EOk v
    | TyU n => typed n ((sign x =? -1) || (min_size x >? Z.of_N n))
    | TyS n => typed n (((sign x =? 0) && (n =? 0)%N) || ((sign x =? 1) && (min_size x >=? Z.of_N n)) || ((sign x =? -1) && (min_size x >? Z.of_N n)))
    | TyI n => typed n (min_size x >? Z.of_N n)
    | TyRule _ => EErr
    end
  | _ => EErr
  end.

Definition get_rule (defs : list ruledef) (rd ru : nat) : option rule :=
  match nth_error defs rd with Some d => nth_error (rd_rules d) ru | None => None end.

(* resolve_instruction_match: value of one match (Unknown / Failed / Integer ...) *)
Fixpoint resolve_match (defs : list ruledef) (pv : N -> list text -> eres value) (m : imatch) {struct m} : eres value :=
  match m with
  | IMatch rd ru args _ =>
    match get_rule defs rd ru with
    | None => EErr
    | Some r =>
      (fix go (args : list iarg) (params : list (text * pty)) (ctx : locals) : eres value :=
         match args, params with
         | [], _ => match eval code_ops pv (rexpr r) ctx with EOk (v, _) => EOk v | EErr => EErr end
         | AExpr e _ _ _ :: ar, (pn, pt) :: pr =>
           match eval code_ops pv e [] with
           | EErr => EErr
           | EOk (v, _) =>
             if should_propagate v then EOk v else
             match constrain v pt with
             | EErr => EErr
             | EOk c => if should_propagate c then EOk c else go ar pr ((pn, c) :: ctx)
             end
           end
         | ANested n _ _ _ :: ar, (pn, _) :: pr =>
           match resolve_match defs pv n with
           | EErr => EErr
           | EOk v => if should_propagate v then EOk v else go ar pr ((pn, v) :: ctx)
           end
         | _ :: _, [] => EErr
         end) args (rparams r) []
    end
  end.

Inductive mres := MUnresolved | MFailed | MResolved (b : bigint).

Definition resolve_matches (defs : list ruledef) (pv : N -> list text -> eres value) (ms : list imatch) : eres (list mres) :=
  (fix go (ms : list imatch) : eres (list mres) :=
     match ms with
     | [] => EOk []
     | m :: r =>
       match resolve_match defs pv m with
       | EErr => EErr
       | EOk v =>
         match coallesce v with
         | VUnknown => match go r with EOk l => EOk (MUnresolved :: l) | EErr => EErr end
         | VFailed => match go r with EOk l => EOk (MFailed :: l) | EErr => EErr end
         | VInt b => match bsz b with
                     | Some _ => match go r with EOk l => EOk (MResolved b :: l) | EErr => EErr end
                     | None => EErr end
         | _ => EErr
         end
       end
     end) ms.

Definition size_of (b : bigint) : Z := match bsz b with Some s => Z.of_N s | None => 0 end.

(* resolve_encoding: None = no usable encoding (an error was reported in last mode) *)
Definition resolve_encoding (defs : list ruledef) (pv : N -> list text -> eres value) (can_guess : bool) (ms : list imatch) : eres (option bigint) :=
  match resolve_matches defs pv ms with
  | EErr => EErr
  | EOk rs =>
    let resolved := flat_map (fun r => match r with MResolved b => [b] | _ => [] end) rs in
    match resolved with
    | [] => EOk None
    | b0 :: _ =>
      let smallest := fold_left (fun a b => Z.min a (size_of b)) resolved (size_of b0) in
      let cands := filter (fun b => size_of b =? smallest) resolved in
      if negb can_guess && Nat.ltb 1 (length cands) then EOk None
      else EOk (hd_error cands)
    end
  end.

Inductive resolution := Resolved | Unresolved.
Definition merge (a b : resolution) := match a, b with Resolved, Resolved => Resolved | _, _ => Unresolved end.

(* BigInt::is_identical: value and size (stability checks after the size-aware repair);
   BigInt's PartialEq (bigint_eqv) ignores the size and is still what label stability uses *)
Definition bigint_eqv (a b : bigint) : bool := bv a =? bv b.
Definition optN_eqb (a b : option N) : bool := match a, b with Some x, Some y => (x =? y)%N | None, None => true | _, _ => false end.
Definition bigint_identical (a b : bigint) : bool := (bv a =? bv b) && optN_eqb (bsz a) (bsz b).
Definition value_eqv (a b : value) : bool :=
  match a, b with
  | VUnknown, VUnknown | VVoid, VVoid | VFailed, VFailed => true
  | VInt x, VInt y => bigint_eqv x y
  | VBool x, VBool y => Bool.eqb x y
  | VStr s e, VStr s' e' => text_eqb s s' && (e =? e')%N
  | VBuiltin n, VBuiltin n' => text_eqb n n'
  | _, _ => false
  end.

Definition value_identical (a b : value) : bool :=
  match a, b with VInt x, VInt y => bigint_identical x y | _, _ => value_eqv a b end.

Definition expect_error_or_bigint (v : value) : eres value :=
  match coallesce v with VUnknown => EOk VUnknown | VFailed => EOk VFailed | VInt b => EOk (VInt b) | _ => EErr end.

Definition bits_until_alignment (addr_bits align : Z) : Z :=
  if align =? 0 then 0 else let ex := Z.rem addr_bits align in if ex =? 0 then 0 else align - ex.

Definition slice_to (b : bigint) (n : Z) : bigint := slice b (Z.to_N n) 0.
Definition size_or_min (b : bigint) : Z := match bsz b with Some s => Z.of_N s | None => min_size (bv b) end.

Record pstate := { p_st : state; p_pos : Z; p_res : resolution }.

Section Pass.
Variable names : list text.
Variable defs : list ruledef.
Variable last : bool.
Let can_guess := negb last.

(* the elements of one data directive, left to right *)
Fixpoint data_go (width : option N) (elems : list (nat * expr)) (st : state) (pos : Z) (acc : resolution) {struct elems} : eres (state * resolution * Z) :=
       match elems with
       | [] => EOk (st, acc, pos)
       | (d, e) :: r =>
         let pv := pvar names st pos can_guess in
         match eval code_ops pv e [] with
         | EErr => EErr
         | EOk (v, _) =>
           match expect_error_or_bigint v with
           | EErr => EErr
           | EOk v =>
             let enc : eres (option bigint) :=
               match v with
               | VInt b => EOk (Some b)
               | _ => if last then EErr else EOk None
               end in
             match enc with
             | EErr => EErr
             | EOk menc =>
               let checked : bool :=
                 if last then
                   match menc with
                   | Some b => match width with
                               | Some w => negb (size_or_min b >? Z.of_N w)
                               | None => match bsz b with Some _ => true | None => false end
                               end
                   | None => false
                   end
                 else true in
               if negb checked then EErr else
               let menc := match menc with
                           | Some b => Some (match width with Some w => slice_to b (Z.of_N w) | None => slice_to b (size_or_min b) end)
                           | None => None end in
               let prev := nth d (s_data st) (mk 0 (Some 0%N)) in
               let st' := match menc with
                          | Some b => {| s_sym := s_sym st; s_instr := s_instr st; s_data := set_nth (s_data st) d b; s_res := s_res st; s_align := s_align st; s_addr := s_addr st |}
                          | None => st end in
               let stable := match menc with Some b => bigint_identical prev b | None => false end in
               let cur := nth d (s_data st') (mk 0 (Some 0%N)) in
               data_go width r st' (pos + size_of cur) (merge acc (if stable then Resolved else Unresolved))
             end
           end
         end
       end.

(* one node: returns new state, position advance is applied by the caller from the new state *)
Definition resolve_node (n : node) (st : state) (pos : Z) : eres (state * resolution * Z) :=
  let pv := pvar names st pos can_guess in
  match n with
  | NLabel s =>
    match address_at pos can_guess with
    | EErr => EErr
    | EOk a =>
      let nv := VInt (un a) in
      let prev := nth s (s_sym st) VUnknown in
      let st' := {| s_sym := set_nth (s_sym st) s nv; s_instr := s_instr st; s_data := s_data st; s_res := s_res st; s_align := s_align st; s_addr := s_addr st |} in
      EOk (st', if value_eqv nv prev then Resolved else Unresolved, pos)
    end
  | NConst s e =>
    match eval code_ops pv e [] with
    | EErr => EErr
    | EOk (v, _) =>
      (* on the final pass a failed constraint is an error, as it is in the pre-pass of address-free constants *)
      if last && (match v with VFailed => true | _ => false end) then EErr else
      let prev := nth s (s_sym st) VUnknown in
      let st' := {| s_sym := set_nth (s_sym st) s v; s_instr := s_instr st; s_data := s_data st; s_res := s_res st; s_align := s_align st; s_addr := s_addr st |} in
      EOk (st', if value_identical v prev then Resolved else Unresolved, pos)
    end
  | NInstr i _ =>
    match nth_error (s_instr st) i with
    | None => EErr
    | Some d =>
      match resolve_encoding defs pv can_guess (i_matches d) with
      | EErr => EErr
      | EOk chosen =>
        let stable := match chosen with Some b => bigint_identical (i_enc d) b | None => false end in
        let d' := match chosen with Some b => {| i_matches := i_matches d; i_enc := b |} | None => d end in
        let st' := {| s_sym := s_sym st; s_instr := set_nth (s_instr st) i d'; s_data := s_data st; s_res := s_res st; s_align := s_align st; s_addr := s_addr st |} in
        EOk (st', if stable then Resolved else Unresolved, pos + size_of (i_enc d'))
      end
    end
  | NData width elems => data_go width elems st pos Resolved
  | NRes r e =>
    match eval code_ops pv e [] with
    | EErr => EErr
    | EOk (v, _) =>
      match expect_error_or_bigint v with
      | EErr => EErr
      | EOk v =>
        let val : eres Z := match v with VInt b => if (bv b <? 0) || (bv b >? u32_max) then EErr else EOk (bv b) | _ => EOk 0 end in
        match val with
        | EErr => EErr
        | EOk z =>
          let nv := z * 8 in
          let prev := nth r (s_res st) 0 in
          let st' := {| s_sym := s_sym st; s_instr := s_instr st; s_data := s_data st; s_res := set_nth (s_res st) r nv; s_align := s_align st; s_addr := s_addr st |} in
          EOk (st', if nv =? prev then Resolved else Unresolved, pos + nv)
        end
      end
    end
  | NAlign a e =>
    match eval code_ops pv e [] with
    | EErr => EErr
    | EOk (v, _) =>
      let val : eres Z := match v with
                          | VUnknown | VFailed => EOk 0
                          | VInt b => if (bv b <? 0) || (bv b >? usize_max) then EErr else EOk (bv b)
                          | _ => EErr end in
      match val with
      | EErr => EErr
      | EOk z =>
        let prev := nth a (s_align st) 0 in
        let st' := {| s_sym := s_sym st; s_instr := s_instr st; s_data := s_data st; s_res := s_res st; s_align := set_nth (s_align st) a z; s_addr := s_addr st |} in
        if negb (z =? prev) then EOk (st', Unresolved, pos + bits_until_alignment pos z)
        else if last && (z =? 0) then EErr
        else EOk (st', Resolved, pos + bits_until_alignment pos z)
      end
    end
  | NAddr a e =>
    match eval code_ops pv e [] with
    | EErr => EErr
    | EOk (v, _) =>
      match expect_error_or_bigint v with
      | EErr => EErr
      | EOk v =>
        let z := match v with VInt b => bv b | _ => 0 end in
        let prev := nth a (s_addr st) 0 in
        let st' := {| s_sym := s_sym st; s_instr := s_instr st; s_data := s_data st; s_res := s_res st; s_align := s_align st; s_addr := set_nth (s_addr st) a z |} in
        let newpos := if z >=? 0 then (if z >? usize_max then 0 else z * 8) else 0 in
        if negb (z =? prev) then EOk (st', Unresolved, newpos)
        else if last && (z <? 0) then EErr
        else if last && (z * 8 >? usize_max) then EErr
        else EOk (st', Resolved, newpos)
      end
    end
  end.

Fixpoint pass (ns : list node) (st : state) (pos : Z) (acc : resolution) : eres (state * resolution) :=
  match ns with
  | [] => EOk (st, acc)
  | n :: r =>
    match resolve_node n st pos with
    | EErr => EErr
    | EOk (st', res, pos') => pass r st' pos' (merge acc res)
    end
  end.
End Pass.

(* resolve_iteratively *)
Fixpoint loop (names : list text) (defs : list ruledef) (ns : list node) (k i max : nat) (st : state) : eres (state * nat) :=
  let confirm i st := match pass names defs true ns st 0 Resolved with
                      | EOk (st', Resolved) => EOk (st', i) | _ => EErr end in
  match k with
  | O => confirm i st
  | S k' =>
    let i' := S i in
    let last := Nat.eqb i' max in
    match pass names defs last ns st 0 Resolved with
    | EErr => EErr
    | EOk (st', Resolved) => if last then EOk (st', i') else confirm i' st'
    | EOk (st', Unresolved) => if last then EErr else loop names defs ns k' i' max st'
    end
  end.

(* ---- static size of a match (matcher::get_match_static_size / inspect::get_static_size) ---- *)
Definition try_eval_usize (e : expr) : option Z :=
  match eval code_ops dummy_var e [] with
  | EOk (VInt b, _) => if (bv b <? 0) || (bv b >? usize_max) then None else Some (bv b)
  | _ => None
  end.

Fixpoint static_size (sizes : list (text * Z)) (e : expr) {struct e} : option Z :=
  match e with
  | EVar 0%N [n] => (fix lk (l : list (text * Z)) := match l with [] => None | (k, v) :: r => if text_eqb k n then Some v else lk r end) sizes
  | ENum _ (Some s) => Some (Z.of_N s)
  | EBin Concat a b => match static_size sizes a, static_size sizes b with Some x, Some y => Some (x + y) | _, _ => None end
  | ESlice l r _ => match try_eval_usize l, try_eval_usize r with
                    | Some lz, Some rz => if rz >? lz + 1 then None else Some (lz + 1 - rz)
                    | _, _ => None end
  | EShort s _ => try_eval_usize s
  | ETern _ t f => match static_size sizes t, static_size sizes f with Some x, Some y => if x =? y then Some x else None | _, _ => None end
  | EBlock es => (fix lastof (l : list expr) : option Z := match l with [] => None | [x] => static_size sizes x | _ :: r => lastof r end) es
  | ECall (EVar 0%N [n]) [a] => if text_eqb n s_sizeof || text_eqb n s_le then static_size sizes a else None
  | _ => None
  end.

Fixpoint match_static_size (defs : list ruledef) (m : imatch) {struct m} : option Z :=
  match m with
  | IMatch rd ru args _ =>
    match get_rule defs rd ru with
    | None => None
    | Some r =>
      let sizes :=
        (fix go (args : list iarg) (params : list (text * pty)) : list (text * Z) :=
           match args, params with
           | a :: ar, (pn, pt) :: pr =>
             let rest := go ar pr in
             match pt, a with
             | TyU n, _ | TyS n, _ | TyI n, _ => (pn, Z.of_N n) :: rest
             | TyRule _, ANested nm _ _ _ => match match_static_size defs nm with Some s => (pn, s) :: rest | None => rest end
             | _, _ => rest
             end
           | _, _ => []
           end) args (rparams r) in
      static_size sizes (rexpr r)
    end
  end.

(* ---- whole run: nodes are given structurally; returns bits (MSB-first as Z with length) and symbol values ---- *)
Definition init_state (indexed : bool) (defs : list ruledef) (nsyms : nat) (ns : list node) : option state :=
  let instrs := flat_map (fun n => match n with NInstr _ src => [src] | _ => [] end) ns in
  let idefs := map (fun src =>
                      let ms := match_instr indexed defs src in
                      let sz := fold_left (fun a m => Z.max a (match match_static_size defs m with Some s => s | None => 0 end)) ms 0 in
                      {| i_matches := ms; i_enc := mk 0 (Some (Z.to_N sz)) |}) instrs in
  if existsb (fun d => match i_matches d with [] => true | _ => false end) idefs then None else
  let datas := flat_map (fun n => match n with
                                  | NData w elems => map (fun de => match w with
                                                                    | Some w => mk 0 (Some w)
                                                                    | None => mk 0 (Some (Z.to_N (match static_size [] (snd de) with Some s => s | None => 0 end))) end) elems
                                  | _ => [] end) ns in
  let count p := length (filter p ns) in
  Some {| s_sym := repeat VUnknown nsyms; s_instr := idefs; s_data := datas;
          s_res := repeat 0 (count (fun n => match n with NRes _ _ => true | _ => false end));
          s_align := repeat 0 (count (fun n => match n with NAlign _ _ => true | _ => false end));
          s_addr := repeat 0 (count (fun n => match n with NAddr _ _ => true | _ => false end)) |}.

(* pre-pass of address-free constants (resolve_constants_simple loop), static optimisation off *)
Definition pvar_simple (names : list text) (st : state) (level : N) (path : list text) : eres value :=
  match level, path with
  | 0%N, [n] => if text_eqb n s_dollar || text_eqb n s_pc then EOk VUnknown
                else match find_sym names n 0 with
                     | Some i => EOk (nth i (s_sym st) VUnknown)
                     | None => EOk VUnknown end
  | 0%N, first :: _ => if text_eqb first s_dollar || text_eqb first s_pc then EOk VUnknown else EOk VUnknown
  | _, _ => EOk VUnknown
  end.

Definition simple_round (names : list text) (ns : list node) (st : state) : eres (state * nat) :=
  (fix go (ns : list node) (st : state) (cnt : nat) : eres (state * nat) :=
     match ns with
     | [] => EOk (st, cnt)
     | NConst s e :: r =>
       match eval code_ops (pvar_simple names st) e [] with
       | EErr => EErr
       | EOk (VFailed, _) => EErr
       | EOk (v, _) =>
         let st' := {| s_sym := set_nth (s_sym st) s v; s_instr := s_instr st; s_data := s_data st; s_res := s_res st; s_align := s_align st; s_addr := s_addr st |} in
         go r st' (match v with VUnknown => cnt | _ => S cnt end)
       end
     | _ :: r => go r st cnt
     end) ns st O.

Fixpoint simple_loop (fuel : nat) (names : list text) (ns : list node) (st : state) (prev : nat) : eres state :=
  match fuel with
  | O => EOk st
  | S f => match simple_round names ns st with
           | EErr => EErr
           | EOk (st', cnt) => if Nat.eqb cnt prev then EOk st' else simple_loop f names ns st' cnt
           end
  end.

(* output: write every instruction/data encoding at its position (single default bank) *)
Definition write_bits (out : Z * Z) (pos : Z) (b : bigint) : Z * Z :=      (* (value as big-endian number of len bits, len) *)
  let '(v, len) := out in
  let sz := size_of b in
  let newlen := Z.max len (pos + sz) in
  let v := v * 2 ^ (newlen - len) in
  let field := (bv b) mod 2 ^ sz in
  let shift := newlen - (pos + sz) in
  let cleared := v - ((v / 2 ^ shift) mod 2 ^ sz) * 2 ^ shift in
  (cleared + field * 2 ^ shift, newlen).

Definition build_output (ns : list node) (st : state) : (Z * Z) :=
  (fix go (ns : list node) (pos : Z) (out : Z * Z) : Z * Z :=
     match ns with
     | [] => out
     | NInstr i _ :: r => let b := match nth_error (s_instr st) i with Some d => i_enc d | None => mk 0 None end in
                          go r (pos + size_of b) (write_bits out pos b)
     | NData _ elems :: r =>
       let '(pos', out') := fold_left (fun (po : Z * (Z * Z)) de => let b := nth (fst de) (s_data st) (mk 0 None) in
                                                                   (fst po + size_of b, write_bits (snd po) (fst po) b)) elems (pos, out) in
       go r pos' out'
     | NRes k _ :: r => go r (pos + nth k (s_res st) 0) out
     | NAlign k _ :: r => go r (pos + bits_until_alignment pos (nth k (s_align st) 0)) out
     | NAddr k _ :: r => let z := nth k (s_addr st) 0 in go r (if z >=? 0 then z * 8 else 0) out
     | _ :: r => go r pos out
     end) ns 0 (0, 0).

Definition assemble (indexed : bool) (defs : list ruledef) (names : list text) (ns : list node) (budget : nat) : option (Z * Z * list value * nat) :=
  match init_state indexed defs (length names) ns with
  | None => None
  | Some st0 =>
    match simple_loop (S (length ns)) names ns st0 0 with
    | EErr => None
    | EOk st1 =>
      match loop names defs ns budget 0 budget st1 with
      | EErr => None
      | EOk (st, n) => Some (build_output ns st, s_sym st, n)
      end
    end
  end.

Definition parse_full (t : text) : option expr :=
  match parse_text t with
  | POk e w => if at_linebreak w then Some e else None
  | _ => None
  end.
