(* C19 -- instrumented model of every resource guard of the assembler (tree with the fix commits landed).
   For each numeric position a function  guard_X : ... -> res N  that returns
       Ok work   the operand is accepted; `work` = number of loop iterations / allocated bits the code then performs
       Err       a diagnostic ("value is out of supported range", ...) BEFORE any loop or allocation
       Panic     a usize `+ - *` overflowed (debug build panics, release build wraps silently)
   and, for the recursion limits, the depth bookkeeping of expr/parser.rs, expr/eval.rs (+ eval_fn.rs, eval_asm.rs,
   instruction.rs) and syntax/walker.rs + parser/directive_if.rs as small state machines over the call structure.
   Executable definitions only.

   Conventions: bigint VALUES are Z (any sign); usize quantities (positions, sizes, widths) are N;
   `mb` is BIGINT_MAX_BITS, `plimit`/`elimit` the two recursion limits (instantiated from Gen/Generated.v in Props/C19.v).
   checked_* calls of the Rust code give Err, plain `+ - *` on usize give Panic (uadd/usub).
   Tree: /repo 76fc576 (every position sum of the resolver and of the output builder is a checked operation). *)
From Coq Require Import ZArith NArith List Bool.
From CA Require Import Model.Overlap Model.Cursor.
From CA Require Model.BigIntOps Model.IncFns Model.Paths.
Import ListNotations.
Open Scope N_scope.

Definition u32_max : N := 4294967295.

(* plain usize arithmetic: overflow = Panic *)
Definition uadd (a b : N) : res N := if a + b <=? usize_max then Ok (a + b) else Panic.
Definition usub (a b : N) : res N := if b <=? a then Ok (a - b) else Panic.

(* BigInt::checked_into::<u32>() *)
Definition to_u32 (v : Z) : option N :=
  if ((0 <=? v) && (v <=? Z.of_N u32_max))%Z then Some (Z.to_N v) else None.
(* num-bigint bits() *)
Definition zbits (v : Z) : Z := BigIntOps.bits v.

Definition bindr {A B} (m : res A) (f : A -> res B) : res B :=
  match m with Ok a => f a | Err => Err | Panic => Panic end.
Notation "'let*' x ':=' m 'in' k" := (bindr m (fun x => k)) (at level 200, x name, m at level 100, k at level 200).
Definition of_opt {A} (o : option A) : res A := match o with Some a => Ok a | None => Err end.

(* ------------------------------------------------------------------ util/bigint.rs *)
(* checked_shl: rhs must fit u32 and bits(self) + rhs < BIGINT_MAX_BITS; work = bits of the result.
   (the guards read the operands only through their bit length `ba = self.bigint.bits()`) *)
Definition guard_shl_bits (mb : Z) (ba : Z) (b : Z) : res N :=
  match to_u32 b with
  | None => Err
  | Some s => if (ba + Z.of_N s >=? mb)%Z then Err else Ok (Z.to_N ba + s)
  end.
Definition guard_shl (mb : Z) (a b : Z) : res N := guard_shl_bits mb (zbits a) b.

(* checked_shr: rhs must fit usize; num-bigint's >> touches only the digits of self *)
Definition guard_shr (a b : Z) : res N :=
  match to_usize b with None => Err | Some _ => Ok (Z.to_N (zbits a)) end.

(* BigInt::slice(left, right): `panic!` when left < right, loop `for i in (0..(left - right)).rev()` reading
   get_bit(right + i); work = iterations.  (the clone shortcut of a full-width slice only lowers the work) *)
Definition slice_loop_work (left right : N) : res N :=
  if left <? right then Panic else
  let* w := usub left right in
  if w =? 0 then Ok 0 else
  let* _top := uadd right (w - 1) in      (* the largest index read, `right + i` *)
  Ok w.

(* BigInt::checked_slice *)
Definition guard_checked_slice (mb : Z) (left right : N) : res N :=
  if left <? right then Err else
  let* w := usub left right in
  if (Z.of_N w >? mb)%Z then Err else slice_loop_work left right.

(* expr/eval.rs, Slice arm: x[l:r] ->  left.expect_usize()?.checked_add(1), right.expect_usize()? *)
Definition guard_slice (mb : Z) (l r : Z) : res N :=
  let* lu := of_opt (to_usize l) in
  let* left := of_opt (checked_add lu 1) in
  let* right := of_opt (to_usize r) in
  guard_checked_slice mb left right.

(* SliceShort arm: x`s *)
Definition guard_slice_short (mb : Z) (s : Z) : res N :=
  let* su := of_opt (to_usize s) in
  guard_checked_slice mb su 0.

(* BigInt::concat((lw,0), rhs, (rw,0)): NO guard; `lhs_size + rhs_size` is a plain usize addition;
   two copy loops of lw and rw iterations; the result has lw + rw bits *)
Definition guard_concat (lw rw : N) : res N := uadd lw rw.

(* checked_add / checked_sub / checked_mul: the guard is on the operands' bit lengths; work = bits of the result *)
Definition guard_add_bits (mb : Z) (ba bb : Z) : res N :=
  if (Z.max ba bb >=? mb - 1)%Z then Err else Ok (Z.to_N (Z.max ba bb) + 1).
Definition guard_sub_bits (mb : Z) (ba bb : Z) : res N :=
  if (Z.max ba bb >=? mb - 2)%Z then Err else Ok (Z.to_N (Z.max ba bb) + 1).
Definition guard_mul_bits (mb : Z) (ba bb : Z) : res N :=
  if (Z.max ba bb >=? mb / 2)%Z then Err else Ok (Z.to_N ba + Z.to_N bb).
Definition guard_add (mb : Z) (a b : Z) : res N := guard_add_bits mb (zbits a) (zbits b).
Definition guard_sub (mb : Z) (a b : Z) : res N := guard_sub_bits mb (zbits a) (zbits b).
Definition guard_mul (mb : Z) (a b : Z) : res N := guard_mul_bits mb (zbits a) (zbits b).

(* ------------------------------------------------------------------ width suffixes (parse time) *)
(* usize::from_str_radix(digits, 10): the digit string's value n; overflow => the name is not a width at all
   (`#d<n>` falls through to "unknown directive", `u<n>` becomes the name of a rule set that does not exist) *)
Definition parse_usize (n : Z) : option N := to_usize n.
(* asm/parser/directive.rs `#dN`  and  directive_ruledef.rs `uN / sN / iN` *)
Definition guard_width_suffix (mb : Z) (n : Z) : res N :=
  let* w := of_opt (parse_usize n) in
  if (Z.of_N w >? mb)%Z then Err else Ok w.

(* ------------------------------------------------------------------ #res / #align / #addr *)
(* resolver/res.rs: checked_into::<u32>, then usize.checked_mul(bank.addr_unit); result = reserve_size in bits *)
Definition guard_res (unit : N) (v : Z) : res N :=
  let* n := of_opt (to_u32 v) in
  of_opt (checked_mul n unit).

(* resolver/align.rs (last iteration): checked_into::<usize>, 0 is "invalid alignment size" *)
Definition guard_align_value (v : Z) : res N :=
  let* a := of_opt (to_usize v) in
  if a =? 0 then Err else Ok a.

(* resolver/addr.rs (last iteration): address >= addr_start, (address - addr_start) * addr_unit fits usize and
   lies inside the bank; result = the new position in bits *)
Definition guard_addr_value (mb : Z) (b : bank) (a : Z) : res N :=
  if (a <? bk_addr b)%Z then Err else
  let* d := big_sub mb a (bk_addr b) in
  let* m := big_mul mb d (Z.of_N (bk_unit b)) in
  let* delta := of_opt (to_usize m) in
  match bk_size b with
  | Some sz => if sz <=? delta then Err else Ok delta
  | None => Ok delta
  end.

(* position after the directive (iter.rs advance_address; every update is a checked_* call) *)
Definition advance_by (pos size : N) : res N := checked_position (checked_add pos size).
Definition guard_res_position (unit : N) (pos : N) (v : Z) : res N :=
  let* s := guard_res unit v in advance_by pos s.
Definition guard_align_position (mb : Z) (b : bank) (pos : N) (v : Z) : res N :=
  let* a := guard_align_value v in align_position mb b pos a.
Definition guard_addr_position (mb : Z) (b : bank) (a : Z) : res N :=
  let* _d := guard_addr_value mb b a in addr_position mb b a.

(* eval_asm.rs resolve_once: `cur_position = cur_position.checked_add(size)` or the error
   "value is out of supported range", for every instruction of the block (fix 76fc576) *)
Fixpoint asm_block_positions (pos : N) (sizes : list N) : res N :=
  match sizes with
  | [] => Ok pos
  | s :: r => let* p := advance_by pos s in asm_block_positions p r
  end.

(* ------------------------------------------------------------------ #bankdef fields (defs/bankdef.rs define) *)
Record bank_src := mkSrc {
  s_bits : option Z; s_labelalign : option Z; s_addr : option Z; s_size : option Z;
  s_addr_end : option Z; s_outp : option Z; s_fill : bool }.

Definition expect_usize (v : Z) : res N := of_opt (to_usize v).
(* checked_into_nonzero_usize: None | Some(0) => error *)
Definition expect_nonzero_usize (v : Z) : res N :=
  let* n := expect_usize v in if n =? 0 then Err else Ok n.
Definition opt_field {A} (o : option Z) (f : Z -> res A) : res (option A) :=
  match o with None => Ok None | Some v => let* x := f v in Ok (Some x) end.

Definition guard_bankdef (mb : Z) (s : bank_src) : res bank :=
  let* unit := match s_bits s with None => Ok 8 | Some v => expect_nonzero_usize v end in
  let* la := opt_field (s_labelalign s) expect_usize in
  let addr_start := match s_addr s with None => 0%Z | Some a => a end in
  let* asz := opt_field (s_size s) expect_usize in
  let* addr_size :=
    match asz, s_addr_end s with
    | None, None => Ok None
    | Some sz, None => Ok (Some sz)
    | None, Some e => let* d := big_sub mb e addr_start in let* n := expect_usize d in Ok (Some n)
    | Some _, Some _ => Err                      (* both `addr_end` and `size` defined *)
    end in
  let* size := match addr_size with
               | None => Ok None
               | Some sz => let* x := of_opt (checked_mul sz unit) in Ok (Some x)
               end in
  let* outp := opt_field (s_outp s) expect_usize in
  Ok (mkBank addr_start unit la size outp (s_fill s)).

(* ------------------------------------------------------------------ asm/output/mod.rs *)
(* fill_banks for one bank: work = the length the output vector is extended to *)
Definition guard_fill (mb : Z) (b : bank) : res N :=
  if negb (bk_fill b) then Ok 0 else
  match bk_size b, bk_outp b with
  | Some size, Some off =>
      if size =? 0 then Ok 0 else
      match checked_add off size with
      | None => Err
      | Some e =>
          if (Z.of_N e >? mb)%Z then Err else
          let* s := uadd off size in             (* `offset + size - 1`: plain *)
          let* h := usub s 1 in
          Ok (h + 1)
      end
  | _, _ => Ok 0
  end.

(* check_bank_output(size, write) at position pos of bank b; work = end of the written range (0 when nothing is written) *)
Definition guard_bank_output (mb : Z) (b : bank) (pos size : N) (write : bool) : res N :=
  let* _u := match bk_size b with
             | Some bsz => match checked_add pos size with        (* checked_add(size).map_or(true, |end| end > bank_size) *)
                           | None => Err
                           | Some e => if bsz <? e then Err else Ok 0
                           end
             | None => Ok 0
             end in
  match write, bk_outp b with
  | true, Some off =>
      match checked_add off pos with
      | None => Err
      | Some p => match checked_add p size with
                  | None => Err
                  | Some e => if (Z.of_N e >? mb)%Z then Err else Ok e
                  end
      end
  | true, None => Err                                   (* output to non-writable bank *)
  | false, _ => Ok 0
  end.

(* ResolverContext::get_output_position (fix 6fb2301): `bank.output_offset?.checked_add(cur_position)`:
   None when the bank has no outp or when the sum is not representable *)
Definition output_position (b : bank) (pos : N) : option N :=
  match bk_outp b with Some off => checked_add off pos | None => None end.

(* what build_output does with one item: check_bank_output, then get_output_position; a written item (instruction,
   data) `.unwrap()`s it and writes `size` bits there; labels and #res only use it when it is Some *)
Definition place_item (mb : Z) (b : bank) (pos size : N) (write : bool) : res N :=
  let* w := guard_bank_output mb b pos size write in
  if write then match output_position b pos with Some _ => Ok w | None => Panic end   (* Option::unwrap *)
  else Ok w.

(* check_bank_overlap of two banks (fix abbd199): ends_after(outp, size, other) =
   outp.checked_add(size).map_or(true, |end| end > other) -- an unrepresentable end lies after everything *)
Definition ends_after (outp size other : N) : bool :=
  match checked_add outp size with None => true | Some e => other <? e end.
Definition guard_bank_overlap (b1 b2 : bank) : res bool :=
  match bk_outp b1, bk_outp b2 with
  | Some o1, Some o2 =>
      Ok (match bk_size b1, bk_size b2 with
          | None, None => true
          | Some s1, None => ends_after o1 s1 o2
          | None, Some s2 => ends_after o2 s2 o1
          | Some s1, Some s2 => ends_after o1 s1 o2 && ends_after o2 s2 o1
          end)
  | _, _ => Ok false                                       (* a bank without outp is skipped *)
  end.

(* ------------------------------------------------------------------ incbin / incbinstr / inchexstr ranges *)
Definition of_rres {A} (r : Paths.res A) (len : A -> N) : res N :=
  match r with Paths.ROk a => Ok (len a) | Paths.RErr => Err | Paths.RPanic => Panic | Paths.RFuel => Panic end.
(* work = number of bytes / bits copied into the result; the file content is given *)
Definition guard_incbin (bytes : list N) (a : IncFns.inc_args) : res N :=
  of_rres (IncFns.incbin bytes a) (fun l => N.of_nat (length l)).
Definition guard_incstr (bpc : nat) (chars : list N) (a : IncFns.inc_args) : res N :=
  of_rres (IncFns.incstr bpc chars a) (fun l => N.of_nat (length l)).

(* ------------------------------------------------------------------ command line: annotated / tcgame `group` *)
(* driver.rs: value.parse::<usize>() then check_nonzero = |v| v > 0 && v <= u16::MAX; work = columns per group *)
Definition guard_group (lo hi : N) (v : Z) : res N :=
  let* n := of_opt (parse_usize v) in
  if (lo <=? n) && (n <=? hi) then Ok n else Err.

(* ================================================================== depth counters ======================== *)
Open Scope Z_scope.

(* ---- expr/parser.rs + the block counter of syntax/walker.rs.  Skeleton of the nesting constructs of a program as
   the parser's recursion sees them: the children of a node are the constructs nested directly inside it. *)
Inductive sk :=
| SLeaf                       (* number, string, boolean, variable: parse_leaf without re-entry *)
| SNest (children : list sk)  (* ( e )   { e, e }   f(e, e)   x[e : e]   c ? e : e   a = e  -- and the entry of
                                 expr::parse for the expression of a line (constant, #d, #if condition, ...):
                                 every child is parsed by a nested call of parse_expr (counted) *)
| SUnary (inner : sk)         (* -e  !e : parse_unary_ops calls itself (counted) *)
| SChain (operands : list sk) (* a op b op c ... at one precedence level: the `loop` of parse_binary_ops;
                                 operands are parsed one after the other at the SAME counter value (not a recursion) *)
| SAsm (lines : list sk)      (* asm { lines }: parse_asm checks and increments walker.block_nesting_depth (the sliced
                                 sub-walker inherits it) and hands its own recursion_depth to the sub-walker
                                 (expr_nesting_depth): the ExpressionParser of every inner line STARTS from it *)
| SIf (lines : list sk).      (* #if c { lines } / #else { lines }, a LINE of the current walker: parse_braced_block
                                 checks and increments the same block_nesting_depth; the inner lines' parsers start from
                                 the walker's expr_nesting_depth, which in line position is the current depth *)

(* result of walking a skeleton: (largest value of recursion_depth, largest NATIVE nesting of counted frames) *)
Definition pmax (a b : Z * Z) : Z * Z := (Z.max (fst a) (fst b), Z.max (snd a) (snd b)).

(* runs f over the children one after the other, keeping the component-wise maximum; the first error aborts (`?`) *)
Definition all_max {A} (f : A -> res (Z * Z)) : list A -> Z * Z -> res (Z * Z) :=
  fix all (l : list A) (acc : Z * Z) {struct l} : res (Z * Z) :=
    match l with
    | [] => Ok acc
    | c :: r => match f c with
                | Ok m => all r (pmax acc m)
                | Err => Err | Panic => Panic
                end
    end.

(* `bd` = walker.block_nesting_depth, `d` = recursion_depth of the current ExpressionParser (= the walker's
   expr_nesting_depth where a line starts), `nat_d` = number of counted frames (expression levels + blocks) really on
   the stack.
   parse_expr / parse_unary_ops:  recursion_depth += 1; if recursion_depth > LIMIT { error }
   parse_asm / parse_braced_block: if block_nesting_depth >= LIMIT { error }; block_nesting_depth += 1
   (tree as of /repo 435a7f6: both counters are cumulative across asm blocks) *)
Fixpoint pwalk (limit : Z) (bd d nat_d : Z) (s : sk) {struct s} : res (Z * Z) :=
  match s with
  | SLeaf => Ok (d, nat_d)
  | SNest cs => if d + 1 >? limit then Err
                else all_max (pwalk limit bd (d + 1) (nat_d + 1)) cs (d + 1, nat_d + 1)
  | SUnary c => if d + 1 >? limit then Err else pwalk limit bd (d + 1) (nat_d + 1) c
  | SChain cs => all_max (pwalk limit bd d nat_d) cs (d, nat_d)
  | SAsm ls => if bd >=? limit then Err else all_max (pwalk limit (bd + 1) d (nat_d + 1)) ls (d, nat_d + 1)
  | SIf ls => if bd >=? limit then Err else all_max (pwalk limit (bd + 1) d (nat_d + 1)) ls (d, nat_d + 1)
  end.

(* a whole expression: expr::parse -> parse_expr (one counted entry) *)
Definition parse_top (limit : Z) (s : sk) : res (Z * Z) := pwalk limit 0 0 0 (SNest [s]).
(* the lines of a file (asm::parser::parse): block counter 0, expression depth 0 *)
Definition parse_lines (limit : Z) (ls : list sk) : res (Z * Z) := all_max (pwalk limit 0 0 0) ls (0, 0).

(* nesting as the counters see it *)
Fixpoint list_max (l : list Z) : Z := match l with [] => 0 | x :: r => Z.max x (list_max r) end.
Fixpoint counted_depth (s : sk) : Z :=          (* by the expression counter, inside one parser *)
  match s with
  | SLeaf => 0
  | SNest cs => 1 + list_max (map counted_depth cs)
  | SUnary c => 1 + counted_depth c
  | SChain cs => list_max (map counted_depth cs)
  | SAsm _ | SIf _ => 0
  end.
Fixpoint block_depth (s : sk) : Z :=            (* by the block counter: asm blocks and #if blocks alike *)
  match s with
  | SLeaf => 0
  | SNest cs | SChain cs => list_max (map block_depth cs)
  | SUnary c => block_depth c
  | SAsm ls | SIf ls => 1 + list_max (map block_depth ls)
  end.
Fixpoint has_asm (s : sk) : bool :=             (* contains a block (asm or #if): not a pure expression *)
  match s with
  | SLeaf => false
  | SNest cs | SChain cs => existsb has_asm cs
  | SUnary c => has_asm c
  | SAsm _ | SIf _ => true
  end.

(* the AST the parser builds, as far as the evaluator's recursion is concerned: height of the tree.
   parse_binary_ops folds a chain o0 op o1 op ... op on to the LEFT: BinaryOp(BinaryOp(BinaryOp(o0,o1),o2),o3) *)
Fixpoint chain_height (hs : list Z) (acc : Z) : Z :=
  match hs with [] => acc | h :: r => chain_height r (1 + Z.max acc h) end.
Fixpoint ast_height (s : sk) : Z :=
  match s with
  | SLeaf => 1
  | SNest cs => 1 + list_max (map ast_height cs)
  | SUnary c => 1 + ast_height c
  | SChain cs => match map ast_height cs with [] => 0 | h :: r => chain_height r h end
  | SAsm _ | SIf _ => 1
  end.
(* eval_with_ctx recurses once per AST level and has NO counter of its own: its recursion depth is ast_height *)
Definition eval_recursion_depth (s : sk) : Z := ast_height s.

Definition leaves (n : nat) : list sk := repeat SLeaf n.
Fixpoint nest_paren (n : nat) : sk := match n with O => SLeaf | S k => SNest [nest_paren k] end.
Fixpoint nest_unary (n : nat) : sk := match n with O => SLeaf | S k => SUnary (nest_unary k) end.
(* x = asm { x = asm { ... } }: a line's expression (parse_expr entry) containing an asm block *)
Fixpoint nest_asm (n : nat) : sk := match n with O => SLeaf | S k => SNest [SAsm [nest_asm k]] end.
(* a nest of constructs given by codes, outermost first: 0 = #if block, 1 = bracket / parse_expr entry, 2 = unary operator,
   3 = asm block; anything else = leaf *)
Fixpoint build (codes : list nat) : sk :=
  match codes with
  | [] => SLeaf
  | c :: r => match c with
              | 0%nat => SIf [build r]
              | 1%nat => SNest [build r]
              | 2%nat => SUnary (build r)
              | 3%nat => SAsm [build r]
              | _ => SLeaf
              end
  end.
Fixpoint cycle_codes (cycle : list nat) (rounds : nat) : list nat :=
  match rounds with O => [] | S k => cycle ++ cycle_codes cycle k end.

(* ---- syntax/walker.rs block_nesting_depth + asm/parser/directive_if.rs.  Line structure of a file. *)
Inductive blk :=
| BLine                                   (* any line that is not an #if *)
| BIf (true_arm : blks) (els : belse)
with blks := BNil | BCons (b : blk) (r : blks)     (* the lines of a braced block *)
with belse :=
| ENone
| EElse (arm : blks)                      (* #else { ... } *)
| EElif (true_arm : blks) (els : belse).  (* #elif c { ... } ... : parse_else_blocks calls directive_if::parse *)

(* result: (largest block_nesting_depth, largest native nesting of directive_if::parse frames).
   parse_braced_block: if block_nesting_depth >= LIMIT { error }; += 1; parse lines; -= 1 *)
Fixpoint bwalk (limit : Z) (d nat_d : Z) (b : blk) {struct b} : res (Z * Z) :=
  match b with
  | BLine => Ok (d, nat_d)
  | BIf t e =>
      (* directive_if::parse is one native frame; the braced block is counted *)
      let nd := nat_d + 1 in
      if d >=? limit then Err else
      match blines limit (d + 1) nd t (d + 1, nd) with
      | Ok m => match belse_walk limit d nd e with Ok m' => Ok (pmax m m') | Err => Err | Panic => Panic end
      | Err => Err | Panic => Panic
      end
  end
with blines (limit : Z) (d nat_d : Z) (l : blks) (acc : Z * Z) {struct l} : res (Z * Z) :=
  match l with
  | BNil => Ok acc
  | BCons b r => match bwalk limit d nat_d b with
                 | Ok m => blines limit d nat_d r (pmax acc m)
                 | Err => Err | Panic => Panic
                 end
  end
with belse_walk (limit : Z) (d nat_d : Z) (e : belse) {struct e} : res (Z * Z) :=
  match e with
  | ENone => Ok (d, nat_d)
  | EElse arm => if d >=? limit then Err else blines limit (d + 1) nat_d arm (d + 1, nat_d)
  | EElif t e' =>
      (* parse_else_blocks -> directive_if::parse: a NEW native frame, the counter is untouched *)
      let nd := nat_d + 1 in
      if d >=? limit then Err else
      match blines limit (d + 1) nd t (d + 1, nd) with
      | Ok m => match belse_walk limit d nd e' with Ok m' => Ok (pmax m m') | Err => Err | Panic => Panic end
      | Err => Err | Panic => Panic
      end
  end.

Definition parse_file_line (limit : Z) (b : blk) : res (Z * Z) := bwalk limit 0 0 b.

Fixpoint nest_if (n : nat) : blk := match n with O => BLine | S k => BIf (BCons (nest_if k) BNil) ENone end.
Fixpoint elif_tail (n : nat) : belse := match n with O => EElse (BCons BLine BNil) | S k => EElif BNil (elif_tail k) end.
Definition elif_chain (n : nat) : blk := BIf BNil (elif_tail n).

(* ---- expr/eval.rs EvalContext.recursion_depth, used by eval_fn.rs, eval_asm.rs, instruction.rs *)
Inductive ev :=
| VLeaf                       (* no function call, no asm block *)
| VSeq (l : list ev)          (* sub-expressions evaluated in the same context *)
| VCall (body : ev)           (* call of a user function: check, then the body in new_deepened(ctx) *)
| VAsm (prods : list ev).     (* asm block: check, then for every instruction hygienize_locals (deepened) and
                                 resolve_instruction_match_inner (deepened again): the production runs 2 deeper *)

(* check_recursion_depth_limit: if recursion_depth >= LIMIT { error }.  Result: largest recursion_depth reached *)
Definition all_maxz {A} (f : A -> res Z) : list A -> Z -> res Z :=
  fix all (l : list A) (acc : Z) {struct l} : res Z :=
    match l with
    | [] => Ok acc
    | c :: r => match f c with
                | Ok m => all r (Z.max acc m)
                | Err => Err | Panic => Panic
                end
    end.
Fixpoint ewalk (limit : Z) (d : Z) (e : ev) {struct e} : res Z :=
  match e with
  | VLeaf => Ok d
  | VSeq l => all_maxz (ewalk limit d) l d
  | VCall body => if d >=? limit then Err else ewalk limit (d + 1) body
  | VAsm ps => if d >=? limit then Err else all_maxz (ewalk limit (d + 2)) ps (d + 2)
  end.

(* a directive's expression is evaluated with EvalContext::new() (depth 0); the production of a top-level
   instruction with new_deepened(new()) (depth 1) *)
Definition eval_directive (limit : Z) (e : ev) : res Z := ewalk limit 0 e.
Definition eval_instruction (limit : Z) (production : ev) : res Z := ewalk limit 1 production.

Fixpoint call_chain (n : nat) : ev := match n with O => VLeaf | S k => VCall (call_chain k) end.
Fixpoint asm_chain (n : nat) : ev := match n with O => VLeaf | S k => VAsm [asm_chain k] end.
(* nesting of calls / asm blocks along the deepest path, in units of recursion_depth *)
Fixpoint ev_cost (e : ev) : Z :=
  match e with
  | VLeaf => 0
  | VSeq l => list_max (map ev_cost l)
  | VCall b => 1 + ev_cost b
  | VAsm ps => 2 + list_max (map ev_cost ps)
  end.
