(* Model of rule-pattern parsing (src/asm/parser/directive_ruledef.rs, src/asm/defs/ruledef.rs), of the instruction
   matcher (src/asm/matcher/mod.rs) with both look-ahead variants, nested rule sets, de-duplication and the exact-part filter,
   and of the prefix index (src/asm/defs/ruledef_map.rs).  Executable definitions only. *)
From Coq Require Import NArith ZArith List Bool.
Import ListNotations.
From CA Require Import Model.Lexer Model.Parser.
Open Scope N_scope.

(* ---------- rules ---------- *)
Inductive part := PWs | PExact (c : N) | PGlued (c : N) | PParam (i : nat).
Inductive pty := TyNone | TyU (n : N) | TyS (n : N) | TyI (n : N) | TyRule (name : text).
Record rule := { rpat : list part; rparams : list (text * pty); rexact : N; rexpr : expr }.
Record ruledef := { rd_sub : bool; rd_name : option text; rd_rules : list rule }.

Definition to_lower (c : N) : N := if in_range c 65 90 then c + 32 else c.
Definition eq_ignore_case (a b : N) : bool := to_lower a =? to_lower b.

Definition is_allowed_pattern_token (k : tkind) : bool :=
  match k with
  | TIdentifier | TNumber | TKeywordAsm | TKeywordTrue | TKeywordFalse | TParenOpen | TParenClose | TBracketOpen | TBracketClose
  | TDot | TComma | TArrowLeft | TArrowRight | THash | TPlus | TMinus | TAsterisk | TSlash | TPercent | TExclamation
  | TAmpersand | TVerticalBar | TCircumflex | TTilde | TAt | TLessThan | TGreaterThan => true
  | _ => false
  end.

Definition is_over (w : walker) : bool := lim w <=? cur w.

Fixpoint all_digits (t : text) : bool := match t with [] => true | c :: r => in_range c 48 57 && all_digits r end.
Fixpoint dec_value (t : text) (acc : N) : N := match t with [] => acc | c :: r => dec_value r (acc * 10 + (c - 48)) end.
(* interpret_typename; usize::from_str_radix accepts a leading '+', rejects empty and overflow *)
Definition interpret_typename (t : text) : pty :=
  match t with
  | c :: r =>
    let digits := match r with 43 :: r' => r' | _ => r end in
    if ((c =? 117) || (c =? 115) || (c =? 105)) && negb (match digits with [] => true | _ => false end) && all_digits digits
       && (dec_value digits 0 <=? 18446744073709551615)
    then (if c =? 117 then TyU (dec_value digits 0) else if c =? 115 then TyS (dec_value digits 0) else TyI (dec_value digits 0))
    else TyRule t
  | [] => TyRule t
  end.

Fixpoint skip_ignorable (fuel : nat) (w : walker) : walker :=
  match fuel with
  | O => w
  | S f => if is_over w then w else
           let '(k, n) := token_here w in
           if is_ignorable k then skip_ignorable f (advance w n) else w
  end.

Fixpoint lower_glued (t : text) : list part := match t with [] => [] | c :: r => PGlued (to_lower c) :: lower_glued r end.
(* the first character of a pattern token is Exact, the following ones must follow immediately (ExactGlued) *)
Definition lower_exacts (t : text) : list part := match t with [] => [] | c :: r => PExact (to_lower c) :: lower_glued r end.
Fixpoint find_param (ps : list (text * pty)) (n : text) : bool := match ps with [] => false | (k, _) :: r => text_eqb k n || find_param r n end.

(* parse_rule: pattern until "=>", then the production; returns the rule and the walker after the production *)
Fixpoint parse_pattern (fuel : nat) (is_sub : bool) (w : walker) (pat : list part) (params : list (text * pty)) : option (walker * list part * list (text * pty) * bool) :=
  match fuel with
  | O => None
  | S f =>
    if is_over w || next_useful_is w THeavyArrowRight then Some (w, rev pat, rev params, false) else
    let '(k, n) := token_here w in
    let txt := take_bytes n (visible w) in
    let w := advance w n in
    if tkind_eqb k TBraceOpen then
      match (match pat with [] => is_sub | _ => false end), maybe_expect w TBraceClose with
      | true, Some (w', _) => Some (w', rev pat, rev params, true)            (* empty specifier {} *)
      | _, _ =>
        match maybe_expect w TIdentifier with
        | None => None
        | Some (w, name) =>
          let '(w, ty) := match maybe_expect w TColon with
                          | Some (w', _) => match maybe_expect w' TIdentifier with
                                            | Some (w'', tn) =>
                                              let ty := interpret_typename tn in
                                              if (match ty with TyU n | TyS n | TyI n => 800000000 <? n | _ => false end) then (None, TyNone)
                                              else (Some w'', ty)
                                            | None => (None, TyNone) end
                          | None => (Some w, TyNone) end in
          match w with
          | None => None
          | Some w =>
            match maybe_expect w TBraceClose with
            | None => None
            | Some (w, _) =>
              if find_param params name then None
              else parse_pattern f is_sub w (PParam (length params) :: pat) ((name, ty) :: params)
            end
          end
        end
      end
    else if is_allowed_pattern_token k then parse_pattern f is_sub w (rev (lower_exacts txt) ++ pat) params
    else if tkind_eqb k TWhitespace then parse_pattern f is_sub w (PWs :: pat) params
    else None
  end.

Definition count_exact (p : list part) : N := fold_left (fun a x => match x with PExact _ | PGlued _ => a + 1 | _ => a end) p 0.

Definition parse_rule (is_sub : bool) (w : walker) : option (rule * walker) :=
  let w := skip_ignorable (fuel_of w) w in
  match parse_pattern (fuel_of w) is_sub w [] [] with
  | None => None
  | Some (w, pat, params, empty_spec) =>
    match maybe_expect w THeavyArrowRight with
    | None => None
    | Some (w, _) =>
      match pat, empty_spec with
      | [], false => None
      | _, _ =>
        match parse_expr (200 * fuel_of w) 0 w with
        | POk e w => Some ({| rpat := pat; rparams := params; rexact := count_exact pat; rexpr := e |}, w)
        | _ => None
        end
      end
    end
  end.

Definition s_ruledef : text := ([114;117;108;101;100;101;102])%N.
Definition s_subruledef : text := ([115;117;98;114;117;108;101;100;101;102])%N.

Fixpoint parse_rules (fuel : nat) (is_sub : bool) (w : walker) (acc : list rule) : option (list rule * walker) :=
  match fuel with
  | O => None
  | S f =>
    if next_useful_is w TBraceClose then Some (rev acc, w) else
    match parse_rule is_sub w with
    | None => None
    | Some (r, w) => match next_linebreak (fuel_of w) w with
                     | Some w => parse_rules f is_sub w (r :: acc)
                     | None => None end
    end
  end.

(* a file consisting only of #ruledef / #subruledef blocks *)
Fixpoint parse_ruledefs (fuel : nat) (w : walker) (acc : list ruledef) : option (list ruledef) :=
  match fuel with
  | O => None
  | S f =>
    let w := skip_ignorable (fuel_of w) w in
    if is_over w then Some (rev acc) else
    match maybe_expect w THash with
    | None => None
    | Some (w, _) =>
      match maybe_expect w TIdentifier with
      | None => None
      | Some (w, kw) =>
        let kwl := map to_lower kw in
        let is_sub := text_eqb kwl s_subruledef in
        if negb (is_sub || text_eqb kwl s_ruledef) then None else
        let '(w, name) := match maybe_expect w TIdentifier with Some (w', n) => (w', Some n) | None => (w, None) end in
        match maybe_expect w TBraceOpen with
        | None => None
        | Some (w, _) =>
          match parse_rules (fuel_of w) is_sub w [] with
          | None => None
          | Some (rules, w) =>
            match maybe_expect w TBraceClose with
            | None => None
            | Some (w, _) =>
              match next_linebreak (fuel_of w) w with
              | None => None
              | Some w => parse_ruledefs f w ({| rd_sub := is_sub; rd_name := name; rd_rules := rules |} :: acc)
              end
            end
          end
        end
      end
    end
  end.

(* ---------- matcher ---------- *)
Inductive imatch := IMatch (rd : nat) (ru : nat) (args : list iarg) (exact : N)
with iarg := AExpr (e : expr) (s t : N) (excerpt : text) | ANested (m : imatch) (s t : N) (excerpt : text).

Definition next_useful_index (w : walker) : walker := fst (next_useful (fuel_of w) w).

(* maybe_expect_char *)
Definition maybe_expect_char (w : walker) (c : N) : option walker :=
  let w' := next_useful_index w in
  match visible w' with
  | ch :: _ => if eq_ignore_case ch c then Some (advance w' (utf8_len ch)) else None
  | [] => None
  end.

(* maybe_expect_char_glued: the very next character, no skipping *)
Definition maybe_expect_char_glued (w : walker) (c : N) : option walker :=
  match visible w with
  | ch :: _ => if eq_ignore_case ch c then Some (advance w (utf8_len ch)) else None
  | [] => None
  end.

Fixpoint find_lookahead_char (p : list part) : option N :=
  match p with
  | PWs :: r => find_lookahead_char r
  | PExact c :: _ => Some c
  | _ => None
  end.

(* find_lookahead_char_index: absolute byte index; comments are skipped as a whole *)
Fixpoint lookahead_index (fuel : nat) (t : text) (idx : N) (wanted : N) (seen : bool) (paren brace : nat) : option N :=
  match fuel with
  | O => None
  | S f =>
  match t with
  | [] => None
  | c :: r =>
    if c =? 59 then                                   (* ';' always starts a comment token *)
      let n := snd (decide_next_token t) in
      lookahead_index f (drop_bytes n t) (idx + n) wanted seen paren brace
    else
    if eq_ignore_case c wanted && seen && Nat.eqb paren 0 && Nat.eqb brace 0 then Some idx
    else
      let seen' := seen || negb (is_whitespace c) in
      let next := idx + utf8_len c in
      if c =? 40 then lookahead_index f r next wanted seen' (S paren) brace
      else if c =? 41 then match paren with O => None | S p => lookahead_index f r next wanted seen' p brace end
      else if c =? 123 then lookahead_index f r next wanted seen' paren (S brace)
      else if c =? 125 then match brace with O => None | S b => lookahead_index f r next wanted seen' paren b end
      else lookahead_index f r next wanted seen' paren brace
  end
  end.

Definition with_limit (w : walker) (l : N) : walker := {| tail := tail w; cur := cur w; lim := l |}.

Fixpoint nth_rule_params (ps : list (text * pty)) (i : nat) : pty := match ps, i with (_, t) :: _, O => t | _ :: r, S k => nth_rule_params r k | [], _ => TyNone end.
Fixpoint find_ruledef (defs : list ruledef) (name : text) (i : nat) : option nat :=
  match defs with
  | [] => None
  | d :: r => match rd_name d with Some n => if text_eqb n name then Some i else find_ruledef r name (S i) | None => find_ruledef r name (S i) end
  end.

Definition excerpt_of (w0 : walker) (s t : N) : text := take_bytes (t - s) (drop_bytes (s - cur w0) (tail w0)).

Record sofar := { sf_rd : nat; sf_ru : nat; sf_args : list iarg }.   (* args in reverse *)

Fixpoint match_with_rule (fuel : nat) (defs : list ruledef) (r : rule) (pat : list part) (w : walker) (needs_all : bool) (sf : sofar)
  {struct fuel} : list (imatch * walker) :=
  match fuel with
  | O => []
  | S f =>
    match pat with
    | [] => if negb (is_over w) && needs_all then [] else [(IMatch (sf_rd sf) (sf_ru sf) (rev (sf_args sf)) 0, w)]
    | PExact c :: rest => match maybe_expect_char w c with Some w' => match_with_rule f defs r rest w' needs_all sf | None => [] end
    | PGlued c :: rest => match maybe_expect_char_glued w c with Some w' => match_with_rule f defs r rest w' needs_all sf | None => [] end
    | PWs :: rest =>
      if negb (is_over w) && negb (tkind_eqb (fst (token_here w)) TWhitespace) && negb (tkind_eqb (fst (token_here w)) TComment) then []
      else match_with_rule f defs r rest w needs_all sf
    | PParam i :: rest =>
      let variant (look : bool) : list (imatch * walker) :=
        (* parse_with_lookahead: optionally restrict the limit *)
        let wl := if look then
                    match find_lookahead_char rest with
                    | Some c => match lookahead_index (S (length (visible w))) (visible w) (cur w) c false 0 0 with
                                | Some l => Some (with_limit w l) | None => None end
                    | None => None end
                  else Some w in
        match wl with
        | None => []
        | Some wl =>
          let start := cur (next_useful_index w) in
          match nth_rule_params (rparams r) i with
          | TyRule name =>
            match find_ruledef defs name 0 with
            | None => []
            | Some nrd =>
              let nested := match_with_ruledef f defs nrd (nth nrd defs {| rd_sub := true; rd_name := None; rd_rules := [] |}) wl false in
              flat_map (fun mw : imatch * walker =>
                          let '(m, w') := mw in
                          let w' := with_limit w' (lim w) in
                          let e := cur w' in let s := N.min start e in
                          match_with_rule f defs r rest w' needs_all
                            {| sf_rd := sf_rd sf; sf_ru := sf_ru sf; sf_args := ANested m s e (excerpt_of w s e) :: sf_args sf |}) nested
            end
          | _ =>
            match parse_expr (200 * fuel_of wl) 0 wl with
            | POk ex w' =>
              let w' := with_limit w' (lim w) in
              let e := cur w' in let s := N.min start e in
              match_with_rule f defs r rest w' needs_all
                {| sf_rd := sf_rd sf; sf_ru := sf_ru sf; sf_args := AExpr ex s e (excerpt_of w s e) :: sf_args sf |}
            | _ => []
            end
          end
        end in
      variant false ++ variant true
    end
  end
with match_with_ruledef (fuel : nat) (defs : list ruledef) (rdi : nat) (rd : ruledef) (w : walker) (needs_all : bool)
  {struct fuel} : list (imatch * walker) :=
  match fuel with
  | O => []
  | S f =>
    (fix go (rules : list rule) (i : nat) : list (imatch * walker) :=
       match rules with
       | [] => []
       | r :: rest => match_with_rule f defs r (rpat r) w needs_all {| sf_rd := rdi; sf_ru := i; sf_args := [] |} ++ go rest (S i)
       end) (rd_rules rd) O
  end.

Fixpoint same_match (a b : imatch) {struct a} : bool :=
  match a, b with
  | IMatch rd1 ru1 args1 _, IMatch rd2 ru2 args2 _ =>
    Nat.eqb rd1 rd2 && Nat.eqb ru1 ru2 && Nat.eqb (length args1) (length args2) &&
    (fix go (x y : list iarg) : bool :=
       match x, y with
       | [], [] => true
       | AExpr _ s1 t1 _ :: x', AExpr _ s2 t2 _ :: y' => (s1 =? s2) && (t1 =? t2) && go x' y'
       | ANested m1 s1 t1 _ :: x', ANested m2 s2 t2 _ :: y' => (s1 =? s2) && (t1 =? t2) && same_match m1 m2 && go x' y'
       | _, _ => false
       end) args1 args2
  end.

Fixpoint exact_count (defs : list ruledef) (m : imatch) : N :=
  match m with
  | IMatch rd ru args _ =>
    let own := match nth_error defs rd with Some d => match nth_error (rd_rules d) ru with Some r => rexact r | None => 0 end | None => 0 end in
    own + (fix go (a : list iarg) : N := match a with [] => 0 | ANested n _ _ _ :: r => exact_count defs n + go r | _ :: r => go r end) args
  end.
Definition set_exact (m : imatch) (n : N) := match m with IMatch a b c _ => IMatch a b c n end.
Definition get_exact (m : imatch) := match m with IMatch _ _ _ n => n end.

(* remove later duplicates, keeping the first occurrence *)
Fixpoint dedupe (seen : list imatch) (ms : list imatch) : list imatch :=
  match ms with
  | [] => []
  | m :: r => if existsb (same_match m) seen then dedupe seen r else m :: dedupe (seen ++ [m]) r
  end.

(* ---------- prefix index (ruledef_map.rs) ---------- *)
Definition MAX_PREFIX : nat := 4.
Fixpoint rule_key (fuel : nat) (p : list part) : text :=
  match fuel, p with
  | S f, PExact c :: r => to_lower c :: rule_key f r
  | S f, PGlued c :: r => to_lower c :: rule_key f r
  | _, _ => []
  end.
(* RuledefMap::parse_prefix: the leading characters read the way the matcher reads Exact parts *)
Fixpoint instr_key (fuel : nat) (w : walker) : text :=
  match fuel with
  | O => []
  | S f =>
    let w := skip_ignorable (fuel_of w) w in
    match visible w with
    | [] => []
    | c :: _ => if c =? 0 then [] else to_lower c :: instr_key f (advance w (utf8_len c))
    end
  end.
Fixpoint firstn_text (n : nat) (t : text) : text := match n, t with S k, c :: r => c :: firstn_text k r | _, _ => [] end.
(* entries of the map in insertion order: (ruledef index, rule index, key) for every rule of every non-sub ruledef *)
Definition map_entries (defs : list ruledef) : list (nat * nat * text) :=
  (fix go (ds : list ruledef) (i : nat) : list (nat * nat * text) :=
     match ds with
     | [] => []
     | d :: r => (if rd_sub d then [] else
                   (fix gr (rs : list rule) (j : nat) : list (nat * nat * text) :=
                      match rs with [] => [] | x :: rest => (i, j, rule_key MAX_PREFIX (rpat x)) :: gr rest (S j) end) (rd_rules d) O) ++ go r (S i)
     end) defs O.
(* query_prefixed: for i = 0..4 the entries whose key equals the first i characters of the instruction key (stop after the key's length) *)
Definition query_prefixed (entries : list (nat * nat * text)) (key : text) : list (nat * nat) :=
  flat_map (fun i => map (fun e => (fst (fst e), snd (fst e))) (filter (fun e => text_eqb (snd e) (firstn_text i key)) entries))
           (seq 0 (S (Nat.min (length key) MAX_PREFIX))).

Definition finish_matches (defs : list ruledef) (working : list (imatch * walker)) : list imatch :=
  let ms := dedupe [] (map fst working) in
  let ms := map (fun m => set_exact m (exact_count defs m)) ms in
  let mx := fold_left (fun a m => N.max a (get_exact m)) ms 0 in
  filter (fun m => get_exact m =? mx) ms.

Definition match_fuel (defs : list ruledef) (src : text) : nat := (4 * (length src + 4) * (length defs + 4))%nat.

Definition match_instr_at (indexed : bool) (defs : list ruledef) (w : walker) : list imatch :=
  let fuel := match_fuel defs (tail w) in
  let working :=
    if indexed then
      flat_map (fun e : nat * nat =>
                  let '(i, j) := e in
                  match nth_error defs i with
                  | Some d => match nth_error (rd_rules d) j with
                              | Some r => match_with_rule fuel defs r (rpat r) w true {| sf_rd := i; sf_ru := j; sf_args := [] |}
                              | None => [] end
                  | None => [] end)
               (query_prefixed (map_entries defs) (instr_key MAX_PREFIX w))
    else
      (fix go (ds : list ruledef) (i : nat) : list (imatch * walker) :=
         match ds with
         | [] => []
         | d :: r => (if rd_sub d then [] else match_with_ruledef fuel defs i d w true) ++ go r (S i)
         end) defs O in
  finish_matches defs working.

Definition match_instr (indexed : bool) (defs : list ruledef) (src : text) : list imatch :=
  match_instr_at indexed defs {| tail := src; cur := 0; lim := bytes_len src |}.

Definition parse_defs (t : text) : option (list ruledef) :=
  parse_ruledefs (S (length t)) {| tail := t; cur := 0; lim := bytes_len t |} [].
