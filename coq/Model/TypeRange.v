(* Model of the typed-argument range check (src/asm/resolver/instruction.rs,
   check_and_constrain_argument), of BigInt::min_size / sign (src/util/bigint.rs)
   and of the data-directive width check (src/asm/resolver/data_block.rs).
   Executable definitions only. *)
From Coq Require Import ZArith List Bool.
Import ListNotations.
Open Scope Z_scope.

(* num-bigint BigInt::bits(): number of bits of the magnitude *)
Definition bits (m : Z) : Z := if m =? 0 then 0 else Z.log2 m + 1.

(* BigInt::min_size *)
Definition min_size (v : Z) : Z :=
  if v =? 0 then 1 else if v <? 0 then bits (- (v + 1)) + 1 else bits v.

Definition sign (v : Z) : Z := if v =? 0 then 0 else if v <? 0 then -1 else 1.

Inductive ty := U (n : Z) | S (n : Z) | I (n : Z).

(* the three failure_check closures *)
Definition fails (t : ty) (v : Z) : bool :=
  match t with
  | U n => (sign v =? -1) || (min_size v >? n)
  | S n => ((sign v =? 0) && (n =? 0)) || ((sign v =? 1) && (min_size v >=? n)) || ((sign v =? -1) && (min_size v >? n))
  | I n => min_size v >? n
  end.
Definition accepts (t : ty) (v : Z) : bool := negb (fails t v).

Definition width (t : ty) : Z := match t with U n | S n | I n => n end.

(* the bits written for a value of size n: bit n-1 first (BitVec::write_bigint) *)
Fixpoint emit_nat (k : nat) (v : Z) : list bool :=
  match k with O => [] | Datatypes.S k' => Z.testbit v (Z.of_nat k') :: emit_nat k' v end.
Definition emit (n : Z) (v : Z) : list bool := emit_nat (Z.to_nat n) v.

Definition unsigned_of_bits (l : list bool) : Z := fold_left (fun a b => 2 * a + Z.b2z b) l 0.
Definition signed_of_bits (l : list bool) : Z :=
  match l with
  | [] => 0
  | b :: _ => unsigned_of_bits l - (if b then 2 ^ Z.of_nat (length l) else 0)
  end.

(* data directive of width n: value v with optional definite size *)
Definition size_or_min_size (v : Z) (sz : option Z) : Z :=
  match sz with Some m => m | None => min_size v end.
Definition data_accepts (n : Z) (v : Z) (sz : option Z) : bool := negb (size_or_min_size v sz >? n).

(* what a one-argument typed instruction `t {x: T} => x` does with value v:
   None = rejected, Some bits = emitted *)
Definition typed_result (t : ty) (v : Z) : option (list bool) :=
  if accepts t v then Some (emit (width t) v) else None.
Definition data_result (n : Z) (v : Z) (sz : option Z) : option (list bool) :=
  if data_accepts n v sz then Some (emit n v) else None.
