(* Standalone model of src/asm/resolver/eval_asm.rs (asm blocks), abstract over the one-line resolver.
   Executable definitions only.

   The block evaluator is written inside a Section whose variables stand for what the rest of the resolver gives:
     match_resolve line pos labels can_guess
         = matcher::match_instr on the substituted line + instruction::resolve_encoding under a context whose position
           is `pos`, whose locals are the hygienised outer locals plus the block's labels, and whose can_guess flag is
           as given:  EOk (Some encoding) / EOk None = no usable encoding (yet) / EErr = an error was reported;
     address_of pos can_guess = ResolverContext::eval_address at position `pos`;
     tsub / outer_locals = the token substitutions and the local names of the evaluation context of the production
           that contains the block (EvalContext::get_token_subst);
     outer_last = ctx.is_last_iteration of the ENCLOSING pass (its can_guess is the negation).
   Positions are usize in the code; `cur_position.checked_add(size)` (since the repair of finding F62) makes the overflow
   an error.  `size.unwrap()` on an unsized encoding is the outcome BPanic (resolve_encoding only returns sized
   encodings).  The labels map (a HashMap<String, Value>) is an association list with unique keys;
   the only iteration over it (`for (name, value) in labels.iter() { set_local }`) is insensitive to order because
   set_local is keyed by name, so the list itself is handed to match_resolve as the locals.
   is_first_iteration is set in the inner context but never read by resolve_encoding (only resolve_instruction reads
   it, which asm blocks do not call); it is kept as an argument for faithfulness. *)
From Coq Require Import NArith ZArith List Bool.
From CA Require Import Model.Lexer Model.Parser Model.BigIntOps Model.Evaluator Model.Matcher Model.Resolver Gen.Generated.
Import ListNotations.
Open Scope Z_scope.

Inductive bres (A : Type) := BOk (a : A) | BErr | BPanic.
Arguments BOk {A}. Arguments BErr {A}. Arguments BPanic {A}.

(* ---------- substitutions: parse_substitutions / perform_substitutions ---------- *)
Record asubst := { s_start : N; s_end : N; s_name : text }.

(* while !walker.is_over() { skip_ignorable; if `{` : expect Identifier, expect `}`, record (start, end, name)
                                              else advance over the next token }
   fuel: every round consumes at least one character unless the walker is over; out of fuel = EErr (never reached
   with fuel = S (length text), not proved) *)
Fixpoint parse_substs (fuel : nat) (w : walker) (acc : list asubst) : eres (list asubst) :=
  match fuel with
  | O => EErr
  | S f =>
    if is_over w then EOk (rev acc) else
    let w1 := skip_ignorable (fuel_of w) w in
    let '(k, n) := token_here w1 in
    if tkind_eqb k TBraceOpen then
      let start := cur w1 in
      match expect (advance w1 n) TIdentifier with
      | POk name w2 =>
        match expect w2 TBraceClose with
        | POk _ w3 => parse_substs f w3 ({| s_start := start; s_end := cur w3; s_name := name |} :: acc)
        | _ => EErr
        end
      | _ => EErr
      end
    else parse_substs f (advance w1 n) acc
  end.

Definition parse_substitutions (src : text) : eres (list asubst) :=
  parse_substs (S (S (length src))) {| tail := src; cur := 0%N; lim := bytes_len src |} [].

(* &excerpt[a..b] (byte offsets) *)
Definition slice_bytes (t : text) (a b : N) : text := take_bytes (b - a) (drop_bytes a t).
Definition tail_from (t : text) (a : N) : text := if (a <? bytes_len t)%N then drop_bytes a t else [].

Definition hyg_prefix : text := ([95; 95])%N.     (* ASM_HYGIENIZE_PREFIX "__" *)
Definition hygienize_name (n : text) : text := hyg_prefix ++ n.

Fixpoint lookup_text (l : list (text * text)) (n : text) : option text :=
  match l with [] => None | (k, v) :: r => if text_eqb k n then Some v else lookup_text r n end.

(* EvalContext::get_token_subst: the token text of a parameter, else the hygienised name of a local *)
Definition get_token_subst (tsub : list (text * text)) (locals_names : list text) (n : text) : option text :=
  match lookup_text tsub n with
  | Some t => Some t
  | None => if existsb (text_eqb n) locals_names then Some (hygienize_name n) else None
  end.

(* ---------- evaluation contexts (src/expr/eval.rs EvalContext): locals, token substitutions, recursion depth ---------- *)
Record ectx := { e_locals : list (text * value); e_tsub : list (text * text); e_depth : Z }.
Definition ctx_new : ectx := {| e_locals := []; e_tsub := []; e_depth := 0 |}.
(* EvalContext::new_deepened: a NEW context (no locals, no token substitutions) one level deeper *)
Definition new_deepened (c : ectx) : ectx := {| e_locals := []; e_tsub := []; e_depth := e_depth c + 1 |}.
Definition ctx_set_local (c : ectx) (n : text) (v : value) : ectx :=
  {| e_locals := (n, v) :: e_locals c; e_tsub := e_tsub c; e_depth := e_depth c |}.
Definition ctx_set_token_subst (c : ectx) (n : text) (t : text) : ectx :=
  {| e_locals := e_locals c; e_tsub := (n, t) :: e_tsub c; e_depth := e_depth c |}.
Definition ctx_token_subst (c : ectx) (n : text) : option text :=
  get_token_subst (e_tsub c) (map fst (e_locals c)) n.
(* resolve_instruction_match_inner: the context of a rule's production = new_deepened (context of its arguments), then
   for every parameter set_local (value) and set_token_subst (argument text) *)
Fixpoint bind_rule_params (c : ectx) (ps : list (text * value * text)) : ectx :=
  match ps with
  | [] => c
  | (n, v, t) :: r => bind_rule_params (ctx_set_token_subst (ctx_set_local c n v) n t) r
  end.
Definition rule_ctx (arg_ctx : ectx) (ps : list (text * value * text)) : ectx := bind_rule_params (new_deepened arg_ctx) ps.
(* eval_fn: the context of a function body = new_deepened (caller's context), then set_local for every parameter *)
Fixpoint bind_fn_params (c : ectx) (ps : list (text * value)) : ectx :=
  match ps with [] => c | (n, v) :: r => bind_fn_params (ctx_set_local c n v) r end.
Definition fn_ctx (caller : ectx) (ps : list (text * value)) : ectx := bind_fn_params (new_deepened caller) ps.

(* perform_substitutions; note `copied_up_to += subst.end - subst.start` (not `= subst.end`) *)
Fixpoint perform_substs (get : text -> option text) (t : text) (substs : list asubst) (copied : N) (acc : text) : eres text :=
  match substs with
  | [] => EOk (acc ++ tail_from t copied)
  | s :: r =>
    let '(acc1, copied1) := if (copied <? s_start s)%N then (acc ++ slice_bytes t copied (s_start s), s_start s) else (acc, copied) in
    match get (s_name s) with
    | None => EErr
    | Some txt => perform_substs get t r (copied1 + (s_end s - s_start s))%N (acc1 ++ txt)
    end
  end.

Definition perform_substitutions (get : text -> option text) (t : text) (substs : list asubst) : eres text :=
  perform_substs get t substs 0%N [].

Definition substitute_line (tsub : list (text * text)) (locals_names : list text) (src : text) : eres text :=
  match parse_substitutions src with
  | EErr => EErr
  | EOk ss => perform_substitutions (get_token_subst tsub locals_names) src ss
  end.

(* ---------- the block ---------- *)
(* what the block's AstTopLevel may contain: symbols (with their kind and hierarchy level), instructions, anything else *)
Inductive rawnode := RSymbol (name : text) (is_label : bool) (level : N) | RInstr (src : text) | ROther.
Inductive anode := ALabel (name : text) | AInstr (src : text).

Definition labels := list (text * value).
Fixpoint set_label (l : labels) (n : text) (v : value) : labels :=
  match l with
  | [] => [(n, v)]
  | (k, x) :: r => if text_eqb k n then (k, v) :: r else (k, x) :: set_label r n v
  end.

(* the pre-scan of eval_asm: only top-level labels and instructions; every label starts Unknown *)
Fixpoint prescan (ns : list rawnode) (ls : labels) (acc : list anode) : eres (list anode * labels) :=
  match ns with
  | [] => EOk (rev acc, ls)
  | RSymbol name is_label level :: r =>
    if negb is_label then EErr
    else if negb (level =? 0)%N then EErr
    else prescan r (set_label ls name VUnknown) (ALabel name :: acc)
  | RInstr src :: r => prescan r ls (AInstr src :: acc)
  | ROther :: r => EErr
  end.

Definition zero_bits : bigint := mk 0 (Some 0%N).
Definition EVAL_DEPTH_MAX : Z := Generated.EVAL_RECURSION_DEPTH_MAX.

Section Block.
Variable match_resolve : text -> Z -> labels -> bool -> eres (option bigint).
Variable address_of : Z -> bool -> eres Z.
Variable substitute : text -> eres text.
Variable outer_last : bool.

(* resolve_once: the walk over the nodes; (value so far, unstable, labels) *)
Fixpoint resolve_nodes (first last : bool) (ns : list anode) (pos : Z) (res : bigint) (unstable : bool) (ls : labels)
  : bres (bigint * bool * labels) :=
  match ns with
  | [] => BOk (res, unstable, ls)
  | ALabel name :: r =>
    match address_of pos true with
    | EErr => BErr
    | EOk a =>
      let nv := VInt (un a) in
      let unstable' := match lookup ls name with
                       | Some prev => if value_eqv prev nv then unstable else true
                       | None => unstable
                       end in
      resolve_nodes first last r pos res unstable' (set_label ls name nv)
    end
  | AInstr src :: r =>
    match substitute src with
    | EErr => BErr
    | EOk line =>
      match match_resolve line pos ls (negb last) with
      | EErr => BErr
      | EOk (Some enc) =>
        match bsz enc, bsz res with
        | Some size, Some rsize =>
          if pos + Z.of_N size >? usize_max then BErr          (* cur_position.checked_add(size): "value is out of supported range" *)
          else resolve_nodes first last r (pos + Z.of_N size) (concat res rsize enc size) unstable ls
        | _, _ => BPanic
        end
      | EOk None => if last then BErr else resolve_nodes first last r pos res true ls
      end
    end
  end.

Definition resolve_once (first last : bool) (ns : list anode) (pos : Z) (ls : labels) :=
  resolve_nodes first last ns pos zero_bits false ls.

(* the while loop of resolve_iteratively: k rounds remain, i have been done *)
Fixpoint rounds (ns : list anode) (pos : Z) (k i max : nat) (ls : labels) : bres labels :=
  match k with
  | O => BOk ls
  | S k' =>
    let i' := S i in
    match resolve_once (Nat.eqb i' 1) (Nat.eqb i' max && outer_last) ns pos ls with
    | BOk (_, unstable, ls') => if unstable then rounds ns pos k' i' max ls' else BOk ls'
    | BErr => BErr
    | BPanic => BPanic
    end
  end.

Definition resolve_iteratively (ns : list anode) (pos : Z) (max : nat) (ls : labels) : bres value :=
  match rounds ns pos max 0 max ls with
  | BErr => BErr
  | BPanic => BPanic
  | BOk ls1 =>
    match resolve_once false outer_last ns pos ls1 with
    | BErr => BErr
    | BPanic => BPanic
    | BOk (v, false, _) => BOk (VInt v)
    | BOk (_, true, _) => if negb outer_last then BOk VUnknown else BErr      (* "`asm` block did not converge" *)
    end
  end.

(* eval_asm: the recursion-depth check, the pre-scan, the loop *)
Definition eval_asm (depth : Z) (raw : list rawnode) (pos : Z) (max : nat) : bres value :=
  if depth >=? EVAL_DEPTH_MAX then BErr
  else match prescan raw [] [] with
       | EErr => BErr
       | EOk (ns, ls) => resolve_iteratively ns pos max ls
       end.

End Block.

(* the evaluation context handed to the lines of the block is hygienize_locals_for_asm_subst = new_deepened: depth + 1 *)
Definition inner_depth (depth : Z) : Z := depth + 1.
