(* Model of the binary-data output formatters of src/util/bitvec_format.rs and of
   BitVec::get_blocks (src/util/bitvec.rs), as they are in the repaired tree
   (F4: `byte_num.saturating_sub(1)`, F34: `line_end` rounds with the full line size).
   Executable definitions only.

   The output bit vector is a `list bool`, index 0 = first output bit; `read_bit` beyond the
   length is `false` (BigInt::bit of a non-negative number).  Text is `list N` of code points
   (every formatter emits ASCII only; format_binary emits bytes).

   Each formatter is   layout (records: index / address, values)   then   render (characters).
   The Rust loops `while index < self.len() { read k bits; index += k; ... }` walk the vector
   sequentially; the model walks the list the same way (`take_val` reads k bits, zero past the end)
   and carries `index` along, so every address / separator decision is computed from `index`
   exactly where the Rust code computes it. *)
From Coq Require Import Ascii String NArith List Bool.
Import ListNotations.
Open Scope N_scope.

Definition text := list N.
Definition bits := list bool.

Definition lit_fn (s : string) : text := map N_of_ascii (list_ascii_of_string s).
(* literals are expanded to explicit code-point lists when the definitions are read (so the extracted
   code does not mention Coq strings) *)
Notation lit s := (ltac:(let v := eval vm_compute in (lit_fn s) in exact v)) (only parsing).

Definition b2n (b : bool) : N := if b then 1 else 0.

(* `for _ in 0..k { v <<= 1; v |= read_bit(index); index += 1 }` *)
Fixpoint take_val (k : nat) (l : bits) (acc : N) : N * bits :=
  match k with
  | O => (acc, l)
  | S k' =>
    match l with
    | [] => take_val k' [] (2 * acc)
    | b :: t => take_val k' t (2 * acc + b2n b)
    end
  end.

(* `while index < len { read k bits }`: list of (index before the read, value).
   `l` is the part of the vector from `index` on, so `index < len` iff `l` is not empty.
   fuel = number of iterations allowed; `length bits` always suffices for k >= 1. *)
Fixpoint chunks_loop (fuel : nat) (k : nat) (index : N) (l : bits) : list (N * N) :=
  match l with
  | [] => []
  | _ :: _ =>
    match fuel with
    | O => []
    | S f =>
      let '(v, rest) := take_val k l 0 in
      (index, v) :: chunks_loop f k (index + N.of_nat k) rest
    end
  end.

Definition chunks (k : nat) (bs : bits) : list (N * N) := chunks_loop (length bs) k 0 bs.

Definition blen (bs : bits) : N := N.of_nat (length bs).

(* ---------------------------------------------------------------- numbers as text *)
Definition digit_char (upper : bool) (d : N) : N :=
  if d <? 10 then 48 + d else (if upper then 65 else 97) + (d - 10).

(* least significant digit first *)
Fixpoint digits_le (fuel : nat) (base n : N) : list N :=
  match fuel with
  | O => []
  | S f => if n <? base then [n] else (n mod base) :: digits_le f base (n / base)
  end.

Definition digits (base n : N) : list N := rev (digits_le (S (N.to_nat (N.size n))) base n).

(* `{}` (base 10), `{:x}` / `{:X}` (base 16) *)
Definition fmt_num (base : N) (upper : bool) (n : N) : text := map (digit_char upper) (digits base n).

(* width padding on the left with character c *)
Definition pad_left (c : N) (w : nat) (t : text) : text := repeat c (w - length t) ++ t.

Definition hex_lower (n : N) : text := fmt_num 16 false n.
Definition hex_upper (n : N) : text := fmt_num 16 true n.
Definition hex02X (n : N) : text := pad_left 48 2 (hex_upper n).     (* {:02X} *)
Definition hex02x (n : N) : text := pad_left 48 2 (hex_lower n).     (* {:02x} *)
Definition dec (n : N) : text := fmt_num 10 false n.                 (* {} *)

(* ---------------------------------------------------------------- binary, binstr, hexstr *)
Definition format_binary (bs : bits) : list N := map snd (chunks 8 bs).

Definition format_str (bits_per_digit : nat) (bs : bits) : text :=
  map (fun c => digit_char false (snd c)) (chunks bits_per_digit bs).
Definition format_binstr := format_str 1.
Definition format_hexstr := format_str 4.

(* ---------------------------------------------------------------- bindump, hexdump *)
(* n digit cells read from l: None = `digit_first_bit >= len` (printed '.') *)
Fixpoint cells (n : nat) (db : nat) (l : bits) : list (option N) * bits :=
  match n with
  | O => ([], l)
  | S n' =>
    match l with
    | [] => let '(cs, r) := cells n' db [] in (None :: cs, r)
    | _ :: _ =>
      let '(v, rest) := take_val db l 0 in
      let '(cs, r) := cells n' db rest in (Some v :: cs, r)
    end
  end.

(* the cells of `nbytes` bytes of `dpb` digits each *)
Fixpoint byte_cells (nbytes : nat) (dpb db : nat) (l : bits) : list (list (option N)) * bits :=
  match nbytes with
  | O => ([], l)
  | S n' =>
    let '(c, rest) := cells dpb db l in
    let '(cs, r) := byte_cells n' dpb db rest in (c :: cs, r)
  end.

(* one line of the dump: address, digit cells per byte, gutter bytes (8-bit cells) *)
Record dump_line := { dl_addr : N; dl_bytes : list (list (option N)); dl_gutter : list (option N) }.

(* `for line_index in line_start..line_end` *)
Fixpoint dump_lines (nlines : nat) (digit_bits byte_bits bytes_per_line : nat) (line_index : N) (l : bits)
  : list dump_line :=
  match nlines with
  | O => []
  | S n' =>
    let '(bc, rest) := byte_cells bytes_per_line (Nat.div byte_bits digit_bits) digit_bits l in
    let '(g, _) := cells bytes_per_line byte_bits l in
    {| dl_addr := line_index * N.of_nat bytes_per_line; dl_bytes := bc; dl_gutter := g |}
      :: dump_lines n' digit_bits byte_bits bytes_per_line (line_index + 1) rest
  end.

Definition dump_line_end (len : N) (byte_bits bytes_per_line : nat) : N :=
  let lb := N.of_nat byte_bits * N.of_nat bytes_per_line in
  let line_end := (len + lb - 1) / lb in
  if len <? N.of_nat byte_bits then 0 + 1 else line_end.

Definition cell_char (c : option N) : N :=
  match c with None => 46 | Some d => digit_char false d end.

Definition gutter_char (c : option N) : N :=
  match c with
  | None => 46
  | Some b =>
    if (b =? 32) || (b =? 9) || (b =? 13) || (b =? 10) then 32
    else if (128 <=? b) || (b <? 32) || (b =? 124) then 46
    else b
  end.

(* the inner `for byte_index in 0..bytes_per_line` of the digit area *)
Fixpoint render_dump_bytes (bytes_per_line : nat) (byte_index : nat) (bc : list (list (option N))) : text :=
  match bc with
  | [] => []
  | c :: r =>
    map cell_char c ++ [32]
    ++ (if (Nat.eqb (Nat.modulo byte_index 4) 3) && (Nat.ltb byte_index (bytes_per_line - 1)) then [32] else [])
    ++ render_dump_bytes bytes_per_line (S byte_index) r
  end.

Definition render_dump_line (addr_w : nat) (byte_bits bytes_per_line : nat) (ln : dump_line) : text :=
  [32] ++ pad_left 48 addr_w (hex_lower (dl_addr ln)) ++ lit " | "
  ++ render_dump_bytes bytes_per_line 0 (dl_bytes ln)
  ++ lit "| "
  ++ (if Nat.eqb byte_bits 8 then map gutter_char (dl_gutter ln) ++ lit " |" else [])
  ++ [10].

Definition format_dump (digit_bits byte_bits bytes_per_line : nat) (bs : bits) : text :=
  let line_end := dump_line_end (blen bs) byte_bits bytes_per_line in
  let addr_w := length (hex_lower ((line_end - 1) * N.of_nat bytes_per_line)) in
  concat (map (render_dump_line addr_w byte_bits bytes_per_line)
              (dump_lines (N.to_nat line_end) digit_bits byte_bits bytes_per_line 0 bs)).

Definition format_bindump := format_dump 1 8 8.
Definition format_hexdump := format_dump 4 8 16.

(* ---------------------------------------------------------------- mif *)
Definition byte_num (bs : bits) : N := blen bs / 8 + (if blen bs mod 8 =? 0 then 0 else 1).

(* byte_num.saturating_sub(1) *)
Definition addr_max_width (bs : bits) : nat := length (hex_lower (byte_num bs - 1)).

Definition mif_header (depth : N) : text :=
  lit "DEPTH = " ++ dec depth ++ [59; 10]
  ++ lit "WIDTH = 8;" ++ [10]
  ++ lit "ADDRESS_RADIX = HEX;" ++ [10]
  ++ lit "DATA_RADIX = HEX;" ++ [10]
  ++ [10]
  ++ lit "CONTENT" ++ [10]
  ++ lit "BEGIN" ++ [10].

Definition render_mif_line (w : nat) (c : N * N) : text :=
  [32] ++ pad_left 32 w (hex_upper (fst c / 8)) ++ lit ": " ++ hex02X (snd c) ++ [59; 10].

Definition format_mif (bs : bits) : text :=
  mif_header (byte_num bs)
  ++ concat (map (render_mif_line (addr_max_width bs)) (chunks 8 bs))
  ++ lit "END;".

(* ---------------------------------------------------------------- get_blocks *)
(* a span: (offset, size); offset None = item outside every bank's output *)
Definition span := (option N * N)%type.

Definition offset_leb (a b : option N) : bool :=     (* Option<usize> ordering: None first *)
  match a, b with
  | None, _ => true
  | Some _, None => false
  | Some x, Some y => x <=? y
  end.

(* stable sort by offset (sort_by is stable) *)
Fixpoint insert_span (s : span) (l : list span) : list span :=
  match l with
  | [] => [s]
  | h :: t => if offset_leb (fst h) (fst s) then h :: insert_span s t else s :: l
  end.
Definition sort_spans (l : list span) : list span := fold_left (fun acc s => insert_span s acc) l [].

Definition push_block (origin size : N) : list (N * N) := if size =? 0 then [] else [(origin, size)].

(* the `for span in &sorted_spans` loop with its two state variables *)
Fixpoint blocks_loop (l : list span) (origin : option N) (size : N) : list (N * N) :=
  match l with
  | [] => match origin with Some o => push_block o size | None => [] end
  | (None, _) :: r => blocks_loop r origin size
  | (Some off, sz) :: r =>
    match origin with
    | Some o =>
      if negb (off =? o + size)
      then push_block o size ++ blocks_loop r (Some off) (0 + sz)
      else blocks_loop r (Some o) (size + sz)
    | None => blocks_loop r (Some off) (0 + sz)
    end
  end.

Definition get_blocks (spans : list span) : list (N * N) := blocks_loop (sort_spans spans) None 0.

(* ---------------------------------------------------------------- intelhex *)
(* a record before rendering: (accum_index = bit index of its first byte, data bytes) *)
Definition flush (accum_index : N) (accum : list N) : list (N * list N) :=
  match accum with [] => [] | _ => [(accum_index, accum)] end.

(* `while read_index < block.offset + block.size`; l = vector from read_index on *)
Fixpoint ihex_block (fuel : nat) (read_index end_ accum_index : N) (accum : list N) (l : bits)
  : list (N * list N) :=
  if read_index <? end_ then
    match fuel with
    | O => []
    | S f =>
      let '(v, rest) := take_val 8 l 0 in
      let accum' := accum ++ [v] in
      let ri := read_index + 8 in
      if Nat.leb 32 (length accum')
      then flush accum_index accum' ++ ihex_block f ri end_ ri [] rest
      else ihex_block f ri end_ accum_index accum' rest
    end
  else flush accum_index accum.

Definition ihex_records (bs : bits) (blocks : list (N * N)) : list (N * list N) :=
  concat (map (fun b : N * N =>
                 let (off, sz) := b in
                 ihex_block (S (N.to_nat sz)) off (off + sz) off [] (skipn (N.to_nat off) bs))
              blocks).

Definition sum_bytes (l : list N) : N := fold_left (fun a b => (a + b) mod 256) l 0.

Definition render_ihex_record (address_unit : N) (r : N * list N) : text :=
  let (accum_index, bytes) := r in
  let length_ := N.of_nat (length bytes) mod 256 in
  let addr_hi := (accum_index / address_unit / 256) mod 256 in
  let addr_lo := (accum_index / address_unit) mod 256 in
  let checksum := sum_bytes (length_ :: addr_hi :: addr_lo :: bytes) in
  [58] ++ hex02X length_ ++ hex02X addr_hi ++ hex02X addr_lo ++ lit "00"
  ++ concat (map hex02X bytes)
  ++ hex02X ((255 - checksum + 1) mod 256)      (* (!checksum).wrapping_add(1) *)
  ++ [10].

Definition format_intelhex_blocks (address_unit : N) (bs : bits) (blocks : list (N * N)) : text :=
  concat (map (render_ihex_record address_unit) (ihex_records bs blocks)) ++ lit ":00000001FF".

Definition format_intelhex (address_unit : N) (bs : bits) (spans : list span) : text :=
  format_intelhex_blocks address_unit bs (get_blocks spans).

(* an output written as one run of data from offset 0 (what `#d` / instructions without gaps give) *)
Definition whole_block (bs : bits) : list (N * N) := push_block 0 (blen bs).

(* ---------------------------------------------------------------- separator and C-array forms *)
Inductive radix := Dec | Hex.      (* the only two values the driver passes (10, 16) *)

Definition render_byte (r : radix) (b : N) : text :=
  match r with Dec => dec b | Hex => lit "0x" ++ hex02x b end.

Definition render_sep_item (r : radix) (sep : text) (len : N) (c : N * N) : text :=
  let index := fst c + 8 in
  render_byte r (snd c)
  ++ (if index <? len then sep ++ (if (index / 8) mod 16 =? 0 then [10] else []) else []).

Definition format_separator (r : radix) (sep : text) (bs : bits) : text :=
  concat (map (render_sep_item r sep (blen bs)) (chunks 8 bs)).

Definition format_deccomma := format_separator Dec (lit ", ").
Definition format_hexcomma := format_separator Hex (lit ", ").
Definition format_decspace := format_separator Dec (lit " ").
Definition format_hexspace := format_separator Hex (lit " ").

Definition c_comment (w : nat) (addr : N) : text :=
  lit "/* 0x" ++ pad_left 48 w (hex_lower addr) ++ lit " */ ".

Definition render_c_item (r : radix) (w : nat) (len : N) (c : N * N) : text :=
  let index := fst c + 8 in
  render_byte r (snd c)
  ++ (if index <? len
      then lit ", " ++ (if (index / 8) mod 16 =? 0 then [10; 9] ++ c_comment w (index / 8) else [])
      else []).

Definition format_c_array (r : radix) (bs : bits) : text :=
  lit "const unsigned char data[] = {" ++ [10]
  ++ [9] ++ c_comment (addr_max_width bs) 0
  ++ concat (map (render_c_item r (addr_max_width bs) (blen bs)) (chunks 8 bs))
  ++ [10] ++ lit "};".

Definition format_decc := format_c_array Dec.
Definition format_hexc := format_c_array Hex.

(* ---------------------------------------------------------------- logisim *)
Definition render_logisim_item (k : nat) (c : N * N) : text :=
  let index := fst c + N.of_nat k in
  pad_left 48 (Nat.div k 4) (hex_lower (snd c)) ++ [32]
  ++ (if (index / 8) mod 16 =? 0 then [10] else []).

Definition format_logisim (bits_per_chunk : nat) (bs : bits) : text :=
  lit "v2.0 raw" ++ [10] ++ concat (map (render_logisim_item bits_per_chunk) (chunks bits_per_chunk bs)).

Definition format_logisim8 := format_logisim 8.
Definition format_logisim16 := format_logisim 16.
