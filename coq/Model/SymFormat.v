(* Model of src/util/symbol_format.rs: SymbolManager::format_default and format_mesen_mlb (as in /repo, i.e.
   after the repair of F22: checked arithmetic, a label whose file offset would be negative is skipped).
   Executable definitions only.

   The symbol table is an abstract tree.  A node carries what the two formatters read:
     index   ItemRef of the declaration (SymbolManager::declare hands them out in declaration order)
     name    the symbol's own name (one component, the key in its parent's `children` map)
     kind    SymbolDecl::kind
     value   Some z when Symbol::value is Value::Integer(z), None for every other Value
     noemit  Symbol::no_emit
     bank    Symbol::bankdef_ref, resolved: (Bankdef::addr_start, Bankdef::output_offset)
     children  the `children` HashMap, in an ARBITRARY order (hash iteration order is a parameter: the list order).
   format_recursive sorts the children of every level by index (`sort_by_key(|c| c.1.0)`, stable), so the
   result does not depend on that order (Proofs/SymFormatP.v). *)
From Coq Require Import Ascii String ZArith NArith List Bool.
From CA Require Import Model.Formats Model.Listing.
Import ListNotations.
Open Scope N_scope.

Inductive skind := KConstant | KLabel | KFunction | KOther.

Record bankinfo := mk_bankinfo { b_addr_start : Z; b_outp : option N }.

Inductive sym :=
  Sym (index : N) (name : list N) (kind : skind) (value : option Z) (noemit : bool) (bank : option bankinfo)
      (children : list sym).

Definition sym_index (s : sym) : N := match s with Sym i _ _ _ _ _ _ => i end.
Definition sym_name (s : sym) : list N := match s with Sym _ n _ _ _ _ _ => n end.
Definition sym_children (s : sym) : list sym := match s with Sym _ _ _ _ _ _ c => c end.
Definition sym_key (s : sym) : option N := Some (sym_index s).

(* sorted_children.sort_by_key(|c| c.1.0) at every level *)
Fixpoint sort_tree (s : sym) : sym :=
  match s with
  | Sym i n k v e b cs => Sym i n k v e b (sort_by sym_key (map sort_tree cs))
  end.
Definition sort_forest (l : list sym) : list sym := sort_by sym_key (map sort_tree l).

(* what the formatter callback receives: the dotted name, the declaration's kind, the integer value, the bank *)
Record entry := mk_entry { e_name : list N; e_kind : skind; e_value : Z; e_bank : option bankinfo }.

(* hierarchy[0] "." hierarchy[1] ... *)
Fixpoint dotted (h : list (list N)) : list N :=
  match h with
  | [] => []
  | [x] => x
  | x :: r => x ++ [46] ++ dotted r
  end.

(* format_recursive over children already in the order of iteration *)
Fixpoint entries_of (hierarchy : list (list N)) (s : sym) : list entry :=
  match s with
  | Sym _ n k v e b cs =>
    let h := hierarchy ++ [n] in
    (if negb e then match v with Some z => [mk_entry (dotted h) k z b] | None => [] end else [])
    ++ concat (map (entries_of h) cs)
  end.

Definition listed_entries (globals : list sym) : list entry :=
  concat (map (entries_of []) (sort_forest globals)).

(* ---------------------------------------------------------------- format_default *)
Definition render_default (e : entry) : list N :=
  e_name e ++ lit " = 0x" ++ hexz (e_value e) ++ [10].

Definition format_default (globals : list sym) : list N :=
  concat (map render_default (listed_entries globals)).

(* ---------------------------------------------------------------- format_mesen_mlb *)
Definition usize_max : Z := 18446744073709551615%Z.
(* bigint.maybe_into::<usize>() *)
Definition to_usize (z : Z) : option Z := if ((0 <=? z) && (z <=? usize_max))%Z then Some z else None.
Definition checked_sub (a b : Z) : option Z := if (b <=? a)%Z then Some (a - b)%Z else None.
Definition checked_add (a b : Z) : option Z := if (a + b <=? usize_max)%Z then Some (a + b)%Z else None.
Definition and_then {A B} (o : option A) (f : A -> option B) : option B :=
  match o with Some x => f x | None => None end.

(* name.replace(".", "_") *)
Definition undot (t : list N) : list N := map (fun c => if c =? 46 then 95 else c) t.

(* the line of one entry: None = nothing printed;  Some (true, n) = "P:" file offset,  Some (false, z) = "R:" value *)
Inductive mesen_line := MPrg (prg_offset : Z) | MReg (value : Z).

Definition mesen_entry (e : entry) : option mesen_line :=
  match e_kind e with
  | KConstant => None
  | _ =>
    match e_bank e with
    | None => None
    | Some b =>
      match b_outp b with
      | Some output_offset =>
        match to_usize (e_value e) with
        | None => None
        | Some addr =>
          match to_usize (b_addr_start b) with
          | None => None
          | Some addr_start =>
            match and_then (and_then (checked_sub addr addr_start)
                                     (fun v => checked_add v (Z.of_N (output_offset / 8))))
                           (fun v => checked_sub v 16) with
            | Some prg_offset => Some (MPrg prg_offset)
            | None => None
            end
          end
        end
      | None => Some (MReg (e_value e))
      end
    end
  end.

Definition render_mesen (e : entry) : list N :=
  match mesen_entry e with
  | None => []
  | Some (MPrg o) => lit "P:" ++ hexz o ++ [58] ++ undot (e_name e) ++ [10]
  | Some (MReg v) => lit "R:" ++ hexz v ++ [58] ++ undot (e_name e) ++ [10]
  end.

Definition format_mesen_mlb (globals : list sym) : list N :=
  concat (map render_mesen (listed_entries globals)).
