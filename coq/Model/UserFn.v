(* Model of user-defined function calls: src/asm/resolver/eval_fn.rs (`eval_fn`, the `Value::Function` arm) together with
   the `Expr::Call` arm of src/expr/eval.rs that reaches it.  Executable definitions only.

   Model/Evaluator.v's `eval` has no function values (a call of anything but a built-in is an error there), so this
   file repeats that evaluator verbatim as `evalx` with ONE more case: a call whose callee is, syntactically, a plain
   name `f` (level 0, one component) that is not a built-in, not a local of the current context, and is defined in the
   function table, evaluates its arguments left to right (Unknown / FailedConstraint propagate at once, exactly as
   for built-ins) and hands the argument VALUES to `call`.  (In the code the name is resolved by the variable provider
   to Value::Function(index); function values that travel through locals or other expressions are not modelled.)
   Proofs/UserFnP.v proves evalx = eval on every expression without such a call.

   eval_fn:  check_recursion_depth_limit (depth >= EVAL_RECURSION_DEPTH_MAX is an error), THEN the lookup, THEN a
   fresh context of depth + 1 (EvalContext::new_deepened: no locals, no token substitutions), THEN ensure_arg_number,
   THEN the parameters bound in order to the argument values, THEN the body evaluated by `evalx` with the same
   variable provider (the caller's ResolverContext is passed on unchanged).
   The recursion is on `remaining` = EVAL_RECURSION_DEPTH_MAX - depth, the code's own counter read downwards:
   remaining = 0 is exactly the depth-limit error, and a nested call runs with remaining - 1, i.e. depth + 1. *)
From Coq Require Import NArith ZArith List Bool.
From CA Require Import Model.Lexer Model.Parser Model.Literal Model.BigIntOps Model.Evaluator Gen.Generated.
Import ListNotations.
Open Scope Z_scope.

Definition fn_table := list (text * (list text * expr)).
Fixpoint find_fn (fns : fn_table) (n : text) : option (list text * expr) :=
  match fns with [] => None | (k, d) :: r => if text_eqb k n then Some d else find_fn r n end.

(* params bound in order; a later parameter of the same name overwrites (HashMap insert) = shadows in the list *)
Fixpoint bind_params (params : list text) (args : list value) (ctx : locals) : locals :=
  match params, args with
  | p :: pr, a :: ar => bind_params pr ar ((p, a) :: ctx)
  | _, _ => ctx
  end.

Section WithOps.
Variable O : ops.
Variable pvar : N -> list text -> eres value.
Variable fns : fn_table.

(* the callee is a user function called by name *)
Definition user_callee (f : expr) (ctx : locals) : option text :=
  match f with
  | EVar 0%N [n] =>
    if is_builtin n then None
    else match lookup ctx n with
         | Some _ => None
         | None => match find_fn fns n with Some _ => Some n | None => None end
         end
  | _ => None
  end.

Section Body.
Variable call : text -> list value -> eres value.
Fixpoint evalx (e : expr) (ctx : locals) {struct e} : eres (value * locals) :=
  let ret v := EOk (v, ctx) in
  match e with
  | ENum v sz => ret (VInt (mk (Z.of_N v) sz))
  | EBool b => ret (VBool b)
  | EStr raw => match string_contents raw with Some s => ret (VStr s 0%N) | None => EErr end
  | EVar level path =>
    match level, path with
    | 0%N, [n] => if is_builtin n then ret (VBuiltin n) else match lookup ctx n with Some v => ret v | None => match pvar level path with EOk v => ret v | EErr => EErr end end
    | _, _ => match pvar level path with EOk v => ret v | EErr => EErr end
    end
  | EUn o a =>
    match evalx a ctx with
    | EErr => EErr
    | EOk (v, ctx) =>
      if should_propagate v then EOk (v, ctx) else
      match v, o with
      | VInt b, Neg => EOk (VInt (un (- bv b)), ctx)
      | VInt b, Not => EOk (VInt (un (op_not O (bv b))), ctx)
      | VBool b, Not => EOk (VBool (negb b), ctx)
      | _, _ => EErr
      end
    end
  | EBin Assign l r =>
    match l with
    | EVar 0%N [n] =>
      match evalx r ctx with
      | EErr => EErr
      | EOk (v, ctx) => if should_propagate v then EOk (v, ctx) else EOk (VVoid, (n, v) :: ctx)
      end
    | _ => EErr
    end
  | EBin LazyOr l r | EBin LazyAnd l r =>
    let is_or := match e with EBin LazyOr _ _ => true | _ => false end in
    match evalx l ctx with
    | EErr => EErr
    | EOk (v, ctx) =>
      if should_propagate v then EOk (v, ctx) else
      match v with
      | VBool b =>
        if Bool.eqb b is_or then EOk (v, ctx) else
        match evalx r ctx with
        | EErr => EErr
        | EOk (v2, ctx) => if should_propagate v2 then EOk (v2, ctx) else match v2 with VBool _ => EOk (v2, ctx) | _ => EErr end
        end
      | _ => EErr
      end
    end
  | EBin o l r =>
    match evalx l ctx with
    | EErr => EErr
    | EOk (a, ctx) =>
      if should_propagate a then EOk (a, ctx) else
      match evalx r ctx with
      | EErr => EErr
      | EOk (b, ctx) =>
        if should_propagate b then EOk (b, ctx) else
        match a, b with
        | VBool x, VBool y =>
          match o with
          | And => EOk (VBool (x && y), ctx) | Or => EOk (VBool (x || y), ctx) | Xor => EOk (VBool (xorb x y), ctx)
          | Eq => EOk (VBool (Bool.eqb x y), ctx) | Ne => EOk (VBool (negb (Bool.eqb x y)), ctx)
          | _ => EErr
          end
        | _, _ =>
          match get_bigint a, get_bigint b with
          | Some x, Some y => match int_binop O o x y with EOk v => EOk (v, ctx) | EErr => EErr end
          | _, _ => EErr
          end
        end
      end
    end
  | ETern c t f =>
    match evalx c ctx with
    | EErr => EErr
    | EOk (v, ctx) =>
      if should_propagate v then EOk (v, ctx) else
      match v with
      | VBool true => evalx t ctx
      | VBool false => evalx f ctx
      | _ => EErr
      end
    end
  | ESlice l r a =>
    match evalx a ctx with
    | EErr => EErr
    | EOk (v, ctx) =>
      if should_propagate v then EOk (v, ctx) else
      match get_bigint v with
      | None => EErr
      | Some x =>
        match evalx l ctx with
        | EErr => EErr
        | EOk (lv, ctx) => if should_propagate lv then EOk (lv, ctx) else
          match evalx r ctx with
          | EErr => EErr
          | EOk (rv, ctx) => if should_propagate rv then EOk (rv, ctx) else
            match expect_usize lv, expect_usize rv with
            | EOk lz, EOk rz => if lz + 1 >? usize_max then EErr else
                                match checked_slice O x (lz + 1) rz with EOk b => EOk (VInt b, ctx) | EErr => EErr end
            | _, _ => EErr
            end
          end
        end
      end
    end
  | EShort s a =>
    match evalx a ctx with
    | EErr => EErr
    | EOk (v, ctx) =>
      if should_propagate v then EOk (v, ctx) else
      match get_bigint v with
      | None => EErr
      | Some x =>
        match evalx s ctx with
        | EErr => EErr
        | EOk (sv, ctx) => if should_propagate sv then EOk (sv, ctx) else
          match expect_usize sv with
          | EOk sz => match checked_slice O x sz 0 with EOk b => EOk (VInt b, ctx) | EErr => EErr end
          | EErr => EErr
          end
        end
      end
    end
  | EBlock es =>
    (fix go (es : list expr) (last : value) (ctx : locals) : eres (value * locals) :=
       match es with
       | [] => EOk (last, ctx)
       | x :: r => match evalx x ctx with
                   | EErr => EErr
                   | EOk (v, ctx) => if should_propagate v then EOk (v, ctx) else go r v ctx
                   end
       end) es VVoid ctx
  | ECall f args =>
    match user_callee f ctx with
    | Some n =>
      (fix go (args : list expr) (acc : list value) (ctx : locals) : eres (value * locals) :=
         match args with
         | [] => match call n (rev acc) with EOk v => EOk (v, ctx) | EErr => EErr end
         | x :: r => match evalx x ctx with
                     | EErr => EErr
                     | EOk (v, ctx) => if should_propagate v then EOk (v, ctx) else go r (v :: acc) ctx
                     end
         end) args [] ctx
    | None =>
    match evalx f ctx with
    | EErr => EErr
    | EOk (fv, ctx) =>
      if should_propagate fv then EOk (fv, ctx) else
      (fix go (args : list expr) (acc : list value) (ctx : locals) : eres (value * locals) :=
         match args with
         | [] => match fv with
                 | VBuiltin n => match eval_builtin O n (rev acc) with EOk v => EOk (v, ctx) | EErr => EErr end
                 | _ => EErr
                 end
         | x :: r => match evalx x ctx with
                     | EErr => EErr
                     | EOk (v, ctx) => if should_propagate v then EOk (v, ctx) else go r (v :: acc) ctx
                     end
         end) args [] ctx
    end
    end
  end.
End Body.

(* eval_fn with `remaining` depth levels left *)
Fixpoint eval_fn (remaining : nat) (name : text) (args : list value) {struct remaining} : eres value :=
  match remaining with
  | Datatypes.O => EErr                                   (* "recursion depth limit reached" *)
  | S rem =>
    match find_fn fns name with
    | None => EErr
    | Some (params, body) =>
      if Nat.eqb (length args) (length params) then
        match evalx (eval_fn rem) body (bind_params params args []) with
        | EOk (v, _) => EOk v
        | EErr => EErr
        end
      else EErr                                           (* "function expected N arguments" *)
    end
  end.

Definition EVAL_DEPTH_LIMIT : Z := Generated.EVAL_RECURSION_DEPTH_MAX.
Definition remaining_of (depth : Z) : nat := Z.to_nat (EVAL_DEPTH_LIMIT - depth).

(* a call met while evaluating at recursion depth `depth` *)
Definition eval_fn_at (depth : Z) (name : text) (args : list value) : eres value :=
  eval_fn (remaining_of depth) name args.

(* an expression evaluated in a context of recursion depth `depth` (0 for data and constants, 1 for a rule production) *)
Definition eval_at (depth : Z) (e : expr) (ctx : locals) : eres (value * locals) :=
  evalx (eval_fn_at depth) e ctx.

End WithOps.
