(* Model of src/asm/parser/fields.rs (`parse`, `extract_optional`, `report_remaining`) and of the only directive parser
   built on it, src/asm/parser/directive_bankdef.rs, WITH THE SPAN OF THE FIRST ERROR the code reports.
   Executable definitions only.

   Model/AsmParser.v already has these parsers with errors collapsed to PErr (parse_fields, parse_bankdef); the functions
   here are the same algorithms on a result type that keeps where the first `report.error_span` points:
     FErr sp      the first message is located at sp: `expect(..)` failures at the cursor span (cursor, cursor) - the
                  cursor does not move when an expectation fails -, "duplicate field" at the NAME token of the second
                  occurrence, "invalid field" (report_remaining walks the remaining fields in source order) at the NAME
                  token of the first unknown field;
     FErrExpr c   the value expression that starts at byte c was refused by src/expr/parser.rs; the location inside
                  the expression is not modelled (the expression parser of AsmParser.v has no error spans);
   Proofs/AsmFieldsP.v proves that forgetting the spans gives exactly parse_fields / parse_bankdef / parse_file.
   `ffields dup` has the duplicate check as a switch: `ffields false` is the block "as written" (every field in source
   order), the reference the localisation theorems are stated against.
   `fparse_file` is asm::parser::parse with located errors for top-level `#bankdef` lines; any other failing line gives
   FErrExpr (start of the line's walker). *)
From Coq Require Import NArith List Bool.
Import ListNotations.
From CA Require Import Model.Lexer Model.Parser Model.Literal Model.Matcher Model.AsmAst Model.AsmParser.
Open Scope N_scope.

Inductive fres (A : Type) := FOk (a : A) (w : walker) | FErr (sp : span) | FErrExpr (c : N) | FFuel.
Arguments FOk {A}. Arguments FErr {A}. Arguments FErrExpr {A}. Arguments FFuel {A}.

Definition fbind {A B} (m : fres A) (k : A -> walker -> fres B) : fres B :=
  match m with FOk a w => k a w | FErr sp => FErr sp | FErrExpr c => FErrExpr c | FFuel => FFuel end.
Notation "'fdo' ( x , w ) <- m ; k" := (fbind m (fun x w => k)) (at level 200, x name, w name, m at level 100, k at level 200).

(* forgetting the error location *)
Definition erase {A} (r : fres A) : pres A :=
  match r with FOk a w => POk a w | FErr _ => PErr | FErrExpr _ => PErr | FFuel => PFuel end.

Definition cursor_span (w : walker) : span := (cur w, cur w).                       (* Walker::get_cursor_span *)

(* Walker::expect: the error is reported at the cursor, which has not moved *)
Definition fexpect_sp (w : walker) (k : tkind) : fres (span * text) :=
  match xmaybe_expect_sp w k with Some (w', sp, t) => FOk (sp, t) w' | None => FErr (cursor_span w) end.
Definition fexpect (w : walker) (k : tkind) : fres text :=
  match xmaybe_expect w k with Some (w', t) => FOk t w' | None => FErr (cursor_span w) end.
Definition fexpect_linebreak (w : walker) : fres unit :=
  match xnext_linebreak w with Some w' => FOk tt w' | None => FErr (cursor_span w) end.

(* expr::parse: located only as "somewhere in the expression that starts here" *)
Definition fpexpr (hook : nat -> walker -> pres (span * list anode)) (f ed : nat) (w : walker) : fres xexpr :=
  match pexpr hook f ed w with POk e w' => FOk e w' | PErr => FErrExpr (cur w) | PFuel => FFuel end.

Definition has_field (name : text) (acc : list afield) : bool := existsb (fun fl : afield => text_eqb (fst (fst fl)) name) acc.

(* fields.rs: parse.  A field is (name, span of the NAME token, optional value) *)
Fixpoint ffields (dup : bool) (hook : nat -> walker -> pres (span * list anode)) (f ed : nat) (fuel : nat) (w : walker) (acc : list afield)
  : fres (list afield) :=
  match fuel with
  | O => FFuel
  | S g =>
    if xnext_useful_is w TBraceClose then FOk (rev acc) w else
    let '(w, hash) := match xmaybe_expect w THash with Some (w', _) => (w', true) | None => (w, false) end in
    fdo (nm, w) <- fexpect_sp w TIdentifier;
    if dup && has_field (snd nm) acc then FErr (fst nm) else                     (* "duplicate field": tk_name.span *)
    let cont (oe : option xexpr) (w : walker) : fres (list afield) :=
      let acc' := (snd nm, fst nm, oe) :: acc in
      match xmaybe_expect w TComma with
      | Some (w, _) => ffields dup hook f ed g w acc'
      | None => match xnext_linebreak w with
                | Some w => ffields dup hook f ed g w acc'
                | None => FOk (rev acc') w
                end
      end in
    if hash && negb (xat_linebreak w) then fdo (e, w) <- fpexpr hook f ed w; cont (Some e) w
    else match xmaybe_expect w TEqual with
         | Some (w, _) => fdo (e, w) <- fpexpr hook f ed w; cont (Some e) w
         | None => cont None w
         end
  end.

(* the fields a #bankdef understands, in the order directive_bankdef.rs extracts them *)
Definition bankdef_names : list text := [nm_bits; nm_labelalign; nm_addr; nm_addr_end; nm_size; nm_outp; nm_fill].
Definition known_field (x : afield) : bool := existsb (text_eqb (fst (fst x))) bankdef_names.

(* directive_bankdef.rs, after the header `#bankdef` *)
Definition fbankdef (hook : nat -> walker -> pres (span * list anode)) (f ed : nat) (header : span) (w : walker) : fres anode :=
  fdo (nm, w) <- fexpect_sp w TIdentifier;
  fdo (_b, w) <- fexpect w TBraceOpen;
  fdo (fl, w) <- ffields true hook f ed f w [];
  let '(o_bits, fl) := extract_field nm_bits fl in
  let '(o_la, fl) := extract_field nm_labelalign fl in
  let '(o_addr, fl) := extract_field nm_addr fl in
  let '(o_end, fl) := extract_field nm_addr_end fl in
  let '(o_size, fl) := extract_field nm_size fl in
  let '(o_outp, fl) := extract_field nm_outp fl in
  let '(o_fill, fl) := extract_field nm_fill fl in
  match fl with
  | bad :: _ => FErr (snd (fst bad))                                             (* report_remaining: "invalid field", field.span *)
  | [] =>
    fdo (_c, w) <- fexpect w TBraceClose;
    fdo (_u, w) <- fexpect_linebreak w;
    FOk (NBankdef header (fst nm) (snd nm)
           {| bf_bits := field_expr o_bits; bf_labelalign := field_expr o_la; bf_addr := field_expr o_addr;
              bf_addr_end := field_expr o_end; bf_size := field_expr o_size; bf_outp := field_expr o_outp;
              bf_fill := field_present o_fill |}) w
  end.

(* asm::parser::parse with located errors for top-level #bankdef lines *)
Fixpoint fparse_lines (fuel : nat) (w : walker) (acc : list anode) : fres (list anode) :=
  match fuel with
  | O => FFuel
  | S f =>
    if xover w then FOk (rev acc) w else
    match f with
    | O => FFuel
    | S f' =>
      let generic :=
        match parse_line_d f 0 0 w with
        | POk on w' => fparse_lines f w' (match on with Some n => n :: acc | None => acc end)
        | PErr => FErrExpr (cur w)
        | PFuel => FFuel
        end in
      if xnext_useful_is w THash then
        match xexpect_sp w THash with
        | POk h w1 =>
          match xexpect_sp w1 TIdentifier with
          | POk nm w2 =>
            match classify (map to_lower (snd nm)) with
            | DBankdef =>
              fdo (n, w3) <- fbankdef (asm_hook f' 0) f' 0 (join_s (fst h) (fst nm)) w2;
              fparse_lines f w3 (n :: acc)
            | _ => generic
            end
          | _ => generic
          end
        | _ => generic
        end
      else generic
    end
  end.

Definition fparse_file (t : text) : fres (list anode) := fparse_lines (file_fuel t) (start_walker t) [].

(* ---------- the block "as written": first faulty field in source order ---------- *)
(* the first field whose name already occurred (in `seen` or earlier in the list) *)
Fixpoint first_dup (seen : list afield) (l : list afield) : option afield :=
  match l with
  | [] => None
  | x :: r => if has_field (fst (fst x)) seen then Some x else first_dup (x :: seen) r
  end.
Fixpoint first_unknown (l : list afield) : option afield :=
  match l with
  | [] => None
  | x :: r => if known_field x then first_unknown r else Some x
  end.

(* the text a span covers *)
Definition excerpt (t : text) (sp : span) : text := take_bytes (snd sp - fst sp) (drop_bytes (fst sp) t).
