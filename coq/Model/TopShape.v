(* C03 — the control-flow SHAPE of asm::assemble (src/asm/mod.rs) and of the glue of driver::assemble_with_command /
   drive / main (src/driver.rs, src/main.rs) that Model/Driver.v leaves to an oracle.  Executable definitions only.

   What is modelled is WHERE things happen, not WHAT the phases compute:
     - the report is a writer: the list of the kinds of its top-level messages (diagn::Report has no operation that
       removes a message: table obligation report_message_ops);
     - `assemble` is a list of calls (pre-loop, loop body, post-loop); each call names a phase, says whether its result is
       followed by `?`, which field of AssemblyResult its value is stored in, and which fields it unwraps;
     - a phase is an ABSTRACT function  state -> report -> (Some state' | None = Err(())) * messages it pushed,
       constrained in the theorems only by the per-phase obligations listed in `phase_obligations` below;
     - `report.stop_at_errors()?` is the one phase with a fixed meaning;
     - the closing `match run() { Ok => {}, Err => { assembly.error = true; assert!(report.has_errors()) } }`.
   The interpreter works for ANY shape, so that the pinned shape (output stored before the unused-define check, no
   stop_at_errors after resolution) can be run and refuted, and so that the shape regenerated from the source on every
   run (Gen/GeneratedC03.v) is what the theorems speak about. *)
From Coq Require Import NArith List Bool String.
From CA Require Import Model.Driver.
Import ListNotations.
Open Scope list_scope.

(* ------------------------------------------------------------------ the report as a writer *)
(* A top-level message is what Report::message stores: the diagnostic wrapped in the parents that were open when it was
   reported, so its KIND is the kind of the OUTERMOST parent.  Parents are pushed as Error (push_parent) or as Note
   (push_parent_note / push_parent_short_note); an error reported while the outermost parent is a Note is therefore stored
   as a top-level NOTE carrying the error inside (src/asm/resolver/eval_asm.rs: `match attempted: ...` around an asm block
   that substitutes a local and is evaluated outside any instruction / data / function context). *)
Inductive mkind := KError | KWarning | KNote | KNoteWithError.
Definition report := list mkind.                       (* the top-level messages, in the order reported *)
Definition is_top_error (k : mkind) : bool := match k with KError => true | _ => false end.
Definition carries_error (k : mkind) : bool := match k with KError | KNoteWithError => true | _ => false end.
(* Report::stop_at_errors looks at the kind of the top-level messages only *)
Definition has_top_error (r : report) : bool := existsb is_top_error r.
(* what the reader of the printed report sees: an `error:` line at some depth *)
Definition has_error (r : report) : bool := existsb carries_error r.
(* every message that carries an error IS a top-level Error: then stop_at_errors sees all of them *)
Definition well_topped (r : report) : bool := forallb (fun k => implb (carries_error k) (is_top_error k)) r.
Definition nonempty (r : report) : bool := match r with [] => false | _ => true end.   (* Report::has_errors: len != 0 *)

(* ------------------------------------------------------------------ the calls of `assemble` *)
Inductive pkind :=
| PParse            (* parser::parse_many_and_resolve_includes *)
| PDeclsInit        (* decls::init *)
| PDefsInit         (* defs::init  (infallible) *)
| PCollect          (* decls::collect *)
| PDefineSymbols    (* defs::define_symbols *)
| PConstSimple      (* resolver::resolve_constants_simple *)
| PResolveIfs       (* resolver::resolve_ifs *)
| PLeftoverIfs      (* resolver::check_leftover_ifs *)
| PDefineRemaining  (* defs::define_remaining *)
| PMatchAll         (* matcher::match_all *)
| PResolveIter      (* resolver::resolve_iteratively *)
| PStopAtErrors     (* report.stop_at_errors() *)
| PBankOverlap      (* output::check_bank_overlap *)
| PUnusedDefines    (* check_unused_defines *)
| PBuildOutput.     (* output::build_output *)

Inductive field := FAst | FDecls | FDefs | FIter | FOutput.

Record call := { c_phase : pkind; c_try : bool; c_assign : option field; c_uses : list field }.

Record shape := {
  sh_pre : list call;            (* before `loop` *)
  sh_loop : list call;           (* body of `loop { .. if <nothing changed> { break } }` *)
  sh_post : list call;           (* after the loop, up to `Ok(())` *)
  sh_err_sets_flag : bool;       (* Err arm: assembly.error = true *)
  sh_err_asserts : bool          (* Err arm: assert!(report.has_errors()) *)
}.

Definition pkind_eqb (a b : pkind) : bool :=
  match a, b with
  | PParse, PParse | PDeclsInit, PDeclsInit | PDefsInit, PDefsInit | PCollect, PCollect | PDefineSymbols, PDefineSymbols
  | PConstSimple, PConstSimple | PResolveIfs, PResolveIfs | PLeftoverIfs, PLeftoverIfs | PDefineRemaining, PDefineRemaining
  | PMatchAll, PMatchAll | PResolveIter, PResolveIter | PStopAtErrors, PStopAtErrors | PBankOverlap, PBankOverlap
  | PUnusedDefines, PUnusedDefines | PBuildOutput, PBuildOutput => true
  | _, _ => false
  end.

Definition field_eqb (a b : field) : bool :=
  match a, b with
  | FAst, FAst | FDecls, FDecls | FDefs, FDefs | FIter, FIter | FOutput, FOutput => true
  | _, _ => false
  end.

(* phases whose value is not a Result: nothing to propagate *)
Definition infallible (k : pkind) : bool := match k with PDefsInit => true | _ => false end.

(* phases that run between the last stop_at_errors and the assignment of `output`: each must be QUIET ON OK
   (returning Ok it has pushed no error) — obligations Q1..Q3 of phase_obligations *)
Definition quiet_kind (k : pkind) : bool :=
  match k with PBankOverlap | PUnusedDefines | PBuildOutput => true | _ => false end.

(* ------------------------------------------------------------------ AssemblyResult: which fields are Some *)
Record aresult := { r_ast : bool; r_decls : bool; r_defs : bool; r_iter : bool; r_output : bool; r_error : bool }.
Definition empty_result : aresult :=
  {| r_ast := false; r_decls := false; r_defs := false; r_iter := false; r_output := false; r_error := false |}.

Definition get (a : aresult) (f : field) : bool :=
  match f with FAst => r_ast a | FDecls => r_decls a | FDefs => r_defs a | FIter => r_iter a | FOutput => r_output a end.

Definition set (a : aresult) (f : field) : aresult :=
  match f with
  | FAst => {| r_ast := true; r_decls := r_decls a; r_defs := r_defs a; r_iter := r_iter a; r_output := r_output a; r_error := r_error a |}
  | FDecls => {| r_ast := r_ast a; r_decls := true; r_defs := r_defs a; r_iter := r_iter a; r_output := r_output a; r_error := r_error a |}
  | FDefs => {| r_ast := r_ast a; r_decls := r_decls a; r_defs := true; r_iter := r_iter a; r_output := r_output a; r_error := r_error a |}
  | FIter => {| r_ast := r_ast a; r_decls := r_decls a; r_defs := r_defs a; r_iter := true; r_output := r_output a; r_error := r_error a |}
  | FOutput => {| r_ast := r_ast a; r_decls := r_decls a; r_defs := r_defs a; r_iter := r_iter a; r_output := true; r_error := r_error a |}
  end.

Definition assign (a : aresult) (f : option field) : aresult := match f with Some f => set a f | None => a end.
Definition set_error (a : aresult) : aresult :=
  {| r_ast := r_ast a; r_decls := r_decls a; r_defs := r_defs a; r_iter := r_iter a; r_output := r_output a; r_error := true |}.

(* ------------------------------------------------------------------ the interpreter *)
Section Interp.
Variable St : Type.                                             (* ast / decls / defs contents: abstract *)
Variable sem : pkind -> St -> report -> option St * report.     (* None = Err(()); second component = messages PUSHED *)
Variable loop_done : St -> bool.                                (* the `break` condition of the first loop *)

Definition step_sem (k : pkind) (s : St) (r : report) : option St * report :=
  match k with
  | PStopAtErrors => (if has_top_error r then None else Some s, [])
  | _ => sem k s r
  end.

Inductive flow :=
| FNext (s : St) (a : aresult) (r : report)       (* go on *)
| FErr (a : aresult) (r : report)                (* `?` returned Err(()) out of the closure *)
| FPanic (a : aresult) (r : report)              (* `.unwrap()` of a field that is still None *)
| FDiverge.                                      (* the loop did not end within the fuel *)

Definition do_call (c : call) (s : St) (a : aresult) (r : report) : flow :=
  if negb (forallb (get a) (c_uses c)) then FPanic a r
  else
    let (o, pushed) := step_sem (c_phase c) s r in
    let r' := r ++ pushed in
    match o with
    | Some s' => FNext s' (assign a (c_assign c)) r'
    | None => if c_try c then FErr a r'               (* the `?` leaves before the value is stored *)
              else FNext s a r'                       (* result dropped: the run goes on *)
    end.

Fixpoint run_calls (cs : list call) (s : St) (a : aresult) (r : report) : flow :=
  match cs with
  | [] => FNext s a r
  | c :: rest =>
    match do_call c s a r with
    | FNext s' a' r' => run_calls rest s' a' r'
    | f => f
    end
  end.

Fixpoint run_loop (fuel : nat) (body : list call) (s : St) (a : aresult) (r : report) : flow :=
  match fuel with
  | O => FDiverge
  | S n =>
    match run_calls body s a r with
    | FNext s' a' r' => if loop_done s' then FNext s' a' r' else run_loop n body s' a' r'
    | f => f
    end
  end.

Definition run_closure (sh : shape) (fuel : nat) (s0 : St) (r0 : report) : flow :=
  match run_calls (sh_pre sh) s0 empty_result r0 with
  | FNext s a r =>
    match run_loop fuel (sh_loop sh) s a r with
    | FNext s' a' r' => run_calls (sh_post sh) s' a' r'
    | f => f
    end
  | f => f
  end.

Inductive aout :=
| AReturn (a : aresult) (r : report)
| APanicUnwrap                 (* a field unwrapped before it was assigned *)
| APanicAssert                 (* assert!(report.has_errors()) failed *)
| ADiverge.

Definition assemble (sh : shape) (fuel : nat) (s0 : St) (r0 : report) : aout :=
  match run_closure sh fuel s0 r0 with
  | FNext _ a r => AReturn a r
  | FErr a r =>
    if sh_err_asserts sh && negb (nonempty r) then APanicAssert
    else AReturn (if sh_err_sets_flag sh then set_error a else a) r
  | FPanic _ _ => APanicUnwrap
  | FDiverge => ADiverge
  end.
End Interp.
Arguments FNext {St}. Arguments FErr {St}. Arguments FPanic {St}. Arguments FDiverge {St}.

(* ------------------------------------------------------------------ what a shape must satisfy (checked by computation) *)
Definition all_calls (sh : shape) : list call := sh_pre sh ++ sh_loop sh ++ sh_post sh.

Definition try_ok (c : call) : bool := c_try c || infallible (c_phase c).

Definition assigns (f : field) (c : call) : bool :=
  match c_assign c with Some g => field_eqb f g | None => false end.

Definition is_stop (c : call) : bool := pkind_eqb (c_phase c) PStopAtErrors && c_try c.

(* split a list at its LAST stop_at_errors()? *)
Fixpoint split_last_stop (cs : list call) : option (list call * list call) :=
  match cs with
  | [] => None
  | c :: rest =>
    match split_last_stop rest with
    | Some (a, b) => Some (c :: a, b)
    | None => if is_stop c then Some ([], rest) else None
    end
  end.

Definition quiet_call (c : call) : bool := quiet_kind (c_phase c) && c_try c.

(* every use of a field comes after a call that assigned it (assignments happen on success only, and with every
   fallible call followed by `?` the run only continues on success) *)
Definition mem (f : field) (have : list field) : bool := existsb (field_eqb f) have.

Fixpoint uses_ok_from (have : list field) (cs : list call) : bool * list field :=
  match cs with
  | [] => (true, have)
  | c :: rest =>
    let r := uses_ok_from (match c_assign c with Some f => f :: have | None => have end) rest in
    (forallb (fun f => mem f have) (c_uses c) && fst r, snd r)
  end.
Definition uses_ok (have : list field) (cs : list call) : bool := fst (uses_ok_from have cs).
Definition have_after (have : list field) (cs : list call) : list field := snd (uses_ok_from have cs).

Definition is_nil {A} (l : list A) : bool := match l with [] => true | _ => false end.

(* every fallible call is followed by `?` *)
Definition sok_try (sh : shape) : bool := forallb try_ok (all_calls sh).
(* `output` is assigned by the last call before Ok(()) and by no other *)
Definition sok_output_last (sh : shape) : bool :=
  negb (existsb (assigns FOutput) (sh_pre sh ++ sh_loop sh))
  && match rev (sh_post sh) with
     | [] => false
     | last :: front => assigns FOutput last && negb (existsb (assigns FOutput) front)
     end.
(* there is a report.stop_at_errors()? after the loop, and everything after the LAST one is quiet on Ok *)
Definition sok_stop (sh : shape) : bool :=
  match split_last_stop (sh_post sh) with
  | None => false
  | Some (_, after) => forallb quiet_call after && negb (is_nil after)
  end.
(* fields are unwrapped only after they were assigned; decls, defs, iterations_taken are assigned when Ok(()) is reached *)
Definition sok_uses (sh : shape) : bool :=
  let h1 := have_after [] (sh_pre sh) in
  let h2 := have_after h1 (sh_loop sh) in
  let h3 := have_after h2 (sh_post sh) in
  uses_ok [] (sh_pre sh) && uses_ok h1 (sh_loop sh) && uses_ok h2 (sh_post sh)
  && forallb (fun f => mem f h3) [FDecls; FDefs; FIter].

Definition shape_ok (sh : shape) : bool :=
  sok_try sh && sok_output_last sh && sok_stop sh && sok_uses sh && sh_err_sets_flag sh.

(* ------------------------------------------------------------------ the shape of src/asm/mod.rs as repaired *)
Definition mk (k : pkind) (t : bool) (a : option field) (u : list field) : call :=
  {| c_phase := k; c_try := t; c_assign := a; c_uses := u |}.

Definition modelled_shape : shape := {|
  sh_pre := [ mk PParse true (Some FAst) [];
              mk PDeclsInit true (Some FDecls) [];
              mk PDefsInit false (Some FDefs) [] ];
  sh_loop := [ mk PCollect true None [FAst; FDecls];
               mk PDefineSymbols true None [FAst; FDecls; FDefs];
               mk PConstSimple true None [FAst; FDecls; FDefs];
               mk PResolveIfs true None [FAst; FDecls; FDefs] ];
  sh_post := [ mk PLeftoverIfs true None [FAst; FDecls; FDefs];
               mk PDefineRemaining true None [FAst; FDefs; FDecls];
               mk PMatchAll true None [FAst; FDecls; FDefs];
               mk PResolveIter true (Some FIter) [FAst; FDecls; FDefs];
               mk PStopAtErrors true None [];
               mk PBankOverlap true None [FDecls; FDefs];
               mk PUnusedDefines true None [FDecls];
               mk PBuildOutput true (Some FOutput) [FAst; FDecls; FDefs] ];
  sh_err_sets_flag := true;
  sh_err_asserts := true |}.

(* the pinned shape (before the repairs of F1 / F31): no stop_at_errors after resolution, and the unused-define check
   AFTER `output` was stored *)
Definition pinned_shape : shape := {|
  sh_pre := sh_pre modelled_shape;
  sh_loop := sh_loop modelled_shape;
  sh_post := [ mk PLeftoverIfs true None [FAst; FDecls; FDefs];
               mk PDefineRemaining true None [FAst; FDefs; FDecls];
               mk PMatchAll true None [FAst; FDecls; FDefs];
               mk PResolveIter true (Some FIter) [FAst; FDecls; FDefs];
               mk PBankOverlap true None [FDecls; FDefs];
               mk PBuildOutput true (Some FOutput) [FAst; FDecls; FDefs];
               mk PUnusedDefines true None [FDecls] ];
  sh_err_sets_flag := true;
  sh_err_asserts := true |}.

(* ------------------------------------------------------------------ per-phase obligations: what the theorems ASSUME of the
   abstract phases, with the place in the source each was checked against (by reading; exercised on every run by the
   streams of tools/props/c03.py, which look for exactly their failures: output with an error, failure without one,
   the assert!, a panic).  (id, phase, file :: function, obligation) *)
Inductive okind := OLoud | OQuiet | OWriter | OFileServer.
Open Scope string_scope.
Definition phase_obligations : list (string * okind * option pkind * string * string) := [
  ("G0", OWriter, None, "src/diagn/report.rs :: impl Report",
   "messages are only ever pushed (message, message_with_parents_dedup, push_multiple); no method removes or rewrites one: the report is a writer [also a table obligation: report_message_ops]");
  ("G1", OWriter, None, "src/diagn/report.rs :: wrap_in_parents / push_multiple; resolver/instruction.rs :: resolve_encoding, eval_fn.rs, data_block.rs, iter.rs, eval_asm.rs",
   "the kind of a top-level message is the kind of the OUTERMOST parent open when it was reported.  Under resolve_encoding, eval_fn, data_block, iter the outermost parent is pushed with push_parent (Error).  NOT so in eval_asm.rs: an asm block that substitutes a local pushes the Note `match attempted` first, so in a constant / #if / #res / #addr / #align / #assert context its errors are stored as top-level Notes carrying the error (KNoteWithError): Report::stop_at_errors does not see them");
  ("T1", OWriter, None, "src/asm/resolver/eval_asm.rs :: eval_asm (maybe_no_matches?, maybe_encodings?, `return Err(())` when !can_guess); resolver/assert.rs; resolver/*.rs `did not converge`; matcher/mod.rs :: match_all",
   "TOP ON CONTINUE: a phase that returns Ok has pushed errors only as top-level Errors.  The push-and-continue sites (assertion failed, did not converge, no match accumulation, unused define) report with an empty parent stack or under an Error parent; the Note-wrapped errors of eval_asm are always followed by Err(()) out of the phase.  Without this the stop_at_errors()? before the output is built would not be enough (Props/C03.v: C03_note_wrapped_needs_top_on_continue)");
  ("L1", OLoud, Some PParse, "src/asm/parser/mod.rs :: parse_many_and_resolve_includes, parse_and_resolve_includes, parse_line and src/asm/parser/*.rs, src/syntax/walker.rs :: expect*",
   "Err(()) only after report.error_span (walker.expect*, directive parsers) or after FileServer::get_handle / get_bytes failed (obligation FS1)");
  ("L2", OLoud, Some PDeclsInit, "src/asm/decls/mod.rs :: init; src/util/symbol_manager.rs :: declare",
   "Err(()) only out of SymbolManager::declare, which reports `duplicate ...` first");
  ("L3", OLoud, Some PCollect, "src/asm/decls/mod.rs :: collect", "Err(()) out of the five collectors (each reports first) or out of the closing report.stop_at_errors()");
  ("L4", OLoud, Some PDefineSymbols, "src/asm/defs/mod.rs :: define_symbols", "Err(()) out of symbol::define (reports first) or out of the closing report.stop_at_errors()");
  ("L5", OLoud, Some PConstSimple, "src/asm/resolver/constant.rs :: resolve_constants_simple; resolver/eval.rs :: eval_simple; resolver/iter.rs :: next_simple",
   "Err(()) only propagated from expression evaluation, which reports first (every `return Err(())` of src/expr/eval.rs, builtin_fn.rs and util/bigint.rs follows a report.error_span; the `.ok_or(())` of BigInt::checked_add/sub/mul/div and the map_err of checked_shl cannot fire: num_bigint returns None only for a zero divisor, tested before)");
  ("L6", OLoud, Some PResolveIfs, "src/asm/resolver/directive_if.rs :: resolve_ifs", "Err(()) only propagated from eval_certain / expect_bool (report first)");
  ("L7", OLoud, Some PLeftoverIfs, "src/asm/resolver/directive_if.rs :: check_leftover_ifs", "returns Err(()) for the first leftover #if after eval_certain reported, or after reporting `unresolved condition` itself");
  ("L8", OLoud, Some PDefineRemaining, "src/asm/defs/mod.rs :: define_remaining", "Err(()) out of the eight definers (each reports first) or out of report.stop_at_errors()");
  ("L9", OLoud, Some PMatchAll, "src/asm/matcher/mod.rs :: match_all, error_on_no_matches",
   "`no match` errors are ACCUMULATED (error_on_no_matches reports, the loop continues) and the function ends with report.stop_at_errors(): Err iff the report holds an error");
  ("L10", OLoud, Some PResolveIter, "src/asm/resolver/mod.rs :: resolve_iteratively, resolve_once; resolver/{constant,label,instruction,data_block,res,align,addr,assert}.rs",
   "the two bare `Err(())` (not resolved in the last / confirming pass) are reached only when some node returned Unresolved with is_last_iteration = true, and every node resolver reports `... did not converge` (or, instruction.rs, the inner failure of resolve_encoding when !can_guess, which since the repair of F28 always reports) before returning Unresolved in that pass; resolve_assert returns Unresolved only in earlier passes");
  ("L11", OLoud, Some PBankOverlap, "src/asm/output/mod.rs :: check_bank_overlap", "Err(()) right after report.push_parent + note_span (kind of the top-level message: Error)");
  ("L12", OLoud, Some PUnusedDefines, "src/asm/mod.rs :: check_unused_defines", "Err(()) iff had_error, set right after report.error(`unused define`)");
  ("L13", OLoud, Some PBuildOutput, "src/asm/output/mod.rs :: build_output, check_output, util/overlap_checker.rs",
   "Err(()) after a report (out of range for bank / non-writable bank / out of supported range / output overlap) or from ResolveIterator::next (reports first)");
  ("Q1", OQuiet, Some PBankOverlap, "src/asm/output/mod.rs :: check_bank_overlap", "the only report site is followed by `return Err(())`: returning Ok it pushed nothing");
  ("Q2", OQuiet, Some PUnusedDefines, "src/asm/mod.rs :: check_unused_defines", "`unused define` is pushed-and-continued INSIDE the function, but the function returns Err when any was pushed (had_error)");
  ("Q3", OQuiet, Some PBuildOutput, "src/asm/output/mod.rs :: build_output", "every report site is followed by `return Err(())` or `?`: returning Ok it pushed nothing");
  ("P1", OWriter, Some PResolveIter, "src/asm/resolver/assert.rs :: resolve_assert; resolver/*.rs `did not converge`; resolver/instruction.rs :: resolve_encoding",
   "NOT assumed quiet: `assertion failed` and the `did not converge` family are pushed while the function goes on and may return Ok; this is why the shape needs report.stop_at_errors()? before `output` is built");
  ("FS1", OFileServer, None, "src/util/fileserver.rs :: FileServerReal::{get_handle, get_bytes, write_bytes}, FileServerMock::get_handle",
   "every Err(()) of a file server follows report_error(..): unreadable inputs and unwritable outputs are loud");
  ("PR1", OFileServer, None, "src/driver.rs :: print_line, print_usage, print_version_short, print_version_full; src/diagn/report.rs :: print_all",
   "print_line reports `could not write to the standard output` before its Err(()) and the driver has no println! left [table obligations c03_print_line_reports, c03_driver_println_free]; print_all does not unwrap the result of a write on the diagnostic stream [c03_print_all_ignores_write_errors]")
].

Close Scope string_scope.

(* ------------------------------------------------------------------ driver::assemble_with_command, drive, main *)
(* Everything the driver prints goes through print_line(report, text) -> Result: writeln! + flush on stdout; on failure
   report.error("could not write to the standard output") and Err(()).  `print_try` = the call is followed by `?`;
   print_try = false stands for the former println!, which PANICS when the stream cannot be written. *)
Inductive dstep :=
| DHelp (print_try : bool)      (* if command.show_help { print_usage(..)[?]; return Ok } *)
| DVersion (print_try : bool)   (* if command.show_version { print_version_full(..)[?]; return Ok } *)
| DNoInput                      (* if input_filenames.len() < 1 { report.error; return Err } *)
| DProgress (print_try : bool)  (* if !quiet { print_version_short(..)[?]; for input { print_line(`assembling ..`)[?] } } *)
| DAssemble                     (* let assembly = asm::assemble(report, opts, fileserver, inputs) *)
| DNeedOutput                   (* let output = assembly.output.as_ref().ok_or(())? *)
| DUnwrap (f : field)           (* assembly.<f>.as_ref().unwrap() / .unwrap() *)
| DGroups (print_try write_try : bool)
                                (* for group { format_output; print_line(..)[?] | [print_line(`writing ..`)[?];] write_bytes(..)[?] } *)
| DResolved (print_try : bool)  (* if !quiet { print_line(`resolved in ..`)[?] } *)
| DReturnOk.                    (* Ok(assembly) *)

Inductive dresult := DrOk | DrErr | DrPanic | DrDiverge | DrStuck.   (* DrStuck: a step that cannot be written in Rust (use of `assembly` before it exists) *)

Record dout := {
  d_result : dresult;
  d_acts : list action;                  (* prints and writes PERFORMED, in order *)
  d_failed_write : option text;          (* the output file that could not be written *)
  d_failed_print : bool;                 (* the standard output could not be written *)
  d_report : report;
  d_asm : option (aresult * report);     (* what asm::assemble returned, when it was called and returned *)
  d_clean_at_actions : bool              (* the report held no error when the group loop was entered (true when never entered) *)
}.

(* the group loop when the `?` after write_bytes is missing: failures are reported by the file server, the loop goes on *)
Fixpoint perform_all (wr : text -> bool) (gs : list cgroup) : list action * report :=
  match gs with
  | [] => ([], [])
  | g :: r =>
    let (acts, rep) := perform_all wr r in
    match action_of g with
    | AWrite name f => if wr name then (AWrite name f :: acts, rep) else (acts, KError :: rep)
    | a => (a :: acts, rep)
    end
  end.

Fixpoint first_unwritable (wr : text -> bool) (gs : list cgroup) : option text :=
  match gs with
  | [] => None
  | g :: r => match action_of g with
              | AWrite name _ => if wr name then first_unwritable wr r else Some name
              | _ => first_unwritable wr r
              end
  end.

(* the group loop over the two oracles: wr (each output file) and out_ok (the standard output; a PERMANENT fault: either
   every print succeeds or every print fails).  A printout group prints; a file group prints `writing ..` unless quiet, then writes. *)
Inductive gres := GDone (acts : list action) | GWriteFailed (acts : list action) | GPrintFailed (acts : list action).

Fixpoint perform_io (wr : text -> bool) (out_ok quiet : bool) (gs : list cgroup) (done : list action) : gres :=
  match gs with
  | [] => GDone (rev done)
  | g :: r =>
    match action_of g with
    | APrint f => if out_ok then perform_io wr out_ok quiet r (APrint f :: done) else GPrintFailed (rev done)
    | AWrite name f =>
      if negb quiet && negb out_ok then GPrintFailed (rev done)
      else if wr name then perform_io wr out_ok quiet r (AWrite name f :: done) else GWriteFailed (rev done)
    | ASkip => perform_io wr out_ok quiet r (ASkip :: done)
    end
  end.

Record dstate := {
  ds_asm : option (aresult * report);
  ds_output_seen : bool;                 (* `output` is bound: DNeedOutput passed *)
  ds_report : report;
  ds_acts : list action;
  ds_clean : bool
}.

Definition finish (st : dstate) (res : dresult) (failed : option text) (failed_print : bool) (rep : report) (acts : list action) : dout :=
  {| d_result := res; d_acts := acts; d_failed_write := failed; d_failed_print := failed_print; d_report := rep; d_asm := ds_asm st;
     d_clean_at_actions := ds_clean st |}.

(* a print that fails: with `?` an error is reported and Err(()) returned; without (println!) the process panics *)
Definition print_failed (st : dstate) (print_try : bool) (acts : list action) : dout :=
  if print_try then finish st DrErr None true (ds_report st ++ [KError]) acts
  else finish st DrPanic None true (ds_report st) acts.

(* asm: the outcome of asm::assemble for this command (run on the report as it stands) *)
Fixpoint run_dsteps (steps : list dstep) (c : command) (wr : text -> bool) (out_ok : bool) (asm : report -> aout) (st : dstate) : dout :=
  match steps with
  | [] => finish st DrStuck None false (ds_report st) (ds_acts st)                 (* a function body must end in a value *)
  | DHelp pt :: rest =>
    if c_help c then (if out_ok then finish st DrOk None false (ds_report st) (ds_acts st) else print_failed st pt (ds_acts st))
    else run_dsteps rest c wr out_ok asm st
  | DVersion pt :: rest =>
    if c_version c then (if out_ok then finish st DrOk None false (ds_report st) (ds_acts st) else print_failed st pt (ds_acts st))
    else run_dsteps rest c wr out_ok asm st
  | DNoInput :: rest =>
    match c_inputs c with
    | [] => finish st DrErr None false (ds_report st ++ [KError]) (ds_acts st)
    | _ => run_dsteps rest c wr out_ok asm st
    end
  | DProgress pt :: rest =>
    if negb (c_quiet c) && negb out_ok then print_failed st pt (ds_acts st) else run_dsteps rest c wr out_ok asm st
  | DAssemble :: rest =>
    match asm (ds_report st) with
    | AReturn a r =>
      run_dsteps rest c wr out_ok asm {| ds_asm := Some (a, r); ds_output_seen := false; ds_report := r; ds_acts := ds_acts st; ds_clean := ds_clean st |}
    | APanicUnwrap | APanicAssert => finish st DrPanic None false (ds_report st) (ds_acts st)
    | ADiverge => finish st DrDiverge None false (ds_report st) (ds_acts st)
    end
  | DNeedOutput :: rest =>
    match ds_asm st with
    | None => finish st DrStuck None false (ds_report st) (ds_acts st)
    | Some (a, _) =>
      if r_output a
      then run_dsteps rest c wr out_ok asm {| ds_asm := ds_asm st; ds_output_seen := true; ds_report := ds_report st; ds_acts := ds_acts st; ds_clean := ds_clean st |}
      else finish st DrErr None false (ds_report st) (ds_acts st)
    end
  | DUnwrap f :: rest =>
    match ds_asm st with
    | None => finish st DrStuck None false (ds_report st) (ds_acts st)
    | Some (a, _) => if get a f then run_dsteps rest c wr out_ok asm st else finish st DrPanic None false (ds_report st) (ds_acts st)
    end
  | DGroups pt write_try :: rest =>
    if negb (ds_output_seen st) then finish st DrStuck None false (ds_report st) (ds_acts st)       (* format_output needs `output` *)
    else
      let st1 := {| ds_asm := ds_asm st; ds_output_seen := true; ds_report := ds_report st; ds_acts := ds_acts st;
                    ds_clean := negb (has_error (ds_report st)) |} in
      if write_try then
        match perform_io wr out_ok (c_quiet c) (c_groups c) [] with
        | GDone acts =>
          run_dsteps rest c wr out_ok asm {| ds_asm := ds_asm st; ds_output_seen := true; ds_report := ds_report st; ds_acts := ds_acts st ++ acts; ds_clean := ds_clean st1 |}
        | GWriteFailed acts =>
          (* FileServer::write_bytes reported (obligation FS1), `?` returns Err(()) *)
          finish st1 DrErr (first_unwritable wr (c_groups c)) false (ds_report st ++ [KError]) (ds_acts st ++ acts)
        | GPrintFailed acts => print_failed st1 pt (ds_acts st ++ acts)
        end
      else
        let (acts, rep) := perform_all wr (c_groups c) in
        run_dsteps rest c wr out_ok asm {| ds_asm := ds_asm st; ds_output_seen := true; ds_report := ds_report st ++ rep; ds_acts := ds_acts st ++ acts; ds_clean := ds_clean st1 |}
  | DResolved pt :: rest =>
    if negb (c_quiet c) && negb out_ok then print_failed st pt (ds_acts st) else run_dsteps rest c wr out_ok asm st
  | DReturnOk :: _ => finish st DrOk None false (ds_report st) (ds_acts st)
  end.

Definition dstate0 (r : report) : dstate :=
  {| ds_asm := None; ds_output_seen := false; ds_report := r; ds_acts := []; ds_clean := true |}.

Definition assemble_with_command (steps : list dstep) (c : command) (wr : text -> bool) (out_ok : bool) (asm : report -> aout) (r0 : report) : dout :=
  run_dsteps steps c wr out_ok asm (dstate0 r0).

(* driver::drive / drive_from_commandline after getopts: parse_command reports before each Err (Model/Driver.v: every CErr names
   the diagnostic), then assemble_with_command on the same report; Report::print_all afterwards ignores write errors on the
   diagnostic stream (table obligation c03_print_all_ignores_write_errors) *)
Definition drive (steps : list dstep) (gs : list pgroup) (wr : text -> bool) (out_ok : bool) (asm : command -> report -> aout) : dout :=
  match parse_command gs with
  | COk c => assemble_with_command steps c wr out_ok (asm c) []
  | CErr _ => {| d_result := DrErr; d_acts := []; d_failed_write := None; d_failed_print := false; d_report := [KError]; d_asm := None; d_clean_at_actions := true |}
  | CPanic => {| d_result := DrPanic; d_acts := []; d_failed_write := None; d_failed_print := false; d_report := []; d_asm := None; d_clean_at_actions := true |}
  end.

(* src/main.rs: `if let Err(()) = maybe_result { std::process::exit(exit_on_err) }`, else main returns (status 0);
   a panic ends the process with status 101 *)
Definition exit_status (exit_on_err : N) (r : dresult) : option N :=
  match r with DrOk => Some 0%N | DrErr => Some exit_on_err | DrPanic => Some 101%N | DrDiverge | DrStuck => None end.

Definition modelled_driver_shape : list dstep :=
  [DHelp true; DVersion true; DNoInput; DProgress true; DAssemble; DNeedOutput; DUnwrap FDecls; DUnwrap FDefs; DUnwrap FIter;
   DGroups true true; DResolved true; DReturnOk].

(* the driver before 0dfce82: println! everywhere (F64) *)
Definition println_driver_shape : list dstep :=
  [DHelp false; DVersion false; DNoInput; DProgress false; DAssemble; DNeedOutput; DUnwrap FDecls; DUnwrap FDefs; DUnwrap FIter;
   DGroups false true; DResolved false; DReturnOk].

(* ------------------------------------------------------------------ reading the tables regenerated from the source
   (tools/translate_c03.py emits plain strings / booleans only, so that Gen/Generated.v depends on nothing of the model) *)
Open Scope string_scope.
Definition pkind_names : list (string * pkind) := [
  ("parser::parse_many_and_resolve_includes", PParse); ("decls::init", PDeclsInit); ("defs::init", PDefsInit);
  ("decls::collect", PCollect); ("defs::define_symbols", PDefineSymbols);
  ("resolver::resolve_constants_simple", PConstSimple); ("resolver::resolve_ifs", PResolveIfs);
  ("resolver::check_leftover_ifs", PLeftoverIfs); ("defs::define_remaining", PDefineRemaining);
  ("matcher::match_all", PMatchAll); ("resolver::resolve_iteratively", PResolveIter);
  ("report.stop_at_errors", PStopAtErrors); ("output::check_bank_overlap", PBankOverlap);
  ("check_unused_defines", PUnusedDefines); ("output::build_output", PBuildOutput) ].

Definition field_names : list (string * field) :=
  [("ast", FAst); ("decls", FDecls); ("defs", FDefs); ("iterations_taken", FIter); ("output", FOutput)].

Fixpoint assoc_str {A} (k : string) (l : list (string * A)) : option A :=
  match l with [] => None | (k', v) :: r => if String.eqb k' k then Some v else assoc_str k r end.

Fixpoint map_opt {A B} (f : A -> option B) (l : list A) : option (list B) :=
  match l with
  | [] => Some []
  | x :: r => match f x, map_opt f r with Some y, Some ys => Some (y :: ys) | _, _ => None end
  end.

(* (callee, followed by `?`, field assigned ("" = none), fields unwrapped in the arguments) *)
Definition raw_call := (string * bool * string * list string)%type.

Definition decode_call (t : raw_call) : option call :=
  match t with
  | (name, try, asg, uses) =>
    match assoc_str name pkind_names, map_opt (fun u => assoc_str u field_names) uses with
    | Some k, Some us =>
      if String.eqb asg "" then Some (mk k try None us)
      else match assoc_str asg field_names with Some f => Some (mk k try (Some f) us) | None => None end
    | _, _ => None
    end
  end.

Definition decode_shape (pre body post : list raw_call) (err_arm : list string) : option shape :=
  match map_opt decode_call pre, map_opt decode_call body, map_opt decode_call post with
  | Some a, Some b, Some c =>
    Some {| sh_pre := a; sh_loop := b; sh_post := c;
            sh_err_sets_flag := existsb (String.eqb "assembly.error = true") err_arm;
            sh_err_asserts := existsb (String.eqb "assert!(report.has_errors())") err_arm |}
  | _, _, _ => None
  end.

Definition decode_dstep (s : string) : option dstep :=
  if String.eqb s "help print?" then Some (DHelp true) else if String.eqb s "help" then Some (DHelp false)
  else if String.eqb s "version print?" then Some (DVersion true) else if String.eqb s "version" then Some (DVersion false)
  else if String.eqb s "no_input" then Some DNoInput
  else if String.eqb s "progress print?" then Some (DProgress true) else if String.eqb s "progress" then Some (DProgress false)
  else if String.eqb s "assemble" then Some DAssemble
  else if String.eqb s "need_output" then Some DNeedOutput
  else if String.eqb s "unwrap decls" then Some (DUnwrap FDecls) else if String.eqb s "unwrap defs" then Some (DUnwrap FDefs)
  else if String.eqb s "unwrap iterations_taken" then Some (DUnwrap FIter)
  else if String.eqb s "unwrap ast" then Some (DUnwrap FAst)
  else if String.eqb s "groups print? write?" then Some (DGroups true true) else if String.eqb s "groups print? write" then Some (DGroups true false)
  else if String.eqb s "groups write?" then Some (DGroups false true) else if String.eqb s "groups write" then Some (DGroups false false)
  else if String.eqb s "resolved print?" then Some (DResolved true) else if String.eqb s "resolved" then Some (DResolved false)
  else if String.eqb s "return_ok" then Some DReturnOk else None.

Definition decode_driver (steps : list string) : option (list dstep) := map_opt decode_dstep steps.

(* diagn::Report: the methods applied to `self.messages` that can change it (everything else only reads) *)
Definition report_ops_are_pushes (ops : list string) : bool :=
  forallb (fun o => String.eqb o "push") ops && negb (match ops with [] => true | _ => false end).
Close Scope string_scope.
