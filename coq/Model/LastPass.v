(* What the LAST iteration of the resolver checks while walking the same ResolveIterator
   (src/asm/resolver/label.rs, addr.rs, align.rs, repaired tree), for programs whose sizes are all
   resolved: labels take the address of the cursor (eval_address with can_guess = false: a position
   between two addresses is an error), `#addr a` must lie in the bank, `#align 0` is invalid.
   Returns the nodes with the label values filled in.  Executable definitions only. *)
From Coq Require Import ZArith NArith List Bool.
From CA Require Import Model.Overlap Model.Cursor.
Import ListNotations.
Open Scope N_scope.

Definition check_node (mb : Z) (b : bank) (pos : N) (n : node) : res node :=
  match n with
  | NSymbol true d0 _ =>
      match eval_address mb b pos false with
      | Ok a => Ok (NSymbol true d0 a) | Err => Err | Panic => Panic
      end
  | NAddr a =>
      if (a <? bk_addr b)%Z then Err else               (* "address is out of bank range" *)
      match big_sub mb a (bk_addr b) with
      | Err => Err | Panic => Panic
      | Ok d =>
          match big_mul mb d (Z.of_N (bk_unit b)) with
          | Err => Err | Panic => Panic
          | Ok dm =>
              match to_usize dm with
              | None => Err
              | Some delta =>
                  match bk_size b with
                  | Some size => if size <=? delta then Err else Ok n
                  | None => Ok n
                  end
              end
          end
      end
  | NAlign a => if a =? 0 then Err else Ok n            (* "invalid alignment size" *)
  | _ => Ok n
  end.

Record pstate := mkP { p_cur : cursor; p_prev : option node; p_done : list node (* reversed *) }.

Definition pass_step (mb : Z) (banks : list bank) (st : pstate) (n : node) : res pstate :=
  match advance mb banks (p_cur st) (p_prev st) with
  | Err => Err | Panic => Panic
  | Ok c1 =>
      match enter mb banks c1 n with
      | Err => Err | Panic => Panic
      | Ok c2 =>
          match cur_bank banks c2 with
          | Err => Err | Panic => Panic
          | Ok (b, pos) =>
              match check_node mb b pos n with
              | Err => Err | Panic => Panic
              | Ok n' => Ok (mkP c2 (Some n') (n' :: p_done st))
              end
          end
      end
  end.

Definition last_pass (mb : Z) (banks : list bank) (nodes : list node) : res (list node) :=
  match fold_left (fun acc n => match acc with Ok s => pass_step mb banks s n | Err => Err | Panic => Panic end)
                  nodes (Ok (mkP (init_cursor banks) None [])) with
  | Err => Err | Panic => Panic
  | Ok st =>
      match advance mb banks (p_cur st) (p_prev st) with
      | Err => Err | Panic => Panic
      | Ok _ => Ok (rev (p_done st))
      end
  end.
