(* Model of src/asm/output/mod.rs (repaired tree, as landed in /repo: commit 79637a5 range-checks writes only): check_bank_overlap, fill_banks, build_output with
   check_bank_usage / check_bank_output, and of util/bitvec.rs write_bit / write_bigint / mark_span.
   Input: the bank definitions (index 0 = the default bank) and the resolved top-level nodes;
   output: the bits and the recorded spans.  Executable definitions only.

   BitVec = (data: BigInt, len).  data has no set bit at or beyond len (every write updates len), so
   the pair is represented by the list of its first `len` bits; reading bit k is `nth k out false`. *)
From Coq Require Import ZArith NArith List Bool.
From CA Require Import Model.Overlap Model.Cursor.
Import ListNotations.
Open Scope N_scope.

(* ------------------------------------------------------------------ BitVec *)
(* data.set_bit(i, v) followed by the `len` update of write_bit *)
Fixpoint update (out : list bool) (i : nat) (v : bool) : list bool :=
  match out, i with
  | [], O => [v]
  | [], S i' => false :: update [] i' v
  | _ :: r, O => v :: r
  | x :: r, S i' => x :: update r i' v
  end.
Definition write_bit := update.

Definition pad_to (out : list bool) (n : nat) : list bool := out ++ repeat false (n - length out).

(* write_bigint: bit loop, most significant bit first, then `if size > 0 && index + size > len { len = index + size }`
   (/repo F49 repair: an empty value writes nothing and does not extend the output) *)
Fixpoint write_loop (out : list bool) (idx : nat) (enc : list bool) : list bool :=
  match enc with
  | [] => out
  | b :: r => write_loop (update out idx b) (S idx) r
  end.
Definition write_bigint (out : list bool) (idx : nat) (enc : list bool) : list bool :=
  match enc with
  | [] => out
  | _ :: _ => pad_to (write_loop out idx enc) (idx + length enc)
  end.

(* BitVecSpan, plus what the model knows and the Rust struct does not record: the bank the item was
   written in and (for written items) the encoding *)
Record item := mkItem {
  it_bank : nat;
  it_off : option N;          (* output offset; None: label in a bank without outp *)
  it_size : N;
  it_addr : Z;
  it_enc : option (list bool) (* Some: written bits (instruction / data); None: label *) }.

(* ------------------------------------------------------------------ check_bank_overlap *)
(* fn ends_after(outp, size, other) = outp.checked_add(size).map_or(true, |end| end > other)  (/repo abbd199, F48):
   a window whose end is not representable ends after everything *)
Definition ends_after (outp size other : N) : bool :=
  match checked_add outp size with Some e => other <? e | None => true end.

Definition windows_overlap (b1 b2 : bank) : res bool :=
  match bk_outp b1, bk_outp b2 with
  | Some o1, Some o2 =>
      match bk_size b1, bk_size b2 with
      | None, None => Ok true
      | Some s1, None => Ok (ends_after o1 s1 o2)
      | None, Some s2 => Ok (ends_after o2 s2 o1)
      | Some s1, Some s2 => Ok (ends_after o1 s1 o2 && ends_after o2 s2 o1)
      end
  | _, _ => Ok false            (* `continue` *)
  end.

Fixpoint overlap_with_any (b1 : bank) (rest : list bank) : res bool :=
  match rest with
  | [] => Ok false
  | b2 :: r =>
      match windows_overlap b1 b2 with
      | Ok true => Ok true | Ok false => overlap_with_any b1 r | Err => Err | Panic => Panic
      end
  end.
Fixpoint check_pairs (l : list bank) : res unit :=
  match l with
  | [] => Ok tt
  | b1 :: r =>
      match overlap_with_any b1 r with
      | Ok true => Err | Ok false => check_pairs r | Err => Err | Panic => Panic
      end
  end.
(* `for i in 1..len { for j in (i+1)..len {..} }`: the default bank (index 0) is not compared *)
Definition check_bank_overlap (banks : list bank) : res unit := check_pairs (tl banks).

(* ------------------------------------------------------------------ fill_banks *)
Definition fill_one (mb : N) (out : list bool) (b : bank) : res (list bool) :=
  if negb (bk_fill b) then Ok out else
  match bk_size b, bk_outp b with
  | Some size, Some offset =>
      if size =? 0 then Ok out else
      match checked_add offset size with
      | None => Err
      | Some e =>
          if mb <? e then Err else
          let highest := offset + size - 1 in
          if N.of_nat (length out) <=? highest then Ok (write_bit out (N.to_nat highest) false) else Ok out
      end
  | _, _ => Ok out
  end.
Definition fill_banks (mb : N) (banks : list bank) (out : list bool) : res (list bool) :=
  fold_left (fun acc b => match acc with Ok o => fill_one mb o b | Err => Err | Panic => Panic end) banks (Ok out).

(* ------------------------------------------------------------------ per-item checks *)
Definition check_bank_usage (banks : list bank) (c : cursor) : res unit :=
  if Nat.eqb (c_bank c) 0 then (if Nat.eqb (length banks) 1 then Ok tt else Err) else Ok tt.

Definition check_bank_output (mb : N) (b : bank) (pos size : N) (write : bool) : res unit :=
  match (match bk_size b with
         | Some bank_size =>
             match checked_add pos size with          (* cur_position.checked_add(size).map_or(true, |end| end > bank_size) *)
             | None => Err
             | Some e => if bank_size <? e then Err else Ok tt
             end
         | None => Ok tt
         end) with
  | Err => Err | Panic => Panic
  | Ok _ =>
      (* `if let (true, Some(output_offset)) = (write, bankdef.output_offset)`: only writes are range-checked *)
      match (match write, bk_outp b with
             | true, Some o =>
                 match (match checked_add o pos with Some p => checked_add p size | None => None end) with
                 | None => Err
                 | Some e => if mb <? e then Err else Ok tt
                 end
             | _, _ => Ok tt
             end) with
      | Err => Err | Panic => Panic
      | Ok _ => if write && (match bk_outp b with None => true | Some _ => false end) then Err else Ok tt
      end
  end.

(* ------------------------------------------------------------------ build_output *)
Record wstate := mkW {
  w_cur : cursor;
  w_prev : option node;
  w_es : list entry;          (* the OverlapChecker *)
  w_out : list bool;
  w_spans : list item }.      (* in recording order (Vec::push) *)

Definition emit_node (mb : N) (banks : list bank) (c : cursor) (b : bank) (pos : N) (n : node)
    (es : list entry) (out : list bool) (spans : list item) : res (list entry * list bool * list item) :=
  match n with
  | NSymbol true _ value =>
      match check_bank_usage banks c with
      | Err => Err | Panic => Panic
      | Ok _ =>
          match check_bank_output mb b pos 0 false with
          | Err => Err | Panic => Panic
          | Ok _ =>
              match get_output_position b pos with
              | Err => Err | Panic => Panic
              | Ok mp => Ok (es, out, spans ++ [mkItem (c_bank c) mp 0 value None])
              end
          end
      end
  | NEmit enc =>
      let size := N.of_nat (length enc) in
      match check_bank_usage banks c with
      | Err => Err | Panic => Panic
      | Ok _ =>
          match check_bank_output mb b pos size true with
          | Err => Err | Panic => Panic
          | Ok _ =>
              match get_address (Z.of_N mb) b pos true with
              | Err => Err | Panic => Panic
              | Ok None => Panic                             (* .unwrap() *)
              | Ok (Some addr) =>
                  match get_output_position b pos with
                  | Err => Err | Panic => Panic
                  | Ok None => Panic                         (* .unwrap() *)
                  | Ok (Some o) =>
                      match check_and_insert es o size with
                      | Err => Err | Panic => Panic
                      | Ok es' =>
                          Ok (es', write_bigint out (N.to_nat o) enc,
                              spans ++ [mkItem (c_bank c) (Some o) size addr (Some enc)])
                      end
                  end
              end
          end
      end
  | NRes k =>
      match check_bank_usage banks c with
      | Err => Err | Panic => Panic
      | Ok _ =>
          match check_bank_output mb b pos k false with
          | Err => Err | Panic => Panic
          | Ok _ =>
              match get_output_position b pos with
              | Err => Err | Panic => Panic
              | Ok None => Ok (es, out, spans)
              | Ok (Some o) =>
                  match check_and_insert es o k with
                  | Err => Err | Panic => Panic
                  | Ok es' => Ok (es', out, spans)
                  end
              end
          end
      end
  | _ => Ok (es, out, spans)
  end.

(* one round of `while let Some(ctx) = iter.next(..)?` *)
Definition step (mb : N) (banks : list bank) (st : wstate) (n : node) : res wstate :=
  match advance (Z.of_N mb) banks (w_cur st) (w_prev st) with
  | Err => Err | Panic => Panic
  | Ok c1 =>
      match enter (Z.of_N mb) banks c1 n with
      | Err => Err | Panic => Panic
      | Ok c2 =>
          match cur_bank banks c2 with
          | Err => Err | Panic => Panic
          | Ok (b, pos) =>
              match emit_node mb banks c2 b pos n (w_es st) (w_out st) (w_spans st) with
              | Err => Err | Panic => Panic
              | Ok (es, out, spans) => Ok (mkW c2 (Some n) es out spans)
              end
          end
      end
  end.

Definition run_nodes (mb : N) (banks : list bank) (nodes : list node) (st : wstate) : res wstate :=
  fold_left (fun acc n => match acc with Ok s => step mb banks s n | Err => Err | Panic => Panic end)
            nodes (Ok st).

Definition build_output (mb : N) (banks : list bank) (nodes : list node) : res (list bool * list item) :=
  match fill_banks mb banks [] with
  | Err => Err | Panic => Panic
  | Ok out0 =>
      match run_nodes mb banks nodes (mkW (init_cursor banks) None [] out0 []) with
      | Err => Err | Panic => Panic
      | Ok st =>
          (* the last call of next() still advances past the final node before returning None *)
          match advance (Z.of_N mb) banks (w_cur st) (w_prev st) with
          | Err => Err | Panic => Panic
          | Ok _ => Ok (w_out st, w_spans st)
          end
      end
  end.

(* asm/mod.rs: check_bank_overlap, then build_output *)
Definition output_stage (mb : N) (banks : list bank) (nodes : list node) : res (list bool * list item) :=
  match check_bank_overlap banks with
  | Err => Err | Panic => Panic
  | Ok _ => build_output mb banks nodes
  end.
