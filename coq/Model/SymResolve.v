(* Model of how symbol references are evaluated in the main passes (src/asm/resolver/eval.rs::eval /
   eval_variable / eval_builtin_symbol, label.rs, constant.rs::resolve_constant, data_block.rs,
   mod.rs::resolve_iteratively / resolve_once) for the programs of the C15 streams: symbol declarations
   (labels, constants over Model/ConstPass.v's expression language) and sized data directives
   `#dW expr` (W a multiple of 8), in one bank of 8-bit units starting at address `addr0`
   (the default bank, or `#bankdef b { addr = K, ... }` with K evaluated by eval_certain after the
   pre-pass).  Everything else of the resolver belongs to C01/C02/C09; this file exists so that whole
   programs can be predicted by the model and to state C15_unknown / C15_forward.
   The iteration budget is the code's own counter (fuel = max_iterations).  Executable definitions only. *)
From Coq Require Import ZArith NArith List Bool Arith.
From CA Require Import Model.Paths Model.BigIntOps Model.Symbols Model.ConstPass.
From CA Require Model.TypeRange.
Import ListNotations.
Open Scope nat_scope.

Section Main.
Variable nm : names.
Variable m : mgr.

(* eval_variable (provider of resolver::eval) in context ctx; `addr` = ctx.eval_address(...) *)
Definition eval_variable (defs : list sym) (ctx : list text) (can_guess : bool) (addr : res Z)
    (lvl : nat) (path : list text) : res cval :=
  let lookup :=
    match get_by_name m ctx lvl path with           (* "unknown symbol" *)
    | ROk r =>
        match nth_error defs r with
        | None => RPanic                              (* defs.symbols.get *)
        | Some s =>
            match sv s with
            | VUnknown => if can_guess then ROk VUnknown else RErr   (* "unresolved symbol" *)
            | v => ROk v
            end
        end
    | RErr => RErr | RPanic => RPanic | RFuel => RFuel
    end in
  match lvl with
  | O =>
      match path with
      | [] => RPanic
      | n :: _ =>
          if is_pc nm n then (match addr with ROk a => ROk (VInt a) | RErr => RErr | RPanic => RPanic | RFuel => RFuel end)
          else if asm_builtin nm n then ROk VOther
          else lookup
      end
  | S _ => lookup
  end.

Fixpoint eval_full (defs : list sym) (ctx : list text) (can_guess : bool) (addr : res Z) (e : cexpr) : res cval :=
  match e with
  | CLit z => ROk (VInt z)
  | CRef lvl path =>
      if expr_level_builtin nm lvl path then ROk VOther else eval_variable defs ctx can_guess addr lvl path
  | CAdd a b => binop OAdd (eval_full defs ctx can_guess addr a) (fun _ => eval_full defs ctx can_guess addr b)
  | CSub a b => binop OSub (eval_full defs ctx can_guess addr a) (fun _ => eval_full defs ctx can_guess addr b)
  | CMul a b => binop OMul (eval_full defs ctx can_guess addr a) (fun _ => eval_full defs ctx can_guess addr b)
  end.

(* resolver nodes with the SymbolContext the iterator holds at them *)
Inductive rnode :=
| RLabel (r : nat)
| RConst (r : nat) (e : cexpr)
| RData (width : Z) (e : cexpr) (idx : nat)     (* idx = index into the data-element table *)
| RNone.

(* data element: encoding value (size = width, fixed), resolved flag, encoding_statically_known *)
Record delem := mkD { dval : Z; dres : bool; dstatic : bool }.
Record rstate := mkR { rs_syms : list sym; rs_data : list delem }.

Definition cval_eqb (a b : cval) : bool :=
  match a, b with
  | VUnknown, VUnknown => true
  | VInt x, VInt y => Z.eqb x y
  | VOther, VOther => true
  | _, _ => false
  end.

(* ctx.eval_address for a bank of 8-bit units starting at addr0; pos in bits *)
Definition eval_address (addr0 : Z) (pos : Z) (can_guess : bool) : res Z :=
  if negb (Z.rem pos 8 =? 0)%Z && negb can_guess then RErr
  else match checked_add (Z.quot pos 8) addr0 with EOk r => ROk (bv r) | EErr => RErr end.

Definition resolve_label (addr0 pos : Z) (last : bool) (st : rstate) (r : nat) : res (rstate * bool) :=
  match eval_address addr0 pos (negb last) with
  | ROk a =>
      match nth_error (rs_syms st) r with
      | None => RPanic
      | Some s =>
          let st' := mkR (set_nth r (mkSym (VInt a) (sresolved s) (sstatic s)) (rs_syms st)) (rs_data st) in
          ROk (st', cval_eqb (VInt a) (sv s))
      end
  | RErr => RErr | RPanic => RPanic | RFuel => RFuel
  end.

Definition resolve_constant (opt : bool) (addr0 pos : Z) (first last : bool) (ctx : list text)
    (st : rstate) (r : nat) (e : cexpr) : res (rstate * bool) :=
  match nth_error (rs_syms st) r with
  | None => RPanic
  | Some s =>
      if sresolved s then ROk (st, true)
      else
        match eval_full (rs_syms st) ctx (negb last) (eval_address addr0 pos (negb last)) e with
        | ROk v =>
            if opt && first && sstatic s then
              ROk (mkR (set_nth r (mkSym v true (sstatic s)) (rs_syms st)) (rs_data st), true)
            else
              ROk (mkR (set_nth r (mkSym v (sresolved s) (sstatic s)) (rs_syms st)) (rs_data st), cval_eqb v (sv s))
        | RErr => RErr | RPanic => RPanic | RFuel => RFuel
        end
  end.

(* low `w` bits as a non-negative number (BigInt::slice(w, 0)) *)
Definition slice_low (v w : Z) : Z := Z.modulo v (2 ^ w).

Definition resolve_data (opt : bool) (addr0 pos : Z) (first last : bool) (ctx : list text)
    (st : rstate) (w : Z) (e : cexpr) (idx : nat) : res (rstate * bool) :=
  match nth_error (rs_data st) idx with
  | None => RPanic
  | Some d =>
      if dres d then ROk (st, true)
      else
        match eval_full (rs_syms st) ctx (negb last) (eval_address addr0 pos (negb last)) e with
        | ROk VOther => RErr                                  (* expect_error_or_bigint *)
        | ROk VUnknown =>
            if last || dstatic d then RErr else ROk (st, false)
        | ROk (VInt v) =>
            if (last || dstatic d) && negb (match TypeRange.data_result w v None with Some _ => true | None => false end)
            then RErr                                         (* "value out of range for directive" *)
            else
              let enc := slice_low v w in
              if opt && first && dstatic d then
                ROk (mkR (rs_syms st) (set_nth idx (mkD enc true (dstatic d)) (rs_data st)), true)
              else
                ROk (mkR (rs_syms st) (set_nth idx (mkD enc (dres d) (dstatic d)) (rs_data st)), Z.eqb enc (dval d))
        | RErr => RErr | RPanic => RPanic | RFuel => RFuel
        end
  end.

(* resolve_once over the nodes; pos advances by the width of each data element *)
Fixpoint resolve_nodes (opt : bool) (addr0 : Z) (first last : bool) (nodes : list (rnode * list text))
    (pos : Z) (st : rstate) (ok : bool) : res (rstate * bool) :=
  match nodes with
  | [] => ROk (st, ok)
  | (n, ctx) :: rest =>
      let step :=
        match n with
        | RLabel r => resolve_label addr0 pos last st r
        | RConst r e => resolve_constant opt addr0 pos first last ctx st r e
        | RData w e idx => resolve_data opt addr0 pos first last ctx st w e idx
        | RNone => ROk (st, true)
        end in
      match step with
      | ROk (st', b) =>
          let pos' := match n with RData w _ _ => (pos + w)%Z | _ => pos end in
          resolve_nodes opt addr0 first last rest pos' st' (ok && b)
      | RErr => RErr | RPanic => RPanic | RFuel => RFuel
      end
  end.

Definition resolve_once (opt : bool) (addr0 : Z) (first last : bool) (nodes : list (rnode * list text)) (st : rstate) :=
  resolve_nodes opt addr0 first last nodes 0%Z st true.

(* resolve_iteratively: `left` = max_iterations - iter_count at loop entry *)
Fixpoint iterate (opt : bool) (addr0 : Z) (nodes : list (rnode * list text)) (left : nat) (first : bool)
    (st : rstate) : res rstate :=
  match left with
  | O =>   (* max_iterations = 0: only the extra pass *)
      match resolve_once opt addr0 false true nodes st with
      | ROk (st', true) => ROk st'
      | ROk (_, false) => RErr
      | RErr => RErr | RPanic => RPanic | RFuel => RFuel
      end
  | S left' =>
      let last := match left' with O => true | S _ => false end in
      match resolve_once opt addr0 first last nodes st with
      | ROk (st', true) =>
          if last then ROk st'
          else
            match resolve_once opt addr0 false true nodes st' with     (* the confirming pass *)
            | ROk (st'', true) => ROk st''
            | ROk (_, false) => RErr
            | RErr => RErr | RPanic => RPanic | RFuel => RFuel
            end
      | ROk (st', false) => if last then RErr else iterate opt addr0 nodes left' false st'
      | RErr => RErr | RPanic => RPanic | RFuel => RFuel
      end
  end.
End Main.

(* ------------------------------------------------------------------ whole C15 programs *)
Inductive pnode :=
| PLabel (lvl : nat) (name : text)
| PConst (lvl : nat) (name : text) (e : cexpr)
| PData (width : Z) (e : cexpr).

Definition anode_of (p : pnode) : anode :=
  match p with
  | PLabel l n => ASym l n KLabel None
  | PConst l n _ => ASym l n KConstant None
  | PData _ _ => AOther
  end.

(* pair the program with the collected AST (item refs) and the iterator contexts *)
Fixpoint rnodes_of (ps : list pnode) (as_ : list anode) (ctxs : list (list text)) (didx : nat)
  : option (list (rnode * list text)) :=
  match ps, as_, ctxs with
  | [], [], [] => Some []
  | p :: ps', a :: as', c :: cs' =>
      let n := match p, a with
               | PLabel _ _, ASym _ _ _ (Some r) => Some (RLabel r)
               | PConst _ _ e, ASym _ _ _ (Some r) => Some (RConst r e)
               | PData w e, AOther => Some (RData w e didx)
               | _, _ => None
               end in
      let didx' := match p with PData _ _ => S didx | _ => didx end in
      match n, rnodes_of ps' as' cs' didx' with
      | Some n', Some rest => Some ((n', c) :: rest)
      | _, _ => None
      end
  | _, _, _ => None
  end.

Fixpoint consts_of (rs : list (rnode * list text)) : list (nat * cexpr) :=
  match rs with
  | [] => []
  | (RConst r e, _) :: rest => (r, e) :: consts_of rest
  | _ :: rest => consts_of rest
  end.

Fixpoint datas_of (rs : list (rnode * list text)) : list delem :=
  match rs with
  | [] => []
  | (RData w e _, _) :: rest => mkD 0 false (static_known e) :: datas_of rest
  | _ :: rest => datas_of rest
  end.

Definition expr_of (cs : list (nat * cexpr)) (r : nat) : option cexpr :=
  match find (fun c => Nat.eqb (fst c) r) cs with Some c => Some (snd c) | None => None end.

Record outcome := mkOut {
  o_mgr : mgr;
  o_syms : list sym;                 (* final symbol values *)
  o_pre : list sym;                  (* symbol values right after the pre-pass *)
  o_data : list (Z * Z) }.           (* (width, encoding) of every data element, in order *)

(* asm::assemble for these programs: collect, define, pre-pass, optional bank address by eval_certain,
   iterations.  `bank` = Some K for a leading `#bankdef b { addr = K, ... }`. *)
Definition assemble_sym (nm : names) (opt : bool) (budget : nat) (bank : option cexpr) (ps : list pnode) : res outcome :=
  match collect mgr_new (map anode_of ps) with
  | ROk (m, ast) =>
      match node_ctxs m ctx_global ast with
      | ROk ctxs =>
          match rnodes_of ps ast ctxs 0 with
          | None => RPanic
          | Some rs =>
              let cs := consts_of rs in
              let defs0 := define_symbols (length (m_decls m)) (expr_of cs) in
              match prepass nm opt m cs defs0 with
              | ROk pre =>
                  match (match bank with None => ROk 0%Z | Some k => eval_certain_int nm m pre k end) with
                  | ROk addr0 =>
                      match iterate nm m opt addr0 rs budget true (mkR pre (datas_of rs)) with
                      | ROk st =>
                          ROk (mkOut m (rs_syms st) pre
                                 (combine (flat_map (fun x => match fst x with RData w _ _ => [w] | _ => [] end) rs)
                                          (map dval (rs_data st))))
                      | RErr => RErr | RPanic => RPanic | RFuel => RFuel
                      end
                  | RErr => RErr | RPanic => RPanic | RFuel => RFuel
                  end
              | RErr => RErr | RPanic => RPanic | RFuel => RFuel
              end
          end
      | RErr => RErr | RPanic => RPanic | RFuel => RFuel
      end
  | RErr => RErr | RPanic => RPanic | RFuel => RFuel
  end.
