(* Specification side of C14: what a spelled path denotes, the reference normaliser on component
   lists, the confinement predicates, and the declarative (big-step, no seen-stack, no fuel)
   meaning of include expansion.  Short on purpose; executable where possible. *)
From Coq Require Import NArith List Bool.
From CA Require Import Model.Paths Model.Includes.
Import ListNotations.
Open Scope N_scope.

(* --- what a spelling denotes ------------------------------------------------------------- *)
(* both slash styles separate components *)
Definition components (s : text) : list text := split_on is_sep s.
Definition absolute (s : text) : bool := match s with c :: _ => is_sep c | [] => false end.
(* components that name nothing *)
Definition trivial (c : text) : bool := is_empty c || text_eqb c dot.
(* the directory part of the file that contains the directive *)
Definition dir_components (cur : text) : list text := removelast (components cur).

(* walking components from a stack of directory names (innermost first):
   trivial ones are skipped, `..` pops (None when there is nothing to pop), names push *)
Fixpoint walk (stack : list text) (cs : list text) : option (list text) :=
  match cs with
  | [] => Some stack
  | c :: r =>
      if trivial c then walk stack r
      else if text_eqb c dotdot then match stack with [] => None | _ :: s => walk s r end
      else walk (c :: stack) r
  end.

(* reference normaliser.  None = rejected.
   - `<std>/...` names the built-in library entry verbatim and may not contain `..`;
   - a path with no proper component names nothing;
   - a leading separator restarts at the root of the project (the working directory);
   - otherwise the path is taken from the directory of the containing file;
   - `..` may never pop past the start. *)
Definition spec_navigate (cur rel : text) : option text :=
  if is_std_path rel then
    if existsb (fun c => text_eqb c dotdot) (components rel) then None else Some rel
  else if forallb trivial (components rel) then None
  else
    match (if absolute rel then Some [] else walk [] (dir_components cur)) with
    | None => None
    | Some st =>
        match walk st (components rel) with
        | None => None
        | Some [] => None
        | Some st' =>
            Some ((if absolute cur && negb (absolute rel) then [c_slash] else []) ++ join (rev st'))
        end
    end.

(* --- confinement ------------------------------------------------------------------------- *)
(* a name that cannot leave the directory it is interpreted in: relative, no `..`, no empty component *)
Definition no_escape (p : text) : bool :=
  negb (absolute p) &&
  forallb (fun c => negb (is_empty c) && negb (text_eqb c dotdot)) (components p).
(* and fully normalised: no `.` either *)
Definition confined (p : text) : bool :=
  no_escape p && forallb (fun c => negb (text_eqb c dot)) (components p).

(* hypothesis of the reference-normaliser theorem: no `.` component in the directory part of the
   containing file's name (a `.` there is consumed by a later `..`: finding) *)
Definition no_dot_dir (cur : text) : bool :=
  forallb (fun c => negb (text_eqb c dot)) (dir_components cur).

(* --- declarative include expansion ---------------------------------------------------------
   Exp fs name once out once' : expanding file `name` when the once-set is `once` yields the node
   ids `out` and the once-set `once'`.  A file in the once-set contributes nothing; otherwise its
   items are taken in order, an Include being replaced, at its position, by the expansion of the
   file it names (relative to the including file), every time. *)
Section Exp.
Variable fs : text -> option file.

Inductive Exp : text -> list text -> list N -> list text -> Prop :=
| ExpSkip : forall name once, mem name once = true -> Exp name once [] once
| ExpFile : forall name once items out once',
    mem name once = false -> fs name = Some items ->
    ExpItems name items (if existsb is_once items then name :: once else once) out once' ->
    Exp name once out once'
with ExpItems : text -> list item -> list text -> list N -> list text -> Prop :=
| ExpNil : forall cur once, ExpItems cur [] once [] once
| ExpOther : forall cur id r once out once',
    ExpItems cur r once out once' -> ExpItems cur (Other id :: r) once (id :: out) once'
| ExpOnce : forall cur r once out once',
    ExpItems cur r once out once' -> ExpItems cur (Once :: r) once out once'
| ExpInclude : forall cur p r inc once out1 once1 out2 once2,
    navigate cur p = ROk inc ->
    Exp inc once out1 once1 ->
    ExpItems cur r once1 out2 once2 ->
    ExpItems cur (Include p :: r) once (out1 ++ out2) once2.
End Exp.

(* graph vocabulary for the cycle theorem *)
Definition edge (fs : text -> option file) (a b : text) : Prop :=
  exists items p, fs a = Some items /\ In (Include p) items /\ navigate a p = ROk b.
Definition once_free (fs : text -> option file) (a : text) : Prop :=
  exists items, fs a = Some items /\ existsb is_once items = false.
Definition has_once (fs : text -> option file) (a : text) : Prop :=
  exists items, fs a = Some items /\ existsb is_once items = true.
