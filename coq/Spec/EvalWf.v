(* Well-formedness invariant of the expression evaluator (C05): every sized non-negative integer fits its size,
   every text is made of Unicode scalar values.  Declarative definitions only. *)
From Coq Require Import ZArith NArith List Bool.
From CA Require Import Model.Lexer Model.Parser Model.Literal Model.BigIntOps Model.Evaluator Spec.Sem.
Import ListNotations.

(* a text of valid Unicode scalar values (what a Rust `str` can hold) *)
Definition scalar_text (s : text) : Prop := Forall (fun c => is_scalar c = true) s.

Definition wf_value (v : value) : Prop :=
  match v with VInt b => wf b | VStr s _ => scalar_text s | _ => True end.
Definition wf_ctx (c : locals) : Prop := Forall (fun kv => wf_value (snd kv)) c.
(* the variable provider (symbols of the assembly) only hands out well-formed values *)
Definition wf_pvar (pvar : N -> list text -> eres value) : Prop :=
  forall l p v, pvar l p = EOk v -> wf_value v.

(* every sized number literal fits its size; every string literal is a text of scalar values *)
Fixpoint wf_expr (e : expr) : Prop :=
  match e with
  | ENum v (Some s) => (Z.of_N v < 2 ^ Z.of_N s)%Z
  | ENum _ None => True
  | EBool _ => True
  | EStr raw => scalar_text raw
  | EVar _ _ => True
  | EUn _ a => wf_expr a
  | EBin _ a b => wf_expr a /\ wf_expr b
  | ETern c t f => wf_expr c /\ wf_expr t /\ wf_expr f
  | ESlice l r a => wf_expr l /\ wf_expr r /\ wf_expr a
  | EShort s a => wf_expr s /\ wf_expr a
  | EBlock es => (fix all (es : list expr) : Prop := match es with [] => True | x :: r => wf_expr x /\ all r end) es
  | ECall f args => wf_expr f /\
      (fix all (es : list expr) : Prop := match es with [] => True | x :: r => wf_expr x /\ all r end) args
  end.
Definition wf_exprs (es : list expr) : Prop := Forall wf_expr es.
