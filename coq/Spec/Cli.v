(* C18 — what the usage text promises, as short executable predicates over the tables regenerated from
   src/usage_help.md (the cli_usage_ definitions) and over a declarative reading of a format string.
   Nothing here mentions the driver's algorithm (maps, loops, removal): a format string is read as
   name , parameter* ; a parameter is id or id:value ; the LAST spelling of an id counts. *)
From Coq Require Import ZArith NArith List Bool String Ascii.
From CA Require Import Model.CliTables Model.Driver.
Import ListNotations.
Open Scope N_scope.
Open Scope list_scope.

(* ---- the reading of the usage text that cannot be generated: which formatter a documented name stands for *)
Definition documented_formats : list (text * text) := Eval vm_compute in map (fun p => (txt (fst p), txt (snd p))) [
  ("binary", "Binary"); ("annotated", "Annotated"); ("annotatedbin", "Annotated");
  ("binstr", "BinStr"); ("hexstr", "HexStr"); ("bindump", "BinDump"); ("hexdump", "HexDump");
  ("mif", "Mif"); ("intelhex", "IntelHex");
  ("deccomma", "DecComma"); ("hexcomma", "HexComma"); ("decspace", "DecSpace"); ("hexspace", "HexSpace");
  ("decc", "DecC"); ("hexc", "HexC"); ("logisim8", "LogiSim8"); ("logisim16", "LogiSim16");
  ("addrspan", "AddressSpan"); ("tcgame", "TCGame"); ("tcgamebin", "TCGame");
  ("symbols", "Symbols"); ("mesen-mlb", "SymbolsMesenMlb")
]%string.

(* names the driver accepts although the usage text does not list them (each an alias of a documented format) *)
Definition undocumented_aliases : list (text * text) :=
  Eval vm_compute in map (fun p => (txt (fst p), txt (snd p))) [("annotatedhex", "annotated"); ("c", "hexc")]%string.

(* the value sets of the parameters (usage text: "Supports base 2 and 16" for tcgame; the others from the
   design's reading: base a power of two up to 128, group 1..65535 = what the formatter can lay out,
   addr_unit 8/16/32) *)
Definition s_group : text := Eval vm_compute in txt "group".
Definition s_addr_unit : text := Eval vm_compute in txt "addr_unit".
Definition s_base : text := Eval vm_compute in txt "base".
Definition s_tcgame : text := Eval vm_compute in txt "tcgame".
Definition documented_set (format param : text) : option cli_validator :=
  if text_eqb param s_group then Some (CliRange 1 65535)
  else if text_eqb param s_addr_unit then Some (CliSet [8; 16; 32])
  else if text_eqb param s_base then
    (if text_eqb format s_tcgame then Some (CliSet [2; 16]) else Some (CliSet [2; 4; 8; 16; 32; 64; 128]))
  else None.

(* extensions of derived file names *)
Definition s_Binary : text := Eval vm_compute in txt "Binary".
Definition s_Mlb : text := Eval vm_compute in txt "SymbolsMesenMlb".
Definition s_bin : text := Eval vm_compute in txt "bin".
Definition s_mlb : text := Eval vm_compute in txt "mlb".
Definition s_txt : text := Eval vm_compute in txt "txt".
Definition documented_extension (ctor : text) : text :=
  if text_eqb ctor s_Binary then s_bin else if text_eqb ctor s_Mlb then s_mlb else s_txt.

(* ---- rendering a format string the way the usage text prints it *)
Fixpoint dec_rev (fuel : nat) (n : N) : text :=
  match fuel with
  | O => []
  | S k => if n <? 10 then [48 + n] else (48 + n mod 10) :: dec_rev k (n / 10)
  end.
Definition dec (n : N) : text := rev (dec_rev (S (N.to_nat (N.log2 n))) n).

Definition render_param (p : text * N) : text := fst p ++ 58 :: dec (snd p).
Fixpoint render_params (ps : list (text * N)) : text :=
  match ps with [] => [] | p :: r => 44 :: render_param p ++ render_params r end.
Definition render (name : text) (ps : list (text * N)) : text := name ++ render_params ps.

(* all sub-lists (order kept): "with or without the extra parameters" *)
Fixpoint sublists {A} (l : list A) : list (list A) :=
  match l with [] => [[]] | x :: r => map (cons x) (sublists r) ++ sublists r end.

Definition fmt_eqb (a b : fmt) : bool :=
  text_eqb (f_ctor a) (f_ctor b) && text_eqb (f_fields a) (f_fields b).
Definition selects (s : text) (f : fmt) : bool :=
  match parse_output_format s with COk g => fmt_eqb g f | _ => false end.

(* documented value of parameter p after the overrides `given` *)
Definition override (given : list (text * N)) (p : text * N) : N :=
  match lookup (fst p) given with Some v => v | None => snd p end.

(* one entry of the Formats section: accepted with every subset of its parameters, selecting the documented
   formatter with the documented defaults; a `Same as` entry equals its target; every value of a documented
   set is accepted and arrives in the format *)
Definition usage_entry_ok (e : text * list (text * N) * option (text * list (text * N)) * list (text * list N)) : bool :=
  let '(name, params, same, sets) := e in
  match lookup name documented_formats with
  | None => false
  | Some ctor =>
    match same with
    | None =>
      forallb (fun given => selects (render name given) {| f_ctor := ctor; f_fields := map (override given) params |})
              (sublists params)
    | Some (tname, tparams) =>
      match params, parse_output_format name, parse_output_format (render tname tparams) with
      | [], COk a, COk b => fmt_eqb a b && text_eqb (f_ctor a) ctor && text_eqb (f_fields a) (map snd tparams)
      | _, _, _ => false
      end
    end
    && forallb (fun ps => forallb (fun v =>
         selects (render name [(fst ps, v)]) {| f_ctor := ctor; f_fields := map (override [(fst ps, v)]) params |}) (snd ps)) sets
  end.

(* an example of the Format Usage section *)
Definition usage_example_ok (x : text * list (text * N)) : bool :=
  let (name, given) := x in
  match lookup name documented_formats,
        find (fun e => text_eqb (fst (fst (fst e))) name) cli_usage_formats with
  | Some ctor, Some (_, params, _, _) =>
    selects (render name given) {| f_ctor := ctor; f_fields := map (override given) params |}
    && forallb (fun g => existsb (fun p => text_eqb (fst p) (fst g)) params) given
  | _, _ => false
  end.

(* ---- the driver's tables against the documented ones *)
Definition validator_eqb (a b : cli_validator) : bool :=
  match a, b with
  | CliRange l h, CliRange l' h' => (l =? l') && (h =? h')
  | CliSet x, CliSet y => text_eqb x y
  | _, _ => false
  end.

Definition field_documented (name : text) (f : cli_field) : bool :=
  match f with
  | CliConst _ => true
  | CliArg p _ vn =>
    match lookup vn cli_validators, documented_set name p with
    | Some v, Some d => validator_eqb v d
    | _, _ => false
    end
  end.
Definition arm_documented (a : arm) : bool := forallb (field_documented (fst (fst a))) (snd a).

(* every name the driver knows is documented, or is a listed alias that builds exactly what its target builds *)
Definition arm_named (a : arm) : bool :=
  let name := fst (fst a) in
  existsb (fun e => text_eqb (fst (fst (fst e))) name) cli_usage_formats
  || match lookup name undocumented_aliases with
     | Some target =>
       match parse_output_format name, parse_output_format target with
       | COk x, COk y => fmt_eqb x y
       | _, _ => false
       end
     | None => false
     end.

Definition extension_documented (v : text * list text) : bool :=
  text_eqb (extension_of cli_extensions cli_default_extension {| f_ctor := fst v; f_fields := [] |})
           (documented_extension (fst v))
  && negb (existsb (N.eqb 92) (documented_extension (fst v))).

(* ---- declarative validity of a format string (used as the spec predicate on the implementation's answers) *)
Definition pieces (p : text) : list text := split_on 58 p.
Definition id_of (p : text) : text := match pieces p with id :: _ => id | [] => [] end.
Definition value_of (p : text) : text := match pieces p with [_; v] => v | _ => [] end.
(* the last parameter spelled with this id *)
Definition last_spelling (id : text) (ps : list text) : option text :=
  find (fun p => text_eqb (id_of p) id) (rev ps).

Definition spec_field (name : text) (ps : list text) (f : cli_field) : option N :=
  match f with
  | CliConst n => Some n
  | CliArg p def _ =>
    match last_spelling p ps with
    | None => Some def
    | Some sp =>
      match parse_usize (value_of sp), documented_set name p with
      | Some v, Some d => if validate d v then Some v else None
      | _, _ => None
      end
    end
  end.

Fixpoint all_some {A} (l : list (option A)) : option (list A) :=
  match l with
  | [] => Some []
  | Some a :: r => match all_some r with Some r' => Some (a :: r') | None => None end
  | None :: _ => None
  end.

Definition arm_params (a : arm) : list text :=
  flat_map (fun f => match f with CliArg p _ _ => [p] | CliConst _ => [] end) (snd a).

(* Some format = the string is acceptable and means this; None = it must be rejected *)
Definition spec_format (s : text) : option fmt :=
  match split_on 44 s with
  | [] => None
  | fid :: ps =>
    match find_arm cli_arms fid with
    | None => None
    | Some a =>
      if forallb (fun p => (List.length (pieces p) <=? 2)%nat) ps
         && forallb (fun p => existsb (text_eqb (id_of p)) (arm_params a)) ps
      then match all_some (map (spec_field (fst (fst a)) ps) (snd a)) with
           | Some fields => Some {| f_ctor := snd (fst a); f_fields := fields |}
           | None => None
           end
      else None
    end
  end.

(* ---- global options: the last group that spells an option decides it *)
Fixpoint last_given {A} (f : pgroup -> option A) (gs : list pgroup) : option A :=
  match gs with
  | [] => None
  | g :: r => match last_given f r with Some x => Some x | None => f g end
  end.

(* ---- a group's decision as a function of its own options and of the first input name only *)
Definition group_decision (T : tables) (first : option text) (g : pgroup) : cres cgroup :=
  cbind (match pg_format g with
         | None => COk None
         | Some s => cbind (parse_output_format_with (t_arms T) (t_vals T) s) (fun f => COk (Some f))
         end) (fun f =>
  finish_group T first {| cg_format := f; cg_print := pg_print g; cg_output := pg_output g |}).

Definition ends_with (s suffix : text) : Prop := exists front, s = front ++ suffix.

(* every documented value of every parameter, spelled alone: name,param:value *)
Fixpoint enum_from (count : nat) (lo : N) : list N :=
  match count with O => [] | S k => lo :: enum_from k (lo + 1) end.
Definition enum_validator (v : cli_validator) : list N :=
  match v with
  | CliSet l => l
  | CliRange lo hi => enum_from (N.to_nat (hi + 1 - lo)) lo
  end.
Fixpoint defaults_of (fs : list cli_field) : list N :=
  match fs with [] => [] | CliConst n :: r => n :: defaults_of r | CliArg _ d _ :: r => d :: defaults_of r end.
Fixpoint set_nth (i : nat) (v : N) (l : list N) : list N :=
  match l, i with
  | [], _ => []
  | _ :: r, O => v :: r
  | x :: r, S j => x :: set_nth j v r
  end.
Definition arm_values_accepted (a : arm) : bool :=
  let '(name, ctor, fs) := a in
  forallb (fun ifld =>
    match snd ifld with
    | CliConst _ => true
    | CliArg p _ _ =>
      match documented_set name p with
      | None => false
      | Some d => forallb (fun v => selects (render name [(p, v)])
                                            {| f_ctor := ctor; f_fields := set_nth (fst ifld) v (defaults_of fs) |})
                          (enum_validator d)
      end
    end) (combine (seq 0 (List.length fs)) fs).

(* ---- what an accepted format string must look like (declarative; `vals` = the validators) *)
Definition field_params (fs : list cli_field) : list text :=
  flat_map (fun f => match f with CliArg p _ _ => [p] | CliConst _ => [] end) fs.

Definition field_spec (vals : list (text * cli_validator)) (ps : list text) (f : cli_field) (v : N) : Prop :=
  match f with
  | CliConst n => v = n
  | CliArg p def vn =>
    match last_spelling p ps with
    | None => v = def                                     (* parameter not given: the default *)
    | Some sp => exists vd, lookup vn vals = Some vd /\ parse_usize (value_of sp) = Some v /\ validate vd v = true
    end
  end.

Fixpoint nodupb (l : list text) : bool :=
  match l with [] => true | x :: r => negb (existsb (text_eqb x) r) && nodupb r end.

(* like field_spec, against the documented sets instead of the driver's own validators *)
Definition field_spec_doc (name : text) (ps : list text) (f : cli_field) (v : N) : Prop :=
  match f with
  | CliConst n => v = n
  | CliArg p def _ =>
    match last_spelling p ps with
    | None => v = def
    | Some sp => exists d, documented_set name p = Some d /\ parse_usize (value_of sp) = Some v /\ validate d v = true
    end
  end.

Definition s_Annotated : text := Eval vm_compute in txt "Annotated".
Definition default_valid (a : arm) : bool :=
  forallb (fun f => match f with
                    | CliConst _ => true
                    | CliArg _ d vn => match lookup vn cli_validators with Some v => validate v d | None => false end
                    end) (snd a).
Definition option_documented (o : text * text * text * text) : bool :=
  let '(short, long, _, _) := o in
  existsb (fun u => text_eqb (fst (fst u)) short && text_eqb (snd (fst u)) long) cli_usage_options.
Definition option_implemented (u : text * text * text) : bool :=
  let '(short, long, _) := u in
  existsb (fun o => let '(s, l, _, _) := o in text_eqb s short && text_eqb l long) cli_opts.
