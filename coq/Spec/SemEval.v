(* The evaluator instantiated with the closed mathematical forms of the primitives: this is the executable
   meaning of an expression that the implementation's answers are compared with. *)
From Coq Require Import ZArith NArith List.
From CA Require Import Model.BigIntOps Model.Evaluator Spec.Sem.
Definition math_ops : ops :=
  {| op_slice := sem_slice; op_concat := sem_concat; op_not := sem_not; op_le := sem_le |}.
