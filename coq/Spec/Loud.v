(* C03 — what "loud failure, clean success" means for the shape model, and what is ASSUMED of the abstract phases.
   Short declarative definitions only. *)
From Coq Require Import NArith List Bool.
From CA Require Import Model.Driver Model.TopShape.
Import ListNotations.

Section Obligations.
Variable St : Type.
Variable sem : pkind -> St -> report -> option St * report.

(* L1..L13 of TopShape.phase_obligations: a phase that returns Err(()) leaves a report that holds an error
   (it pushed one, or - the phases that end in report.stop_at_errors() - one was there); `has_error` = an error at ANY depth of a
   top-level message: what is printed as `error:`, possibly under a `note:` header *)
Definition loud_on_err : Prop :=
  forall k s r pushed, k <> PStopAtErrors -> sem k s r = (None, pushed) -> has_error (r ++ pushed) = true.

(* Q1..Q3: the phases that run after the last stop_at_errors()? push no error when they return Ok *)
Definition quiet_on_ok : Prop :=
  forall k s r s' pushed, quiet_kind k = true -> sem k s r = (Some s', pushed) -> has_error pushed = false.

(* defs::init() has no Result *)
Definition infallible_ok : Prop :=
  forall k s r pushed, infallible k = true -> sem k s r <> (None, pushed).

(* T1: a phase that returns Ok has pushed errors only as top-level Errors (what stop_at_errors can see) *)
Definition top_on_continue : Prop :=
  forall k s r s' pushed, k <> PStopAtErrors -> sem k s r = (Some s', pushed) -> well_topped pushed = true.

Definition obligations : Prop := loud_on_err /\ quiet_on_ok /\ infallible_ok /\ top_on_continue.
End Obligations.

(* the two normal ends of asm::assemble *)
Definition clean_success (a : aresult) (r : report) : Prop :=
  r_output a = true /\ r_error a = false /\ has_error r = false /\ r_decls a = true /\ r_defs a = true /\ r_iter a = true.
Definition loud_failure (a : aresult) (r : report) : Prop :=
  r_output a = false /\ r_error a = true /\ has_error r = true.
