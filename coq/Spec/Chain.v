(* C01_complete: the budget a size-static program needs.  An abstract run of the resolver's passes on "which symbols
   are certainly right": a label is right once its pass has walked over it; a constant is right once everything its
   expression (syntactically) reads is right at the moment the pass reaches it.  `sym_passes` = number of passes
   after which every symbol is right (>= 1); `chain` = sym_passes - 1 (0 for programs whose constants never read a
   later declaration); `budget_bound` = 3 + chain: one pass for the labels (+ chain for the constants), one pass
   for the encodings, one pass that finds nothing changed.  None = the constants never settle syntactically.
   Executable definitions only. *)
From Coq Require Import NArith ZArith List Bool.
From CA Require Import Model.Lexer Model.Parser Model.Evaluator Model.Matcher Model.Resolver.
Import ListNotations.

(* every variable occurrence of an expression *)
Fixpoint expr_vars (e : expr) : list (N * list text) :=
  match e with
  | ENum _ _ | EBool _ | EStr _ => []
  | EVar l p => [(l, p)]
  | EUn _ a => expr_vars a
  | EBin _ a b => expr_vars a ++ expr_vars b
  | ETern c t f => expr_vars c ++ expr_vars t ++ expr_vars f
  | ESlice l r a => expr_vars l ++ expr_vars r ++ expr_vars a
  | EShort s a => expr_vars s ++ expr_vars a
  | EBlock es => (fix go (es : list expr) := match es with [] => [] | x :: r => expr_vars x ++ go r end) es
  | ECall f args => expr_vars f ++ (fix go (es : list expr) := match es with [] => [] | x :: r => expr_vars x ++ go r end) args
  end.

(* the symbol slots the program declares *)
Definition decl_ids (ns : list node) : list nat := flat_map (fun n => match n with NLabel s | NConst s _ => [s] | _ => [] end) ns.

Definition memb (i : nat) (l : list nat) : bool := if in_dec Nat.eq_dec i l then true else false.
Definition sym_known (ns : list node) (K : list nat) (s : nat) : bool := memb s K || negb (memb s (decl_ids ns)).
Definition reads_known (names : list text) (ns : list node) (K : list nat) (e : expr) : bool :=
  forallb (fun lp : N * list text =>
             match lp with
             | (0%N, [n]) => if text_eqb n s_dollar || text_eqb n s_pc then true
                             else match find_sym names n 0 with Some s' => sym_known ns K s' | None => true end
             | _ => true
             end) (expr_vars e).
Definition kstep (names : list text) (ns : list node) (K : list nat) (n : node) : list nat :=
  match n with
  | NLabel s => s :: K
  | NConst s e => if reads_known names ns K e then s :: K else remove Nat.eq_dec s K
  | _ => K
  end.
Definition kpass (names : list text) (ns : list node) (K : list nat) (l : list node) : list nat := fold_left (kstep names ns) l K.
Definition all_known (ns : list node) (K : list nat) : bool := forallb (fun s => memb s K) (decl_ids ns).
Fixpoint sym_passes_from (names : list text) (ns : list node) (fuel : nat) (K : list nat) (p : nat) : option nat :=
  match fuel with
  | O => None
  | S f => let K' := kpass names ns K ns in
           if all_known ns K' then Some (S p) else sym_passes_from names ns f K' (S p)
  end.
Definition sym_passes (names : list text) (ns : list node) : option nat := sym_passes_from names ns (S (length ns)) [] 0.
Definition chain (names : list text) (ns : list node) : option nat := option_map pred (sym_passes names ns).
Definition budget_bound (names : list text) (ns : list node) : option nat := option_map (fun c => 3 + c)%nat (chain names ns).
(* total version: where the syntactic analysis gives up, length ns + 5 passes always suffice *)
Definition budget_total (names : list text) (ns : list node) : nat :=
  match budget_bound names ns with Some b => b | None => length ns + 5 end.
