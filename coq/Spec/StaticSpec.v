(* Vocabulary of the statements about the static-value analysis (C08, static half). *)
From Coq Require Import NArith ZArith List Bool.
Import ListNotations.
From CA Require Import Model.Lexer Model.Parser Model.Literal Model.BigIntOps Model.Evaluator Model.Matcher Model.Resolver
  Model.StaticKnown Model.ResolverS.
Open Scope Z_scope.

Definition provider := N -> list text -> eres value.

(* two variable providers (resolver state + position + pass mode, or the pre-pass provider) give the same answer for every
   variable the analysis calls known *)
Definition pv_agree (G : N -> list text -> bool) (pv pv' : provider) : Prop :=
  forall l p, G l p = true -> pv l p = pv' l p.

(* ... and for the names of the asm built-in functions incbin / incbinstr / inchexstr, which this fragment does not
   evaluate (the model's providers answer "no such symbol" for them when no symbol is so named) *)
Definition asm_agree (pv pv' : provider) : Prop :=
  forall n, known_asm_builtin n = true -> pv 0%N [n] = pv' 0%N [n].

(* every parameter the analysis calls known is bound in the evaluation context (or is the name of a built-in function,
   which the evaluator resolves first) *)
Definition covers (L : list (text * bool)) (ctx : locals) : Prop :=
  forall n, lookupb L n = Some true -> is_builtin n = true \/ lookup ctx n <> None.

(* no symbol of the program is named like an asm built-in function (finding F54 allows such declarations; they are
   outside the fragment of the model, whose lookup would find the symbol where the code finds the function) *)
Definition reserved_free (names : list text) : Prop :=
  forall n, known_asm_builtin n = true -> find_sym names n 0 = None.

(* no call of an asm built-in function (a file inclusion) anywhere in an expression *)
Fixpoint asm_call_free (e : expr) {struct e} : bool :=
  match e with
  | ENum _ _ | EBool _ | EStr _ | EVar _ _ => true
  | EUn _ a => asm_call_free a
  | EBin _ a b => asm_call_free a && asm_call_free b
  | ETern c t f => asm_call_free c && asm_call_free t && asm_call_free f
  | ESlice l r a => asm_call_free l && asm_call_free r && asm_call_free a
  | EShort s a => asm_call_free s && asm_call_free a
  | EBlock es => (fix all (es : list expr) : bool := match es with [] => true | x :: r => asm_call_free x && all r end) es
  | ECall f args =>
    (match f with EVar 0%N [n] => negb (known_asm_builtin n) | _ => true end) && asm_call_free f &&
    (fix all (es : list expr) : bool := match es with [] => true | x :: r => asm_call_free x && all r end) args
  end.

(* the constants of the program do not include files (the pre-pass provider of the model answers Unknown for such a
   call where the code's pre-pass does too, but the model's main passes cannot evaluate it) *)
Definition consts_asm_free (ns : list node) : Prop :=
  forall s e, In (NConst s e) ns -> asm_call_free e = true.

(* the node list is numbered the way the front end numbers it: one node per symbol index, instruction / data /
   reservation / alignment / address items numbered 0, 1, 2 ... in program order *)
Definition sids (ns : list node) : list nat :=
  flat_map (fun n => match n with NLabel s => [s] | NConst s _ => [s] | _ => [] end) ns.
Definition iids (ns : list node) : list nat := flat_map (fun n => match n with NInstr i _ => [i] | _ => [] end) ns.
Definition dids (ns : list node) : list nat := flat_map (fun n => match n with NData _ el => map fst el | _ => [] end) ns.
Definition canonical (nsyms : nat) (ns : list node) : Prop :=
  NoDup (sids ns) /\ (forall s, In s (sids ns) -> (s < nsyms)%nat) /\ dids ns = seq 0 (length (dids ns)) /\ NoDup (iids ns).

(* what the matcher produces: an expression argument sits at a parameter of integer / unspecified type, a nested match at
   a parameter of sub-rule type, one argument per parameter (Proofs/StaticKnownP.v: matcher_kinded) *)
Fixpoint match_kinded (defs : list ruledef) (m : imatch) {struct m} : bool :=
  match m with
  | IMatch rd ru args _ =>
    match get_rule defs rd ru with
    | None => true
    | Some r =>
      (fix go (args : list iarg) (params : list (text * pty)) : bool :=
         match args, params with
         | AExpr _ _ _ _ :: ar, (_, pt) :: pr => match pt with TyRule _ => false | _ => true end && go ar pr
         | ANested n _ _ _ :: ar, (_, pt) :: pr => match pt with TyRule _ => true | _ => false end && match_kinded defs n && go ar pr
         | [], [] => true
         | _, _ => false
         end) args (rparams r)
    end
  end.

(* every statically known data element passes the checks of its directive (fits the directive's width / has a definite
   size).  An element that does not is an error in the first pass under either setting of the switch. *)
Definition elem_checked (w : option N) (b : bigint) : bool :=
  match w with
  | Some w => negb (size_or_min b >? Z.of_N w)
  | None => match bsz b with Some _ => true | None => false end
  end.
Definition elem_strict_ok (w : option N) (e : expr) : bool :=
  match eval code_ops dummy_var e [] with
  | EOk (v, _) => match expect_error_or_bigint v with
                  | EOk (VInt b) => elem_checked w b
                  | EOk _ => false
                  | EErr => true
                  end
  | EErr => true
  end.
Definition data_static_ok (ns : list node) : Prop :=
  forall w elems d e, In (NData w elems) ns -> In (d, e) elems -> data_known e = true -> elem_strict_ok w e = true.

(* every candidate match of every instruction of the program has the shape the matcher produces
   (Proofs/MatcherKindP.v derives this from parse_defs) *)
Definition matches_kinded (indexed : bool) (defs : list ruledef) (ns : list node) : Prop :=
  forall i src m, In (NInstr i src) ns -> In m (match_instr indexed defs src) -> match_kinded defs m = true.

(* data_static_ok as a boolean *)
Definition data_static_okb (ns : list node) : bool :=
  forallb (fun n => match n with
                    | NData w el => forallb (fun de => negb (data_known (snd de)) || elem_strict_ok w (snd de)) el
                    | _ => true
                    end) ns.
