(* Declarative meaning of a number literal (C05): the digit list without `_` separators, most significant first,
   denotes the positional sum  Σ dᵢ·rⁱ ; power-of-two radices give the size #digits × bits-per-digit. *)
From Coq Require Import NArith List Bool.
From CA Require Import Model.Lexer Model.Parser.
Import ListNotations.
Open Scope N_scope.

(* the digit values of a literal body: `_` is skipped, 0-9 a-z A-Z are digits 0..35, anything else is no digit *)
Fixpoint digit_list (t : text) : option (list N) :=
  match t with
  | [] => Some []
  | c :: r => if c =? 95 then digit_list r
              else match digit_val c, digit_list r with
                   | Some d, Some ds => Some (d :: ds)
                   | _, _ => None
                   end
  end.

(* Σ dᵢ·rⁱ over a digit list given least significant first *)
Fixpoint positional (r : N) (ds : list N) : N :=
  match ds with [] => 0 | d :: rest => d + r * positional r rest end.
(* digits as written (most significant first) *)
Definition value_of_digits (r : N) (ds : list N) : N := positional r (rev ds).

Definition bits_per_digit (radix : N) : option N :=
  if radix =? 2 then Some 1 else if radix =? 8 then Some 3 else if radix =? 16 then Some 4 else None.

(* what a literal body means in a radix: rejected if a character is no digit, a digit is >= radix, or no digit at all *)
Definition literal_spec (radix : N) (body : text) : option (N * option N) :=
  match digit_list body with
  | Some ds =>
    if forallb (fun d => d <? radix) ds && negb (N.of_nat (length ds) =? 0)
    then Some (value_of_digits radix ds,
               match bits_per_digit radix with Some k => Some (k * N.of_nat (length ds)) | None => None end)
    else None
  | None => None
  end.

(* the radix prefixes *)
Definition split_prefix (t : text) : N * text :=
  match t with
  | c :: r =>
    if c =? 37 then (2, r) else if c =? 36 then (16, r)
    else if c =? 48 then
      match r with
      | c2 :: r2 => if c2 =? 98 then (2, r2) else if c2 =? 111 then (8, r2) else if c2 =? 120 then (16, r2) else (10, t)
      | [] => (10, t)
      end
    else (10, t)
  | [] => (10, t)
  end.
Definition has_prefix (t : text) : bool := negb (fst (split_prefix t) =? 10).
