(* C10 — declarative side: what "the same container contents in another iteration order" means for the nested symbol
   table, well-formedness of declaration indices, and the hand-written lists the regenerated inventory is checked against. *)
From Coq Require Import NArith ZArith List Bool Permutation String.
From CA Require Import Model.HashOrder.
Import ListNotations.

(* the same declaration tree, every children map enumerated in some other order *)
Inductive sperm : sdecl -> sdecl -> Prop :=
| SPerm : forall i v k l k',
    Forall2 (fun a b => fst a = fst b /\ sperm (snd a) (snd b)) k l ->
    Permutation l k' ->
    sperm (SDecl i v k) (SDecl i v k').
Definition kperm (k k' : list (text * sdecl)) : Prop :=
  exists l, Forall2 (fun a b => fst a = fst b /\ sperm (snd a) (snd b)) k l /\ Permutation l k'.

(* ItemRef indices of the children of one declaration are pairwise distinct, at every level (SymbolManager::declare hands
   out decls.len(), see declare_child_fresh) *)
Fixpoint swf (d : sdecl) : Prop :=
  match d with
  | SDecl _ _ k =>
      NoDup (map (fun c => sd_index (snd c)) k) /\
      (fix all (l : list (text * sdecl)) : Prop := match l with [] => True | c :: r => swf (snd c) /\ all r end) k
  end.
Definition kwf (k : list (text * sdecl)) : Prop :=
  NoDup (map (fun c => sd_index (snd c)) k) /\ Forall (fun c => swf (snd c)) k.

(* ---- the inventory lists (see Gen c10_uses / c10_ambient, regenerated from /repo/src on every run) ------------------ *)
Open Scope string_scope.
Definition site := (string * string * string * string)%type.     (* file, function, kind, hash of the code read *)
Definition site_eqb (a b : site) : bool :=
  match a, b with
  | (f, fn, k, h), (f', fn', k', h') => String.eqb f f' && String.eqb fn fn' && String.eqb k k' && String.eqb h h'
  end.

(* every ITERATION of a hash container in the source, with the theorem of Props/C10.v that covers it.  The hash is that of
   the loop (or of the statement and every later line using its result) plus the helper items the argument rests on
   (tools/translate_c10.py DEPENDS): when any of that text changes, the site has to be read again. *)
Definition covered_sites : list (site * string) := [
  (("src/asm/resolver/eval_asm.rs", "resolve_once", "iter:for.iter", "c2d3d7190a7e6e8e"), "C10_site_asm_labels");
  (("src/expr/eval.rs", "hygienize_locals_for_asm_subst", "iter:for", "09cb10a8c122c65b"), "C10_site_hygienize_locals");
  (("src/expr/eval.rs", "hygienize_locals_for_asm_subst", "iter:for", "d136c2d2d115e5d8"), "C10_site_hygienize_token_substs");
  (("src/util/symbol_format.rs", "format_recursive", "iter:iter", "b2aee4f877fc3754"), "C10_site_symbol_children")
].

(* places where a hash container is handed on whole (argument / returned reference); each receiver is a declared hash
   parameter or binding whose uses are inventoried in turn *)
Definition allowed_pass : list site := [
  ("src/asm/parser/mod.rs", "parse_many_and_resolve_includes", "pass", "c5760be43c98daaa");  (* &mut once_filenames)?; *)
  ("src/asm/parser/mod.rs", "parse_and_resolve_includes", "pass", "676bf69e4f33a495");       (* once_filenames)?; *)
  ("src/asm/resolver/eval_asm.rs", "eval_asm", "pass", "3e24940b11dc8493");                  (* &mut labels) *)
  ("src/asm/resolver/eval_asm.rs", "resolve_iteratively", "pass", "e6fa96f70fd3d1be");       (* labels,  (twice) *)
  ("src/util/symbol_format.rs", "format", "pass", "624868aea9c9ccb3");                       (* &self.globals, *)
  ("src/util/symbol_format.rs", "format_recursive", "pass", "828ad7bd6a4899df");             (* &symbol_decl.children, *)
  ("src/util/symbol_manager.rs", "get_children", "pass", "d3fa6c3dd553427c");                (* Some(parent_ref) => &self.get(parent_ref).children, *)
  ("src/util/symbol_manager.rs", "get_children", "pass", "2224c663c1071f5d");                (* None => &self.globals, *)
  ("src/util/symbol_manager.rs", "get_children_mut", "pass", "362ca91282794bbb");            (* Some(parent_ref) => &mut self.get_mut(parent_ref).children, *)
  ("src/util/symbol_manager.rs", "get_children_mut", "pass", "1d049ee99dfeaf89")             (* None => &mut self.globals, *)
].

(* declarations and point operations: the result of none of them depends on the hasher (C10_point_* theorems) *)
Definition order_free_kinds : list string := [
  "decl:HashMap"; "decl:HashSet"; "point:get"; "point:get_mut"; "point:insert"; "point:remove"; "point:contains";
  "point:contains_key"; "point:len"; "point:is_empty"; "point:entry"; "point:clear"
].

Definition use_ok (u : site) : bool :=
  match u with
  | (_, _, kind, _) =>
      if String.prefix "iter:" kind then existsb (fun c => site_eqb u (fst c)) covered_sites
      else if String.eqb kind "pass" then existsb (site_eqb u) allowed_pass
      else existsb (String.eqb kind) order_free_kinds
  end.

(* ambient state found in the source, all of it justified here:
   - `static` items: immutable tables and constants (no `static mut`, no interior mutability anywhere);
   - std::env::args_os in main: the command line IS the input;
   - `unsafe`: the extern declaration of SetConsoleMode in windows_console.rs (cfg(windows) console set-up);
   - {:?} formatting: of BigInt / Value / Option<usize> under --debug-iters, of Span / file handle (numbers) for the
     de-duplication key of report.rs and Span's Debug; none of a type containing a hash container
     (since fix f8a4217 the --debug-iters traces go through `debug_println!`, same arguments: hashes re-reviewed). *)
Definition allowed_ambient : list site := [
  ("src/asm/matcher/mod.rs", "match_all", "debug-format", "9b46b37c933b34f3");
  ("src/asm/resolver/addr.rs", "resolve_addr", "debug-format", "29d48a7d38509957");
  ("src/asm/resolver/align.rs", "resolve_align", "debug-format", "f1dccbf0d3d234da");
  ("src/asm/resolver/constant.rs", "resolve_constant_simple", "debug-format", "ced5a9d73b0c5c07");
  ("src/asm/resolver/constant.rs", "resolve_constant_simple", "debug-format", "3d951ba3da5c618f");
  ("src/asm/resolver/constant.rs", "resolve_constant", "debug-format", "ced5a9d73b0c5c07");
  ("src/asm/resolver/constant.rs", "resolve_constant", "debug-format", "3d951ba3da5c618f");
  ("src/asm/resolver/data_block.rs", "resolve_data_element", "debug-format", "1fab5baeebc68c9d");
  ("src/asm/resolver/data_block.rs", "resolve_data_element", "debug-format", "f19fed28112e74b8");
  ("src/asm/resolver/instruction.rs", "resolve_instruction", "debug-format", "7165e4c5012ea28e");
  ("src/asm/resolver/instruction.rs", "resolve_instruction", "debug-format", "7cc41d98870cf3ee");
  ("src/asm/resolver/iter.rs", "new", "static", "ff9beddd69c72aeb");               (* static GLOBAL_SYMBOL_CTX: util::SymbolContext = *)
  ("src/asm/resolver/iter.rs", "next_simple", "static", "44032a11018d87e1");       (* static DUMMY_BANK_DATA: BankData = BankData { *)
  ("src/asm/resolver/label.rs", "resolve_label", "debug-format", "3f9c5630c3c928b4");
  ("src/asm/resolver/res.rs", "resolve_res", "debug-format", "fe2f095d2b78191d");
  ("src/diagn/report.rs", "wrap_in_parents_dedup", "debug-format", "5e7a11e3285520f4");
  ("src/diagn/span.rs", "fmt", "debug-format", "12cd1bd2169823b8");
  ("src/expr/eval.rs", "<struct EvalContext>", "static", "ab04cf62c070de5b");      (* static ASM_HYGIENIZE_PREFIX: &'static str = "__"; *)
  ("src/main.rs", "main", "environment", "f0347a4e84248a22");                      (* let args: Vec<String> = std::env::args_os()   (since fix 818a58b; before: std::env::args()) *)
  ("src/syntax/token.rs", "check_for_identifier", "static", "65d7a04c91696ef0");   (* static KEYWORDS: [(&str, TokenKind); 3] = *)
  ("src/syntax/token.rs", "check_for_special", "static", "7800be565b421669");      (* static TOKENS: [(&str, TokenKind); 40] = *)
  ("src/util/windows_console.rs", "SetConsoleMode", "unsafe", "629e3fc948fb5ca5")
].
(* what is excluded from the scan *)
Definition allowed_excluded : list string := ["src/build.rs"; "src/test"; "src/webasm"].
