(* Specification of lexical scoping as a tree walk (C15).

   The declarations of a program, in program order, form a FOREST.  A forest is a list of siblings in
   declaration order; every sibling has a name, an identity (its declaration index) and the forest of its
   children (first-child / next-sibling form, so that plain structural induction works).

   * A declaration with k leading dots becomes the LAST child of the most recent declaration with k-1
     dots, i.e. of the node at depth k-1 on the rightmost path of the forest (k = 0: a new root).  Any symbol
     - label or constant - opens a scope (DESIGN appendix B).  It is rejected when that node does not
     exist (a nesting level is skipped) or when it already has a child of that name (duplicate).
   * The scopes enclosing a program point are the nodes on the rightmost path of the forest of the
     declarations made so far (`enclosing`), outermost first.
   * A reference with k dots and dotted path p, at a point whose enclosing scopes are `encl`, is looked
     up in the FINAL forest (all declarations of the program, earlier and later alike): k = 0 descends p
     from the roots; k > 0 descends p from the children of the enclosing declaration at depth k-1,
     located by its identity.  Descending takes, at each step, the child with the given name.
   Nothing here mentions contexts of names, hash maps or item tables.  Executable. *)
From Coq Require Import NArith List Bool Arith.
From CA Require Import Model.Paths.
Import ListNotations.
Open Scope nat_scope.

Inductive forest :=
| FNil
| FCons (name : text) (id : nat) (kids : forest) (rest : forest).

(* the sibling called nm: its identity and its children *)
Fixpoint find_child (nm : text) (f : forest) : option (nat * forest) :=
  match f with
  | FNil => None
  | FCons n i k r => if text_eqb nm n then Some (i, k) else find_child nm r
  end.

(* descend a dotted path: the identity of the last component *)
Fixpoint descend (f : forest) (path : list text) : option nat :=
  match path with
  | [] => None
  | nm :: p =>
      match find_child nm f with
      | None => None
      | Some (i, k) => match p with [] => Some i | _ :: _ => descend k p end
      end
  end.

(* the children of the declaration with identity id, wherever it stands *)
Fixpoint subtree (id : nat) (f : forest) : option forest :=
  match f with
  | FNil => None
  | FCons _ i k r =>
      if Nat.eqb i id then Some k
      else match subtree id k with Some s => Some s | None => subtree id r end
  end.

Definition scope_resolve (final : forest) (encl : list nat) (k : nat) (path : list text) : option nat :=
  match k with
  | O => descend final path
  | S k' =>
      match nth_error encl k' with
      | None => None
      | Some id => match subtree id final with Some kids => descend kids path | None => None end
      end
  end.

(* the most recent sibling *)
Fixpoint last_sibling (f : forest) : option (text * nat * forest) :=
  match f with
  | FNil => None
  | FCons n i k FNil => Some (n, i, k)
  | FCons _ _ _ r => last_sibling r
  end.

(* a new last sibling *)
Fixpoint add_sibling (f : forest) (nm : text) (id : nat) : forest :=
  match f with
  | FNil => FCons nm id FNil FNil
  | FCons n i k r => FCons n i k (add_sibling r nm id)
  end.

(* the same siblings, the most recent one with new children *)
Fixpoint with_last_kids (f : forest) (kids' : forest) : forest :=
  match f with
  | FNil => FNil
  | FCons n i k FNil => FCons n i kids' FNil
  | FCons n i k r => FCons n i k (with_last_kids r kids')
  end.

(* insertion of a declaration with k dots; None = rejected (skipped level or duplicate) *)
Fixpoint scope_insert (k : nat) (f : forest) (nm : text) (id : nat) : option forest :=
  match k with
  | O => match find_child nm f with
         | Some _ => None                                   (* the name is taken in this scope *)
         | None => Some (add_sibling f nm id)
         end
  | S k' =>
      match last_sibling f with
      | None => None                                        (* no declaration one level up *)
      | Some (_, _, kids) =>
          match scope_insert k' kids nm id with
          | Some kids' => Some (with_last_kids f kids')
          | None => None
          end
      end
  end.

(* the two ways a declaration is rejected, separately: the sibling list a declaration with k dots lands in *)
Fixpoint scope_at (k : nat) (f : forest) : option forest :=
  match k with
  | O => Some f
  | S k' => match last_sibling f with Some (_, _, kids) => scope_at k' kids | None => None end
  end.
Definition skips_level (f : forest) (k : nat) : bool :=
  match scope_at k f with Some _ => false | None => true end.
Definition duplicate_in_scope (f : forest) (k : nat) (nm : text) : bool :=
  match scope_at k f with
  | Some s => match find_child nm s with Some _ => true | None => false end
  | None => false
  end.

(* identities of the enclosing declarations, outermost first *)
Fixpoint enclosing (f : forest) : list nat :=
  match f with
  | FNil => []
  | FCons _ i k FNil => i :: enclosing k
  | FCons _ _ _ r => enclosing r
  end.

(* a program as far as scoping goes: Some (dots, name) = a declaration, None = any other node *)
Definition prog := list (option (nat * text)).

(* walk the program: the scopes enclosing every node (a declaration node: including itself; identities
   0, 1, 2, ... in program order) and the final forest; None = some declaration is rejected *)
Fixpoint scopes_from (f : forest) (next : nat) (p : prog) : option (list (list nat) * forest) :=
  match p with
  | [] => Some ([], f)
  | None :: r =>
      match scopes_from f next r with
      | Some (l, ff) => Some (enclosing f :: l, ff)
      | None => None
      end
  | Some (k, nm) :: r =>
      match scope_insert k f nm next with
      | Some f' =>
          match scopes_from f' (S next) r with
          | Some (l, ff) => Some (enclosing f' :: l, ff)
          | None => None
          end
      | None => None
      end
  end.
Definition scopes (p : prog) : option (list (list nat) * forest) := scopes_from FNil 0 p.
Definition build (p : prog) : option forest :=
  match scopes p with Some (_, f) => Some f | None => None end.
Definition enclosing_at (p : prog) (i : nat) : option (list nat) :=
  match scopes p with Some (l, _) => nth_error l i | None => None end.

(* all identities, and the full dotted path of an identity *)
Fixpoint ids (f : forest) : list nat :=
  match f with FNil => [] | FCons _ i k r => i :: ids k ++ ids r end.

Fixpoint path_of (id : nat) (f : forest) : option (list text) :=
  match f with
  | FNil => None
  | FCons n i k r =>
      if Nat.eqb i id then Some [n]
      else match path_of id k with
           | Some p => Some (n :: p)
           | None => path_of id r
           end
  end.
