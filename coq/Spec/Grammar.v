(* The documented operator table of customasm expressions (transcribed from the project's wiki
   "Expressions" page / the test-suite's precedence tests), outermost (loosest) level first. *)
From Coq Require Import List String.
Import ListNotations.
Open Scope string_scope.
(* (parse function, combinator, [(token, operator)], next tighter level) *)
Definition documented_levels : list (string * string * list (string * string) * string) := [
  ("parse_assignment", "parse_right_associative_binary_ops", [("Equal", "Assign")], "parse_concat");
  ("parse_concat", "parse_binary_ops", [("At", "Concat")], "parse_lazy_or");
  ("parse_lazy_or", "parse_binary_ops", [("DoubleVerticalBar", "LazyOr")], "parse_lazy_and");
  ("parse_lazy_and", "parse_binary_ops", [("DoubleAmpersand", "LazyAnd")], "parse_relational");
  ("parse_relational", "parse_binary_ops",
     [("DoubleEqual", "Eq"); ("ExclamationEqual", "Ne"); ("LessThan", "Lt"); ("LessThanEqual", "Le");
      ("GreaterThan", "Gt"); ("GreaterThanEqual", "Ge")], "parse_binary_or");
  ("parse_binary_or", "parse_binary_ops", [("VerticalBar", "Or")], "parse_binary_xor");
  ("parse_binary_xor", "parse_binary_ops", [("Circumflex", "Xor")], "parse_binary_and");
  ("parse_binary_and", "parse_binary_ops", [("Ampersand", "And")], "parse_shifts");
  ("parse_shifts", "parse_binary_ops", [("DoubleLessThan", "Shl"); ("DoubleGreaterThan", "Shr")], "parse_addition");
  ("parse_addition", "parse_binary_ops", [("Plus", "Add"); ("Minus", "Sub")], "parse_multiplication");
  ("parse_multiplication", "parse_binary_ops", [("Asterisk", "Mul"); ("Slash", "Div"); ("Percent", "Mod")], "parse_slice");
  ("parse_unary", "parse_unary_ops", [("Exclamation", "Not"); ("Minus", "Neg")], "parse_call")
].
