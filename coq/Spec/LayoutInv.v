(* The layout invariant of property C06, as an executable checker over
   (bank definitions, recorded items, output bits).  It is evaluated on the model's result (theorem
   C06_layout) and, extracted, on the IMPLEMENTATION's own output (defs.bankdefs, output.spans, bits).

   "no two emitted items occupy the same output bit, every item lies wholly inside the output window
    and address range of the bank it was written in, an item starting at address a of a bank sits at
    output position outp + (a - addr) x unit-bits plus its bit offset within that address, and every
    bit not written by an item is zero, with the output extending exactly to the last written bit or
    to the end of the last filled bank."                                                            *)
From Coq Require Import ZArith NArith List Bool.
From CA Require Import Model.Overlap Model.Cursor Model.Output Spec.OverlapSpec.
Import ListNotations.
Open Scope N_scope.

(* an item with bits (size > 0) placed at offset o of bank b:
   inside the window [outp, outp + size_b), and o = outp + (a - addr_start) * unit + r with 0 <= r < unit *)
Definition placed_ok (b : bank) (o size : N) (a : Z) : bool :=
  match bk_outp b with
  | None => false                                               (* nothing may be written to a bank without outp *)
  | Some outp =>
      (outp <=? o) &&
      (match bk_size b with None => true | Some sz => o + size <=? outp + sz end) &&
      (let q := (a - bk_addr b)%Z in
       let d := Z.of_N (o - outp) in
       let u := Z.of_N (bk_unit b) in
       (0 <? u)%Z && (0 <=? q)%Z && (q * u <=? d)%Z && (d <? q * u + u)%Z)
  end.

(* a zero-sized record (a label, an empty datum): only its window is constrained *)
Definition mark_ok (b : bank) (o : N) : bool :=
  match bk_outp b with
  | None => false
  | Some outp => (outp <=? o) && (match bk_size b with None => true | Some sz => o <=? outp + sz end)
  end.

Definition item_ok (banks : list bank) (it : item) : bool :=
  match nth_error banks (it_bank it) with
  | None => false
  | Some b =>
      (* the default bank is only usable while it is the only bank *)
      (negb (Nat.eqb (it_bank it) 0) || Nat.eqb (length banks) 1) &&
      match it_off it with
      | None => it_size it =? 0
      | Some o => if it_size it =? 0 then mark_ok b o else placed_ok b o (it_size it) (it_addr it)
      end
  end.

(* output ranges of the items *)
Definition ranges (items : list item) : list entry :=
  flat_map (fun it => match it_off it with Some o => [(o, it_size it)] | None => [] end) items.

(* bit k belongs to some item *)
Definition covered (items : list item) (k : N) : bool :=
  existsb (fun e => (0 <? snd e) && (fst e <=? k) && (k <? fst e + snd e)) (ranges items).

Definition unwritten_zero (items : list item) (out : list bool) : bool :=
  forallb (fun k => negb (nth k out false) || covered items (N.of_nat k)) (seq 0 (length out)).

(* end of the last filled bank / of the last item with bits *)
Definition fill_end (banks : list bank) : N :=
  fold_left (fun m b =>
    if bk_fill b then
      match bk_size b, bk_outp b with
      | Some s, Some o => if s =? 0 then m else N.max m (o + s)
      | _, _ => m
      end
    else m) banks 0.
Definition items_end (items : list item) : N :=
  fold_right (fun e m => if 0 <? snd e then N.max (fst e + snd e) m else m) 0 (ranges items).
Definition length_exact (banks : list bank) (items : list item) (out : list bool) : bool :=
  N.of_nat (length out) =? N.max (fill_end banks) (items_end items).

Definition layout_ok (banks : list bank) (items : list item) (out : list bool) : bool :=
  forallb (item_ok banks) items &&
  pairwise_disjointb (ranges items) &&
  unwritten_zero items out &&
  length_exact banks items out.

(* the written bits are the encodings, most significant bit first (only for items whose encoding is known) *)
Definition content_ok (items : list item) (out : list bool) : bool :=
  forallb (fun it =>
    match it_off it, it_enc it with
    | Some o, Some enc =>
        (it_size it =? N.of_nat (length enc)) &&
        forallb (fun j => Bool.eqb (nth (N.to_nat o + j) out false) (nth j enc false)) (seq 0 (length enc))
    | _, _ => true
    end) items.

(* ------------------------------------------------------------------ bank windows *)
(* output bit k lies in the window of b *)
Definition in_window (b : bank) (k : N) : Prop :=
  match bk_outp b with
  | None => False
  | Some o => o <= k /\ match bk_size b with None => True | Some s => k < o + s end
  end.
Definition windows_disjoint (b1 b2 : bank) : Prop := forall k, ~ (in_window b1 k /\ in_window b2 k).

Definition windows_disjointb (b1 b2 : bank) : bool :=
  match bk_outp b1, bk_outp b2 with
  | Some o1, Some o2 =>
      match bk_size b1, bk_size b2 with
      | None, None => false
      | Some s1, None => (o1 + s1 <=? o2) || (s1 =? 0)
      | None, Some s2 => (o2 + s2 <=? o1) || (s2 =? 0)
      | Some s1, Some s2 => (o1 + s1 <=? o2) || (o2 + s2 <=? o1) || (s1 =? 0) || (s2 =? 0)
      end
  | _, _ => true
  end.
Fixpoint all_windows_disjointb (l : list bank) : bool :=
  match l with
  | [] => true
  | b :: r => forallb (windows_disjointb b) r && all_windows_disjointb r
  end.
(* the windows of the user-defined banks (index >= 1) share no output bit *)
Definition windows_ok (banks : list bank) : bool := all_windows_disjointb (tl banks).
