(* C16 specification: the direct interpreter of `#if` trees.
   `select ρ tree` flattens the tree choosing, for every `#if`, the first arm whose condition is TRUE UNDER THE ONE
   FINAL VALUATION ρ (an `#elif` is an else-arm holding a single `#if`), the else-arm if there is one and no
   condition is true, and nothing otherwise; recursively.  Nothing of an unselected arm occurs in the result.
   `decided ρ tree` says that every condition met on the way was a definite boolean (otherwise the program has no
   world and must be rejected).  `world_names` declares the selected world from scratch (lexical nesting: a symbol at
   level k is the child of the most recent symbol at level k-1), which is what an `#if`-free program means. *)
From Coq Require Import ZArith NArith List Bool.
From CA Require Import Model.Driver Model.Cond.
Import ListNotations.
Open Scope list_scope.
Open Scope nat_scope.

Section Sel.
Variable lk : nat -> path -> cval.

Fixpoint select (n : node) : list node :=
  match n with
  | NIf c t f =>
    match eval lk c with
    | ROk (VBool true) => flat_map select t
    | ROk (VBool false) => match f with Some l => flat_map select l | None => [] end
    | _ => []
    end
  | _ => [n]
  end.

Definition select_all (l : list node) : list node := flat_map select l.

Fixpoint decided (n : node) : bool :=
  match n with
  | NIf c t f =>
    match eval lk c with
    | ROk (VBool true) => forallb decided t
    | ROk (VBool false) => match f with Some l => forallb decided l | None => true end
    | _ => false
    end
  | _ => true
  end.

Definition decided_all (l : list node) : bool := forallb decided l.
End Sel.

(* the names an `#if`-free list declares, in order; None = duplicate or skipped nesting level, or an `#if` is left *)
Fixpoint world_names (ctx : path) (seen : list path) (l : list node) : option (list (path * skind)) :=
  match l with
  | [] => Some []
  | NSym lvl nm s :: r =>
    if Nat.ltb (length ctx) lvl then None
    else
      let p := firstn lvl ctx ++ [nm] in
      if existsb (path_eqb p) seen then None
      else match world_names p (p :: seen) r with Some ns => Some ((p, kind_of s) :: ns) | None => None end
  | NIf _ _ _ :: _ => None
  | NOther _ :: r => world_names ctx seen r
  end.

(* the marker ids a list emits, in order *)
Fixpoint markers (l : list node) : list N :=
  match l with
  | [] => []
  | NOther i :: r => i :: markers r
  | _ :: r => markers r
  end.
