(* Executable certificate check for Resolver2 on whatever result the implementation claims (C02, larger fragment):
   from the final symbol values, the bank definitions and the emitted bits a resolver state is reconstructed
   (encodings READ from the emitted bits at the output positions the per-bank cursor walk prescribes, with the
   sizes the rules prescribe under those symbol values), and then the very predicate of theorem
   `certificate2` is evaluated: a last-mode pass from that state changes nothing and reports everything
   resolved, the claimed bank definitions are the ones the program's #bankdef fields evaluate to under the
   claimed symbol values, and the state's output (through Model/Output.v) is the emitted bit string. *)
From Coq Require Import NArith ZArith List Bool.
From CA Require Import Model.Lexer Model.Parser Model.Literal Model.BigIntOps Model.Evaluator Model.Matcher Model.Resolver
  Model.Resolver2.
From CA Require Model.Paths Model.Overlap Model.Cursor Model.LastPass Model.Output Model.Symbols.
Import ListNotations.
Open Scope Z_scope.

Definition bits_to_Z (l : list bool) : Z := fold_left (fun acc (b : bool) => 2 * acc + (if b then 1 else 0)) l 0.

(* bits pos .. pos+size-1 of the claimed output *)
Definition read_bits2 (out : list bool) (pos : option N) (size : N) : bigint :=
  match pos with
  | None => mk (-1) (Some size)                                         (* a bank without outp: nothing was written *)
  | Some p =>
    if (size =? 0)%N then mk 0 (Some 0%N)                               (* an empty value occupies no bit: readable anywhere *)
    else if (N.of_nat (length out) <? p + size)%N then mk (-1) (Some size)   (* beyond the output: can never be identical *)
    else mk (bits_to_Z (firstn (N.to_nat size) (skipn (N.to_nat p) out))) (Some size)
  end.

Definition eval_int_under (pv : N -> list text -> eres value) (e : expr) : Z :=
  match eval code_ops pv e [] with EOk (VInt b, _) => bv b | _ => 0 end.

(* walk the nodes with the claimed symbol values and banks, reading encodings from the claimed output *)
Fixpoint reconstruct2 (m : Symbols.mgr) (banks : list Cursor.bank) (defs : list ruledef) (mb : Z)
    (ns : list cnode) (st : state) (out : list bool) (c : Cursor.cursor) (prev : option Cursor.node) : state :=
  match ns with
  | [] => st
  | (n, ctx) :: r =>
    match Cursor.advance mb banks c prev with
    | Ok c1 =>
      match Cursor.enter mb banks c1 (shape n) with
      | Ok c2 =>
        match Cursor.cur_bank banks c2 with
        | Ok (b, pos) =>
          let pv := pvar2 m st ctx (Cursor.eval_address mb b pos false) false in
          let opos := match Cursor.bk_outp b with Some o => Some (o + pos)%N | None => None end in
          let st' :=
            match n with
            | XLabel _ _ | XConst _ _ _ | XBank _ | XAssert _ => st
            | XInstr i _ =>
              match nth_error (s_instr st) i with
              | None => st
              | Some d =>
                let sz := match resolve_encoding defs pv false (i_matches d) with EOk (Some e) => size_of e | _ => size_of (i_enc d) end in
                let d' := {| i_matches := i_matches d; i_enc := read_bits2 out opos (Z.to_N sz) |} in
                {| s_sym := s_sym st; s_instr := set_nth (s_instr st) i d'; s_data := s_data st; s_res := s_res st; s_align := s_align st; s_addr := s_addr st |}
              end
            | XData width d e =>
              let sz := match width with
                        | Some w => Z.of_N w
                        | None => match eval code_ops pv e [] with
                                  | EOk (v, _) => match expect_error_or_bigint v with EOk (VInt x) => size_or_min x | _ => 0 end
                                  | EErr => 0 end
                        end in
              {| s_sym := s_sym st; s_instr := s_instr st; s_data := set_nth (s_data st) d (read_bits2 out opos (Z.to_N sz));
                 s_res := s_res st; s_align := s_align st; s_addr := s_addr st |}
            | XRes k e =>
              let z := eval_int_under pv e * Z.of_N (Cursor.bk_unit b) in
              {| s_sym := s_sym st; s_instr := s_instr st; s_data := s_data st; s_res := set_nth (s_res st) k z; s_align := s_align st; s_addr := s_addr st |}
            | XAlign k e =>
              {| s_sym := s_sym st; s_instr := s_instr st; s_data := s_data st; s_res := s_res st; s_align := set_nth (s_align st) k (eval_int_under pv e); s_addr := s_addr st |}
            | XAddr k e =>
              {| s_sym := s_sym st; s_instr := s_instr st; s_data := s_data st; s_res := s_res st; s_align := s_align st; s_addr := set_nth (s_addr st) k (eval_int_under pv e) |}
            end in
          reconstruct2 m banks defs mb r st' out c2 (Some (view st' n))
        | _ => st
        end
      | _ => st
      end
    | _ => st
    end
  end.

Fixpoint lookup_claim (claimed : list (text * value)) (n : text) : value :=
  match claimed with
  | [] => VUnknown
  | (k, v) :: r => if text_eqb k n then v else lookup_claim r n
  end.

Definition optN_eq (a b : option N) : bool :=
  match a, b with Some x, Some y => (x =? y)%N | None, None => true | _, _ => false end.
Definition bank_eqb (a b : Cursor.bank) : bool :=
  (Cursor.bk_addr a =? Cursor.bk_addr b) && (Cursor.bk_unit a =? Cursor.bk_unit b)%N &&
  optN_eq (Cursor.bk_labelalign a) (Cursor.bk_labelalign b) && optN_eq (Cursor.bk_size a) (Cursor.bk_size b) &&
  optN_eq (Cursor.bk_outp a) (Cursor.bk_outp b) && Bool.eqb (Cursor.bk_fill a) (Cursor.bk_fill b).
Fixpoint banks_eqb (a b : list Cursor.bank) : bool :=
  match a, b with
  | [], [] => true
  | x :: a', y :: b' => bank_eqb x y && banks_eqb a' b'
  | _, _ => false
  end.
Fixpoint bools_eqb (a b : list bool) : bool :=
  match a, b with
  | [], [] => true
  | x :: a', y :: b' => Bool.eqb x y && bools_eqb a' b'
  | _, _ => false
  end.

(* every label's claimed value is an integer without a size (what the label resolver stores) *)
Definition labels_unsized (ns : list cnode) (syms : list value) : bool :=
  forallb (fun n => match fst n with
                    | XLabel s _ => match nth s syms VUnknown with
                                    | VInt b => match bsz b with None => true | Some _ => false end
                                    | _ => false end
                    | _ => true end) ns.

(* claimed: symbol values by full dotted name (absent = not an integer/bool/string: unknown), the bank
   definitions (index 0 = default bank) and the output bits *)
Definition cert_check2 (indexed : bool) (defs : list ruledef) (ps : list pnode)
    (claimed : list (text * value)) (banks : list Cursor.bank) (out : list bool) : bool :=
  match prepare ps with
  | None => false
  | Some (m, ns) =>
    match init_state2 indexed defs (length (Symbols.m_decls m)) ns with
    | None => false
    | Some st0 =>
      let syms := map (fun d => lookup_claim claimed (Symbols.sd_name d)) (Symbols.m_decls m) in
      let st1 := {| s_sym := syms; s_instr := s_instr st0; s_data := s_data st0; s_res := s_res st0; s_align := s_align st0; s_addr := s_addr st0 |} in
      match define_banks m st1 (bank_fields ps) with
      | EErr => false
      | EOk bs =>
        if negb (banks_eqb (Cursor.default_bank :: bs) banks) then false else
        if negb (labels_unsized ns syms) then false else
        let st := reconstruct2 m banks defs max_bits ns st1 out (Cursor.init_cursor banks) None in
        match run_pass m banks defs max_bits true ns st with
        | Ok (_, Resolved) =>
          match out_nodes st ns with
          | Ok vs =>
            match Output.output_stage (Z.to_N max_bits) banks vs with
            | Ok (bits, _) => bools_eqb bits out
            | _ => false
            end
          | _ => false
          end
        | _ => false
        end
      end
    end
  end.
