(* C01: the non-iterative meaning of a size-static program.
   1. every item's size is taken from static information only (all candidate productions of an instruction have the
      same static size; data widths; sized data expressions; literal #res/#align/#addr arguments);
   2. one walk with these sizes gives every position, hence every label;
   3. constants are evaluated by sweeps in which a constant becomes known once everything it reads is known
      (no guessing: unknown stays unknown);
   4. every instruction and data element is computed once under the final valuation at its position;
   5. the result must be self-consistent (checked with the last-mode pass), and is written out.
   `DUnsupported` = the program is outside the size-static fragment (not a rejection). *)
From Coq Require Import NArith ZArith List Bool.
From CA Require Import Model.Lexer Model.Parser Model.Literal Model.BigIntOps Model.Evaluator Model.Matcher Model.Resolver.
Import ListNotations.
Open Scope Z_scope.

Inductive dres := DOk (out : Z * Z) (syms : list value) | DReject | DUnsupported.

Definition all_same_static (defs : list ruledef) (ms : list imatch) : bool :=
  match ms with
  | [] => false
  | m :: r => match match_static_size defs m with
              | None => false
              | Some s => forallb (fun m' => match match_static_size defs m' with Some s' => s' =? s | None => false end) r
              end
  end.

Definition literal_only (e : expr) : bool :=
  match eval code_ops dummy_var e [] with EOk (VInt _, _) => true | _ => false end.

Definition size_static (defs : list ruledef) (ns : list node) (st : state) : bool :=
  forallb (fun n => match n with
                    | NInstr i _ => match nth_error (s_instr st) i with Some d => all_same_static defs (i_matches d) | None => false end
                    | NData None elems => forallb (fun de => match static_size [] (snd de) with Some _ => true | None => false end) elems
                    | NRes _ e | NAlign _ e | NAddr _ e => literal_only e
                    | _ => true
                    end) ns.

(* positions from the static sizes recorded in the initial state; sets the labels *)
Fixpoint layout (ns : list node) (st : state) (pos : Z) : option state :=
  match ns with
  | [] => Some st
  | n :: r =>
    match n with
    | NLabel s =>
      if negb (pos mod 8 =? 0) then None
      else layout r {| s_sym := set_nth (s_sym st) s (VInt (un (pos / 8))); s_instr := s_instr st; s_data := s_data st;
                       s_res := s_res st; s_align := s_align st; s_addr := s_addr st |} pos
    | NConst _ _ => layout r st pos
    | NInstr i _ => layout r st (pos + match nth_error (s_instr st) i with Some d => size_of (i_enc d) | None => 0 end)
    | NData _ elems => layout r st (fold_left (fun p de => p + size_of (nth (fst de) (s_data st) (mk 0 (Some 0%N)))) elems pos)
    | NRes k e =>
      let z := match eval code_ops dummy_var e [] with EOk (VInt b, _) => bv b * 8 | _ => 0 end in
      layout r {| s_sym := s_sym st; s_instr := s_instr st; s_data := s_data st; s_res := set_nth (s_res st) k z; s_align := s_align st; s_addr := s_addr st |} (pos + z)
    | NAlign k e =>
      let z := match eval code_ops dummy_var e [] with EOk (VInt b, _) => bv b | _ => 0 end in
      layout r {| s_sym := s_sym st; s_instr := s_instr st; s_data := s_data st; s_res := s_res st; s_align := set_nth (s_align st) k z; s_addr := s_addr st |} (pos + bits_until_alignment pos z)
    | NAddr k e =>
      let z := match eval code_ops dummy_var e [] with EOk (VInt b, _) => bv b | _ => 0 end in
      layout r {| s_sym := s_sym st; s_instr := s_instr st; s_data := s_data st; s_res := s_res st; s_align := s_align st; s_addr := set_nth (s_addr st) k z |} (if z >=? 0 then z * 8 else 0)
    end
  end.

(* one sweep over the constants at their positions; unknown inputs give unknown (no error, no guess is kept) *)
Fixpoint const_sweep (names : list text) (ns : list node) (st : state) (pos : Z) : option state :=
  match ns with
  | [] => Some st
  | n :: r =>
    match n with
    | NConst s e =>
      match eval code_ops (pvar names st pos true) e [] with
      | EErr => None
      | EOk (v, _) => const_sweep names r {| s_sym := set_nth (s_sym st) s v; s_instr := s_instr st; s_data := s_data st;
                                            s_res := s_res st; s_align := s_align st; s_addr := s_addr st |} pos
      end
    | NLabel _ => const_sweep names r st pos
    | NInstr i _ => const_sweep names r st (pos + match nth_error (s_instr st) i with Some d => size_of (i_enc d) | None => 0 end)
    | NData _ elems => const_sweep names r st (fold_left (fun p de => p + size_of (nth (fst de) (s_data st) (mk 0 (Some 0%N)))) elems pos)
    | NRes k _ => const_sweep names r st (pos + nth k (s_res st) 0)
    | NAlign k _ => const_sweep names r st (pos + bits_until_alignment pos (nth k (s_align st) 0))
    | NAddr k _ => const_sweep names r st (let z := nth k (s_addr st) 0 in if z >=? 0 then z * 8 else 0)
    end
  end.

Fixpoint const_sweeps (fuel : nat) (names : list text) (ns : list node) (st : state) : option state :=
  match fuel with
  | O => Some st
  | S f => match const_sweep names ns st 0 with Some st' => const_sweeps f names ns st' | None => None end
  end.

Definition denote (indexed : bool) (defs : list ruledef) (names : list text) (ns : list node) : dres :=
  match init_state indexed defs (length names) ns with
  | None => DReject                                   (* an instruction that no rule matches *)
  | Some st0 =>
    if negb (size_static defs ns st0) then DUnsupported else
    match layout ns st0 0 with
    | None => DReject                                 (* a label that does not lie on an address boundary *)
    | Some st1 =>
      match const_sweeps (S (length ns)) names ns st1 with
      | None => DReject
      | Some st2 =>
        (* compute every encoding once under the final valuation ... *)
        match pass names defs false ns st2 0 Resolved with
        | EErr => DReject
        | EOk (st3, _) =>
          (* ... and demand self-consistency in the strict mode (no unknowns, unique smallest encodings, range checks) *)
          match pass names defs true ns st3 0 Resolved with
          | EOk (st4, Resolved) => DOk (build_output ns st4) (s_sym st4)
          | _ => DReject
          end
        end
      end
    end
  end.
