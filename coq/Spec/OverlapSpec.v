(* What the overlap checker is FOR (property C06, first sentence), and the contract of the
   library binary search it relies on.  Short, declarative. *)
From Coq Require Import NArith List Bool.
From CA Require Import Model.Overlap.
Import ListNotations.
Open Scope N_scope.

(* two requests (position, size) share no bit *)
Definition disjoint (a b : entry) : Prop := fst a + snd a <= fst b \/ fst b + snd b <= fst a.
Definition disjointb (a b : entry) : bool := (fst a + snd a <=? fst b) || (fst b + snd b <=? fst a).

(* the set of bits of a request, to say what "share no bit" means *)
Definition covers (a : entry) (k : N) : Prop := fst a <= k < fst a + snd a.

(* slice sorted by key (what binary_search_by requires) *)
Definition sorted_keys (es : list entry) : Prop :=
  forall i j a b, (i < j)%nat -> nth_error es i = Some a -> nth_error es j = Some b -> fst a <= fst b.

(* contract of slice::binary_search_by(|e| e.position.cmp(&p)) on a sorted slice:
   Ok(i): SOME index holding an equal key (unspecified which);  Err(i): the insertion point *)
Definition search_result_ok (es : list entry) (p : N) (r : sres) : Prop :=
  match r with
  | Found i => exists e, nth_error es i = Some e /\ fst e = p
  | Missing i => (i <= length es)%nat /\
                 (forall j e, (j < i)%nat -> nth_error es j = Some e -> fst e < p) /\
                 (forall j e, (i <= j)%nat -> nth_error es j = Some e -> p < fst e)
  end.
Definition search_ok (search : list entry -> N -> sres) : Prop :=
  forall es p, sorted_keys es -> search_result_ok es p (search es p).

(* executable form of "all positive-size requests of a list are pairwise disjoint" *)
Fixpoint all_disjoint_from (a : entry) (l : list entry) : bool :=
  match l with
  | [] => true
  | b :: r => ((snd b =? 0) || disjointb a b) && all_disjoint_from a r
  end.
Fixpoint pairwise_disjointb (l : list entry) : bool :=
  match l with
  | [] => true
  | a :: r => ((snd a =? 0) || all_disjoint_from a r) && pairwise_disjointb r
  end.
