(* Declarative reading of "the expression nesting depth is cumulative across asm blocks" on the AST of Model/AsmAst.v.

   epath k e x : inside expression e there is a position x (an asm block `Some (span, body)`, or just some
                 sub-expression `None`) below k constructs that src/expr/parser.rs enters with recursion_depth + 1:
                 a unary operator, a ternary branch, a slice bound, a block element, a call argument.  Parentheses
                 and the right-hand side of an assignment also cost one level in the code but are not counted here,
                 so k is a LOWER bound of the depth the code counted on the way to x.
   xdepth_ge k nodes : along some path of the AST (through #if arms and through asm blocks inside expressions) the code's
                 expression depth counter reaches at least k: every expression on the path costs 1 (parse_expr is
                 entered) plus the k of the epath that leads to the next asm block (or to the end of the path). *)
From Coq Require Import NArith List.
Import ListNotations.
From CA Require Import Model.Lexer Model.Parser Model.AsmAst.

Inductive epath {A : Type} : nat -> gexpr A -> option (span * A) -> Prop :=
| ep_here e : epath 0 e None
| ep_asm sp a : epath 0 (GAsm sp a) (Some (sp, a))
| ep_un k o e x : epath k e x -> epath (S k) (GUn o e) x
| ep_bin_l k o a b x : epath k a x -> epath k (GBin o a b) x
| ep_bin_r k o a b x : epath k b x -> epath k (GBin o a b) x
| ep_tern_c k c t f x : epath k c x -> epath k (GTern c t f) x
| ep_tern_t k c t f x : epath k t x -> epath (S k) (GTern c t f) x
| ep_tern_f k c t f x : epath k f x -> epath (S k) (GTern c t f) x
| ep_slice_l k l r e x : epath k l x -> epath (S k) (GSlice l r e) x
| ep_slice_r k l r e x : epath k r x -> epath (S k) (GSlice l r e) x
| ep_slice_e k l r e x : epath k e x -> epath k (GSlice l r e) x
| ep_short_s k s e x : epath k s x -> epath k (GShort s e) x
| ep_short_e k s e x : epath k e x -> epath k (GShort s e) x
| ep_block k es e x : In e es -> epath k e x -> epath (S k) (GBlock es) x
| ep_call_f k f args x : epath k f x -> epath k (GCall f args) x
| ep_call_a k f args e x : In e args -> epath k e x -> epath (S k) (GCall f args) x.

Inductive xdepth_ge : nat -> list anode -> Prop :=
| xd_zero l : xdepth_ge 0 l
| xd_leaf j n e l : In n l -> In e (exprs_of n) -> epath j e None -> xdepth_ge (S j) l
| xd_asm j k n e asp body l : In n l -> In e (exprs_of n) -> epath j e (Some (asp, body)) -> xdepth_ge k body -> xdepth_ge (S j + k) l
| xd_true k sp c tr fl l : In (NIf sp c tr fl) l -> xdepth_ge k tr -> xdepth_ge k l
| xd_false k sp c tr fa l : In (NIf sp c tr (Some fa)) l -> xdepth_ge k fa -> xdepth_ge k l.
