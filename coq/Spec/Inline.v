(* C17: the declarative meaning of an asm block = its lines written in place.
   Given a valuation L of the block's labels, `inline_nodes` walks the nodes ONCE from position pos:
     - a label must be bound by L to exactly the address at which it lies (the address of the current position);
     - an instruction is the substituted line resolved at its in-place position pos + (sizes of the lines before it)
       under L, and must have an encoding;
     - the value is the concatenation of the encodings in order.
   There is no iteration, no stability flag and no label update in this definition: L is a parameter, and the result
   exists only if L is consistent with the layout it induces.  `inline_block ... = Some (V, fin)` reads: "V is what
   writing the block's instructions in place at pos produces, with the labels local to the block bound as in L, and
   the text after the block starts at position fin".
   Also: the textual meaning of `{name}` substitution as a concatenation of pieces. *)
From Coq Require Import NArith ZArith List Bool.
From CA Require Import Model.Lexer Model.Parser Model.BigIntOps Model.Evaluator Model.Resolver Model.AsmBlock.
Import ListNotations.
Open Scope Z_scope.

Section Inline.
Variable match_resolve : text -> Z -> labels -> bool -> eres (option bigint).
Variable address_of : Z -> bool -> eres Z.
Variable substitute : text -> eres text.

Fixpoint inline_nodes (ns : list anode) (L : labels) (can_guess : bool) (pos : Z) (acc : bigint) : option (bigint * Z) :=
  match ns with
  | [] => Some (acc, pos)
  | ALabel name :: r =>
    match address_of pos true, lookup L name with
    | EOk a, Some v => if value_eqv v (VInt (un a)) then inline_nodes r L can_guess pos acc else None
    | _, _ => None
    end
  | AInstr src :: r =>
    match substitute src with
    | EOk line =>
      match match_resolve line pos L can_guess with
      | EOk (Some enc) =>
        match bsz enc, bsz acc with
        | Some size, Some asize => inline_nodes r L can_guess (pos + Z.of_N size) (concat acc asize enc size)
        | _, _ => None
        end
      | _ => None
      end
    | EErr => None
    end
  end.

Definition inline_block (ns : list anode) (L : labels) (can_guess : bool) (pos : Z) : option (bigint * Z) :=
  inline_nodes ns L can_guess pos zero_bits.

End Inline.

(* ---- textual substitution: the result is the concatenation of the untouched pieces and the replacement texts ---- *)
(* well-formed substitution list from byte offset `from`: in order, not overlapping *)
Fixpoint substs_wf (from : N) (ss : list asubst) : Prop :=
  match ss with
  | [] => True
  | s :: r => (from <= s_start s)%N /\ (s_start s <= s_end s)%N /\ substs_wf (s_end s) r
  end.

(* text [from, end) with every `{name}` occurrence listed in ss replaced, left to right *)
Fixpoint pieces (get : text -> option text) (t : text) (from : N) (ss : list asubst) : option text :=
  match ss with
  | [] => Some (tail_from t from)
  | s :: r =>
    match get (s_name s), pieces get t (s_end s) r with
    | Some txt, Some rest => Some (slice_bytes t from (s_start s) ++ txt ++ rest)
    | _, _ => None
    end
  end.
