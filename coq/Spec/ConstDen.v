(* Denotation of address-free, acyclic constants (C15): a constant whose expression uses literals, + - *
   and global references to other such constants has the mathematical value of that expression.  The
   derivation is finite, so a constant on a cycle, or one that depends on a label, an undeclared name, a
   name with leading dots (the pre-pass only sees the global scope) or a reserved word, has NO denotation.
   `look` is the global lookup of a dotted path (Spec/Scope.v: scope_resolve final [] 0);
   `cs` lists (declaration identity, expression) of the constants.  Independent of any order. *)
From Coq Require Import ZArith List.
From CA Require Import Model.Paths Model.ConstPass.
Import ListNotations.

Section Den.
Variable plain : list text -> Prop.              (* the path does not start with a reserved word *)
Variable look : list text -> option nat.
Variable cs : list (nat * cexpr).

Inductive den : nat -> Z -> Prop :=
| den_const : forall r e z, In (r, e) cs -> den_e e z -> den r z
with den_e : cexpr -> Z -> Prop :=
| de_lit : forall z, den_e (CLit z) z
| de_ref : forall p r z, plain p -> look p = Some r -> den r z -> den_e (CRef 0 p) z
| de_add : forall a b x y, den_e a x -> den_e b y -> den_e (CAdd a b) (x + y)%Z
| de_sub : forall a b x y, den_e a x -> den_e b y -> den_e (CSub a b) (x - y)%Z
| de_mul : forall a b x y, den_e a x -> den_e b y -> den_e (CMul a b) (x * y)%Z.
End Den.

Scheme den_mut := Minimality for den Sort Prop
  with den_e_mut := Minimality for den_e Sort Prop.
