(* Mathematical meaning of the big-integer operations: plain arithmetic over Z. *)
From Coq Require Import ZArith NArith List Bool.
From CA Require Import Model.BigIntOps.
Import ListNotations.
Open Scope Z_scope.

(* bits right .. left-1 of the infinite two's-complement representation *)
Definition sem_slice_bits (x : Z) (left right : N) : Z :=
  (x / 2 ^ Z.of_N right) mod 2 ^ Z.of_N (left - right).
(* the closed form of BigInt::slice, including its early return *)
Definition sem_slice (x : bigint) (left right : N) : bigint :=
  match bsz x with
  | Some size => if (0 <=? bv x) && (left =? size)%N && (right =? 0)%N then x
                 else mk (sem_slice_bits (bv x) left right) (Some (left - right)%N)
  | None => mk (sem_slice_bits (bv x) left right) (Some (left - right)%N)
  end.
Definition sem_concat_bits (a : Z) (asz : N) (b : Z) (bsz : N) : Z :=
  (a mod 2 ^ Z.of_N asz) * 2 ^ Z.of_N bsz + b mod 2 ^ Z.of_N bsz.
Definition sem_concat (a : bigint) (asz : N) (b : bigint) (bsz : N) : bigint :=
  mk (sem_concat_bits (bv a) asz (bv b) bsz) (Some (asz + bsz)%N).
Definition sem_not (v : Z) : Z := - v - 1.
(* byte reversal of the low `size` bits, size = 8k *)
Fixpoint reverse_bytes (v : Z) (k : nat) : Z :=
  match k with O => 0 | S k' => (v mod 256) * 256 ^ Z.of_nat k' + reverse_bytes (v / 256) k' end.
Definition sem_le (x : bigint) (size : N) : bigint :=
  mk (reverse_bytes (bv (sem_slice x size 0)) (N.to_nat (size / 8))) (Some size).

(* a sized non-negative value fits its size (invariant of every value the evaluator produces) *)
Definition wf (x : bigint) : Prop :=
  match bsz x with Some s => 0 <= bv x -> bv x < 2 ^ Z.of_N s | None => True end.
